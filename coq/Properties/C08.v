(** C08 — Replicas converge regardless of delivery order, duplication and batching.
    Statements only.  [abs_sess], [abs_subs], [abs_ret] give, for a replica, the entry it holds
    under a session id / a (filter, session) pair / a retained topic (tombstones included);
    what a node lists is the "added" part of it.  [merge_event] is MergeRemoteState/NotifyMsg. *)
From Wasp Require Import Model.Base Spec.MatchSpec Model.DState Proofs.BaseFacts Proofs.Lww Proofs.DStateFacts.
From stdpp Require Import list strings.
Open Scope Z_scope.

(** Each store is a last-writer-wins map: merging one update keeps, under the update's key,
    whichever of the stored entry and the update has the strictly greater timestamp. *)
Theorem sessions_merge_is_lww : ∀ l m k, abs_sess (merge_session l m) k = amerge1 m_sid sess_ts (abs_sess l) m k.
Proof. exact merge_session_abs. Qed.
Print Assumptions sessions_merge_is_lww.
Theorem subscriptions_merge_is_lww : ∀ t u, subs_wf t →
  subs_wf (sub_set t u) ∧ ∀ k, abs_subs (sub_set t u) k = amerge1 sub_key sub_ts (abs_subs t) u k.
Proof. exact sub_set_abs. Qed.
Print Assumptions subscriptions_merge_is_lww.
Theorem retained_merge_is_lww : ∀ t r k,
  abs_ret (merge_ret1 t r) k = if ret_eff r then amerge1 ret_key ret_ts (abs_ret t) r k else abs_ret t k.
Proof. exact merge_ret1_abs. Qed.
Print Assumptions retained_merge_is_lww.

(** Two replicas that have received the same SET of updates - in any order, any number of
    times, one at a time or batched ([es1], [es2] are arbitrary lists of messages) - hold the
    same entry under every key, hence list the same sessions, subscriptions and retained
    messages.  [tie_free]: updates of one key that share a timestamp are equal (the statement's
    "the update with the greatest timestamp" presupposes it). *)
Theorem merge_order_irrelevant : ∀ p1 p2 es1 es2,
  Forall ev_valid es1 → Forall ev_valid es2 →
  (∀ u, u ∈ all_sess es1 ↔ u ∈ all_sess es2) → tie_free m_sid sess_ts (all_sess es1) →
  (∀ u, u ∈ all_subs es1 ↔ u ∈ all_subs es2) → tie_free sub_key sub_ts (all_subs es1) →
  (∀ u, u ∈ all_ret es1 ↔ u ∈ all_ret es2) → tie_free ret_key ret_ts (all_ret es1) →
  let d1 := fold_left merge_event es1 (dnew p1) in
  let d2 := fold_left merge_event es2 (dnew p2) in
  (∀ k, abs_sess (d_sess d1) k = abs_sess (d_sess d2) k) ∧
  (∀ k, abs_subs (d_subs d1) k = abs_subs (d_subs d2) k) ∧
  (∀ k, abs_ret (d_ret d1) k = abs_ret (d_ret d2) k).
Proof. exact replicas_converge. Qed.
Print Assumptions merge_order_irrelevant.

(** The entry held under a key is the received update with the greatest timestamp. *)
Theorem lww_value : ∀ p es, Forall ev_valid es →
  tie_free m_sid sess_ts (all_sess es) → tie_free sub_key sub_ts (all_subs es) → tie_free ret_key ret_ts (all_ret es) →
  let d := fold_left merge_event es (dnew p) in
  (∀ k, match abs_sess (d_sess d) k with Some v => winner m_sid sess_ts (all_sess es) k v | None => ∀ v, v ∈ all_sess es → m_sid v ≠ k end) ∧
  (∀ k, match abs_subs (d_subs d) k with Some v => winner sub_key sub_ts (all_subs es) k v | None => ∀ v, v ∈ all_subs es → sub_key v ≠ k end) ∧
  (∀ k, match abs_ret (d_ret d) k with Some v => winner ret_key ret_ts (all_ret es) k v | None => ∀ v, v ∈ all_ret es → ret_key v ≠ k end).
Proof. exact replica_holds_winner. Qed.
Print Assumptions lww_value.

(** An older (or equally old) update never overrides the stored entry nor resurrects a removed one. *)
Theorem no_regression : ∀ (m : amap (K:=string) (V:=smeta)) u old, m (m_sid u) = Some old → sess_ts u ≤ sess_ts old →
  ∀ k, amerge1 m_sid sess_ts m u k = m k.
Proof. exact (amerge1_no_regression m_sid sess_ts). Qed.
Print Assumptions no_regression.

(** A local retained write is stamped above the entry it replaces, so that on its origin it has
    exactly the effect of merging the update it broadcasts - whatever the offset between clocks. *)
Theorem local_retained_write_is_merge : ∀ d p clk k, 0 < clk → p_topic p ≠ "" →
  let r := ret_set d p clk in
  ∃ e, r.2 = Some e ∧ abs_ret (d_ret r.1) k = abs_ret (d_ret (merge_event d e)) k.
Proof. exact ret_set_is_merge. Qed.
Print Assumptions local_retained_write_is_merge.
Theorem local_subscription_write_is_merge : ∀ d sid pat qos clk, sid ≠ "" → pat ≠ "" →
  let r := sub_create d sid pat qos clk in
  ∃ e, r.2 = Some e ∧ d_subs r.1 = d_subs (merge_event d e) ∧ d_sess r.1 = d_sess (merge_event d e) ∧ d_ret r.1 = d_ret (merge_event d e).
Proof. exact sub_create_is_merge. Qed.
Print Assumptions local_subscription_write_is_merge.

(** Without [tie_free] the claim is false of strict-< LWW (the first arrival of two different
    updates with one timestamp wins): reported as a remark, the oracle skips tied keys. *)
Example convergence_refuted_on_ties :
  let u1 := SMeta "s" "c1" "mp" 1 None 10 0 in let u2 := SMeta "s" "c2" "mp" 2 None 10 0 in
  abs_sess (merge_sessions_l [] [u1; u2]) "s" = Some u1 ∧ abs_sess (merge_sessions_l [] [u2; u1]) "s" = Some u2.
Proof. vm_compute. done. Qed.
(** non-vacuity *)
Example c08_history :
  let add := Sub "s1" "mp/a" 1 1 20 0 in let rm := Sub "s1" "mp/a" 1 0 0 30 in let old := Sub "s1" "mp/a" 1 2 10 0 in
  sub_all (merge_event (merge_event (dnew 1) (BEvent [] [add; rm] [])) (BEvent [] [old] [])) = []
  ∧ sub_all (merge_event (dnew 2) (BEvent [] [old; rm; add; old] [])) = [].
Proof. vm_compute. done. Qed.
