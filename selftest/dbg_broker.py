#!/usr/bin/env python3
"""dbg_broker.py <mode> <n> <seed>: run broker family, evaluate model, print first mismatching step."""
import sys, json, subprocess, os, re
mode, n, seed = sys.argv[1], sys.argv[2], sys.argv[3]
out = subprocess.run(['/verif/harness/bin/wharness','broker','gen','-n',n,'-seed',seed,'-mode',mode],stdout=subprocess.PIPE,stderr=subprocess.DEVNULL,text=True).stdout
cases=[json.loads(l) for l in out.splitlines()]
os.makedirs('/verif/work/dbg',exist_ok=True)
with open('/verif/work/dbg/cases.v','w') as f:
    f.write('From Wasp Require Import Corr.Broker.\nOpen Scope string_scope.\nDefinition cases : list case := [\n'+';\n'.join(c['coq'] for c in cases)+'\n].\n')
    f.write('Definition M := Eval vm_compute in mismatches cases.\nPrint M.\n')
    f.write('Definition B := Eval vm_compute in match filter (fun c => negb (model_ok c)) cases with c :: _ => let (x, steps) := c in let (i, k) := x in (i, first_bad steps (cnew k) [] 0) | [] => (0%N, None) end.\nPrint B.\n')
r=subprocess.run(['coqc','-Q','/verif/coq','Wasp','-w','-all','cases.v'],cwd='/verif/work/dbg',stdout=subprocess.PIPE,stderr=subprocess.STDOUT,text=True)
print(r.stdout[-3000:])
m=re.search(r"B =\s*\((\d+)%N,\s*Some\s*\((\d+)%nat",r.stdout)
if m:
    cid,st=int(m.group(1)),int(m.group(2))
    c=cases[cid]
    print('case',cid,'step',st)
    for i,(o,b) in enumerate(zip(c['input']['ops'],c['obs'])):
        if i<=st and i>=st-8: print(i,json.dumps(o),'=>',b)
