#!/usr/bin/env python3
"""selftest/run.py <patch.diff> <Cnn> [<Cnn> ...]  — apply a patch to /repo, run the quick checks,
undo the patch, print one line per check: which verdict it gave."""
import sys, subprocess, os, re
patch = os.path.abspath(sys.argv[1]); props = sys.argv[2:]
rev = '-R' in props
props = [p for p in props if p != '-R']
ap = ['git', '-C', '/repo', 'apply'] + (['-R'] if rev else []) + [patch]
subprocess.check_call(ap)
try:
    b = subprocess.run('cd /repo && GOFLAGS=-mod=mod GOPROXY=off GOSUMDB=off go build ./... && go test -vet=off -count=1 ./... 2>&1 | grep -c "^ok"',
                       shell=True, stdout=subprocess.PIPE, stderr=subprocess.STDOUT, text=True)
    print('%-40s build+tests: %s' % (os.path.basename(patch), b.stdout.strip().splitlines()[-1]))
    for p in props:
        r = subprocess.run(['/verif/bin/check', p], stdout=subprocess.PIPE, stderr=subprocess.STDOUT, text=True)
        v = [l for l in r.stdout.splitlines() if l.startswith('VIOLATION')]
        kind = 'clean' if r.returncode == 0 else ('VIOLATION(no-failing-input)' if v and all('no-failing-input-found' in l for l in v) else 'VIOLATION' if v else 'exit %d' % r.returncode)
        print('%-40s %s: %s' % (os.path.basename(patch), p, kind))
        if r.returncode not in (0, 1):
            print(r.stdout[-1500:])
finally:
    subprocess.check_call(['git', '-C', '/repo', 'checkout', '--', '.'])
