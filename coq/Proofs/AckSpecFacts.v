(** Facts about the in-flight table specification (Spec/AckSpec.v). *)
From Wasp Require Import Model.Base Spec.AckSpec Proofs.StableInsert.
From stdpp Require Import list sorting.
From Coq Require Import ZArith Lia.
Open Scope Z_scope.

(** deadlines are honoured to the second: the rounded instant is within half a second *)
Lemma round_window d : round_s d - sec / 2 ≤ d ∧ d < round_s d + sec / 2.
Proof.
  unfold round_s, sec. change (1000000000 / 2) with 500000000.
  pose proof (Z.div_mod (d + 500000000) 1000000000 ltac:(lia)).
  pose proof (Z.mod_pos_bound (d + 500000000) 1000000000 ltac:(lia)). lia.
Qed.
Lemma round_mono d1 d2 : d1 ≤ d2 → round_s d1 ≤ round_s d2.
Proof.
  intros H. unfold round_s. apply Z.mul_le_mono_nonneg_r; [unfold sec; lia|].
  apply Z.div_le_mono; [unfold sec; lia|lia].
Qed.

(** ** keys *)
Lemma key_eqb_eq' a b : key_eqb a b = true ↔ a = b.
Proof.
  destruct a as [a1 a2], b as [b1 b2]. unfold key_eqb. cbn [fst snd].
  rewrite andb_true_iff, String.eqb_eq, Z.eqb_eq. split; [intros [-> ->]; done|intros [= -> ->]; done].
Qed.
Lemma key_eqb_neq' a b : key_eqb a b = false ↔ a ≠ b.
Proof. rewrite <- key_eqb_eq'. destruct (key_eqb a b); split; congruence. Qed.

Definition keys (s : sstate) : list key := map ekey s.
Definition regs (s : sstate) : list N := map ereg s.

Lemma sfind_app k s1 s2 : sfind k (s1 ++ s2) = match sfind k s1 with Some e => Some e | None => sfind k s2 end.
Proof. induction s1 as [|x s1 IH]; cbn; [done|]. destruct (key_eqb (ekey x) k); [done|exact IH]. Qed.
Lemma sfind_In k s e : sfind k s = Some e → e ∈ s ∧ ekey e = k.
Proof.
  induction s as [|x s IH]; cbn; [done|]. destruct (key_eqb (ekey x) k) eqn:Hk.
  - intros [= ->]. apply key_eqb_eq' in Hk. split; [left|done].
  - intros H. destruct (IH H). split; [by right|done].
Qed.
Lemma sfind_notin k s : sfind k s = None ↔ k ∉ keys s.
Proof.
  unfold keys. induction s as [|x s IH]; cbn [sfind map]; [split; [intros _ H; by apply elem_of_nil in H|done]|].
  destruct (key_eqb (ekey x) k) eqn:Hk.
  - apply key_eqb_eq' in Hk. split; [done|]. intros H. exfalso. apply H. rewrite Hk. left.
  - apply key_eqb_neq' in Hk. rewrite IH, not_elem_of_cons. split; [intros; split; [congruence|done]|tauto].
Qed.
Lemma sfind_unique k s e : NoDup (keys s) → e ∈ s → ekey e = k → sfind k s = Some e.
Proof.
  unfold keys. induction s as [|x s IH]; intros Hnd Hin Hk; [by apply elem_of_nil in Hin|].
  cbn [map] in Hnd. apply NoDup_cons in Hnd as [Hn Hnd]. cbn [sfind].
  apply elem_of_cons in Hin as [->|Hin].
  - rewrite Hk. by rewrite (proj2 (key_eqb_eq' k k)).
  - destruct (key_eqb (ekey x) k) eqn:Hx; [|by apply IH].
    apply key_eqb_eq' in Hx. exfalso. apply Hn. rewrite Hx, <- Hk. apply elem_of_list_fmap. by exists e.
Qed.
Lemma sfind_filter (P : entry → bool) k s : NoDup (keys s) →
  sfind k (List.filter P s) = match sfind k s with Some e => if P e then Some e else None | None => None end.
Proof.
  unfold keys. induction s as [|x s IH]; intros Hnd; [done|].
  cbn [map] in Hnd. apply NoDup_cons in Hnd as [Hn Hnd]. cbn [List.filter sfind].
  destruct (key_eqb (ekey x) k) eqn:Hk.
  - destruct (P x); cbn [sfind]; [by rewrite Hk|].
    rewrite IH by done. apply key_eqb_eq' in Hk.
    assert (sfind k s = None) as ->; [|done]. apply sfind_notin. by rewrite <- Hk.
  - destruct (P x); cbn [sfind]; rewrite ?Hk; by apply IH.
Qed.
Lemma keys_filter_sub (P : entry → bool) s k : k ∈ keys (List.filter P s) → k ∈ keys s.
Proof.
  unfold keys. intros (e & -> & He)%elem_of_list_fmap. apply elem_of_list_In, filter_In in He as [He _].
  apply elem_of_list_fmap. exists e. split; [done|]. by apply elem_of_list_In.
Qed.
Lemma NoDup_keys_filter (P : entry → bool) s : NoDup (keys s) → NoDup (keys (List.filter P s)).
Proof.
  unfold keys. induction s as [|x s IH]; cbn; [done|]. intros [Hn Hnd]%NoDup_cons.
  destruct (P x); [|by apply IH]. cbn. apply NoDup_cons. split; [|by apply IH].
  intros Hin. apply Hn. by apply (keys_filter_sub P).
Qed.

(** the specification keeps keys unique *)
Lemma spec_step_nodup s o : NoDup (keys s) → NoDup (keys (spec_step s o).1).
Proof.
  intros Hnd. destruct o as [pfx mid p d r|pfx mid ty acker|now]; cbn [spec_step].
  - destruct (expected p); [|done]. destruct (mid =? 0); [done|].
    destruct (sfind (pfx, mid) s) eqn:Hs; [done|]. cbn [fst]. unfold keys. rewrite map_app.
    apply NoDup_app. split; [done|]. split; [|cbn; apply NoDup_singleton].
    intros k Hk Hk'. cbn in Hk'. apply elem_of_list_singleton in Hk'. subst k. by apply sfind_notin in Hs.
  - destruct acker; cbn [negb]; [|done]. destruct (sfind (pfx, mid) s); [|done].
    destruct (eexpect e =? ty); [|done]. by apply NoDup_keys_filter.
  - by apply NoDup_keys_filter.
Qed.

(** ** the state machine of one key: INDEPENDENCE OF THE OTHERS *)
Definition touches (k : key) (o : qop) : bool :=
  match o with QInsert p m _ _ _ | QAck p m _ _ => key_eqb (p, m) k | QSweep _ => true end.

(* what one operation does to the entry of key [k], given only that entry *)
Definition step1 (k : key) (e : option entry) (o : qop) : option entry :=
  match o with
  | QInsert p m pk d r =>
    if key_eqb (p, m) k then
      match e, expected pk with
      | None, Some ty => if m =? 0 then None else Some (Entry (p, m) r ty d)
      | _, _ => e
      end
    else e
  | QAck p m ty acker =>
    if key_eqb (p, m) k && acker then
      match e with Some x => if eexpect x =? ty then None else e | None => None end
    else e
  | QSweep now => match e with Some x => if due now x then None else e | None => None end
  end.
(* the callback one operation runs for the entry of key [k], given only that entry *)
Definition out1 (k : key) (e : option entry) (o : qop) : option (N * bool) :=
  match e, o with
  | Some x, QAck p m ty acker => if key_eqb (p, m) k && acker && (eexpect x =? ty) then Some (ereg x, false) else None
  | Some x, QSweep now => if due now x then Some (ereg x, true) else None
  | _, _ => None
  end.

Lemma sremove_find k k' s : NoDup (keys s) → sfind k (sremove k' s) = if key_eqb k' k then None else sfind k s.
Proof.
  intros Hnd. unfold sremove. rewrite sfind_filter by done.
  destruct (sfind k s) as [e|] eqn:Hs; [|by destruct (key_eqb k' k)].
  apply sfind_In in Hs as [_ <-].
  destruct (key_eqb (ekey e) k') eqn:H1, (key_eqb k' (ekey e)) eqn:H2; cbn [negb]; try done.
  - apply key_eqb_eq' in H1. apply key_eqb_neq' in H2. congruence.
  - apply key_eqb_neq' in H1. apply key_eqb_eq' in H2. congruence.
Qed.

Theorem step_key k s o : NoDup (keys s) → sfind k (spec_step s o).1 = step1 k (sfind k s) o.
Proof.
  intros Hnd. destruct o as [pfx mid p d r|pfx mid ty acker|now]; cbn [spec_step step1].
  - destruct (expected p) as [ty|] eqn:Hp.
    2:{ cbn [fst]. destruct (key_eqb (pfx, mid) k); [|done]. by destruct (sfind k s). }
    destruct (Z.eqb_spec mid 0) as [->|Hmid]; cbn [fst].
    { destruct (key_eqb (pfx, 0) k); [|done]. by destruct (sfind k s). }
    destruct (key_eqb (pfx, mid) k) eqn:Hk.
    + apply key_eqb_eq' in Hk. subst k. destruct (sfind (pfx, mid) s) eqn:Hs; cbn [fst]; [done|].
      rewrite sfind_app, Hs. cbn. by rewrite (proj2 (key_eqb_eq' _ _) eq_refl).
    + destruct (sfind (pfx, mid) s) eqn:Hs; cbn [fst]; [done|]. rewrite sfind_app.
      destruct (sfind k s); [done|]. cbn. by rewrite Hk.
  - destruct acker; cbn [negb andb]; [|by rewrite andb_false_r].
    rewrite andb_true_r. destruct (sfind (pfx, mid) s) as [e|] eqn:Hs; cbn [fst].
    + destruct (eexpect e =? ty) eqn:Hty; cbn [fst].
      * rewrite sremove_find by done. destruct (key_eqb (pfx, mid) k) eqn:Hk; [|done].
        apply key_eqb_eq' in Hk. subst k. by rewrite Hs, Hty.
      * destruct (key_eqb (pfx, mid) k) eqn:Hk; [|done]. apply key_eqb_eq' in Hk. subst k. by rewrite Hs, Hty.
    + destruct (key_eqb (pfx, mid) k) eqn:Hk; [|done]. apply key_eqb_eq' in Hk. subst k. by rewrite Hs.
  - cbn [fst]. rewrite sfind_filter by done. destruct (sfind k s) as [e|]; [|done]. by destruct (due now e).
Qed.

(** the callbacks an operation runs are exactly those the per-key machines dictate *)
Lemma dl_insert_ins e l : dl_insert e l = ins edl e l.
Proof. induction l as [|x l IH]; cbn; [done|]. by rewrite IH. Qed.
Lemma dl_sort_isort l : dl_sort l = isort edl l.
Proof.
  unfold dl_sort, isort. generalize (@nil entry). induction l as [|x l IH]; intros acc; cbn; [done|].
  by rewrite dl_insert_ins, IH.
Qed.
Lemma in_dl_sort e l : e ∈ dl_sort l ↔ e ∈ l.
Proof. by rewrite dl_sort_isort, isort_perm. Qed.

Theorem out_key_fires k s o e b : sfind k s = Some e →
  out1 k (Some e) o = Some (ereg e, b) → (ereg e, b) ∈ (spec_step s o).2.2.
Proof.
  intros Hs Ho. destruct (sfind_In _ _ _ Hs) as [Hin Hk].
  destruct o as [pfx mid p d r|pfx mid ty acker|now]; cbn [out1] in Ho; [done| |].
  - destruct (key_eqb (pfx, mid) k) eqn:Hpk; [|done]. destruct acker; [|done]. cbn [andb] in Ho.
    destruct (eexpect e =? ty) eqn:Hty; [|done]. injection Ho as <-. apply key_eqb_eq' in Hpk. subst k.
    cbn [spec_step negb]. rewrite Hs, Hty. cbn. left.
  - destruct (due now e) eqn:Hd; [|done]. injection Ho as <-. cbn [spec_step snd].
    apply elem_of_list_fmap. exists e. split; [done|]. apply in_dl_sort. apply elem_of_list_In, filter_In.
    split; [by apply elem_of_list_In|done].
Qed.
Theorem out_key_only s o r b : (r, b) ∈ (spec_step s o).2.2 →
  ∃ e, e ∈ s ∧ ereg e = r ∧ out1 (ekey e) (Some e) o = Some (r, b).
Proof.
  destruct o as [pfx mid p d r'|pfx mid ty acker|now]; cbn [spec_step].
  - destruct (expected p); [|by intros ?%elem_of_nil]. destruct (mid =? 0); [by intros ?%elem_of_nil|].
    destruct (sfind (pfx, mid) s); by intros ?%elem_of_nil.
  - destruct acker; cbn [negb]; [|by intros ?%elem_of_nil].
    destruct (sfind (pfx, mid) s) as [e|] eqn:Hs; [|by intros ?%elem_of_nil].
    destruct (eexpect e =? ty) eqn:Hty; [|by intros ?%elem_of_nil]. cbn [snd].
    intros [= -> ->]%elem_of_list_singleton. destruct (sfind_In _ _ _ Hs) as [Hin Hk].
    exists e. split; [done|]. split; [done|]. cbn [out1]. rewrite Hk, (proj2 (key_eqb_eq' _ _) eq_refl), Hty. done.
  - cbn [snd]. intros (e & [= -> ->] & He)%elem_of_list_fmap. apply (proj1 (in_dl_sort _ _)) in He.
    apply elem_of_list_In, filter_In in He as [He Hd]. exists e. split; [by apply elem_of_list_In|].
    split; [done|]. cbn [out1]. by rewrite Hd.
Qed.

(** ** ISOLATION over histories *)
Definition restrict (k : key) (os : list qop) : list qop := List.filter (touches k) os.

Lemma step1_untouched k e o : touches k o = false → step1 k e o = e.
Proof. destruct o; cbn [touches step1]; intros H; rewrite ?H; done. Qed.

Lemma spec_run_nodup os : ∀ s, NoDup (keys s) → NoDup (keys (spec_run s os).1).
Proof. induction os as [|o os IH]; intros s H; cbn [spec_run fst]; [done|]. apply IH. by apply spec_step_nodup. Qed.

(* the entry of [k] evolves as a function of itself and the operations only *)
Lemma agree_on_key k os : ∀ s s', NoDup (keys s) → NoDup (keys s') → sfind k s = sfind k s' →
  sfind k (spec_run s os).1 = sfind k (spec_run s' os).1.
Proof.
  induction os as [|o os IH]; intros s s' H H' Heq; cbn [spec_run fst]; [done|].
  apply IH; [by apply spec_step_nodup|by apply spec_step_nodup|]. by rewrite !step_key, Heq.
Qed.

Theorem isolation_state k os : ∀ s, NoDup (keys s) →
  sfind k (spec_run s os).1 = sfind k (spec_run s (restrict k os)).1.
Proof.
  induction os as [|o os IH]; intros s Hnd; [done|]. cbn [restrict List.filter].
  destruct (touches k o) eqn:Ht; cbn [spec_run fst].
  - apply IH. by apply spec_step_nodup.
  - rewrite IH by (by apply spec_step_nodup). apply agree_on_key; [by apply spec_step_nodup|done|].
    rewrite step_key by done. by apply step1_untouched.
Qed.

(* the outcomes of key [k] along a history: one slot per operation that touches [k] *)
Fixpoint ktrace (k : key) (s : sstate) (os : list qop) : list (option (N * bool)) :=
  match os with
  | [] => []
  | o :: os' =>
    let rest := ktrace k (spec_step s o).1 os' in
    if touches k o then out1 k (sfind k s) o :: rest else rest
  end.
Lemma ktrace_agree k os : ∀ s s', NoDup (keys s) → NoDup (keys s') → sfind k s = sfind k s' →
  ktrace k s os = ktrace k s' os.
Proof.
  induction os as [|o os IH]; intros s s' H H' Heq; cbn [ktrace]; [done|].
  rewrite (IH (spec_step s o).1 (spec_step s' o).1); [by rewrite Heq|by apply spec_step_nodup|by apply spec_step_nodup|].
  by rewrite !step_key, Heq.
Qed.
Theorem isolation_outcomes k os : ∀ s, NoDup (keys s) → ktrace k s os = ktrace k s (restrict k os).
Proof.
  induction os as [|o os IH]; intros s Hnd; [done|]. cbn [restrict List.filter ktrace].
  destruct (touches k o) eqn:Ht; cbn [ktrace]; rewrite ?Ht.
  - f_equal. apply IH. by apply spec_step_nodup.
  - rewrite IH by (by apply spec_step_nodup). apply ktrace_agree; [by apply spec_step_nodup|done|].
    rewrite step_key by done. by apply step1_untouched.
Qed.

(** ** AT MOST ONE OUTCOME per registration *)
Definition op_reg (o : qop) : list N := match o with QInsert _ _ _ _ r => [r] | _ => [] end.
Definition fired1 (o : qout) : list N := map fst (snd o).
Definition fired (outs : list qout) : list N := flat_map fired1 outs.

Lemma submseteq_NoDup {A} (l k : list A) : l ⊆+ k → NoDup k → NoDup l.
Proof.
  induction 1 as [|x l1 l2 Hsub IH|x y l|x l1 l2 Hsub IH|l1 l2 l3 _ IH1 _ IH2]; intros Hk.
  - done.
  - apply NoDup_cons in Hk as [Hn Hk]. apply NoDup_cons. split; [|by apply IH].
    intros Hin. apply Hn. by eapply elem_of_submseteq.
  - by rewrite (Permutation_swap x y l).
  - apply NoDup_cons in Hk as [_ Hk]. by apply IH.
  - by apply IH1, IH2.
Qed.
Lemma filter_partition {A} (P : A → bool) l : l ≡ₚ List.filter P l ++ List.filter (λ x, negb (P x)) l.
Proof.
  induction l as [|x l IH]; cbn; [done|]. destruct (P x); cbn; [by rewrite <- IH|].
  rewrite <- Permutation_middle. by rewrite <- IH.
Qed.
Lemma sremove_perm k s e : NoDup (keys s) → sfind k s = Some e → s ≡ₚ e :: sremove k s.
Proof.
  unfold keys, sremove. induction s as [|x s IH]; cbn [sfind map List.filter]; [done|]. intros [Hn Hnd]%NoDup_cons.
  destruct (key_eqb (ekey x) k) eqn:Hk; cbn [negb].
  - intros [= ->]. constructor. symmetry. rewrite <- (app_nil_r (List.filter _ s)).
    assert (List.filter (λ e0, negb (negb (key_eqb (ekey e0) k))) s = []) as Hnone.
    { apply key_eqb_eq' in Hk. subst k. clear -Hn. induction s as [|y s IH]; cbn; [done|].
      destruct (key_eqb (ekey y) (ekey e)) eqn:Hy; cbn.
      - apply key_eqb_eq' in Hy. exfalso. apply Hn. rewrite <- Hy. cbn. left.
      - apply IH. intros H. apply Hn. cbn. by right. }
    rewrite <- Hnone. symmetry. apply (filter_partition (λ e0, negb (key_eqb (ekey e0) k))).
  - intros Hs. rewrite (IH Hnd Hs) at 1. apply Permutation_swap.
Qed.

Lemma step_regs s o : NoDup (keys s) →
  regs (spec_step s o).1 ++ fired1 (spec_step s o).2 ⊆+ regs s ++ op_reg o.
Proof.
  intros Hnd. unfold fired1, regs. destruct o as [pfx mid p d r|pfx mid ty acker|now]; cbn [spec_step op_reg].
  - assert (Hweak : map ereg s ++ [] ⊆+ map ereg s ++ [r]) by (apply submseteq_app; [done|apply submseteq_nil_l]).
    destruct (expected p); [|exact Hweak]. destruct (mid =? 0); [exact Hweak|].
    destruct (sfind (pfx, mid) s); [exact Hweak|]. cbn [fst snd map]. by rewrite map_app, app_nil_r.
  - rewrite app_nil_r. destruct acker; cbn [negb]; [|by rewrite app_nil_r].
    destruct (sfind (pfx, mid) s) as [e|] eqn:Hs; [|by rewrite app_nil_r].
    destruct (eexpect e =? ty); [|by rewrite app_nil_r]. cbn [fst snd map].
    rewrite (sremove_perm _ _ _ Hnd Hs) at 2. cbn [map]. by rewrite Permutation_app_comm.
  - rewrite app_nil_r. cbn [fst snd]. rewrite map_map. cbn [fst].
    rewrite (filter_partition (due now) s) at 3. rewrite map_app.
    rewrite (Permutation_app_comm (map ereg (List.filter (due now) s))).
    apply submseteq_app; [done|]. apply Permutation_submseteq. apply Permutation_map.
    by rewrite dl_sort_isort, isort_perm.
Qed.

Theorem fired_once os : ∀ s, NoDup (keys s) → NoDup (regs s ++ flat_map op_reg os) →
  NoDup (fired (spec_run s os).2) ∧ ∀ r, r ∈ fired (spec_run s os).2 → r ∈ regs s ++ flat_map op_reg os.
Proof.
  induction os as [|o os IH]; intros s Hk Hnd; cbn [spec_run snd fired flat_map].
  { split; [apply NoDup_nil_2|]. intros r Hr. by apply elem_of_nil in Hr. }
  pose proof (step_regs s o Hk) as Hsub. cbn [flat_map] in Hnd.
  set (s' := (spec_step s o).1) in *. set (F := fired1 (spec_step s o).2) in *.
  assert (Hnd' : NoDup ((regs s' ++ F) ++ flat_map op_reg os)).
  { eapply submseteq_NoDup; [|exact Hnd]. rewrite (app_assoc (regs s)). by apply submseteq_app. }
  rewrite <- app_assoc in Hnd'. apply NoDup_app in Hnd' as (Hn1 & Hdisj & Hn2).
  apply NoDup_app in Hn2 as (HnF & HdisjF & HnR).
  destruct (IH s') as [IH1 IH2]; [by apply spec_step_nodup| |].
  { apply NoDup_app. split; [done|]. split; [|done]. intros x Hx Hx'. eapply Hdisj; [exact Hx|]. apply elem_of_app. by right. }
  split.
  - apply NoDup_app. split; [done|]. split; [|done]. intros x Hx Hx'. apply IH2 in Hx'.
    apply elem_of_app in Hx' as [Hx'|Hx'].
    + eapply Hdisj; [exact Hx'|]. apply elem_of_app. by left.
    + by eapply HdisjF.
  - intros r [Hr|Hr]%elem_of_app.
    + assert (r ∈ regs s ++ op_reg o).
      { eapply elem_of_submseteq; [|exact Hsub]. apply elem_of_app. by right. }
      rewrite (app_assoc (regs s)). apply elem_of_app. by left.
    + apply IH2 in Hr. apply elem_of_app in Hr as [Hr|Hr].
      * assert (r ∈ regs s ++ op_reg o).
        { eapply elem_of_submseteq; [|exact Hsub]. apply elem_of_app. by left. }
        rewrite (app_assoc (regs s)). apply elem_of_app. by left.
      * rewrite (app_assoc (regs s)). apply elem_of_app. by right.
Qed.

(** a duplicate registration is rejected and leaves the table as it was *)
Theorem duplicate_step s pfx mid p d r e : sfind (pfx, mid) s = Some e →
  spec_step s (QInsert pfx mid p d r) = (s, ((spec_step s (QInsert pfx mid p d r)).2.1, [])) ∧
  (mid ≠ 0 → expected p ≠ None → (spec_step s (QInsert pfx mid p d r)).2.1 = RDup).
Proof.
  intros Hs. cbn [spec_step]. destruct (expected p); [|by split].
  destruct (Z.eqb_spec mid 0); [by split|]. rewrite Hs. by split.
Qed.
