(** C01 / C02 composed over one whole step of the cluster model: what a PUBLISH from a client
    makes the cluster write.  From every cluster state in which the log consumers have caught up
    and nothing is failing, the observations of the step are: the appends and inter-node calls of
    Distribute (one per destination node, C14), the acknowledgement, the keep-alive re-arm, and
    then — for every node in index order — exactly what that node's writer sends for this one
    message to the recipients [ByPattern] names there (filtered by peer), if and only if the node
    is one of the publisher's destinations.  Nothing else is written to anybody.  Together with
    [by_pattern_exact] (which entries ByPattern returns), [send_q0_exact], [send_only_recipients]
    and [qos_recipient_written] (what [send] writes per recipient) this is the property's
    "exactly the sessions whose filters match" for the step as a whole. *)
From Wasp Require Import Model.Base Spec.MatchSpec Model.DState Model.IdPool Model.Mount Model.Node
  Proofs.BaseFacts Proofs.DStateFacts Proofs.NodeFacts Proofs.Qos2Facts.
From stdpp Require Import list strings.
From Coq Require Import ZArith Lia.
Open Scope Z_scope.

Definition nlen (cl : cluster) : nat := length (cl_nodes cl).
Definition quiescent (cl : cluster) : Prop := ∀ j, (j < nlen cl)%nat → n_coff (getn cl j) = length (n_log (getn cl j)).
Definition healthy (cl : cluster) : Prop := cl_down cl = [] ∧ ∀ j, n_fail (getn cl j) = 0%nat.
Definition local_recips (n : node) (topic : string) : list (string * Z) :=
  map (λ s, (s_sid s, s_qos s)) (List.filter (λ s, s_peer s =? n_id n) (sub_by_pattern (n_d n) topic)).
(* what the writer of node [n] sends for log entry [m] *)
Definition deliveries (bad : list string) (n : node) (m : lmsg) : list eobs :=
  (send bad (set_coff n (S (n_coff n))) (local_recips n (l_topic m)) m).2.
Definition app_node (n : node) (m : lmsg) : node := set_log n (n_log n ++ [m]).
Definition idx (dst : Z) : nat := Z.to_nat (dst - 1).

Lemma getn_setn_gen cl i n j : getn (setn cl i n) j = if Nat.eqb i j && Nat.ltb i (nlen cl) then n else getn cl j.
Proof. unfold getn, setn, nlen. cbn. apply set_nth_nth. Qed.
Lemma getn_setn_ne cl i n j : i ≠ j → getn (setn cl i n) j = getn cl j.
Proof. intros H. rewrite getn_setn_gen. by rewrite (proj2 (Nat.eqb_neq i j) H). Qed.
Lemma getn_out_of_range cl j : (nlen cl ≤ j)%nat → getn cl j = nnew 0.
Proof. intros H. unfold getn. by apply nth_overflow. Qed.

(** ** the log consumer of one node *)
Lemma drain_node_quiet fuel cl i : n_coff (getn cl i) = length (n_log (getn cl i)) → drain_node fuel cl i = (cl, []).
Proof.
  intros H. destruct fuel as [|f]; [done|]. cbn [drain_node].
  by rewrite (proj2 (nth_error_None (n_log (getn cl i)) (n_coff (getn cl i)))) by lia.
Qed.
Lemma drain_node_one f cl i old m : (i < nlen cl)%nat →
  n_log (getn cl i) = old ++ [m] → n_coff (getn cl i) = length old →
  drain_node (S f) cl i =
    (setn cl i (send (cl_bad cl) (set_coff (getn cl i) (S (n_coff (getn cl i)))) (local_recips (getn cl i) (l_topic m)) m).1,
     deliveries (cl_bad cl) (getn cl i) m).
Proof.
  intros Hi Hlog Hoff. cbn [drain_node]. rewrite Hlog, Hoff, nth_error_app2, Nat.sub_diag by lia. cbn [nth_error].
  unfold deliveries, local_recips. rewrite Hoff. cbn [n_d set_coff].
  set (sr := send _ _ _ m).
  rewrite drain_node_quiet; [by rewrite app_nil_r|].
  rewrite getn_setn by exact Hi. destruct (send_keeps_log (cl_bad cl) (map (λ s, (s_sid s, s_qos s)) (List.filter (λ s, s_peer s =? n_id (getn cl i)) (sub_by_pattern (n_d (getn cl i)) (l_topic m))))
    (set_coff (getn cl i) (S (length old))) m) as [L1 L2].
  fold sr in L1, L2. rewrite L1, L2. cbn [n_log n_coff set_coff]. rewrite Hlog, app_length. cbn. lia.
Qed.

Lemma drain_fuel_S : ∃ f, drain_fuel = S f.
Proof. with_strategy transparent [drain_fuel] (exists (Nat.pred drain_fuel); reflexivity). Qed.

(** ** all consumers, when each node is either caught up or has exactly [m] to consume *)
Definition pending (cl : cluster) (m : lmsg) (j : nat) : Prop :=
  ∃ old, n_log (getn cl j) = old ++ [m] ∧ n_coff (getn cl j) = length old.
Definition out_of (bad : list string) (cl : cluster) (m : lmsg) (P : nat → bool) (j : nat) : list eobs :=
  if P j then deliveries bad (getn cl j) m else [].
Definition drain_f := λ (acc : cluster * list eobs) (i : nat), let r := drain_node drain_fuel acc.1 i in (r.1, (acc.2 ++ r.2)%list).

Lemma drain_fold m (P : nat → bool) cl0 : ∀ (l : list nat) cl acc, NoDup l → (∀ j, j ∈ l → (j < nlen cl0)%nat) →
  nlen cl = nlen cl0 → cl_bad cl = cl_bad cl0 → (∀ j, j ∈ l → getn cl j = getn cl0 j) →
  (∀ j, j ∈ l → if P j then pending cl0 m j else n_coff (getn cl0 j) = length (n_log (getn cl0 j))) →
  (fold_left drain_f l (cl, acc)).2 = acc ++ flat_map (out_of (cl_bad cl0) cl0 m P) l.
Proof.
  induction l as [|i l IH]; intros cl acc Hnd Hlt Hlen Hbad Hsame Hst; cbn [fold_left flat_map]; [by rewrite app_nil_r|].
  apply NoDup_cons in Hnd as [Hni Hnd].
  assert (Hi : (i < nlen cl0)%nat) by (apply Hlt; left).
  assert (Hgi : getn cl i = getn cl0 i) by (apply Hsame; left).
  pose proof (Hst i ltac:(left)) as Hsi. unfold drain_f at 2. cbn [fst snd]. unfold out_of at 1.
  assert (Hrest : ∀ cl', nlen cl' = nlen cl0 → cl_bad cl' = cl_bad cl0 → (∀ j, j ≠ i → getn cl' j = getn cl j) → ∀ acc',
            (fold_left drain_f l (cl', acc')).2 = acc' ++ flat_map (out_of (cl_bad cl0) cl0 m P) l).
  { intros cl' Hl' Hb' Hg' acc'. apply IH; try done.
    - intros j Hj. apply Hlt. by right.
    - intros j Hj. rewrite Hg'; [apply Hsame; by right|]. intros ->. done.
    - intros j Hj. apply Hst. by right. }
  destruct (P i).
  - destruct Hsi as (old & Hlog & Hoff). destruct drain_fuel_S as [f0 ->].
    rewrite (drain_node_one _ cl i old m); rewrite ?Hlen, ?Hgi; try done. cbn [fst snd].
    rewrite Hrest; [by rewrite Hbad, <- app_assoc| | |].
    + unfold nlen. by rewrite setn_length.
    + done.
    + intros j Hj. apply getn_setn_ne. congruence.
  - rewrite drain_node_quiet by (by rewrite Hgi). cbn [fst snd]. rewrite app_nil_r. by apply Hrest.
Qed.

Lemma drain_all_spec m (P : nat → bool) cl :
  (∀ j, (j < nlen cl)%nat → if P j then pending cl m j else n_coff (getn cl j) = length (n_log (getn cl j))) →
  (drain_all cl).2 = flat_map (out_of (cl_bad cl) cl m P) (seq 0 (nlen cl)).
Proof.
  intros H. unfold drain_all. change (fold_left _ (seq 0 (length (cl_nodes cl))) (cl, [])) with (fold_left drain_f (seq 0 (nlen cl)) (cl, [])).
  rewrite (drain_fold m P cl); try done.
  - apply NoDup_ListNoDup, seq_NoDup.
  - intros j Hj%elem_of_list_In%in_seq. lia.
  - intros j Hj%elem_of_list_In%in_seq. apply H. lia.
Qed.

(** ** Distribute, when nothing fails: one append at each destination node, no other change *)
Lemma append_at_healthy cl j m : n_fail (getn cl j) = 0%nat →
  append_at cl j m = (setn cl j (app_node (getn cl j) m), [Appended j (l_topic m) (l_payload m) (l_qos m) (l_retain m)], true).
Proof. intros H. unfold append_at. by rewrite H. Qed.

Lemma healthy_setn cl j m : healthy cl → healthy (setn cl j (app_node (getn cl j) m)).
Proof.
  intros [Hd Hf]. split; [done|]. intros j'. rewrite getn_setn_gen. destruct (_ && _); [|done]. cbn. apply Hf.
Qed.

Lemma dist_step_healthy i m c o f dst : healthy c →
  ∃ o', dist_step i m (c, o, f) dst = (setn c (idx dst) (app_node (getn c (idx dst)) m), o ++ o', f) ∧ quiet (λ x, negb (is_store x)) o'.
Proof.
  intros [Hd Hf]. unfold dist_step, node_index. fold (idx dst). destruct (Nat.eqb_spec (idx dst) i) as [->|Hne].
  - rewrite append_at_healthy by done. exists [Appended i (l_topic m) (l_payload m) (l_qos m) (l_retain m)].
    cbn [negb]. rewrite orb_false_r. split; [done|]. by repeat constructor.
  - unfold is_down. rewrite Hd. cbn [existsb]. rewrite append_at_healthy by done.
    exists ([Appended (idx dst) (l_topic m) (l_payload m) (l_qos m) (l_retain m)] ++ [Call i (idx dst) true]).
    cbn [negb]. rewrite orb_false_r. split; [done|]. by repeat constructor.
Qed.

Lemma dist_fold_healthy i m : ∀ dests c o f, healthy c → NoDup (map idx dests) →
  ∃ c' o', fold_left (dist_step i m) dests (c, o, f) = (c', o ++ o', f) ∧ quiet (λ x, negb (is_store x)) o' ∧
    nlen c' = nlen c ∧ cl_bad c' = cl_bad c ∧ cl_conns c' = cl_conns c ∧
    ∀ j, getn c' j = if bool_decide (j ∈ map idx dests) && Nat.ltb j (nlen c) then app_node (getn c j) m else getn c j.
Proof.
  induction dests as [|dst dests IH]; intros c o f Hh Hnd; cbn [fold_left]; [|change (map idx (dst :: dests)) with (idx dst :: map idx dests) in *].
  { exists c, []. rewrite app_nil_r. repeat split; try done. constructor. }
  apply NoDup_cons in Hnd as [Hni Hnd].
  destruct (dist_step_healthy i m c o f dst Hh) as (o1 & -> & Q1).
  destruct (IH (setn c (idx dst) (app_node (getn c (idx dst)) m)) (o ++ o1) f (healthy_setn _ _ _ Hh) Hnd) as (c' & o2 & -> & Q2 & Hl & Hb & Hc & Hg).
  exists c', (o1 ++ o2). rewrite app_assoc. split; [done|]. split; [apply quiet_app; by split|].
  assert (Hl0 : nlen (setn c (idx dst) (app_node (getn c (idx dst)) m)) = nlen c) by (unfold nlen; by rewrite setn_length).
  rewrite Hl0 in Hg, Hl. repeat split; try done.
  intros j. rewrite Hg, getn_setn_gen. destruct (Nat.eqb_spec (idx dst) j) as [Heq|Hne].
  - subst j. rewrite (bool_decide_eq_false_2 _ Hni). rewrite (bool_decide_eq_true_2 (idx dst ∈ idx dst :: map idx dests)) by (by left). cbn [andb].
    by destruct (Nat.ltb (idx dst) (nlen c)).
  - cbn [andb]. destruct (decide (j ∈ map idx dests)) as [Hin|Hnin].
    + rewrite (bool_decide_eq_true_2 _ Hin), (bool_decide_eq_true_2 (j ∈ idx dst :: map idx dests)) by (by right). done.
    + rewrite (bool_decide_eq_false_2 _ Hnin). rewrite (bool_decide_eq_false_2 (j ∈ idx dst :: map idx dests)); [done|].
      intros [?|?]%elem_of_cons; congruence.
Qed.

Lemma idx_nodup (l : list Z) : NoDup l → Forall (λ d, 1 ≤ d) l → NoDup (map idx l).
Proof.
  induction l as [|d l IH]; cbn; [intros; apply NoDup_nil_2|]. intros [Hn Hnd]%NoDup_cons [Hd Hall]%Forall_cons.
  apply NoDup_cons. split; [|by apply IH].
  intros (d' & Heq & Hin)%elem_of_list_fmap. rewrite Forall_forall in Hall. specialize (Hall d' Hin).
  unfold idx in Heq. assert (d = d') as -> by lia. done.
Qed.

(** ** the whole step *)
Definition dest_here (cl : cluster) (i : nat) (m : lmsg) (j : nat) : bool :=
  bool_decide (j ∈ map idx (dests_of cl i m)) && Nat.ltb j (nlen cl).

Theorem publish_step_spec seen cl c k s p dup mid clk :
  find_conn cl c = Some k → c_closed k = false → c_sid k = Some (ss_id s) →
  alookup (ss_id s) (n_reg (getn cl (c_node k))) = Some s →
  quiescent cl → healthy cl → p_retain p = false → (p_qos p = 0 ∨ p_qos p = 1) →
  let i := c_node k in
  let m := LMsg (prefix_mp (ss_mp s) (p_topic p)) (p_payload p) (p_qos p) false dup in
  Forall (λ d, 1 ≤ d) (dests_of cl i m) →
  ∃ stores, quiet (λ x, negb (is_store x)) stores ∧
    (step seen cl (EPublish c p dup mid clk)).2 =
      stores ++ (if p_qos p =? 1 then wout (cl_bad cl) c (OPubAck mid) else []) ++ dl s ++
      flat_map (λ j, if dest_here cl i m j then deliveries (cl_bad cl) (app_node (getn cl j) m) m else []) (seq 0 (nlen cl)).
Proof.
  intros Hk Hcl Hsid Hs Hq Hh Hret Hqos i m Hpos.
  unfold step. cbn [step_raw]. unfold do_publish, with_session. rewrite Hk, Hcl, Hsid, Hs. fold i.
  assert ((p_qos p =? 0) || (p_qos p =? 1) = true) as -> by (destruct Hqos as [-> | ->]; done).
  fold m. rewrite Hret. unfold worker. cbn [fst snd].
  set (cl1 := setn cl i (getn cl i)).
  assert (Hg1 : ∀ j, getn cl1 j = getn cl j).
  { intros j. unfold cl1. rewrite getn_setn_gen. destruct (Nat.eqb_spec i j) as [Heq|Hne]; [|done]. rewrite Heq. by destruct (j <? nlen cl)%nat. }
  assert (Hl1 : nlen cl1 = nlen cl) by (unfold cl1, nlen; by rewrite setn_length).
  assert (Hh1 : healthy cl1) by (destruct Hh as [Hd Hf]; split; [done|]; intros j; rewrite Hg1; apply Hf).
  rewrite distribute_fold. rewrite Hg1. fold (dests_of cl i m).
  destruct (dist_fold_healthy i m (dests_of cl i m) cl1 [] false Hh1 (idx_nodup _ (dedup_nodup _) Hpos)) as (c' & stores & -> & Q & Hl & Hb & Hc & Hg).
  cbn [fst snd app]. exists stores. split; [done|].
  set (P := dest_here cl i m).
  rewrite (drain_all_spec m P c').
  - rewrite <- !app_assoc. f_equal. f_equal. f_equal. rewrite Hl, Hl1, Hb.
    apply flat_map_ext. intros j. unfold out_of, P, dest_here. rewrite Hg, Hl1, Hg1.
    destruct (bool_decide _ && _) eqn:E; done.
  - intros j Hj. rewrite Hl, Hl1 in Hj. unfold P, dest_here, pending. rewrite Hg, Hl1, Hg1.
    destruct (bool_decide _ && _) eqn:E.
    + exists (n_log (getn cl j)). split; [reflexivity|]. unfold app_node. cbn [n_coff set_log]. by apply Hq.
    + by apply Hq.
Qed.

Lemma flat_map_ext_In' {A B} (f g : A → list B) l : (∀ x, In x l → f x = g x) → flat_map f l = flat_map g l.
Proof. induction l as [|x l IH]; intros H; cbn; [done|]. rewrite H by (by left). f_equal. apply IH. intros y Hy. apply H. by right. Qed.

(** the same with the one-node, QoS 0 case made explicit: one PUBLISH per ByPattern entry hosted
    here whose session is in the registry, with that session's connection and trimmed topic *)
Corollary publish_step_q0_exact seen cl c k s p dup mid clk :
  find_conn cl c = Some k → c_closed k = false → c_sid k = Some (ss_id s) →
  alookup (ss_id s) (n_reg (getn cl (c_node k))) = Some s →
  quiescent cl → healthy cl → p_retain p = false → (p_qos p = 0 ∨ p_qos p = 1) →
  let i := c_node k in
  let m := LMsg (prefix_mp (ss_mp s) (p_topic p)) (p_payload p) (p_qos p) false dup in
  Forall (λ d, 1 ≤ d) (dests_of cl i m) →
  (∀ j u, (j < nlen cl)%nat → u ∈ sub_by_pattern (n_d (getn cl j)) (l_topic m) → s_qos u = 0) →
  ∃ stores, quiet (λ x, negb (is_store x)) stores ∧
    (step seen cl (EPublish c p dup mid clk)).2 =
      stores ++ (if p_qos p =? 1 then wout (cl_bad cl) c (OPubAck mid) else []) ++ dl s ++
      flat_map (λ j, if dest_here cl i m j
                     then flat_map (q0_out (cl_bad cl) (getn cl j) m) (local_recips (getn cl j) (l_topic m)) else [])
               (seq 0 (nlen cl)).
Proof.
  intros Hk Hcl Hsid Hs Hq Hh Hret Hqos i m Hpos Hq0.
  destruct (publish_step_spec seen cl c k s p dup mid clk Hk Hcl Hsid Hs Hq Hh Hret Hqos Hpos) as (stores & Q & E).
  exists stores. split; [done|]. rewrite E. f_equal. f_equal. f_equal.
  apply flat_map_ext_In'. intros j Hj%in_seq. destruct (dest_here _ _ _ j); [|reflexivity].
  unfold deliveries. rewrite send_q0_exact.
  - cbn [snd]. apply flat_map_ext. intros rq. unfold q0_out. done.
  - unfold local_recips. apply Forall_forall. intros rq (u & -> & Hu)%elem_of_list_fmap. cbn.
    apply elem_of_list_In, filter_In in Hu as [Hu _]. apply (Hq0 j u); [lia|by apply elem_of_list_In].
Qed.

(** * C07 composed over the SUBSCRIBE step: after the SUBACK the session is sent exactly the
    messages [Get] returns for each of its filters (in the mount point), in filter order, on its
    own connection, with the mount point trimmed and the stored flags — and nothing else is
    written to anybody in that step.  Which messages [Get] returns is [get_exactly_matching]. *)
Definition sub_f (s : sess) (clk : Z) := λ (acc : node * sess) (fq : string * Z),
  let pat := prefix_mp (ss_mp s) fq.1 in
  (mutate acc.1 (sub_create (n_d acc.1) (ss_id s) pat fq.2 clk), add_topic acc.2 pat).

Lemma add_topic_keeps s t : ss_id (add_topic s t) = ss_id s ∧ ss_mp (add_topic s t) = ss_mp s ∧ ss_conn (add_topic s t) = ss_conn s.
Proof. unfold add_topic. by destruct (existsb _ _). Qed.

Lemma sub_fold_keeps s clk fs : ∀ n0 s0, let r := fold_left (sub_f s clk) fs (n0, s0) in
  n_log r.1 = n_log n0 ∧ n_coff r.1 = n_coff n0 ∧ n_reg r.1 = n_reg n0 ∧ d_ret (n_d r.1) = d_ret (n_d n0) ∧
  ss_id r.2 = ss_id s0 ∧ ss_mp r.2 = ss_mp s0 ∧ ss_conn r.2 = ss_conn s0.
Proof.
  induction fs as [|fq fs IH]; intros n0 s0; cbn [fold_left]; [done|].
  destruct (IH (sub_f s clk (n0, s0) fq).1 (sub_f s clk (n0, s0) fq).2) as (H1 & H2 & H3 & H4 & H5 & H6 & H7).
  rewrite <- surjective_pairing in H1, H2, H3, H4, H5, H6, H7. cbn zeta.
  rewrite H1, H2, H3, H4, H5, H6, H7. unfold sub_f. cbn [fst snd].
  destruct (add_topic_keeps s0 (prefix_mp (ss_mp s) fq.1)) as (A1 & A2 & A3). rewrite A1, A2, A3. done.
Qed.

Definition replay_f (bad : list string) (sid : string) := λ (acc : node * list eobs) (qm : Z * lmsg),
  let r := send bad acc.1 [(sid, qm.1)] qm.2 in (r.1, (acc.2 ++ r.2)%list).
Lemma replay_fold_q0 bad sid replay : ∀ n acc, Forall (λ qm : Z * lmsg, qm.1 = 0) replay →
  fold_left (replay_f bad sid) replay (n, acc) = (n, acc ++ flat_map (λ qm, q0_out bad n qm.2 (sid, 0)) replay).
Proof.
  induction replay as [|[q m] rest IH]; intros n acc Hall; cbn [fold_left flat_map]; [by rewrite app_nil_r|].
  apply Forall_cons in Hall as [Hq Hall]. cbn in Hq. subst q. unfold replay_f at 2. cbn [fst snd].
  rewrite (send_q0_exact bad [(sid, 0)] n m) by (by repeat constructor). cbn [fst snd flat_map]. rewrite app_nil_r.
  rewrite IH by done. by rewrite <- app_assoc.
Qed.

Definition replay_of (d : dstate) (mp : string) (fs : list (string * Z)) : list (Z * lmsg) :=
  flat_map (λ fq, map (λ r, (fq.2, LMsg (p_topic (r_pub r)) (p_payload (r_pub r)) (p_qos (r_pub r)) (p_retain (r_pub r)) (p_dup (r_pub r))))
                      (ret_get d (prefix_mp mp fq.1))) fs.
Lemma replay_of_ret d d' mp fs : d_ret d' = d_ret d → replay_of d' mp fs = replay_of d mp fs.
Proof. intros H. unfold replay_of, ret_get. by rewrite H. Qed.
Lemma replay_of_q0 d mp fs : Forall (λ fq : string * Z, fq.2 = 0) fs → Forall (λ qm : Z * lmsg, qm.1 = 0) (replay_of d mp fs).
Proof.
  intros H. unfold replay_of. apply Forall_forall. intros qm Hin%elem_of_list_In%in_flat_map. destruct Hin as (fq & Hfq & Hqm).
  apply in_map_iff in Hqm as (r & <- & _). cbn. rewrite Forall_forall in H. apply H. by apply elem_of_list_In.
Qed.

Lemma flat_map_flat_map' {A B C} (f : A → list B) (g : B → list C) l : flat_map g (flat_map f l) = flat_map (λ x, flat_map g (f x)) l.
Proof. induction l as [|x l IH]; cbn; [done|]. by rewrite flat_map_app, IH. Qed.
Lemma flat_map_map' {A B C} (h : A → B) (g : B → list C) l : flat_map g (map h l) = flat_map (λ x, g (h x)) l.
Proof. induction l as [|x l IH]; cbn; [done|]. by rewrite IH. Qed.
Lemma flat_map_nil' {A B} (l : list A) : flat_map (λ _ : A, @nil B) l = [].
Proof. by induction l. Qed.

Theorem subscribe_step_spec seen cl c k s mid fs clk :
  find_conn cl c = Some k → c_closed k = false → c_sid k = Some (ss_id s) →
  alookup (ss_id s) (n_reg (getn cl (c_node k))) = Some s →
  quiescent cl → Forall (λ fq : string * Z, fq.2 = 0) fs →
  (step seen cl (ESubscribe c mid fs clk)).2 =
    wout (cl_bad cl) c (OSubAck mid (map snd fs)) ++
    flat_map (λ fq, flat_map (λ r, wout (cl_bad cl) (ss_conn s)
                                     (OPublish (trim_mp (ss_mp s) (p_topic (r_pub r))) (p_payload (r_pub r)) 0 (p_retain (r_pub r)) (p_dup (r_pub r)) 0))
                             (ret_get (n_d (getn cl (c_node k))) (prefix_mp (ss_mp s) fq.1))) fs ++
    dl s.
Proof.
  intros Hk Hcl Hsid Hs Hq Hq0.
  assert (Hi : (c_node k < nlen cl)%nat).
  { destruct (lt_dec (c_node k) (nlen cl)) as [|Hge]; [done|]. rewrite getn_out_of_range in Hs by lia. done. }
  unfold step. cbn [step_raw]. unfold do_subscribe, with_session. rewrite Hk, Hcl, Hsid, Hs.
  set (i := c_node k) in *. set (n := getn cl i) in *.
  change (fold_left _ fs (n, s)) with (fold_left (sub_f s clk) fs (n, s)).
  destruct (sub_fold_keeps s clk fs n s) as (K1 & K2 & K3 & K4 & K5 & K6 & K7). cbn zeta in *.
  destruct (fold_left (sub_f s clk) fs (n, s)) as [n1 s1]. cbn [fst snd] in *.
  set (n2 := sess_update n1 s1).
  set (rp := flat_map _ fs).
  set (fr := fold_left _ rp (n2, [])).
  assert (Hfr : fr = (n2, flat_map (λ qm, q0_out (cl_bad cl) n2 qm.2 (ss_id s, 0)) (replay_of (n_d n) (ss_mp s) fs))).
  { unfold fr, rp. change (flat_map _ fs) with (replay_of (n_d n2) (ss_mp s) fs).
    rewrite (replay_of_ret (n_d n) (n_d n2) (ss_mp s) fs) by exact K4.
    change (fold_left _ (replay_of (n_d n) (ss_mp s) fs) (n2, [])) with (fold_left (replay_f (cl_bad cl) (ss_id s)) (replay_of (n_d n) (ss_mp s) fs) (n2, [])).
    by rewrite replay_fold_q0 by (by apply replay_of_q0). }
  rewrite Hfr. clear Hfr fr rp. cbn [fst snd app].
  rewrite (drain_all_spec (LMsg "" "" 0 false false) (λ _, false)).
  - unfold out_of. rewrite flat_map_nil', app_nil_r. f_equal. f_equal.
    unfold replay_of. rewrite flat_map_flat_map'. apply flat_map_ext. intros fq.
    rewrite flat_map_map'. apply flat_map_ext. intros r.
    unfold q0_out, n2, sess_update. cbn [fst snd n_reg set_reg l_topic l_payload l_retain l_dup].
    rewrite K5, alookup_aset_eq, K6, K7. done.
  - intros j Hj. unfold nlen in Hj. rewrite setn_length in Hj. rewrite getn_setn_gen.
    destruct (Nat.eqb i j && Nat.ltb i (nlen cl)) eqn:E.
    + apply andb_true_iff in E as [->%Nat.eqb_eq _]. unfold n2, sess_update. cbn [n_coff n_log set_reg]. rewrite K2, K1. by apply Hq.
    + by apply Hq.
Qed.

(** C02 / C14 read off the step: every registered session with a matching added subscription on
    any destination node of the publisher — the publisher's own node or another one — whose
    connection accepts writes is sent the message in that very step, under the publisher's topic
    name with the mount point trimmed, payload intact. *)
Corollary publish_step_reaches seen cl c k s p dup mid clk j u s' :
  find_conn cl c = Some k → c_closed k = false → c_sid k = Some (ss_id s) →
  alookup (ss_id s) (n_reg (getn cl (c_node k))) = Some s →
  quiescent cl → healthy cl → p_retain p = false → (p_qos p = 0 ∨ p_qos p = 1) →
  let i := c_node k in
  let m := LMsg (prefix_mp (ss_mp s) (p_topic p)) (p_payload p) (p_qos p) false dup in
  Forall (λ d, 1 ≤ d) (dests_of cl i m) →
  (∀ j u, (j < nlen cl)%nat → u ∈ sub_by_pattern (n_d (getn cl j)) (l_topic m) → s_qos u = 0) →
  (j < nlen cl)%nat → dest_here cl i m j = true →
  u ∈ sub_by_pattern (n_d (getn cl j)) (l_topic m) → s_peer u = n_id (getn cl j) →
  alookup (s_sid u) (n_reg (getn cl j)) = Some s' → existsb (String.eqb (ss_conn s')) (cl_bad cl) = false →
  Out (ss_conn s') (OPublish (trim_mp (ss_mp s') (l_topic m)) (p_payload p) 0 false dup 0) ∈ (step seen cl (EPublish c p dup mid clk)).2.
Proof.
  intros Hk Hcl Hsid Hs Hq Hh Hret Hqos i m Hpos Hq0 Hj Hd Hu Hpeer Hs' Hbad.
  destruct (publish_step_q0_exact seen cl c k s p dup mid clk Hk Hcl Hsid Hs Hq Hh Hret Hqos Hpos Hq0) as (stores & _ & E).
  rewrite E. apply elem_of_app. right. apply elem_of_app. right. apply elem_of_app. right.
  apply elem_of_list_In, in_flat_map. exists j. split; [apply in_seq; lia|]. fold i m. rewrite Hd.
  apply in_flat_map. exists (s_sid u, s_qos u). split.
  - unfold local_recips. apply in_map_iff. exists u. split; [done|]. apply filter_In. split; [by apply elem_of_list_In|]. by apply Z.eqb_eq.
  - unfold q0_out. cbn [fst]. rewrite Hs'. unfold wout. rewrite Hbad. left. done.
Qed.

(** * [quiescent] is what every step re-establishes: after the consumers have run, every node's
    offset is at the end of its log — provided no node was left with more than [drain_fuel]
    (4000) unconsumed entries by the step's own part, which is the only way the fuel of the
    model's consumer loop can run out.  So the premise of the step theorems above holds in the
    initial state and after every step of any history that keeps within that bound. *)
Lemma drain_node_other fuel : ∀ cl i j, i ≠ j → getn (drain_node fuel cl i).1 j = getn cl j.
Proof.
  induction fuel as [|f IH]; intros cl i j Hne; cbn [drain_node]; [done|].
  destruct (nth_error (n_log (getn cl i)) (n_coff (getn cl i))) as [m|]; [|done]. cbn [fst].
  rewrite IH by done. by apply getn_setn_ne.
Qed.
Lemma drain_node_nlen fuel : ∀ cl i, nlen (drain_node fuel cl i).1 = nlen cl.
Proof.
  induction fuel as [|f IH]; intros cl i; cbn [drain_node]; [done|].
  destruct (nth_error (n_log (getn cl i)) (n_coff (getn cl i))) as [m|]; [|done]. cbn [fst].
  rewrite IH. unfold nlen. by rewrite setn_length.
Qed.
Definition caught_up (n : node) : Prop := n_coff n = length (n_log n).
Definition backlog_ok (cl : cluster) : Prop :=
  ∀ j, (j < nlen cl)%nat → (n_coff (getn cl j) ≤ length (n_log (getn cl j)) ∧ length (n_log (getn cl j)) - n_coff (getn cl j) ≤ drain_fuel)%nat.

Lemma drain_fold_quiescent cl0 : ∀ (l : list nat) cl acc, NoDup l → (∀ j, j ∈ l → (j < nlen cl0)%nat) → nlen cl = nlen cl0 →
  (∀ j, j ∈ l → getn cl j = getn cl0 j) → backlog_ok cl0 →
  let r := fold_left drain_f l (cl, acc) in
  nlen r.1 = nlen cl0 ∧ (∀ j, j ∈ l → caught_up (getn r.1 j)) ∧ (∀ j, j ∉ l → getn r.1 j = getn cl j).
Proof.
  induction l as [|i l IH]; intros cl acc Hnd Hlt Hlen Hsame Hb; cbn [fold_left].
  { cbn zeta. split; [done|]. split; [by intros j ?%elem_of_nil|done]. }
  apply NoDup_cons in Hnd as [Hni Hnd]. unfold drain_f at 2. cbn [fst snd].
  assert (Hi : (i < nlen cl0)%nat) by (apply Hlt; left).
  assert (Hgi : getn cl i = getn cl0 i) by (apply Hsame; left).
  destruct (Hb i Hi) as [Hle Hfuel].
  pose proof (drain_consumes_everything drain_fuel cl i) as Hd. unfold nlen in *. rewrite Hlen, Hgi in Hd.
  specialize (Hd Hi Hfuel). cbn zeta in Hd. destruct Hd as [Hlog Hoff].
  set (cl' := (drain_node drain_fuel cl i).1) in *.
  assert (Hl' : length (cl_nodes cl') = length (cl_nodes cl0)) by (pose proof (drain_node_nlen drain_fuel cl i) as H; unfold nlen in H; unfold cl'; by rewrite H).
  destruct (IH cl' (acc ++ (drain_node drain_fuel cl i).2) Hnd) as (R1 & R2 & R3); try done.
  - intros j Hj. apply Hlt. by right.
  - intros j Hj. unfold cl'. rewrite drain_node_other; [apply Hsame; by right|]. intros ->. done.
  - cbn zeta in *. split; [done|]. split.
    + intros j [->|Hj]%elem_of_cons; [|by apply R2].
      rewrite R3 by done. unfold caught_up. rewrite Hlog, Hoff. lia.
    + intros j Hj. apply not_elem_of_cons in Hj as [Hne Hj]. rewrite R3 by done. unfold cl'. by apply drain_node_other.
Qed.

Theorem drain_all_quiescent cl : backlog_ok cl → quiescent (drain_all cl).1.
Proof.
  intros Hb. unfold drain_all.
  change (fold_left _ (seq 0 (length (cl_nodes cl))) (cl, [])) with (fold_left drain_f (seq 0 (nlen cl)) (cl, [])).
  destruct (drain_fold_quiescent cl (seq 0 (nlen cl)) cl []) as (R1 & R2 & _); try done.
  - apply NoDup_ListNoDup, seq_NoDup.
  - intros j Hj%elem_of_list_In%in_seq. lia.
  - cbn zeta in *. intros j Hj. rewrite R1 in Hj. apply R2. apply elem_of_list_In, in_seq. lia.
Qed.
Corollary step_reestablishes_quiescence seen cl o : backlog_ok (step_raw seen cl o).1 → quiescent (step seen cl o).1.
Proof. intros H. unfold step. cbn [fst]. by apply drain_all_quiescent. Qed.
Lemma cnew_quiescent k : quiescent (cnew k).
Proof.
  intros j Hj. unfold getn, cnew. cbn [cl_nodes]. unfold nlen, cnew in Hj. cbn [cl_nodes] in Hj. rewrite map_length, seq_length in Hj.
  rewrite (nth_indep _ (nnew 0) (nnew (Z.of_nat (S 0)))) by (by rewrite map_length, seq_length).
  change (nnew (Z.of_nat 1)) with ((λ i, nnew (Z.of_nat (S i))) 0%nat). rewrite map_nth. done.
Qed.

(** * the publish step for retained publishes as well: the worker first writes (or clears) the
    retained store of the publisher's node, which touches neither subscriptions nor registry,
    logs, offsets, pool or in-flight table; everything else is as in [publish_step_spec], read
    in the cluster [after_retain].  The copies written to the live subscribers carry no retain
    flag ([m] has [l_retain = false]) — C07's "the live copy is not flagged". *)
Definition retain_node (n : node) (p : publish) (mp : string) (dup : bool) (clk : Z) : node :=
  if p_retain p then
    (if String.eqb (p_payload p) "" then mutate n (ret_delete (n_d n) (prefix_mp mp (p_topic p)) clk)
     else mutate n (ret_set (n_d n) (Publish (prefix_mp mp (p_topic p)) (p_payload p) (p_qos p) true dup) clk))
  else n.
Definition after_retain (cl : cluster) (i : nat) (p : publish) (mp : string) (dup : bool) (clk : Z) : cluster :=
  setn cl i (retain_node (getn cl i) p mp dup clk).

Lemma retain_node_keeps n p mp dup clk : let n' := retain_node n p mp dup clk in
  n_log n' = n_log n ∧ n_coff n' = n_coff n ∧ n_fail n' = n_fail n ∧ n_reg n' = n_reg n ∧ n_acks n' = n_acks n ∧
  n_pool n' = n_pool n ∧ n_id n' = n_id n ∧ d_subs (n_d n') = d_subs (n_d n) ∧ d_sess (n_d n') = d_sess (n_d n).
Proof. unfold retain_node. destruct (p_retain p); [|done]. destruct (String.eqb (p_payload p) ""); done. Qed.

Lemma after_retain_getn cl i p mp dup clk j :
  getn (after_retain cl i p mp dup clk) j = if Nat.eqb i j && Nat.ltb i (nlen cl) then retain_node (getn cl i) p mp dup clk else getn cl j.
Proof. unfold after_retain. apply getn_setn_gen. Qed.

Theorem publish_step_spec_retained seen cl c k s p dup mid clk :
  find_conn cl c = Some k → c_closed k = false → c_sid k = Some (ss_id s) →
  alookup (ss_id s) (n_reg (getn cl (c_node k))) = Some s →
  quiescent cl → healthy cl → (p_qos p = 0 ∨ p_qos p = 1) →
  let i := c_node k in
  let m := LMsg (prefix_mp (ss_mp s) (p_topic p)) (p_payload p) (p_qos p) false dup in
  let cl1 := after_retain cl i p (ss_mp s) dup clk in
  Forall (λ d, 1 ≤ d) (dests_of cl1 i m) →
  ∃ stores, quiet (λ x, negb (is_store x)) stores ∧
    (step seen cl (EPublish c p dup mid clk)).2 =
      stores ++ (if p_qos p =? 1 then wout (cl_bad cl) c (OPubAck mid) else []) ++ dl s ++
      flat_map (λ j, if dest_here cl1 i m j then deliveries (cl_bad cl) (app_node (getn cl1 j) m) m else []) (seq 0 (nlen cl)).
Proof.
  intros Hk Hcl Hsid Hs Hq Hh Hqos i m cl1 Hpos.
  unfold step. cbn [step_raw]. unfold do_publish, with_session. rewrite Hk, Hcl, Hsid, Hs. fold i.
  assert ((p_qos p =? 0) || (p_qos p =? 1) = true) as -> by (destruct Hqos as [-> | ->]; done).
  fold m. unfold worker. cbn [fst snd l_payload l_topic l_qos l_dup m].
  change (setn cl i _) with cl1.
  assert (Hl1 : nlen cl1 = nlen cl) by (unfold cl1, after_retain, nlen; by rewrite setn_length).
  assert (Hkeep : ∀ j, n_log (getn cl1 j) = n_log (getn cl j) ∧ n_coff (getn cl1 j) = n_coff (getn cl j) ∧ n_fail (getn cl1 j) = n_fail (getn cl j)).
  { intros j. unfold cl1. rewrite after_retain_getn. destruct (Nat.eqb i j && Nat.ltb i (nlen cl)) eqn:E; [|done].
    apply andb_true_iff in E as [->%Nat.eqb_eq _]. destruct (retain_node_keeps (getn cl j) p (ss_mp s) dup clk) as (K1 & K2 & K3 & _). done. }
  assert (Hh1 : healthy cl1).
  { destruct Hh as [Hd Hf]. split; [done|]. intros j. destruct (Hkeep j) as (_ & _ & ->). apply Hf. }
  rewrite distribute_fold. fold (dests_of cl1 i m).
  destruct (dist_fold_healthy i m (dests_of cl1 i m) cl1 [] false Hh1 (idx_nodup _ (dedup_nodup _) Hpos)) as (c' & stores & -> & Q & Hl & Hb & Hc & Hg).
  cbn [fst snd app]. exists stores. split; [done|].
  set (P := dest_here cl1 i m).
  rewrite (drain_all_spec m P c').
  - rewrite <- !app_assoc. f_equal. f_equal. f_equal. rewrite Hl, Hl1, Hb.
    apply flat_map_ext. intros j. unfold out_of, P, dest_here. rewrite Hg, Hl1.
    destruct (bool_decide _ && _) eqn:E; done.
  - intros j Hj. rewrite Hl, Hl1 in Hj. unfold P, dest_here, pending. rewrite Hg, Hl1. destruct (Hkeep j) as (K1 & K2 & _).
    destruct (bool_decide _ && _) eqn:E.
    + exists (n_log (getn cl1 j)). split; [reflexivity|]. unfold app_node. cbn [n_coff set_log]. rewrite K1, K2. by apply Hq.
    + rewrite K1, K2. by apply Hq.
Qed.

Lemma after_retain_subs cl i p mp dup clk j topic :
  sub_by_pattern (n_d (getn (after_retain cl i p mp dup clk) j)) topic = sub_by_pattern (n_d (getn cl j)) topic.
Proof.
  rewrite after_retain_getn. destruct (Nat.eqb i j && Nat.ltb i (nlen cl)) eqn:E; [|done].
  apply andb_true_iff in E as [->%Nat.eqb_eq _].
  destruct (retain_node_keeps (getn cl j) p mp dup clk) as (_ & _ & _ & _ & _ & _ & _ & K & _).
  unfold sub_by_pattern. by rewrite K.
Qed.
Lemma after_retain_reg cl i p mp dup clk j : n_reg (getn (after_retain cl i p mp dup clk) j) = n_reg (getn cl j).
Proof.
  rewrite after_retain_getn. destruct (Nat.eqb i j && Nat.ltb i (nlen cl)) eqn:E; [|done].
  apply andb_true_iff in E as [->%Nat.eqb_eq _].
  by destruct (retain_node_keeps (getn cl j) p mp dup clk) as (_ & _ & _ & K & _).
Qed.
Lemma after_retain_untouched cl i p mp dup clk j topic :
  sub_by_pattern (n_d (getn (after_retain cl i p mp dup clk) j)) topic = sub_by_pattern (n_d (getn cl j)) topic
  ∧ n_reg (getn (after_retain cl i p mp dup clk) j) = n_reg (getn cl j).
Proof. split; [apply after_retain_subs|apply after_retain_reg]. Qed.
