(** BrokerSpec — the specification-level oracle of family "broker".  It never consults the node
    model: from the script alone it tracks which sessions exist (connection, node, mount point,
    client identifier, active filters, will), what is retained, which inbound QoS 2 handshakes
    and which outbound deliveries (by their REAL packet identifiers, as observed) are pending,
    which nodes are unreachable or about to fail an append, and which node has not yet been told
    what by gossip; and it checks each step's observations against what the properties demand:

      C11  a connection is closed only by a cause on that connection, and a cause closes it;
           CONNACK 0 arms at least 1.5 x keep-alive; listings show exactly the live sessions and
           their filters
      C16  a refused CONNECT gets a refusal code and no session
      C12  a displaced session gets no PINGRESP and is closed; the live one is answered
      C05  PUBACK / PUBCOMP iff every store succeeded; nothing is stored on a QoS 2 PUBLISH alone
           or on a PUBREL without a pending handshake
      C14  exactly one append per node hosting a matching live subscriber that is reachable
      C01/C02/C17  the PUBLISH packets written in a publishing step are exactly one per matching
           filter of every live session in the publisher's mount point, with the publisher's topic
      C07  after SUBACK exactly the retained messages matching each filter, flagged
      C13  a will is published on every unclean end and only then
      C03/C06  a new delivery never uses an identifier that is in flight on that node; a sweep
           re-sends every pending delivery of a live session once, same packet, same identifier,
           and nothing else; PUBREC is answered by PUBREL with the same identifier

    Every check is skipped when its premise is not met (faults active, gossip outstanding,
    topics or filters outside the theorems' hypotheses), never weakened. *)
From Wasp Require Export Model.Base Spec.MatchSpec Model.DState Model.IdPool Model.Mount Model.Node.
From Wasp Require Import Corr.DState.
Open Scope Z_scope.

Record osess := OSess { oc : string; onode : nat; oidx : nat; osid : string; omp : string; ocid : string; oalive : bool;
                        ofil : list (string * Z); owill : option publish; oka : Z; obadw : bool;
                        otomb : bool;             (* its record was removed by a later CONNECT with its identifier *)
                        oknown : list nat }.      (* nodes that have been told of its creation *)
(* an outbound QoS>0 delivery seen on the wire, by its real identifier *)
Record oexch := OExch { xnode : nat; xc : string; xmid : Z; xpkt : opkt; xrel : bool }.
(* an inbound QoS 2 PUBLISH answered by PUBREC, waiting for PUBREL *)
Record oin2 := OIn2 { ic : string; imid : Z; itopic : string; ipayload : string; iretain : bool; idup : bool }.
Record ost := OSt {
  t_sess : list osess; t_next : nat; t_ret : list (string * (string * bool));  (* prefixed topic -> payload, DUP flag it arrived with *)
  t_exch : list oexch; t_in2 : list oin2; t_down : list nat; t_fail : list (nat * nat);
  t_dirty : list (nat * nat); t_nodes : nat; t_seen : seen_t; t_left : list (nat * nat);
  t_unsure : bool }.   (* an identifier resolved to two records at once: which one a CONNECT removes depends on map order *)
Definition oinit (k : nat) : ost := OSt [] 1 [] [] [] [] [] [] k [] [] false.

Definition set_sess st v := OSt v (t_next st) (t_ret st) (t_exch st) (t_in2 st) (t_down st) (t_fail st) (t_dirty st) (t_nodes st) (t_seen st) (t_left st) (t_unsure st).
Definition set_next st v := OSt (t_sess st) v (t_ret st) (t_exch st) (t_in2 st) (t_down st) (t_fail st) (t_dirty st) (t_nodes st) (t_seen st) (t_left st) (t_unsure st).
Definition set_ret st v := OSt (t_sess st) (t_next st) v (t_exch st) (t_in2 st) (t_down st) (t_fail st) (t_dirty st) (t_nodes st) (t_seen st) (t_left st) (t_unsure st).
Definition set_exch st v := OSt (t_sess st) (t_next st) (t_ret st) v (t_in2 st) (t_down st) (t_fail st) (t_dirty st) (t_nodes st) (t_seen st) (t_left st) (t_unsure st).
Definition set_in2 st v := OSt (t_sess st) (t_next st) (t_ret st) (t_exch st) v (t_down st) (t_fail st) (t_dirty st) (t_nodes st) (t_seen st) (t_left st) (t_unsure st).
Definition set_down st v := OSt (t_sess st) (t_next st) (t_ret st) (t_exch st) (t_in2 st) v (t_fail st) (t_dirty st) (t_nodes st) (t_seen st) (t_left st) (t_unsure st).
Definition set_failn st v := OSt (t_sess st) (t_next st) (t_ret st) (t_exch st) (t_in2 st) (t_down st) v (t_dirty st) (t_nodes st) (t_seen st) (t_left st) (t_unsure st).
Definition set_dirty st v := OSt (t_sess st) (t_next st) (t_ret st) (t_exch st) (t_in2 st) (t_down st) (t_fail st) v (t_nodes st) (t_seen st) (t_left st) (t_unsure st).
Definition set_seen st v := OSt (t_sess st) (t_next st) (t_ret st) (t_exch st) (t_in2 st) (t_down st) (t_fail st) (t_dirty st) (t_nodes st) v (t_left st) (t_unsure st).
Definition set_left st v := OSt (t_sess st) (t_next st) (t_ret st) (t_exch st) (t_in2 st) (t_down st) (t_fail st) (t_dirty st) (t_nodes st) (t_seen st) v (t_unsure st).
Definition set_unsure st v := OSt (t_sess st) (t_next st) (t_ret st) (t_exch st) (t_in2 st) (t_down st) (t_fail st) (t_dirty st) (t_nodes st) (t_seen st) (t_left st) v.

Definition s_alive x v := OSess (oc x) (onode x) (oidx x) (osid x) (omp x) (ocid x) v (ofil x) (owill x) (oka x) (obadw x) (otomb x) (oknown x).
Definition s_fil x v := OSess (oc x) (onode x) (oidx x) (osid x) (omp x) (ocid x) (oalive x) v (owill x) (oka x) (obadw x) (otomb x) (oknown x).
Definition s_badw x v := OSess (oc x) (onode x) (oidx x) (osid x) (omp x) (ocid x) (oalive x) (ofil x) (owill x) (oka x) v (otomb x) (oknown x).
Definition s_tomb x v := OSess (oc x) (onode x) (oidx x) (osid x) (omp x) (ocid x) (oalive x) (ofil x) (owill x) (oka x) (obadw x) v (oknown x).
Definition s_known x v := OSess (oc x) (onode x) (oidx x) (osid x) (omp x) (ocid x) (oalive x) (ofil x) (owill x) (oka x) (obadw x) (otomb x) v.
Definition upd_sess (st : ost) (f : osess -> osess) (c : string) : ost :=
  set_sess st (map (fun x => if String.eqb (oc x) c then f x else x) (t_sess st)).
Definition find_sess (st : ost) (c : string) : option osess := find (fun x => String.eqb (oc x) c) (t_sess st).
Definition live (st : ost) (c : string) : bool := match find_sess st c with Some x => oalive x | None => false end.
Definition writable (st : ost) (c : string) : bool := match find_sess st c with Some x => oalive x && negb (obadw x) | None => false end.
Definition pair_eqb (a b : nat * nat) : bool := Nat.eqb (fst a) (fst b) && Nat.eqb (snd a) (snd b).
Definition nat_mem (n : nat) (l : list nat) : bool := existsb (Nat.eqb n) l.
(* node a changed replicated state: every other node is behind until told *)
Definition dirty_from (st : ost) (a : nat) : ost :=
  set_dirty st (map (fun b => (a, b)) (filter (fun b => negb (Nat.eqb a b)) (seq 0 (t_nodes st))) ++ t_dirty st)%list.
Definition told_all (st : ost) (n : nat) : bool := negb (existsb (fun p => Nat.eqb (snd p) n) (t_dirty st)).
Definition knows_all (st : ost) (n : nat) : bool := told_all st n && is_nil (t_left st).
Definition failing (st : ost) (n : nat) : bool := existsb (fun p => Nat.eqb (fst p) n && negb (Nat.eqb (snd p) 0)) (t_fail st).
(* a later session with the same client identifier in the same mount point *)
Definition later_same (st : ost) (x : osess) : list osess :=
  filter (fun y => String.eqb (omp y) (omp x) && String.eqb (ocid y) (ocid x) && Nat.ltb (oidx x) (oidx y)) (t_sess st).

(** observation projections *)
Definition outs_to (c : string) (obs : list eobs) : list opkt := flat_map (fun o => match o with Out c' p => if String.eqb c' c then [p] else [] | _ => [] end) obs.
Definition has_closed (c : string) (obs : list eobs) : bool := existsb (fun o => match o with Closed c' => String.eqb c' c | _ => false end) obs.
Definition closed_list (obs : list eobs) : list string := flat_map (fun o => match o with Closed c => [c] | _ => [] end) obs.
Definition has_bad_store (obs : list eobs) : bool := existsb (fun o => match o with AppendFailed _ | Call _ _ false => true | _ => false end) obs.
Definition appended_nodes (obs : list eobs) : list nat := flat_map (fun o => match o with Appended n _ _ _ _ => [n] | _ => [] end) obs.
Definition has_store (obs : list eobs) : bool := existsb (fun o => match o with Appended _ _ _ _ _ | AppendFailed _ | Call _ _ _ => true | _ => false end) obs.
(* (connection, topic, payload, qos, retain, dup) of every PUBLISH written in the step *)
Definition pub6 : Type := (string * string * string * Z * bool * bool)%type.
Definition pub6_eqb (a b : pub6) : bool :=
  let '(c, t, p, q, r, d) := a in let '(c', t', p', q', r', d') := b in
  String.eqb c c' && String.eqb t t' && String.eqb p p' && (q =? q') && Bool.eqb r r' && Bool.eqb d d'.
Definition publishes (obs : list eobs) : list pub6 :=
  flat_map (fun o => match o with Out c (OPublish t p q r d _) => [(c, t, p, q, r, d)] | _ => [] end) obs.
Definition has_pkt (c : string) (f : opkt -> bool) (obs : list eobs) : bool := existsb f (outs_to c obs).
Definition quiet (obs : list eobs) : bool := negb (has_store obs) && is_nil (publishes obs).
Definition chk (b : bool) (code : nat) : list nat := if b then [] else [code].

(* per connection: the distinct broker-chosen identifiers per (topic, payload, qos), in order of first appearance *)
Definition see1 (seen : seen_t) (o : eobs) : seen_t :=
  match o with
  | Out c (OPublish t p q _ _ m) =>
    if 0 <? q then
      let l := odflt [] (alookup c seen) in
      let key_eq := fun e : (string * string * Z) * list Z => String.eqb (fst (fst (fst e))) t && String.eqb (snd (fst (fst e))) p && (snd (fst e) =? q) in
      let l' := match find key_eq l with
                | Some e => if existsb (Z.eqb m) (snd e) then l
                            else map (fun x => if key_eq x then (fst x, (snd x ++ [m])%list) else x) l
                | None => (l ++ [((t, p, q), [m])])%list
                end in
      aset c l' seen
    else seen
  | _ => seen
  end.

(** what the properties demand of a message entering the publish path on node [i] *)
Definition hosts_match (st : ost) (mp t : string) (n : nat) : bool :=
  existsb (fun x => oalive x && Nat.eqb (onode x) n && String.eqb (omp x) mp && existsb (fun fq => mmatch (levels (fst fq)) (levels t)) (ofil x)) (t_sess st).
Definition dests_of (st : ost) (mp t : string) : list nat := filter (hosts_match st mp t) (seq 0 (t_nodes st)).
Definition stored_at (st : ost) (i j : nat) : bool := negb (failing st j) && (Nat.eqb j i || negb (nat_mem j (t_down st))).
(* one PUBLISH per matching filter of every live session of the mount point on a node that stored the message *)
Definition expected_deliveries (st : ost) (i : nat) (mp t p : string) (retain dup : bool) : list pub6 :=
  flat_map (fun x => if oalive x && negb (obadw x) && String.eqb (omp x) mp && stored_at st i (onode x) then
                       flat_map (fun fq => if mmatch (levels (fst fq)) (levels t) then [(oc x, t, p, snd fq, retain, dup)] else []) (ofil x)
                     else []) (t_sess st).
Definition check_publish (st : ost) (i : nat) (mp t p : string) (dup : bool) (obs : list eobs) : list nat :=
  if negb (knows_all st i) || negb (topic_ok (levels t)) then []
  else (chk (perm_eqb Nat.eqb (appended_nodes obs) (filter (stored_at st i) (dests_of st mp t))) 20
        ++ chk (perm_eqb pub6_eqb (publishes obs) (expected_deliveries st i mp t p false dup)) 21)%list.
(* an injected append failure is used up by the first append attempted at that node *)
Definition consume_fail (st : ost) (i : nat) (mp t : string) : ost :=
  let dests := dests_of st mp t in
  set_failn st (map (fun pr => if nat_mem (fst pr) dests && (Nat.eqb (fst pr) i || negb (nat_mem (fst pr) (t_down st))) then (fst pr, Nat.pred (snd pr)) else pr) (t_fail st)).
Definition set_retained (st : ost) (i : nat) (mp t p : string) (dup : bool) : ost :=
  let k := prefix_mp mp t in
  dirty_from (set_ret st (if String.eqb p "" then adel k (t_ret st) else aset k (p, dup) (t_ret st))) i.

Definition end_session_o (st : ost) (c : string) : ost :=
  let n := match find_sess st c with Some x => onode x | None => O end in
  let st1 := upd_sess st (fun x => s_alive x false) c in
  (* its pending handshakes stay in the in-flight table until the next sweep, like its deliveries *)
  dirty_from st1 n.
(* a session ends: the connection is closed; a will exactly when the end is unclean (displacement aside) *)
Definition check_end (st : ost) (c : string) (clean : bool) (obs : list eobs) : ost * list nat :=
  match find_sess st c with
  | None => (st, [])
  | Some x =>
    if negb (oalive x) then (st, []) else
    let st' := end_session_o st c in
    let closed := chk (has_closed c obs) 60 in
    match owill x with
    | Some w =>
      if clean then (st', closed ++ chk (quiet obs) 61)%list
      else if negb (is_nil (later_same st x)) then
        (* displaced at some point: whether the will is due depends on what this node had been told *)
        (if quiet obs then st' else if p_retain w then set_retained st' (onode x) (omp x) (p_topic w) (p_payload w) false else st', closed)
      else
        let st'' := if p_retain w then set_retained st' (onode x) (omp x) (p_topic w) (p_payload w) false else st' in
        (consume_fail st'' (onode x) (omp x) (p_topic w), closed ++ check_publish st' (onode x) (omp x) (p_topic w) (p_payload w) false obs)%list
    | None => (st', closed ++ chk (quiet obs) 61)%list
    end
  end.

(* the event of a step can close only its own connection *)
Definition cause_of (o : eop) : list string :=
  match o with
  | EConnect _ c _ _ _ _ _ _ | EBadConnect _ c | EPublish c _ _ _ _ | EPing c _ | EDisconnect c _ | EProtoError c _ | EEof c _
  | ENoop c (* a packet only a broker sends: a protocol error if the broker chooses to treat it so *) => [c]
  | _ => []
  end.

(** in-flight discipline on the real identifiers *)
Definition exch_key (e : oexch) (n : nat) (m : Z) : bool := Nat.eqb (xnode e) n && (xmid e =? m).
Definition new_deliveries (st : ost) (obs : list eobs) : ost * list nat :=
  fold_left (fun acc o =>
    match o with
    | Out c (OPublish t p q r d m) =>
      if 0 <? q then
        let s := fst acc in
        let n := match find_sess s c with Some x => onode x | None => O end in
        (set_exch s (OExch n c m (OPublish t p q r d m) false :: t_exch s),
         snd acc ++ chk (negb (existsb (fun e => exch_key e n m) (t_exch s)) && (1 <=? m) && (m <=? 65535)) 100)%list
      else acc
    | _ => acc
    end) obs (st, []).
Definition opkt_same (a b : opkt) : bool :=
  match a, b with
  | OPublish t p q r d m, OPublish t' p' q' r' d' m' => String.eqb t t' && String.eqb p p' && (q =? q') && Bool.eqb r r' && Bool.eqb d d' && (m =? m')
  | OPubRel m, OPubRel m' => m =? m'
  | _, _ => false
  end.
Definition resend_of (e : oexch) : string * opkt := (xc e, if xrel e then OPubRel (xmid e) else xpkt e).
Definition sp_eqb (a b : string * opkt) : bool := String.eqb (fst a) (fst b) && opkt_same (snd a) (snd b).
Definition resends (obs : list eobs) : list (string * opkt) :=
  flat_map (fun o => match o with
                     | Out c (OPublish t p q r d m) => if 0 <? q then [(c, OPublish t p q r d m)] else []
                     | Out c (OPubRel m) => [(c, OPubRel m)]
                     | _ => [] end) obs.
Definition sub_add (l : list (string * Z)) (fq : string * Z) : list (string * Z) :=
  if existsb (fun g => String.eqb (fst g) (fst fq)) l then map (fun g => if String.eqb (fst g) (fst fq) then fq else g) l else (l ++ [fq])%list.
(* within one SUBSCRIBE the harness clock does not advance: the first occurrence of a repeated filter stands *)
Definition first_occ (fs : list (string * Z)) : list (string * Z) :=
  fold_left (fun l fq => if existsb (fun g => String.eqb (fst g) (fst fq)) l then l else (l ++ [fq])%list) fs [].
Definition ss_eqb (a b : string * string) : bool := String.eqb (fst a) (fst b) && String.eqb (snd a) (snd b).

(* a survivor [o] publishes the will of every session the failed node hosted that it still lists,
   under the session's mount point, and delivers it to its own matching subscribers *)
Definition leave_demands (st : ost) (o : nat) (wills : list (osess * publish)) (obs : list eobs) : list nat :=
  (
         chk (perm_eqb (fun a b : string * string => String.eqb (fst a) (fst b) && String.eqb (snd a) (snd b))
                (flat_map (fun ob => match ob with Appended n t p _ _ => if Nat.eqb n o then [(t, p)] else [] | _ => [] end) obs)
                (map (fun zw => (prefix_mp (omp (fst zw)) (p_topic (snd zw)), p_payload (snd zw))) wills)) 96
         ++ chk (negb (forallb (fun zw => topic_ok (levels (p_topic (snd zw)))) wills) ||
                 perm_eqb pub6_eqb (publishes obs)
                   (flat_map (fun zw => flat_map (fun x => if oalive x && negb (obadw x) && String.eqb (omp x) (omp (fst zw)) && Nat.eqb (onode x) o then
                                                             flat_map (fun fq => if mmatch (levels (fst fq)) (levels (p_topic (snd zw)))
                                                                                 then [(oc x, p_topic (snd zw), p_payload (snd zw), snd fq, p_retain (snd zw), false)] else []) (ofil x)
                                                           else []) (t_sess st)) wills)) 97)%list.

Definition ostep (st : ost) (s : eop * list eobs) : ost * list nat :=
  let '(o, obs) := s in
  let closes := chk (forallb (fun c => existsb (String.eqb c) (cause_of o)) (closed_list obs)) 1 in
  let garbage := chk (forallb (fun ob => match ob with Garbage _ => false | _ => true end) obs) 2 in
  let res : ost * list nat :=
    match o with
    | EConnect n c cid user pass ka will clk =>
      if String.eqb pass "bad" || String.eqb pass "bad-static" then
        (st, chk (has_pkt c (fun p => match p with OConnAck code => negb (code =? 0) | _ => false end) obs
                  && negb (has_pkt c (fun p => match p with OConnAck 0 => true | _ => false end) obs) && quiet obs) 10
             (* a connection without a session stays under the CONNECT allowance *)
             ++ chk (has_closed c obs || existsb (fun ob => match ob with Deadline c' ms => String.eqb c' c && (0 <? ms) && (ms <=? 600000) | _ => false end) obs) 14)%list
      else
        let mp := if String.eqb user "" then "_default" else user in
        let x := OSess c n (t_next st) (session_id (t_next st)) mp cid true [] will ka false false [n] in
        (* the records this node resolves the identifier to: setup removes the one it finds *)
        let cands := filter (fun z => oalive z && negb (otomb z) && String.eqb (omp z) mp && String.eqb (ocid z) cid && nat_mem n (oknown z)) (t_sess st) in
        let st := match cands with
                  | [] => st
                  | [z] => upd_sess st (fun y => s_tomb y true) (oc z)
                  | _ => set_unsure st true
                  end in
        if has_pkt c (fun p => match p with OConnAck 0 => true | _ => false end) obs then
          (dirty_from (set_next (set_sess st (t_sess st ++ [x])%list) (S (t_next st))) n,
           chk (existsb (fun ob => match ob with Deadline c' ms => String.eqb c' c && (1500 * ka <=? ms) | _ => false end) obs
                && negb (has_closed c obs) && quiet obs) 11)
        else
          (* not admitted: legitimate only for an identifier that is not well-formed UTF-8; then the
             connection is closed and nothing is created (the authenticator did hand out an id) *)
          (set_next st (S (t_next st)), chk (negb (utf8_ok cid && utf8_ok mp) && (has_closed c obs || has_pkt c (fun p => match p with OConnAck code => negb (code =? 0) | _ => false end) obs) && quiet obs) 13)
    (* a first packet that is not a CONNECT: no session, nothing published; whether the broker answers before hanging up is its business *)
    | EBadConnect n c => (st, chk (negb (has_pkt c (fun p => match p with OConnAck 0 => true | _ => false end) obs) && quiet obs) 12)
    | EPublish c p dup mid clk =>
      match find_sess st c with
      | None => (st, [])
      | Some x =>
        if negb (oalive x) then (st, chk (quiet obs) 25) else
        if (p_qos p =? 0) || (p_qos p =? 1) then
          let st1 := if p_retain p then set_retained st (onode x) (omp x) (p_topic p) (p_payload p) dup else st in
          (consume_fail st1 (onode x) (omp x) (p_topic p),
           check_publish st (onode x) (omp x) (p_topic p) (p_payload p) dup obs
           ++ chk ((p_qos p =? 0) || obadw x || Bool.eqb (has_pkt c (fun q => match q with OPubAck m => m =? mid | _ => false end) obs) (negb (has_bad_store obs))) 22
           ++ chk (negb (has_closed c obs)) 26)%list
        else if p_qos p =? 2 then
          if has_closed c obs then
            let r := check_end st c false obs in
            (fst r, snd r ++ chk ((mid =? 0) || existsb (fun e => String.eqb (ic e) c && (imid e =? mid)) (t_in2 st)) 24)%list
          else
            (set_in2 st (OIn2 c mid (p_topic p) (p_payload p) (p_retain p) dup :: t_in2 st),
             chk (quiet obs && (obadw x || has_pkt c (fun q => match q with OPubRec m => m =? mid | _ => false end) obs)) 23)
        else (st, chk (quiet obs) 23)
      end
    | ESubscribe c mid fs clk =>
      match find_sess st c with
      | None => (st, [])
      | Some x =>
        if negb (oalive x) then (st, chk (quiet obs) 25) else
        let st1 := dirty_from (upd_sess st (fun y => s_fil y (fold_left sub_add (first_occ fs) (ofil y))) c) (onode x) in
        let replay := flat_map (fun fq => flat_map (fun kv => if mmatch (levels (prefix_mp (omp x) (fst fq))) (levels (fst kv))
                                                              then [(c, trim_mp (omp x) (fst kv), fst (snd kv), snd fq, true, snd (snd kv))] else []) (t_ret st)) fs in
        (st1,
         chk (obadw x || has_pkt c (fun q => match q with OSubAck m qs => (m =? mid) && Nat.eqb (length qs) (length fs) | _ => false end) obs) 30
         ++ chk (negb (knows_all st (onode x)) || negb (forallb (fun fq => filter_ok (levels (fst fq))) fs)
                 || negb (forallb (fun kv => topic_ok (levels (fst kv))) (t_ret st)) || obadw x
                 || perm_eqb pub6_eqb (publishes obs) replay) 31
         ++ chk (negb (has_store obs)) 33)%list
      end
    | EUnsubscribe c mid fs clk =>
      match find_sess st c with
      | None => (st, [])
      | Some x =>
        if negb (oalive x) then (st, chk (quiet obs) 25) else
        (dirty_from (upd_sess st (fun y => s_fil y (filter (fun g => negb (existsb (String.eqb (fst g)) fs)) (ofil y))) c) (onode x),
         chk ((obadw x || has_pkt c (fun q => match q with OUnsubAck m => m =? mid | _ => false end) obs) && quiet obs) 32)
      end
    | EAck c ty r clk =>
      match find_sess st c with
      | None => (st, [])
      | Some x =>
        if negb (oalive x) then (st, chk (quiet obs) 25) else
        let m := resolve (t_seen st) c r in
        if ty =? PUBREL then
          match find (fun e => String.eqb (ic e) c && (imid e =? m)) (t_in2 st) with
          | Some e =>
            let st1 := set_in2 st (filter (fun e' => negb (String.eqb (ic e') c && (imid e' =? m))) (t_in2 st)) in
            let st2 := if iretain e then set_retained st1 (onode x) (omp x) (itopic e) (ipayload e) (idup e) else st1 in
            (consume_fail st2 (onode x) (omp x) (itopic e),
             check_publish st (onode x) (omp x) (itopic e) (ipayload e) (idup e) obs
             ++ chk (obadw x || Bool.eqb (has_pkt c (fun q => match q with OPubComp m' => m' =? m | _ => false end) obs) (negb (has_bad_store obs))) 41)%list
          | None => (st, chk (quiet obs && negb (has_pkt c (fun q => match q with OPubComp _ => true | _ => false end) obs)) 42)
          end
        else
          match find (fun e => exch_key e (onode x) m && String.eqb (xc e) c) (t_exch st) with
          | Some e =>
            let q := match xpkt e with OPublish _ _ q _ _ _ => q | _ => 0 end in
            if (ty =? PUBACK) && (q =? 1) && negb (xrel e) then
              (set_exch st (filter (fun e' => negb (exch_key e' (onode x) m)) (t_exch st)), chk (is_nil (resends obs) && quiet obs) 43)
            else if (ty =? PUBREC) && (q =? 2) && negb (xrel e) then
              (set_exch st (map (fun e' => if exch_key e' (onode x) m then OExch (xnode e') (xc e') (xmid e') (xpkt e') true else e') (t_exch st)),
               chk ((obadw x || perm_eqb sp_eqb (resends obs) [(c, OPubRel m)]) && quiet obs) 44)
            else if (ty =? PUBCOMP) && xrel e then
              (set_exch st (filter (fun e' => negb (exch_key e' (onode x) m)) (t_exch st)), chk (is_nil (resends obs) && quiet obs) 43)
            else (st, chk (is_nil (resends obs) && quiet obs) 43)
          | None => (st, chk (is_nil (resends obs) && quiet obs) 43)
          end
      end
    | EPing c clk =>
      match find_sess st c with
      | None => (st, [])
      | Some x =>
        if negb (oalive x) then (st, chk (quiet obs) 25) else
        let later := later_same st x in
        let answered := has_pkt c (fun q => match q with OPingResp => true | _ => false end) obs in
        if has_closed c obs then
          (end_session_o st c, chk (negb (is_nil later)) 50 ++ chk (negb answered && quiet obs) 51)%list
        else (st, chk (obadw x || answered) 52 ++ chk (negb (existsb (fun y => Nat.eqb (onode y) (onode x)) later)) 53 ++ chk (quiet obs) 54)%list
      end
    | EDisconnect c clk => check_end st c true obs
    | EProtoError c clk | EEof c clk => check_end st c false obs
    | EFailWrites c => (upd_sess st (fun y => s_badw y true) c, [])
    | ESweep n =>
      let mine := filter (fun e => Nat.eqb (xnode e) n) (t_exch st) in
      (set_in2 (set_exch st (filter (fun e => negb (Nat.eqb (xnode e) n) || live st (xc e)) (t_exch st)))
               (filter (fun e => match find_sess st (ic e) with Some x => negb (Nat.eqb (onode x) n) | None => true end) (t_in2 st)),
       chk (perm_eqb sp_eqb (resends obs) (map resend_of (filter (fun e => writable st (xc e)) mine))) 70 ++ chk (negb (has_store obs)) 71)%list
    | EGossip a b | EGossipRev a b =>
      (* b receives a's own broadcasts: it now knows every session a hosts *)
      (set_sess (set_dirty st (filter (fun p => negb (pair_eqb p (a, b))) (t_dirty st)))
                (map (fun z => if Nat.eqb (onode z) a && negb (nat_mem b (oknown z)) then s_known z (b :: oknown z) else z) (t_sess st)),
       chk (is_nil obs) 80)
    | ESnapshot a b =>
      (* b merges a's whole state: it knows what a knows (a full-state exchange does not stand for a's pending broadcasts to others) *)
      (set_sess (set_dirty st (filter (fun p => negb (pair_eqb p (a, b))) (t_dirty st)))
                (map (fun z => if nat_mem a (oknown z) && negb (nat_mem b (oknown z)) then s_known z (b :: oknown z) else z) (t_sess st)),
       chk (is_nil obs) 80)
    | EPeerLeave o d clk =>
      let told := negb (existsb (fun p => pair_eqb p (d, o)) (t_dirty st)) in
      let lost := filter (fun z => oalive z && negb (otomb z) && Nat.eqb (onode z) d) (t_sess st) in
      let wills := flat_map (fun z => match owill z with Some w => [(z, w)] | None => [] end) lost in
      let st1 := set_sess st (map (fun z => if oalive z && negb (otomb z) && Nat.eqb (onode z) d then s_fil (s_tomb z true) [] else z) (t_sess st)) in
      let st2 := dirty_from (set_left (set_down st1 (d :: t_down st)) ((o, d) :: t_left st)) o in
      if negb told || negb (knows_all st o) || failing st o then (set_unsure st2 true, [])
      else
        (st2, leave_demands st o wills obs)
    | EPeerNotice o d clk =>
      (* NotifyGossipLeave up to its return: subscriptions of the failed node removed, wills published;
         the session records stay (and stay listed) until a survivor's delayed removal *)
      let told := negb (existsb (fun p => pair_eqb p (d, o)) (t_dirty st)) in
      let lost := filter (fun z => oalive z && negb (otomb z) && Nat.eqb (onode z) d) (t_sess st) in
      let wills := flat_map (fun z => match owill z with Some w => [(z, w)] | None => [] end) lost in
      let st1 := set_sess st (map (fun z => if oalive z && negb (otomb z) && Nat.eqb (onode z) d then s_fil z [] else z) (t_sess st)) in
      let st2 := dirty_from (set_left (set_down st1 (d :: t_down st)) ((1000 + o, d)%nat :: t_left st)) o in
      (* the only earlier failures noticed are of the same node, and none of those survivors has removed the records yet *)
      let only_notices := forallb (fun p => Nat.leb 1000 (fst p) && Nat.eqb (snd p) d) (t_left st) in
      if negb told || negb (told_all st o) || negb only_notices || failing st o then (set_unsure st2 true, [])
      else (st2, leave_demands st o wills obs)
    | EPeerReap o d clk =>
      let st1 := set_sess st (map (fun z => if oalive z && Nat.eqb (onode z) d then s_tomb z true else z) (t_sess st)) in
      (dirty_from (set_left st1 ((o, d) :: filter (fun p => negb (pair_eqb p ((1000 + o)%nat, d))) (t_left st))) o, chk (is_nil obs) 80)
    | EUnreachable ps => (set_down st ps, [])
    | EFailAppend n k => (set_failn st ((n, k) :: filter (fun p => negb (Nat.eqb (fst p) n)) (t_fail st)), [])
    | ECheck n =>
      let here := filter (fun x => oalive x && negb (otomb x)) (t_sess st) in
      (* between a survivor's notice of a host failure and its delayed removal of that host's session
         records, whether those records are still listed is nobody's property: no demand on the lists *)
      let views_known := told_all st n && negb (t_unsure st) && forallb (fun p => Nat.ltb (fst p) 1000) (t_left st) in
      (st, flat_map (fun ob => match ob with
         | Listed _ ss sb reg pend =>
           ((if views_known then
               chk (perm_eqb String.eqb (map m_sid ss) (map osid here)) 90
               ++ chk (perm_eqb ss_eqb (map (fun s => (s_sid s, s_pattern s)) sb)
                                (flat_map (fun x => if oalive x then map (fun fq => (osid x, prefix_mp (omp x) (fst fq))) (ofil x) else []) (t_sess st))) 92
             else [])
            ++ chk (perm_eqb String.eqb reg (map osid (filter (fun x => oalive x && Nat.eqb (onode x) n) (t_sess st)))) 91
            (* nothing is pending on this node but the exchanges seen on the wire and not yet completed or swept
               (exchanges towards a connection whose writes fail are not seen: skipped then) *)
            ++ chk (existsb obadw (t_sess st) ||
                    Nat.eqb pend (length (filter (fun e => Nat.eqb (xnode e) n) (t_exch st))
                                  + length (filter (fun e => match find_sess st (ic e) with Some x => Nat.eqb (onode x) n | None => false end) (t_in2 st)))) 93)%list
         | _ => [] end) obs)
    | ENoop c => if has_closed c obs then check_end st c false obs else (st, chk (quiet obs) 95)
    | EPanic => (st, [2%nat])
    end in
  (* deliveries that appear outside a sweep start new exchanges: their identifiers must be free *)
  let after := match o with ESweep _ => (fst res, []) | _ => new_deliveries (fst res) obs end in
  (set_seen (fst after) (fold_left see1 obs (t_seen st)), (closes ++ garbage ++ snd res ++ snd after)%list).

Fixpoint orun (st : ost) (steps : list (eop * list eobs)) (i : nat) : list (nat * list nat) :=
  match steps with
  | [] => []
  | s :: rest => let r := ostep st s in
                 match snd r with [] => orun (fst r) rest (S i) | codes => (i, codes) :: orun (fst r) rest (S i) end
  end.
