#!/bin/bash
# soak.sh <n> <seed...>: run every broker mode with each seed through model + oracle on the current tree; print anything that is not clean
n=$1; shift
cd /verif
for sd in "$@"; do
  for m in route acks inbound pipeline retained lifecycle takeover takeover3 peerfail wills cluster tenants bytes; do
    echo "$m $sd"
  done
done | xargs -P 8 -L 1 bash -c 'timeout 1500 python3 selftest/dbg_oracle.py $0 '"$n"' $1 > work/soak_$0_$1.out 2>&1; if ! grep -q "O = \[\] : list (N \* list (nat \* list nat)) M = \[\] : list N" work/soak_$0_$1.out; then echo "NOT CLEAN: $0 seed $1"; fi'
echo soak-done
