(** C20 — Shared broker state is safe under concurrent use.
    PARTIAL (MANIFEST level "other"): a proof speaks about interleavings of atomic steps; "no data
    race occurs" is a statement about the Go memory model that no Gallina model can express.
    (1) Below: in the interleaving model whose atomic steps are the critical sections, the
        claims of C20 are corollaries of history theorems that already quantify over ALL
        operation lists, hence over every interleaving of per-goroutine lists.
    (2) The premise "each method is one atomic step" is tied to the CURRENT sources by the lock
        table (Corr/Locks.v: extracted by go/ast on every run, [all_atomic] must compute to true).
    (3) The memory-model part is sampled by randomized stress under the race detector on all
        cores (family "stress"), with the post-stress invariants below checked on the real objects.
    Not modelled: pqList.insert is two steps (find the bucket under the list lock, then
    bucket.put under the bucket's mutex); an insert aimed at a second that is being swept is
    lost.  The broker arms deadlines 3 s ahead of sweeps at "now", the stress does the same. *)
From Wasp Require Import Model.Base Model.Trie Model.IdPool Spec.AckSpec Model.AckQueue Spec.MatchSpec Model.DState
  Proofs.BaseFacts Proofs.TrieFacts Proofs.StoreRefine Proofs.IdPoolFacts Proofs.StableInsert Proofs.AckSpecFacts Proofs.AckRefine
  Proofs.Lww Proofs.DStateFacts Proofs.Interleave.
From stdpp Require Import list strings.
Open Scope Z_scope.

(** concurrent operations on distinct keys all take effect (both tries; the same per-key
    independence holds for the in-flight table: C04 [isolation], and for the replicated stores:
    C08 [merge_order_irrelevant]) *)
Theorem distinct_keys_all_effects : ∀ t1 t2 sched k, is_sched t1 t2 sched → Forall (λ o, op_key o ≠ k) t2 →
  tget (levels k) (run sched) = tget (levels k) (run (List.filter (on_key k) t1)).
Proof. exact distinct_keys_effect. Qed.
Print Assumptions distinct_keys_all_effects.

(** identifiers handed out under any interleaving of Get/Put calls are distinct while outstanding *)
Theorem concurrent_ids_distinct : ∀ mn mx t1 t2 sched, is_sched t1 t2 sched → 0 ≤ mn ≤ mx →
  let st := prun mn mx sched in
  NoDup st.2 ∧ (∀ x, infree (ivs st.1) x ↔ (mn ≤ x ≤ mx ∧ x ∉ st.2)) ∧
  ((pget st.1).1 = -1 ∨ (pget st.1).1 ∉ st.2).
Proof.
  intros mn mx t1 t2 sched _ H st. destruct (J_run mn mx sched H) as (_ & _ & _ & _ & Hnd & Hf).
  split; [done|]. split; [done|]. destruct (get_fresh mn mx sched H) as [(Hv & _)|(_ & Hn)]; [by left|by right].
Qed.
Print Assumptions concurrent_ids_distinct.

(** every in-flight registration still resolves at most once, and only registrations that were
    made resolve, under any interleaving of register / acknowledge / sweep operations *)
Theorem concurrent_exactly_once : ∀ t1 t2 sched, is_sched t1 t2 sched → NoDup (flat_map op_reg sched) →
  NoDup (fired (q_run qempty sched).2) ∧ ∀ r, r ∈ fired (q_run qempty sched).2 → r ∈ flat_map op_reg sched.
Proof.
  intros t1 t2 sched _ H. rewrite (run_refines sched qempty [] R_init).
  destruct (fired_once sched [] (NoDup_nil_2) H) as [H1 H2]. done.
Qed.
Print Assumptions concurrent_exactly_once.

(** replicas converge whatever the interleaving of merges (C08) *)
Theorem concurrent_merges_converge : ∀ p1 p2 es1 es2,
  Forall ev_valid es1 → Forall ev_valid es2 →
  (∀ u, u ∈ all_sess es1 ↔ u ∈ all_sess es2) → tie_free m_sid sess_ts (all_sess es1) →
  (∀ u, u ∈ all_subs es1 ↔ u ∈ all_subs es2) → tie_free sub_key sub_ts (all_subs es1) →
  (∀ u, u ∈ all_ret es1 ↔ u ∈ all_ret es2) → tie_free ret_key ret_ts (all_ret es1) →
  let d1 := fold_left merge_event es1 (dnew p1) in
  let d2 := fold_left merge_event es2 (dnew p2) in
  (∀ k, abs_sess (d_sess d1) k = abs_sess (d_sess d2) k) ∧
  (∀ k, abs_subs (d_subs d1) k = abs_subs (d_subs d2) k) ∧
  (∀ k, abs_ret (d_ret d1) k = abs_ret (d_ret d2) k).
Proof. exact replicas_converge. Qed.
Print Assumptions concurrent_merges_converge.

Example c20_interleaving :
  is_sched [Ins "a" "1"; Ins "a" "2"] [Ins "b" "x"; Rm "b"] [Ins "a" "1"; Ins "b" "x"; Ins "a" "2"; Rm "b"]
  ∧ tget (levels "a") (run [Ins "a" "1"; Ins "b" "x"; Ins "a" "2"; Rm "b"]) = "2".
Proof. split; [repeat constructor|by vm_compute]. Qed.
