(** Correspondence evaluators for family "crdt" (C08, C09, C10; ByPattern for C01, Get for C07):
    scripts over up to three real distributed.State replicas with scripted clocks and scripted
    delivery (in any order, duplicated, batched, lost) of the broadcasts they queue.
    model  = Model/DState.v run on the same script, compared on every decoded broadcast, every
             visible list and every full-state dump;
    oracle = last-writer-wins join of the updates each replica has issued or received
             (greatest timestamp per key; keys with a timestamp tie between different values
             are skipped, see tie_free), MQTT matching for ByPattern / Get. *)
From Wasp Require Export Model.Base Spec.MatchSpec Model.DState.
Open Scope Z_scope.

(** observed script *)
Inductive cop :=
| CLocal (n : nat) (o : dop) (ev : option bevent)           (* mutator at node n; the broadcast it queued, decoded *)
| CDeliver (src dst k : nat)                                 (* NotifyMsg at dst with the k-th broadcast of src *)
| CBatch (src dst : nat) (ks : list nat)                     (* the same, several broadcasts merged into one message *)
| CInject (dst : nat) (e : bevent)                           (* NotifyMsg at dst with a hand-made update message *)
| CSnapshot (src dst : nat) (dumped : bevent)                (* LocalState of src (decoded) -> MergeRemoteState at dst *)
| CCheck (n : nat) (sess : list smeta) (subs : list sub) (ret : list rmsg) (dumped : option bevent)
| CByPattern (n : nat) (topic : string) (got : list sub)
| CRetGet (n : nat) (pattern : string) (got : list rmsg)
| CPanic.
Definition case : Type := (N * list Z * list cop)%type.     (* id, peer ids of the nodes, script *)

(** equality up to order *)
Definition opt_eqb {A} (e : A -> A -> bool) (a b : option A) : bool :=
  match a, b with Some x, Some y => e x y | None, None => true | _, _ => false end.
Definition pub_eqb (a b : publish) : bool :=
  String.eqb (p_topic a) (p_topic b) && String.eqb (p_payload a) (p_payload b) && (p_qos a =? p_qos b) && Bool.eqb (p_retain a) (p_retain b) && Bool.eqb (p_dup a) (p_dup b).
Definition smeta_eqb (a b : smeta) : bool :=
  String.eqb (m_sid a) (m_sid b) && String.eqb (m_cid a) (m_cid b) && String.eqb (m_mp a) (m_mp b) && (m_peer a =? m_peer b)
  && opt_eqb pub_eqb (m_lwt a) (m_lwt b) && (m_la a =? m_la b) && (m_ld a =? m_ld b).
Definition sub_eqb (a b : sub) : bool :=
  String.eqb (s_sid a) (s_sid b) && String.eqb (s_pattern a) (s_pattern b) && (s_peer a =? s_peer b) && (s_qos a =? s_qos b)
  && (s_la a =? s_la b) && (s_ld a =? s_ld b).
Definition rmsg_eqb (a b : rmsg) : bool := pub_eqb (r_pub a) (r_pub b) && (r_la a =? r_la b) && (r_ld a =? r_ld b).
Fixpoint remove_first {A} (e : A -> A -> bool) (x : A) (l : list A) : option (list A) :=
  match l with
  | [] => None
  | y :: l' => if e x y then Some l' else match remove_first e x l' with Some r => Some (y :: r) | None => None end
  end.
Fixpoint perm_eqb {A} (e : A -> A -> bool) (l1 l2 : list A) : bool :=
  match l1 with
  | [] => is_nil l2
  | x :: l1' => match remove_first e x l2 with Some l2' => perm_eqb e l1' l2' | None => false end
  end.
Definition bevent_eqb (a b : bevent) : bool :=
  perm_eqb smeta_eqb (b_sess a) (b_sess b) && perm_eqb sub_eqb (b_subs a) (b_subs b) && perm_eqb rmsg_eqb (b_ret a) (b_ret b).
Definition ev_concat (es : list bevent) : bevent :=
  BEvent (flat_map b_sess es) (flat_map b_subs es) (flat_map b_ret es).

(** * model side *)
Record mnode := MNode { mn_state : dstate; mn_out : list bevent }.
Definition nth_node (ns : list mnode) (i : nat) : mnode := nth i ns (MNode (dnew 0) []).
Fixpoint set_nth {A} (i : nat) (x : A) (l : list A) : list A :=
  match l, i with
  | [], _ => []
  | _ :: l', O => x :: l'
  | y :: l', S i' => y :: set_nth i' x l'
  end.
Definition nth_event (m : mnode) (k : nat) : bevent := nth k (mn_out m) ev_empty.

Definition model_step (st : list mnode * bool) (o : cop) : list mnode * bool :=
  let '(ns, ok) := st in
  match o with
  | CLocal n op ev =>
    let m := nth_node ns n in
    let r := dapply (mn_state m) op in
    (set_nth n (MNode (fst r) (mn_out m ++ match snd r with Some e => [e] | None => [] end)%list) ns,
     ok && opt_eqb bevent_eqb (snd r) ev)
  | CDeliver src dst k =>
    let e := nth_event (nth_node ns src) k in
    let m := nth_node ns dst in
    (set_nth dst (MNode (merge_event (mn_state m) e) (mn_out m)) ns, ok)
  | CBatch src dst ks =>
    let e := ev_concat (map (nth_event (nth_node ns src)) ks) in
    let m := nth_node ns dst in
    (set_nth dst (MNode (merge_event (mn_state m) e) (mn_out m)) ns, ok)
  | CInject dst e =>
    let m := nth_node ns dst in
    (set_nth dst (MNode (merge_event (mn_state m) e) (mn_out m)) ns, ok)
  | CSnapshot src dst dumped =>
    let e := dump (mn_state (nth_node ns src)) in
    let m := nth_node ns dst in
    (set_nth dst (MNode (merge_event (mn_state m) e) (mn_out m)) ns, ok && bevent_eqb e dumped)
  | CCheck n sess subs ret dumped =>
    let d := mn_state (nth_node ns n) in
    (ns, ok && perm_eqb smeta_eqb (sess_all d) sess && perm_eqb sub_eqb (sub_all d) subs
            && perm_eqb rmsg_eqb (ret_get d "#") ret && match dumped with Some e => bevent_eqb (dump d) e | None => true end)
  | CByPattern n topic got => (ns, ok && perm_eqb sub_eqb (sub_by_pattern (mn_state (nth_node ns n)) topic) got)
  | CRetGet n pattern got => (ns, ok && perm_eqb rmsg_eqb (ret_get (mn_state (nth_node ns n)) pattern) got)
  | CPanic => (ns, false)
  end.
Definition model_ok (c : case) : bool :=
  let '(_, peers, ops) := c in
  snd (fold_left model_step ops (map (fun p => MNode (dnew p) []) peers, true)).

(** * oracle side: what each replica has been told, joined by last-writer-wins *)
Record onode := ONode { on_recv : bevent; on_out : list bevent }.   (* every update issued or received; own broadcasts *)
Definition o_nth (ns : list onode) (i : nat) : onode := nth i ns (ONode ev_empty []).
Definition o_recv (m : onode) (e : bevent) : onode := ONode (ev_concat [on_recv m; e]) (on_out m).

(* LWW join of a list of updates: per key the update with the greatest timestamp; [tie] is set
   when two different updates of the key share the greatest timestamp seen so far *)
Section Join.
  Context {V : Type} (same_key : V -> V -> bool) (ts : V -> Z) (veq : V -> V -> bool).
  Fixpoint join_add (u : V) (l : list (V * bool)) : list (V * bool) :=
    match l with
    | [] => [(u, false)]
    | (v, tie) :: l' =>
      if same_key u v then
        (if ts v <? ts u then (u, false) :: l'
         else if (ts v =? ts u) && negb (veq u v) then (v, true) :: l' else (v, tie) :: l')
      else (v, tie) :: join_add u l'
    end.
  Definition join (us : list V) : list (V * bool) := fold_left (fun l u => join_add u l) us [].
End Join.
Definition sess_key (a b : smeta) := String.eqb (m_sid a) (m_sid b).
Definition sub_key (a b : sub) := String.eqb (s_sid a) (s_sid b) && String.eqb (s_pattern a) (s_pattern b).
Definition ret_key (a b : rmsg) := String.eqb (p_topic (r_pub a)) (p_topic (r_pub b)).
Definition ret_effective (r : rmsg) : bool := negb (r_la r =? r_ld r).    (* neither added nor removed: ignored by merge *)
Definition j_sess (e : bevent) := join sess_key sess_ts smeta_eqb (b_sess e).
Definition j_subs (e : bevent) := join sub_key sub_ts sub_eqb (b_subs e).
Definition j_ret (e : bevent) := join ret_key ret_ts rmsg_eqb (filter ret_effective (b_ret e)).

(* identity of an entry, without timestamps: what "lists the same ..." compares *)
Definition smeta_same (a b : smeta) : bool :=
  String.eqb (m_sid a) (m_sid b) && String.eqb (m_cid a) (m_cid b) && String.eqb (m_mp a) (m_mp b) && (m_peer a =? m_peer b)
  && opt_eqb pub_eqb (m_lwt a) (m_lwt b).
Definition sub_same (a b : sub) : bool :=
  String.eqb (s_sid a) (s_sid b) && String.eqb (s_pattern a) (s_pattern b) && (s_peer a =? s_peer b) && (s_qos a =? s_qos b).
Definition rmsg_same (a b : rmsg) : bool := pub_eqb (r_pub a) (r_pub b).

(* compare an observed list with the join, key by key, skipping keys with ties:
   every untied joined entry that is visible must be listed (same identity), every listed entry
   must be the joined entry of its key (or its key is tied) *)
Section Cmp.
  Context {V : Type} (same_key same : V -> V -> bool) (visible : V -> bool).
  Definition lookup_join (x : V) (j : list (V * bool)) : option (V * bool) := find (fun vt => same_key x (fst vt)) j.
  Definition listed_ok (j : list (V * bool)) (got : list V) : bool :=
    forallb (fun vt : V * bool => let (v, tie) := vt in
               tie || (if visible v then (Nat.eqb (length (filter (same_key v) got)) 1) && existsb (same v) got
                       else negb (existsb (same_key v) got))) j
    && forallb (fun g => match lookup_join g j with Some (v, tie) => tie || (visible v && same v g) | None => false end) got.
  (* full-state dump: every untied key exactly once with the joined record *)
  Definition dump_ok (veq : V -> V -> bool) (j : list (V * bool)) (got : list V) : bool :=
    forallb (fun vt : V * bool => let (v, tie) := vt in
               tie || ((Nat.eqb (length (filter (same_key v) got)) 1) && existsb (veq v) got)) j
    && forallb (fun g => match lookup_join g j with Some _ => true | None => false end) got.
End Cmp.

Definition oracle_step (st : list onode * bool) (o : cop) : list onode * bool :=
  let '(ns, ok) := st in
  match o with
  | CLocal n op ev =>
    let m := o_nth ns n in
    (match ev with
     | Some e => set_nth n (ONode (ev_concat [on_recv m; e]) (on_out m ++ [e])%list) ns
     | None => ns
     end, ok)
  | CDeliver src dst k =>
    (set_nth dst (o_recv (o_nth ns dst) (nth k (on_out (o_nth ns src)) ev_empty)) ns, ok)
  | CBatch src dst ks =>
    (set_nth dst (o_recv (o_nth ns dst) (ev_concat (map (fun k => nth k (on_out (o_nth ns src)) ev_empty) ks))) ns, ok)
  | CInject dst e => (set_nth dst (o_recv (o_nth ns dst) e) ns, ok)
  | CSnapshot src dst dumped =>
    let r := on_recv (o_nth ns src) in
    (set_nth dst (o_recv (o_nth ns dst) dumped) ns,
     ok && dump_ok sess_key smeta_eqb (j_sess r) (b_sess dumped)
        && dump_ok sub_key sub_eqb (j_subs r) (b_subs dumped)
        && dump_ok ret_key rmsg_eqb (j_ret r) (b_ret dumped))
  | CCheck n sess subs ret dumped =>
    let r := on_recv (o_nth ns n) in
    (ns, ok && listed_ok sess_key smeta_same sess_added (j_sess r) sess
            && listed_ok sub_key sub_same sub_added (j_subs r) subs
            && listed_ok ret_key rmsg_same ret_added (j_ret r) ret)
  | CByPattern n topic got =>
    let r := on_recv (o_nth ns n) in
    (ns, ok && (negb (topic_ok (levels topic)) ||
                listed_ok sub_key sub_same (fun s => sub_added s && mmatch (levels (s_pattern s)) (levels topic)) (j_subs r) got))
  | CRetGet n pattern got =>
    let r := on_recv (o_nth ns n) in
    (ns, ok && (negb (filter_ok (levels pattern)) ||
                listed_ok ret_key rmsg_same (fun m => ret_added m && mmatch (levels pattern) (levels (p_topic (r_pub m)))) (j_ret r) got))
  | CPanic => (ns, false)
  end.
Definition oracle_ok (c : case) : bool :=
  let '(_, peers, ops) := c in
  snd (fold_left oracle_step ops (map (fun _ => ONode ev_empty []) peers, true)).

Definition case_id (c : case) : N := fst (fst c).
Definition mismatches (cs : list case) : list N := map case_id (filter (fun c => negb (model_ok c)) cs).
Definition oracle_failures (cs : list case) : list N := map case_id (filter (fun c => negb (oracle_ok c)) cs).
