(** Correspondence evaluator for family "crash" (C15): child processes run the real
    messages.Log.Consume on a real store and are killed (SIGKILL inside the callback) or stopped;
    per run the parent reports what the callback was handed, the state file and the lowest
    readable segment. *)
From Wasp Require Export Model.Base Model.Consumer.
Open Scope N_scope.

Record crobs := CRObs { r_append : N; r_upto : N; r_kill : bool;
                        o_first : N; o_count : N; o_consec : bool; o_stored : N; o_base : N; o_ok : bool }.
Definition case : Type := (N * list crobs)%type.

Definition model_step (st : cstate * bool) (r : crobs) : cstate * bool :=
  let '(s, ok) := st in
  let s1 := cstep s (CAppend (r_append r)) in
  let s2 := crun s1 (run_events (c_stored s1) (r_upto r) (r_kill r)) in
  let run := c_run s2 in
  (s2, ok && o_ok r && (N.of_nat (length run) =? o_count r) && ((o_count r =? 0) || (last run 0 =? o_first r))
       && o_consec r && (c_stored s2 =? o_stored r) && (c_base s2 =? o_base r)).
Definition model_ok (c : case) : bool := snd (fold_left model_step (snd c) (cinit, true)).

(* the specification, on what was observed: a run resumes at the previously stored offset and
   hands over consecutive offsets; the stored offset afterwards is the last entry whose callback
   returned; nothing at or above the stored offset has been truncated away *)
Definition oracle_step (st : N * bool) (r : crobs) : N * bool :=
  let '(prev, ok) := st in
  let handed_last := o_first r + o_count r - 1 in
  let expect_stored := if o_count r =? 0 then prev else if r_kill r then (if o_count r =? 1 then prev else handed_last - 1) else handed_last in
  (o_stored r, ok && o_ok r && o_consec r && ((o_count r =? 0) || (o_first r =? prev)) && (o_stored r =? expect_stored)
               && (o_base r <=? o_stored r) && ((o_count r =? 0) || (handed_last =? r_upto r))
               (* the writer reads by offset up to 26 entries behind the consumer (queue of 25 + 1): still there *)
               && ((o_base r =? 0) || (o_base r + 26 <=? o_stored r))).
Definition oracle_ok (c : case) : bool := snd (fold_left oracle_step (snd c) (0, true)).

Definition mismatches (cs : list case) : list N := map fst (filter (fun c => negb (model_ok c)) cs).
Definition oracle_failures (cs : list case) : list N := map fst (filter (fun c => negb (oracle_ok c)) cs).
