#!/usr/bin/env python3
"""confirm_seeded.py <worktree> <seed-id> <pkgdir> <TestRegex> [demo-file]
Confirms a sub-agent's seeded defect in its scratch worktree (baseline demo passes; with the patch:
builds, the full existing suite passes, the demo fails), then stores it under /verif/seeded/<seed-id>/."""
import sys, os, subprocess, json, shutil
wt, sid, pkg, rx = sys.argv[1:5]
src = os.path.join(wt, 'seeded', sid)
demo = sys.argv[5] if len(sys.argv) > 5 else next(f for f in os.listdir(src) if f.startswith('demo'))
env = dict(os.environ, GOFLAGS='-mod=mod', GOPROXY='off', GOSUMDB='off', GOTOOLCHAIN='local')
def sh(cmd):
    return subprocess.run(cmd, shell=True, cwd=wt, env=env, stdout=subprocess.PIPE, stderr=subprocess.STDOUT, text=True)
dst_demo = os.path.join(wt, pkg, 'zz_seed_demo_test.go')
def run_demo():
    if pkg == '-':   # demo runs in place (external test package under seeded/, tag verif)
        return sh("go test -tags verif,seeded_demo,c07demo,c03demo,c05demo,c11demo,c15demo,c17demo,c18demo,c20demo -vet=off -count=1 -run '%s' ./seeded/%s/" % (rx, sid))
    shutil.copy(os.path.join(src, demo), dst_demo)
    try:
        return sh("go test -tags verif,seeded_demo,c07demo,c03demo,c05demo,c11demo,c15demo,c17demo,c18demo,c20demo -vet=off -count=1 -run '%s' ./%s/" % (rx, pkg))
    finally:
        os.remove(dst_demo)
rec = {}
sh('git checkout -- .')
r = run_demo(); rec['baseline_demo_passes'] = r.returncode == 0
sh('git apply seeded/%s/patch.diff' % sid)
try:
    r = sh('go build ./... && go build -tags verif ./...'); rec['builds'] = r.returncode == 0
    r = sh("go test -vet=off -count=1 ./... 2>&1 | grep -v 'no test files'"); rec['suite_passes'] = 'FAIL' not in r.stdout and r.stdout.count('ok') >= 7
    r = run_demo(); rec['patched_demo_fails'] = r.returncode != 0
    rec['demo_tail'] = r.stdout[-600:]
finally:
    sh('git checkout -- .')
ok = all(rec[k] for k in ('baseline_demo_passes', 'builds', 'suite_passes', 'patched_demo_fails'))
print(sid, 'CONFIRMED' if ok else 'NOT CONFIRMED', {k: v for k, v in rec.items() if k != 'demo_tail'})
if ok:
    out = os.path.join('/verif/seeded', sid)
    os.makedirs(out, exist_ok=True)
    shutil.copy(os.path.join(src, 'patch.diff'), out)
    shutil.copy(os.path.join(src, demo), os.path.join(out, 'demo_test.go.txt'))
    meta = json.load(open(os.path.join(src, 'meta.json')))
    meta['confirmed'] = dict(rec, how="selftest/confirm_seeded.py: demo copied to %s/ as a _test.go file; go test -run '%s'; full suite 'go test -vet=off -count=1 ./...'" % (pkg, rx))
    json.dump(meta, open(os.path.join(out, 'meta.json'), 'w'), indent=1)
sys.exit(0 if ok else 1)
