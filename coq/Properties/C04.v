(** C04 — Every in-flight entry is resolved exactly once and independently of the others.
    Statements only; proofs are [exact]s of lemmas under Proofs/.

    [q_run] is the implementation model (wasp/ack/queue.go over wasp/expiration: a hash of
    pending messages plus a heap of one-second buckets); [spec_run] is the specification
    (Spec/AckSpec.v: one finite map; a sweep at [now] reports every entry whose deadline
    rounded to the second lies strictly before [now], ordered by deadline, ties by age).
    Operations: QInsert prefix id packet deadline reg / QAck prefix id type / QSweep now, over
    any sessions and identifiers, with equal, same-second, past and future deadlines. *)
From Wasp Require Import Model.Base Spec.AckSpec Model.AckQueue Proofs.StableInsert Proofs.AckSpecFacts Proofs.AckRefine.
From stdpp Require Import list.
Open Scope Z_scope.

(** Return codes and callback sequences of the implementation model equal the
    specification's, step for step, for every history. *)
Theorem ackqueue_refines_spec : ∀ os, (q_run qempty os).2 = (spec_run [] os).2.
Proof. intros os. apply run_refines, R_init. Qed.
Print Assumptions ackqueue_refines_spec.

(** Each registration (identified by its unique registration number) is reported to its
    callback at most once in the whole history, and only registrations that were made are
    reported. *)
Theorem at_most_one_outcome : ∀ os, NoDup (flat_map op_reg os) →
  NoDup (fired (q_run qempty os).2) ∧ ∀ r, r ∈ fired (q_run qempty os).2 → r ∈ flat_map op_reg os.
Proof.
  intros os H. rewrite ackqueue_refines_spec. destruct (fired_once os [] (NoDup_nil_2) H) as [H1 H2]. done.
Qed.
Print Assumptions at_most_one_outcome.

(** ... and exactly one once a matching acknowledgement or a sweep past the rounded deadline
    occurs: the callback an operation runs for a pending entry is dictated by that entry and
    the operation alone ([out1]: 'acknowledged' iff the expected packet type for the same
    session and identifier arrives, 'expired' iff a sweep finds round(deadline) < now), and no
    other callback is run. *)
Theorem outcome_fires : ∀ k s o e b, sfind k s = Some e →
  out1 k (Some e) o = Some (ereg e, b) → (ereg e, b) ∈ (spec_step s o).2.2.
Proof. exact out_key_fires. Qed.
Print Assumptions outcome_fires.
Theorem outcome_only : ∀ s o r b, (r, b) ∈ (spec_step s o).2.2 →
  ∃ e, e ∈ s ∧ ereg e = r ∧ out1 (ekey e) (Some e) o = Some (r, b).
Proof. exact out_key_only. Qed.
Print Assumptions outcome_only.

(** "deadlines are honoured to the second" *)
Theorem expiry_window : ∀ d, round_s d - sec / 2 ≤ d ∧ d < round_s d + sec / 2.
Proof. exact round_window. Qed.
Print Assumptions expiry_window.

(** A duplicate identifier is rejected without disturbing the existing entry (nor any other). *)
Theorem duplicate_rejected : ∀ s pfx mid p d r e, sfind (pfx, mid) s = Some e →
  spec_step s (QInsert pfx mid p d r) = (s, ((spec_step s (QInsert pfx mid p d r)).2.1, [])) ∧
  (mid ≠ 0 → expected p ≠ None → (spec_step s (QInsert pfx mid p d r)).2.1 = RDup).
Proof. exact duplicate_step. Qed.
Print Assumptions duplicate_rejected.

(** Independence: the pending entry of a key after any history, and the sequence of outcomes
    of that key, equal those in the history restricted to the operations on that key plus
    the sweeps: acknowledging, expiring or rejecting another entry never cancels, fires or
    delays this one. *)
Theorem isolation : ∀ k os s, NoDup (keys s) →
  sfind k (spec_run s os).1 = sfind k (spec_run s (restrict k os)).1 ∧
  ktrace k s os = ktrace k s (restrict k os).
Proof. intros k os s H. split; [by apply isolation_state|by apply isolation_outcomes]. Qed.
Print Assumptions isolation.
Theorem entry_evolves_alone : ∀ k s o, NoDup (keys s) → sfind k (spec_step s o).1 = step1 k (sfind k s) o.
Proof. exact step_key. Qed.
Print Assumptions entry_evolves_alone.

(** non-vacuity: three entries in the same second (two with equal deadlines), a wrong-type
    acknowledgement, a duplicate, an acknowledgement, then sweeps *)
Example c04_history :
  let t := 1600000000000000000 in
  let os := [QInsert "s1" 1 (IPublish 1) (t + 250000000) 1; QInsert "s2" 1 (IPublish 2) (t + 250000000) 2;
             QInsert "s1" 2 (IPublish 1) (t + 100000000) 3; QInsert "s1" 1 (IPublish 1) (t + 9000000000) 4;
             QAck "s1" 1 PUBREC true; QAck "s2" 1 PUBREC true; QSweep t; QSweep (t + 1); QSweep (t + 9000000000)] in
  (q_run qempty os).2 =
    [(ROk, []); (ROk, []); (ROk, []); (RDup, []); (RUnexpected, []); (ROk, [(2%N, false)]);
     (ROk, []); (ROk, [(3%N, true); (1%N, true)]); (ROk, [])].
Proof. vm_compute. reflexivity. Qed.
