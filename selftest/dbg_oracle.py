#!/usr/bin/env python3
"""dbg_oracle.py <mode> <n> <seed>: run broker family, evaluate the spec oracle, print failing steps with codes."""
import sys, json, subprocess, os, re
mode, n, seed = sys.argv[1], sys.argv[2], sys.argv[3]
out = subprocess.run([os.environ.get('WHARNESS','/verif/harness/bin/wharness'),'broker','gen','-n',n,'-seed',seed,'-mode',mode],stdout=subprocess.PIPE,stderr=subprocess.DEVNULL,text=True).stdout
cases=[json.loads(l) for l in out.splitlines()]
d='/verif/work/dbgo_%s_%s'%(mode,seed)
os.makedirs(d,exist_ok=True)
with open(d+'/cases.v','w') as f:
    f.write('From Wasp Require Import Corr.Broker.\nOpen Scope string_scope.\nDefinition cases : list case := [\n'+';\n'.join(c['coq'] for c in cases)+'\n].\n')
    f.write('Definition O := Eval vm_compute in flat_map (fun c => match oracle_why c with [] => [] | w => [(case_id c, w)] end) cases.\nPrint O.\n')
    f.write('Definition M := Eval vm_compute in mismatches cases.\nPrint M.\n')
r=subprocess.run(['coqc','-Q','/verif/coq','Wasp','-w','-all','cases.v'],cwd=d,stdout=subprocess.PIPE,stderr=subprocess.STDOUT,text=True)
txt=r.stdout
print(mode, len(cases),'cases', re.sub(r'\s+',' ',txt)[:1500])
ms=re.findall(r"\((\d+)%N,\s*\[\((\d+)%nat,\s*\[([^\]]*)\]",txt)
for cid,st,codes in ms[:3]:
    cid,st=int(cid),int(st)
    c=[x for x in cases if x['id']==cid][0]
    print('case',cid,'step',st,'codes',codes)
    for i,(o,b) in enumerate(zip(c['input']['ops'],c['obs'])):
        if i<=st and (i>=st-6 or o.get('op') in('connect','peer_leave','unreachable','failappend')): print(i,json.dumps(o),'=>',b)
