module verifharness

go 1.22

require (
	github.com/golang/protobuf v1.4.3
	github.com/hashicorp/memberlist v0.2.2
	github.com/prometheus/client_model v0.2.0
	github.com/vx-labs/commitlog v1.2.4
	github.com/vx-labs/mqtt-protocol v5.1.1+incompatible
	github.com/vx-labs/wasp/v4 v4.0.0
	go.uber.org/zap v1.16.0
	google.golang.org/grpc v1.33.2
)

require (
	github.com/MauriceGit/skiplist v0.0.0-20191117202105-643e379adb62 // indirect
	github.com/armon/go-metrics v0.0.0-20180917152333-f0300d1749da // indirect
	github.com/beorn7/perks v1.0.1 // indirect
	github.com/cespare/xxhash/v2 v2.1.1 // indirect
	github.com/coreos/go-systemd v0.0.0-20190321100706-95778dfbb74e // indirect
	github.com/coreos/pkg v0.0.0-20180928190104-399ea9e2e55f // indirect
	github.com/dustin/go-humanize v1.0.0 // indirect
	github.com/gogo/protobuf v1.2.1 // indirect
	github.com/google/btree v1.0.0 // indirect
	github.com/google/uuid v1.1.2 // indirect
	github.com/gorilla/websocket v1.4.1 // indirect
	github.com/hashicorp/errwrap v1.0.0 // indirect
	github.com/hashicorp/go-immutable-radix v1.0.0 // indirect
	github.com/hashicorp/go-msgpack v0.5.3 // indirect
	github.com/hashicorp/go-multierror v1.0.0 // indirect
	github.com/hashicorp/go-sockaddr v1.0.2 // indirect
	github.com/hashicorp/golang-lru v0.5.1 // indirect
	github.com/matttproud/golang_protobuf_extensions v1.0.1 // indirect
	github.com/miekg/dns v1.1.26 // indirect
	github.com/pkg/errors v0.9.1 // indirect
	github.com/prometheus/client_golang v1.8.0 // indirect
	github.com/prometheus/common v0.14.0 // indirect
	github.com/prometheus/procfs v0.2.0 // indirect
	github.com/sean-/seed v0.0.0-20170313163322-e2103e2c3529 // indirect
	github.com/tysontate/gommap v0.0.0-20190103205956-899e1273fb5c // indirect
	github.com/vx-labs/cluster v1.7.10 // indirect
	github.com/zond/gotomic v0.0.0-20160912093511-c442ca1e4aa6 // indirect
	go.etcd.io/etcd v0.0.0-20200716221620-18dfb9cca345 // indirect
	go.uber.org/atomic v1.6.0 // indirect
	go.uber.org/multierr v1.5.0 // indirect
	golang.org/x/crypto v0.0.0-20200622213623-75b288015ac9 // indirect
	golang.org/x/net v0.0.0-20200625001655-4c5254603344 // indirect
	golang.org/x/sys v0.0.0-20201015000850-e3ed0017c211 // indirect
	golang.org/x/text v0.3.2 // indirect
	google.golang.org/genproto v0.0.0-20200526211855-cb27e3aa2013 // indirect
	google.golang.org/protobuf v1.25.0 // indirect
)

replace github.com/vx-labs/wasp/v4 => /repo
