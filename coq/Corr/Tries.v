(** Correspondence evaluators for family "tries": the model (Model/Trie.v) and the
    specification-level oracle (a map from topic strings to values + MQTT matching) are both
    run on the operation history the implementation executed, and compared with what the
    implementation returned. *)
From Wasp Require Export Model.Base Model.Trie Spec.MatchSpec.

Inductive top :=
| OSUp (k v : string)                      (* Upsert(k, const v) ; v = "" deletes *)
| OSApp (k v : string)                     (* Upsert(k, fun old => old ++ v) *)
| OSWalk (t : string) (got : list string)  (* Walk: every data the iterator saw, sorted; only the non-empty ones are compared *)
| OSIter (got : list string)
| ODumpLoad (ok : bool)                    (* Load(Dump()) *)
| OTIns (k v : string) (old : bool)
| OTRm (k : string) (found : bool)
| OTMatch (f : string) (got : list string)
| OTCount (n : N)
| OTIter (got : list string)
| OErr                                     (* an operation returned an unexpected error *)
| OPanic.                                  (* the implementation panicked *)

Definition case : Type := (N * list top)%type.

(** model side: one node serves as either trie (a case uses only one kind) *)
Definition model_step (st : node * bool) (o : top) : node * bool :=
  let '(n, ok) := st in
  match o with
  | OSUp k v => (supdate (levels k) (fun _ => v) n, ok)
  | OSApp k v => (supdate (levels k) (fun old => old ++ v) n, ok)
  | OSWalk t got => (n, ok && slist_eqb (ssort (filter nonempty (walk (levels t) n))) (filter nonempty got))
  | OSIter got => (n, ok && slist_eqb (ssort (iterate n)) got)
  | ODumpLoad b => (n, ok && b)
  | OTIns k v old => let r := tinsert (levels k) v n in (snd r, ok && Bool.eqb (fst r) old)
  | OTRm k found =>
    match tremove (levels k) n with
    | Some n' => (n', ok && found)
    | None => (n, ok && negb found)
    end
  | OTMatch f got => (n, ok && slist_eqb (ssort (tmatch (levels f) n)) got)
  | OTCount c => (n, ok && N.eqb (N.of_nat (tcount n)) c)
  | OTIter got => (n, ok && slist_eqb (ssort (iterate n)) got)
  | OErr | OPanic => (n, false)
  end.
Definition model_ok (c : case) : bool := snd (fold_left model_step (snd c) (empty_node, true)).

(** oracle side: the store is a finite map from full topic strings to values *)
Definition mget (k : string) (m : list (string * string)) : string := odflt "" (alookup k m).
Definition mset (k v : string) (m : list (string * string)) : list (string * string) :=
  if String.eqb v "" then adel k m else aset k v m.
Definition mvalues (m : list (string * string)) : list string := filter nonempty (map snd m).
Definition spec_walk (m : list (string * string)) (t : string) : list string :=
  ssort (filter nonempty (map snd (filter (fun fv => mmatch (levels (fst fv)) (levels t)) m))).
Definition spec_match (m : list (string * string)) (f : string) : list string :=
  ssort (filter nonempty (map snd (filter (fun kv => mmatch (levels f) (levels (fst kv))) m))).

Definition oracle_step (st : list (string * string) * bool) (o : top) : list (string * string) * bool :=
  let '(m, ok) := st in
  match o with
  | OSUp k v => (mset k v m, ok)
  | OSApp k v => (mset k (mget k m ++ v) m, ok)
  | OSWalk t got =>
    (m, ok && (negb (topic_ok (levels t)) || slist_eqb (spec_walk m t) (filter nonempty got)))
  | OSIter got => (m, ok && slist_eqb (ssort (mvalues m)) got)
  | ODumpLoad b => (m, ok && b)
  | OTIns k v old => (mset k v m, ok && Bool.eqb (nonempty (mget k m)) old)
  | OTRm k _ => (mset k "" m, ok)
  | OTMatch f got =>
    (m, ok && (negb (filter_ok (levels f)) || slist_eqb (spec_match m f) got))
  | OTCount c => (m, ok && N.eqb (N.of_nat (length (mvalues m))) c)
  | OTIter got => (m, ok && slist_eqb (ssort (mvalues m)) got)
  | OErr | OPanic => (m, false)
  end.
Definition oracle_ok (c : case) : bool := snd (fold_left oracle_step (snd c) ([], true)).

Definition mismatches (cs : list case) : list N := map fst (filter (fun c => negb (model_ok c)) cs).
Definition oracle_failures (cs : list case) : list N := map fst (filter (fun c => negb (oracle_ok c)) cs).
