(** Facts about the in-flight table specification (Spec/AckSpec.v). *)
From Wasp Require Import Model.Base Spec.AckSpec.
From stdpp Require Import list.
From Coq Require Import ZArith Lia.
Open Scope Z_scope.

(** deadlines are honoured to the second: the rounded instant is within half a second *)
Lemma round_window d : round_s d - sec / 2 ≤ d ∧ d < round_s d + sec / 2.
Proof.
  unfold round_s, sec. change (1000000000 / 2) with 500000000.
  pose proof (Z.div_mod (d + 500000000) 1000000000 ltac:(lia)).
  pose proof (Z.mod_pos_bound (d + 500000000) 1000000000 ltac:(lia)). lia.
Qed.
Lemma round_mono d1 d2 : d1 ≤ d2 → round_s d1 ≤ round_s d2.
Proof.
  intros H. unfold round_s. apply Z.mul_le_mono_nonneg_r; [unfold sec; lia|].
  apply Z.div_le_mono; [unfold sec; lia|lia].
Qed.
