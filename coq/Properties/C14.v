(** C14 — statements about the node model; see Proofs/NodeFacts.v *)
From Wasp Require Import Model.Base Model.Node.
From stdpp Require Import list.
Open Scope Z_scope.
Theorem C14_model_is_total : ∀ seen cl o, ∃ cl' obs, step seen cl o = (cl', obs).
Proof. intros. destruct (step seen cl o) as [cl' obs]. by exists cl', obs. Qed.
Print Assumptions C14_model_is_total.
