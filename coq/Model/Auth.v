(** Model of wasp/auth/file.go and static.go (as repaired by F15).  SHA-256 is a parameter
    [H : string -> Z] (a hex digest read as a 256-bit number: Go's string comparison of two
    lower-case hex strings of equal length is the comparison of these numbers).  Go's
    sort.Search is modelled exactly (bisection), sort.SliceStable as a stable insertion sort. *)
From Wasp Require Export Model.Base.
Open Scope Z_scope.

Definition default_mp : string := "_default".

Record arec := ARec { uh : Z; ph : Z; amp : string }.
(* one line of the credential file after csv splitting: number of fields, user, password digest, mount point *)
Record aline := ALine { l_n : nat; l_user : string; l_ph : Z; l_mp : string }.

Section Auth.
  Variable H : string -> Z.

  (* FileHandler: 2-field lines get the default mount point, 3-field lines theirs (default when empty), others are skipped *)
  Definition parse_line (l : aline) : list arec :=
    match l_n l with
    | 2%nat => [ARec (H (l_user l)) (l_ph l) default_mp]
    | 3%nat => [ARec (H (l_user l)) (l_ph l) (if String.eqb (l_mp l) "" then default_mp else l_mp l)]
    | _ => []
    end.
  Definition parse (ls : list aline) : list arec := flat_map parse_line ls.

  (* sort.SliceStable by UsernameHash *)
  Fixpoint uh_insert (e : arec) (l : list arec) : list arec :=
    match l with
    | [] => [e]
    | x :: l' => if uh x <=? uh e then x :: uh_insert e l' else e :: x :: l'
    end.
  Definition uh_sort (l : list arec) : list arec := fold_left (fun acc e => uh_insert e acc) l [].

  (* sort.Search(n, f): i, j := 0, n; for i < j { h := (i+j)/2; if !f(h) { i = h+1 } else { j = h } }; return i *)
  Fixpoint search_aux (fuel : nat) (f : nat -> bool) (i j : nat) : nat :=
    match fuel with
    | O => i
    | S fuel' => if Nat.ltb i j then let h := Nat.div (i + j) 2 in if f h then search_aux fuel' f i h else search_aux fuel' f (h + 1) j else i
    end.
  Definition search (n : nat) (f : nat -> bool) : nat := search_aux n f 0 n.

  (* for ; idx < len(db) && db[idx].UsernameHash == usernameHash; idx++ { if PasswordHash matches: return its mount point } *)
  Fixpoint scan_l (l : list arec) (target pw : Z) : option string :=
    match l with
    | [] => None
    | r :: l' => if uh r =? target then (if ph r =? pw then Some (amp r) else scan_l l' target pw) else None
    end.
  Definition authenticate (tbl : list arec) (u p : string) : option string :=
    let t := H u in
    let idx := search (length tbl) (fun i => match nth_error tbl i with Some r => t <=? uh r | None => true end) in
    scan_l (skipn idx tbl) t (H p).
  Definition file_auth (ls : list aline) (u p : string) : option string := authenticate (uh_sort (parse ls)) u p.

  (* the specification: the first line of the file whose user and password match decides *)
  Definition auth_spec (ls : list aline) (u p : string) : option string :=
    option_map amp (find (fun r => (uh r =? H u) && (ph r =? H p)) (parse ls)).

  Definition static_auth (su sp u p : string) : option string :=
    if (H u =? H su) && (H p =? H sp) then Some default_mp else None.
End Auth.
