(** The retained store after any history of operations on one node: per topic, the last
    retained publish or clear decides; Get returns, for each matching topic whose last write was
    a non-empty publish, exactly that message, once. *)
From Wasp Require Import Model.Base Spec.MatchSpec Model.DState Proofs.BaseFacts Proofs.Lww Proofs.DStateFacts.
From stdpp Require Import list strings.
From Coq Require Import ZArith Lia.
Open Scope Z_scope.

Definition drun (d : dstate) (os : list dop) : dstate := fold_left (λ d o, (dapply d o).1) os d.

(* the last retained write to topic [t] in a history: Some (Some p) = publish p, Some None = clear *)
Definition ret_write (t : string) (o : dop) : option (option publish) :=
  match o with
  | DRetSet p _ => if String.eqb (p_topic p) t then Some (Some p) else None
  | DRetDelete t' _ => if String.eqb t' t then Some None else None
  | _ => None
  end.
Definition last_write (t : string) (os : list dop) : option (option publish) :=
  fold_left (λ acc o, match ret_write t o with Some w => Some w | None => acc end) os None.

Definition holds (d : dstate) (t : string) (w : option publish) : Prop :=
  match w with
  | Some p => ∃ st, 0 < st ∧ abs_ret (d_ret d) t = Some (RMsg p st 0)
  | None => ∃ st, 0 < st ∧ abs_ret (d_ret d) t = Some (RMsg (Publish t "" 0 false false) 0 st)
  end.

Lemma stamp_pos d t clk : 0 < clk → 0 < ret_stamp d t clk.
Proof. intros. unfold ret_stamp. destruct (alookup t (d_ret d)) as [old|]; [destruct (Z.leb_spec clk (ret_ts old))|]; lia. Qed.

Lemma dapply_ret d o t : op_valid o →
  match ret_write t o with
  | Some w => holds (dapply d o).1 t w
  | None => abs_ret (d_ret (dapply d o).1) t = abs_ret (d_ret d) t
  end.
Proof.
  intros Hv. destruct o as [id cid mp lwt clk|id clk|p clk|sid pat qos clk|sid pat clk|p clk|sid clk|pb clk|topic clk];
    cbn [ret_write dapply]; try done.
  - unfold sess_create. destruct (alookup id (d_sess d)) as [old|]; [destruct (sess_added old)|]; try done; by destruct (utf8_ok id && utf8_ok cid && utf8_ok mp).
  - unfold sess_delete. destruct (alookup id (d_sess d)) as [old|]; [destruct (is_removed _ _)|]; done.
  - destruct Hv as [_ Hclk]. cbn [ret_set fst with_ret d_ret]. unfold holds, abs_ret. cbn [d_ret with_ret].
    destruct (String.eqb_spec (p_topic pb) t) as [<-|Hne].
    + exists (ret_stamp d (p_topic pb) clk). split; [by apply stamp_pos|]. by rewrite alookup_aset_eq.
    + by rewrite alookup_aset_ne.
  - destruct Hv as [_ Hclk]. cbn [ret_delete fst with_ret d_ret]. unfold holds, abs_ret. cbn [d_ret with_ret].
    destruct (String.eqb_spec topic t) as [<-|Hne].
    + exists (ret_stamp d topic clk). split; [by apply stamp_pos|]. by rewrite alookup_aset_eq.
    + by rewrite alookup_aset_ne.
Qed.

Theorem retained_last_write os : ∀ d t, Forall op_valid os →
  match last_write t os with
  | Some w => holds (drun d os) t w
  | None => abs_ret (d_ret (drun d os)) t = abs_ret (d_ret d) t
  end.
Proof.
  induction os as [|o os IH] using rev_ind; intros d t Hv; [done|].
  apply Forall_app in Hv as [Hv Ho]. apply Forall_cons in Ho as [Ho _].
  unfold last_write, drun. rewrite !fold_left_app. cbn [fold_left]. fold (last_write t os). fold (drun d os).
  pose proof (dapply_ret (drun d os) o t Ho) as Hstep. destruct (ret_write t o) as [w|]; [exact Hstep|].
  specialize (IH d t Hv). destruct (last_write t os) as [w|].
  - unfold holds in *. destruct w; destruct IH as (st & ? & IH); exists st; (split; [done|]); by rewrite Hstep.
  - by rewrite Hstep.
Qed.

(** Get: membership and uniqueness *)
Lemma gmatch_mmatch f t : filter_ok f = true → gmatch f t = mmatch f t.
Proof.
  revert t. induction f as [|x f IH]; intros t Hok; [done|]. cbn [filter_ok] in Hok. apply andb_true_iff in Hok as [Hx Hok].
  cbn [gmatch mmatch]. destruct (String.eqb x "#") eqn:E; cbn [negb orb andb] in *.
  - by rewrite Hx.
  - destruct t as [|y t]; [done|]. by rewrite IH.
Qed.
Lemma ret_get_member d f r : flat_ok ret_key (d_ret d) → filter_ok (levels f) = true →
  r ∈ ret_get d f ↔ abs_ret (d_ret d) (ret_key r) = Some r ∧ ret_added r = true ∧ mmatch (levels f) (levels (ret_key r)) = true.
Proof.
  intros Hok Hf. unfold ret_get. rewrite elem_of_list_In, filter_In, in_map_iff. split.
  - intros [([k v] & <- & Hin) Ha]. apply filter_In in Hin as [Hin Hm]. cbn in *. rewrite gmatch_mmatch in Hm by done.
    pose proof Hok as [_ Hk]. rewrite Forall_forall in Hk. specialize (Hk (k, v) (proj2 (elem_of_list_In _ _) Hin)). cbn in Hk.
    split; [|by rewrite Hk]. unfold abs_ret. rewrite Hk. apply (flat_lookup_in ret_key); [done|by apply elem_of_list_In].
  - intros (Hl & Ha & Hm). split; [|done]. exists (ret_key r, r). split; [done|]. apply filter_In. split; [|cbn; by rewrite gmatch_mmatch].
    apply elem_of_list_In. by apply alookup_Some_in.
Qed.
Lemma ret_get_nodup d f : flat_ok ret_key (d_ret d) → NoDup (map ret_key (ret_get d f)).
Proof.
  intros Hok. unfold ret_get. apply NoDup_map_filter.
  assert (Hsub : ∀ l : list (string * rmsg), NoDup (map fst l) → Forall (λ kv, ret_key kv.2 = kv.1) l →
                 NoDup (map ret_key (map snd (List.filter (λ kv, gmatch (levels f) (levels kv.1)) l)))).
  { intros l. induction l as [|[k v] l IH]; [intros; apply NoDup_nil_2|]. cbn [map fst List.filter].
    intros [Hn Hnd]%NoDup_cons [Hk Hall]%Forall_cons. cbn [fst snd] in Hk |- *.
    destruct (gmatch (levels f) (levels k)); [|by apply IH]. cbn [map snd]. apply NoDup_cons. split; [|by apply IH].
    rewrite Hk. intros (r & Hr & Hin)%elem_of_list_fmap. apply elem_of_list_fmap in Hin as ([k' v'] & -> & Hin).
    apply elem_of_list_In, filter_In in Hin as [Hin _]. rewrite Forall_forall in Hall.
    specialize (Hall _ (proj2 (elem_of_list_In _ _) Hin)). cbn in *. apply Hn. apply elem_of_list_fmap. exists (k', v').
    split; [cbn; congruence|by apply elem_of_list_In]. }
  destruct Hok as [Hn Hk]. by apply Hsub.
Qed.
