(** Executable model of one wasp node and of a small cluster, at the granularity of the
    end-to-end harness: one step = one client packet / connection event / expiry sweep /
    gossip delivery / peer failure, run to quiescence (publish worker, Distribute, log consumer,
    writer).  Mirrors wasp/conn.go (setup, serve, shutdownSession), wasp/packets.go (Process,
    publish worker), wasp/publish.go (Distribute, SchedulePublishes), wasp/writer.go (Run, send,
    sendQoS1/2, completeQoS2, getFree), wasp/nodes.go (NotifyGossipLeave), wasp/grpc.go
    (ScheduleMessage), over Model/DState.v (replicated state), Model/IdPool.v (packet
    identifiers) and the in-flight table specification (C04 proves the implementation refines
    it; a sweep in this model expires everything pending, as the harness's sweeps do). *)
From Wasp Require Export Model.Base Spec.MatchSpec Model.DState Model.IdPool Model.Mount.
Open Scope Z_scope.

Definition PUBACK := 4. Definition PUBREC := 5. Definition PUBREL := 6. Definition PUBCOMP := 7.

(** packets the broker writes *)
Inductive opkt :=
| OConnAck (code : Z)
| OPublish (topic payload : string) (qos : Z) (retain dup : bool) (mid : Z)
| OPubAck (mid : Z) | OPubRec (mid : Z) | OPubRel (mid : Z) | OPubComp (mid : Z)
| OSubAck (mid : Z) (qs : list Z) | OUnsubAck (mid : Z) | OPingResp | OOther (ty : Z).

Inductive eobs :=
| Out (c : string) (p : opkt)
| Closed (c : string)
| Garbage (c : string)
| Deadline (c : string) (ms : Z)                      (* read deadline in force on the acting connection *)
| Appended (n : nat) (topic payload : string) (qos : Z) (retain : bool)
| AppendFailed (n : nat)
| Call (src dst : nat) (ok : bool)
| Listed (n : nat) (sess : list smeta) (subs : list sub) (reg : list string) (pending : nat).

(* how a script names the delivery an acknowledgement is for: a raw identifier, or the i-th
   distinct delivery on that connection with this topic, payload and QoS *)
Inductive aref := RefRaw (mid : Z) | RefFor (t p : string) (q : Z) (i : nat).

Inductive eop :=
| EConnect (n : nat) (c cid user pass : string) (ka : Z) (will : option publish) (clk : Z)
| EPublish (c : string) (p : publish) (dup : bool) (mid : Z) (clk : Z)
| ESubscribe (c : string) (mid : Z) (fs : list (string * Z)) (clk : Z)
| EUnsubscribe (c : string) (mid : Z) (fs : list string) (clk : Z)
| EAck (c : string) (ty : Z) (r : aref) (clk : Z)
| EPing (c : string) (clk : Z)
| EDisconnect (c : string) (clk : Z)
| EProtoError (c : string) (clk : Z)                  (* a second CONNECT *)
| EEof (c : string) (clk : Z)                         (* read error: EOF or deadline exceeded *)
| EFailWrites (c : string)
| ESweep (n : nat)
| EGossip (src dst : nat)
| ESnapshot (src dst : nat)
| EPeerLeave (observer dead : nat) (clk : Z)
| EUnreachable (peers : list nat)
| EFailAppend (n k : nat)
| ECheck (n : nat)
| ENoop (c : string)                                  (* a packet Process has no case for (CONNACK, SUBACK, PINGRESP, QoS 3 ...) *)
| EBadConnect (n : nat) (c : string)                 (* a first packet that is not a decodable CONNECT *)
| EPanic
| EGossipRev (src dst : nat)                          (* the pending broadcasts of src reach dst in reverse order *)
| EPeerNotice (observer dead : nat) (clk : Z)         (* NotifyGossipLeave up to its return: the session records are still there *)
| EPeerReap (observer dead : nat) (clk : Z).          (* ... and its delayed DeletePeer of the session records, 3 s later *)

(** * one node *)
Record sess := Sess { ss_id : string; ss_cid : string; ss_mp : string; ss_lwt : option publish; ss_ka : Z;
                      ss_topics : list string; ss_conn : string }.
(* a message as stored in the log / handed to the writer *)
Record lmsg := LMsg { l_topic : string; l_payload : string; l_qos : Z; l_retain : bool; l_dup : bool }.
(* what an in-flight entry will do when it resolves *)
Inductive tag :=
| TQ1 (sid : string) (p : opkt)                       (* outbound QoS 1 PUBLISH awaiting PUBACK *)
| TQ2Pub (sid : string) (p : opkt)                    (* outbound QoS 2 PUBLISH awaiting PUBREC *)
| TQ2Rel (sid : string) (mid : Z)                     (* outbound PUBREL awaiting PUBCOMP *)
| TIn (sid c : string) (m : lmsg) (retain : bool).    (* inbound QoS 2 PUBLISH awaiting PUBREL *)
Record aentry := AEntry { a_prefix : string; a_mid : Z; a_expect : Z; a_tag : tag }.

Record node := NodeSt {
  n_id : Z; n_d : dstate; n_out : list bevent; n_reg : list (string * sess);
  n_acks : list aentry; n_pool : pool; n_log : list lmsg; n_coff : nat; n_fail : nat }.
Definition nnew (id : Z) : node := NodeSt id (dnew id) [] [] [] (pnew 0 65535) [] 0 0.
Definition set_d n d := NodeSt (n_id n) d (n_out n) (n_reg n) (n_acks n) (n_pool n) (n_log n) (n_coff n) (n_fail n).
Definition set_out n o := NodeSt (n_id n) (n_d n) o (n_reg n) (n_acks n) (n_pool n) (n_log n) (n_coff n) (n_fail n).
Definition set_reg n r := NodeSt (n_id n) (n_d n) (n_out n) r (n_acks n) (n_pool n) (n_log n) (n_coff n) (n_fail n).
Definition set_acks n a := NodeSt (n_id n) (n_d n) (n_out n) (n_reg n) a (n_pool n) (n_log n) (n_coff n) (n_fail n).
Definition set_pool n p := NodeSt (n_id n) (n_d n) (n_out n) (n_reg n) (n_acks n) p (n_log n) (n_coff n) (n_fail n).
Definition set_log n l := NodeSt (n_id n) (n_d n) (n_out n) (n_reg n) (n_acks n) (n_pool n) l (n_coff n) (n_fail n).
Definition set_coff n c := NodeSt (n_id n) (n_d n) (n_out n) (n_reg n) (n_acks n) (n_pool n) (n_log n) c (n_fail n).
Definition set_fail n f := NodeSt (n_id n) (n_d n) (n_out n) (n_reg n) (n_acks n) (n_pool n) (n_log n) (n_coff n) f.

(* a replicated-state mutator: new state, and its broadcast appended to the node's queue *)
Definition mutate (n : node) (r : dstate * option bevent) : node :=
  set_out (set_d n (fst r)) (match snd r with Some e => (n_out n ++ [e])%list | None => n_out n end).

(** ** the in-flight table *)
Definition akey_eq (e : aentry) (prefix : string) (mid : Z) : bool := String.eqb (a_prefix e) prefix && (a_mid e =? mid).
Definition ack_find (l : list aentry) (prefix : string) (mid : Z) : option aentry := find (fun e => akey_eq e prefix mid) l.
Definition ack_remove (l : list aentry) (prefix : string) (mid : Z) : list aentry := filter (fun e => negb (akey_eq e prefix mid)) l.
(* ack.Queue.Insert: identifier 0 and duplicates are refused *)
Definition ack_insert (n : node) (prefix : string) (mid expect : Z) (t : tag) : node * bool :=
  if mid =? 0 then (n, false)
  else match ack_find (n_acks n) prefix mid with
       | Some _ => (n, false)
       | None => (set_acks n (n_acks n ++ [AEntry prefix mid expect t])%list, true)
       end.

(** ** writer.go *)
(* connections whose writes fail (client end gone, session still registered) *)
Definition wout (bad : list string) (c : string) (p : opkt) : list eobs :=
  if existsb (String.eqb c) bad then [] else [Out c p].
Definition opkt_mid (p : opkt) : Z := match p with OPublish _ _ _ _ _ m => m | _ => 0 end.

Definition send_q1 (bad : list string) (n : node) (s : sess) (p : opkt) : node * list eobs * bool :=
  let '(n', ok) := ack_insert n (ss_id s) (opkt_mid p) PUBACK (TQ1 (ss_id s) p) in
  if ok then (n', wout bad (ss_conn s) p, true) else (n', [], false).
Definition send_q2 (bad : list string) (n : node) (s : sess) (p : opkt) : node * list eobs * bool :=
  let '(n', ok) := ack_insert n (ss_id s) (opkt_mid p) PUBREC (TQ2Pub (ss_id s) p) in
  if ok then (n', wout bad (ss_conn s) p, true) else (n', [], false).
Definition complete_q2 (bad : list string) (n : node) (s : sess) (mid : Z) : node * list eobs :=
  let '(n', _) := ack_insert n (ss_id s) mid PUBCOMP (TQ2Rel (ss_id s) mid) in
  (n', wout bad (ss_conn s) (OPubRel mid)).

(* getFree: up to 5 tries, identifiers <= 0 are refused (the pool's very first Get returns 0) *)
Fixpoint get_free (tries : nat) (p : pool) : option Z * pool :=
  match tries with
  | O => (None, p)
  | S k => let r := pget p in if 0 <? fst r then (Some (fst r), snd r) else get_free k (snd r)
  end.

(* send: one PUBLISH per recipient that is in the local registry, at the recipient's QoS, topic
   trimmed of the mount point, retain and dup flags of the message *)
Fixpoint send (bad : list string) (n : node) (recips : list (string * Z)) (m : lmsg) : node * list eobs :=
  match recips with
  | [] => (n, [])
  | (r, q) :: rs =>
    match alookup r (n_reg n) with
    | None => send bad n rs m
    | Some s =>
      let mk := fun mid => OPublish (trim_mp (ss_mp s) (l_topic m)) (l_payload m) q (l_retain m) (l_dup m) mid in
      if q =? 0 then let r' := send bad n rs m in (fst r', wout bad (ss_conn s) (mk 0) ++ snd r')%list
      else if (q =? 1) || (q =? 2) then
        match get_free 5 (n_pool n) with
        | (None, pl) => (set_pool n pl, [])                    (* "return": the remaining recipients are dropped *)
        | (Some mid, pl) =>
          let n1 := set_pool n pl in
          let '(n2, o1, ok) := if q =? 1 then send_q1 bad n1 s (mk mid) else send_q2 bad n1 s (mk mid) in
          let n3 := if ok then n2 else set_pool n2 (pput mid (n_pool n2)) in
          let r' := send bad n3 rs m in (fst r', o1 ++ snd r')%list
        end
      else send bad n rs m
    end
  end.

(* the callbacks registered with the in-flight table *)
Definition release (n : node) (mid : Z) : node := set_pool n (pput mid (n_pool n)).
Definition on_outcome (bad : list string) (n : node) (e : aentry) (expired : bool) : node * list eobs * option (string * string * lmsg * bool * Z) :=
  match a_tag e with
  | TQ1 sid p =>
    match alookup sid (n_reg n) with
    | Some s => if expired then let '(n', o, _) := send_q1 bad n s p in (n', o, None) else (release n (opkt_mid p), [], None)
    | None => (release n (opkt_mid p), [], None)
    end
  | TQ2Pub sid p =>
    match alookup sid (n_reg n) with
    | None => (release n (opkt_mid p), [], None)
    | Some s => if expired then let '(n', o, _) := send_q2 bad n s p in (n', o, None)
                else let r := complete_q2 bad n s (opkt_mid p) in (fst r, snd r, None)
    end
  | TQ2Rel sid mid =>
    match alookup sid (n_reg n) with
    | Some s => if expired then let r := complete_q2 bad n s mid in (fst r, snd r, None) else (release n mid, [], None)
    | None => (release n mid, [], None)
    end
  | TIn sid c m retain =>
    (* PUBREL arrived: hand the stored publish to a worker; PUBCOMP when it is stored *)
    if expired then (n, [], None) else (n, [], Some (sid, c, m, retain, a_mid e))
  end.

(** * the cluster *)
Record conn := Conn { c_name : string; c_node : nat; c_sid : option string; c_closed : bool }.
Record cluster := Cluster {
  cl_nodes : list node; cl_conns : list conn; cl_bad : list string; cl_down : list nat;
  cl_deliv : list (nat * nat * nat); cl_next : nat }.
Definition cnew (k : nat) : cluster :=
  Cluster (map (fun i => nnew (Z.of_nat (S i))) (seq 0 k)) [] [] [] [] 1.
Definition getn (cl : cluster) (i : nat) : node := nth i (cl_nodes cl) (nnew 0).
Fixpoint set_nth {A} (i : nat) (x : A) (l : list A) : list A :=
  match l, i with [], _ => [] | _ :: l', O => x :: l' | y :: l', S i' => y :: set_nth i' x l' end.
Definition setn (cl : cluster) (i : nat) (n : node) : cluster :=
  Cluster (set_nth i n (cl_nodes cl)) (cl_conns cl) (cl_bad cl) (cl_down cl) (cl_deliv cl) (cl_next cl).
Definition find_conn (cl : cluster) (c : string) : option conn := find (fun x => String.eqb (c_name x) c) (cl_conns cl).
Definition upd_conn (cl : cluster) (k : conn) : cluster :=
  Cluster (cl_nodes cl) (map (fun x => if String.eqb (c_name x) (c_name k) then k else x) (cl_conns cl))
          (cl_bad cl) (cl_down cl) (cl_deliv cl) (cl_next cl).
Definition node_index (cl : cluster) (peer : Z) : nat := Z.to_nat (peer - 1).
Definition is_down (cl : cluster) (i : nat) : bool := existsb (Nat.eqb i) (cl_down cl).

(* Storage.Append on node i (the harness can make the next k appends fail) *)
Definition append_at (cl : cluster) (i : nat) (m : lmsg) : cluster * list eobs * bool :=
  let n := getn cl i in
  match n_fail n with
  | S k => (setn cl i (set_fail n k), [AppendFailed i], false)
  | O => (setn cl i (set_log n (n_log n ++ [m])%list), [Appended i (l_topic m) (l_payload m) (l_qos m) (l_retain m)], true)
  end.

Definition dedup (l : list Z) : list Z := fold_right (fun x acc => if existsb (Z.eqb x) acc then acc else x :: acc) [] l.

(* publish.go Distribute: append to the log of every node hosting a matching subscription known
   here; failure of one destination does not stop the others but is reported *)
Definition distribute (cl : cluster) (i : nat) (m : lmsg) : cluster * list eobs * bool :=
  let n := getn cl i in
  let dests := dedup (map s_peer (sub_by_pattern (n_d n) (l_topic m))) in
  fold_left (fun acc dst =>
    let '(c, o, failed) := acc in
    let j := node_index c dst in
    if Nat.eqb j i then let '(c', o', ok) := append_at c i m in (c', (o ++ o')%list, failed || negb ok)
    else if is_down c j then (c, (o ++ [Call i j false])%list, true)
    else let '(c', o', ok) := append_at c j m in (c', (o ++ o' ++ [Call i j ok])%list, failed || negb ok))
    dests (cl, [], false).

(* the publish worker: retained handling, then Distribute, then the acknowledgement callback *)
Definition worker (cl : cluster) (i : nat) (m : lmsg) (retain : bool) (clk : Z) (ackp : list eobs) : cluster * list eobs :=
  let n := getn cl i in
  let n1 := if retain then
              (if String.eqb (l_payload m) "" then mutate n (ret_delete (n_d n) (l_topic m) clk)
               else mutate n (ret_set (n_d n) (Publish (l_topic m) (l_payload m) (l_qos m) true (l_dup m)) clk))
            else n in
  let '(c2, o, failed) := distribute (setn cl i n1) i m in
  (c2, (o ++ if failed then [] else ackp)%list).

(* log consumer + writer on node i: every entry not yet consumed is resolved to local recipients and sent *)
Fixpoint drain_node (fuel : nat) (cl : cluster) (i : nat) : cluster * list eobs :=
  match fuel with
  | O => (cl, [])
  | S f =>
    let n := getn cl i in
    match nth_error (n_log n) (n_coff n) with
    | None => (cl, [])
    | Some m =>
      let n0 := set_coff n (S (n_coff n)) in
      let subs := filter (fun s => s_peer s =? n_id n) (sub_by_pattern (n_d n0) (l_topic m)) in
      let r := send (cl_bad cl) n0 (map (fun s => (s_sid s, s_qos s)) subs) m in
      let r' := drain_node f (setn cl i (fst r)) i in
      (fst r', (snd r ++ snd r')%list)
    end
  end.
(* more than any log the harness builds in one step *)
Definition drain_fuel : nat := 4000.
Definition drain_all (cl : cluster) : cluster * list eobs :=
  fold_left (fun acc i => let r := drain_node drain_fuel (fst acc) i in (fst r, (snd acc ++ snd r)%list))
            (seq 0 (length (cl_nodes cl))) (cl, []).

(** ** sessions *)
Definition keepalive_ms (s : sess) : Z := 2 * ss_ka s * 1000.
Definition add_topic (s : sess) (t : string) : sess :=
  if existsb (String.eqb t) (ss_topics s) then s
  else Sess (ss_id s) (ss_cid s) (ss_mp s) (ss_lwt s) (ss_ka s) (ss_topics s ++ [t])%list (ss_conn s).
Definition del_topic (s : sess) (t : string) : sess :=
  Sess (ss_id s) (ss_cid s) (ss_mp s) (ss_lwt s) (ss_ka s) (filter (fun x => negb (String.eqb x t)) (ss_topics s)) (ss_conn s).
Definition sess_update (n : node) (s : sess) : node := set_reg n (aset (ss_id s) s (n_reg n)).

(* ByClientID scoped by mount point: the model takes the first candidate (scripts keep it unique) *)
Definition owner (n : node) (mp cid : string) : option smeta := hd_error (sess_by_client mp cid (n_d n)).

(* conn.go shutdownSession + serve's Close *)
Definition shutdown (cl : cluster) (i : nat) (s : sess) (disconnected : bool) (clk : Z) : cluster * list eobs :=
  let n := getn cl i in
  let n1 := set_reg n (adel (ss_id s) (n_reg n)) in
  let n2 := fold_left (fun m t => mutate m (sub_delete (n_d m) (ss_id s) t clk)) (ss_topics s) n1 in
  let mine := match owner n2 (ss_mp s) (ss_cid s) with
              | Some m => if String.eqb (m_sid m) (ss_id s) then Some true else Some false
              | None => None end in
  let closed := [Closed (ss_conn s)] in
  match mine with
  | Some false => (setn cl i n2, closed)                  (* displaced by a newer session: nothing more *)
  | _ =>
    let n3 := match mine with Some true => mutate n2 (sess_delete (n_d n2) (ss_id s) clk) | _ => n2 end in
    let cl3 := setn cl i n3 in
    if disconnected then (cl3, closed)
    else match ss_lwt s with
         | Some w =>
           let m := LMsg (prefix_mp (ss_mp s) (p_topic w)) (p_payload w) (p_qos w) false false in
           let r := worker cl3 i m (p_retain w) clk [] in (fst r, (closed ++ snd r)%list)
         | None => (cl3, closed)
         end
  end.

Definition end_session (cl : cluster) (k : conn) (disconnected : bool) (clk : Z) : cluster * list eobs :=
  match c_sid k with
  | None => (cl, [])
  | Some sid =>
    let n := getn cl (c_node k) in
    let cl0 := upd_conn cl (Conn (c_name k) (c_node k) None true) in
    match alookup sid (n_reg n) with
    | None => (cl0, [Closed (c_name k)])
    | Some s => shutdown cl0 (c_node k) s disconnected clk
    end
  end.

Definition session_id (k : nat) : string :=
  let d := fun x => String (ascii_of_nat (48 + x)) "" in
  ("s" ++ d (Nat.modulo (Nat.div k 100) 10) ++ d (Nat.modulo (Nat.div k 10) 10) ++ d (Nat.modulo k 10))%string.

(* conn.go setup *)
Definition setup (cl : cluster) (i : nat) (c cid user pass : string) (ka : Z) (will : option publish) (clk : Z) : cluster * list eobs :=
  let k0 := Conn c i None false in
  let cl0 := Cluster (cl_nodes cl) (cl_conns cl ++ [k0])%list (cl_bad cl) (cl_down cl) (cl_deliv cl) (cl_next cl) in
  if String.eqb pass "bad" || String.eqb pass "bad-static" then
    (cl0, [Out c (OConnAck 4); Deadline c 3000])
  else
    let id := session_id (cl_next cl0) in
    let mp := if String.eqb user "" then "_default" else user in
    let cl1 := Cluster (cl_nodes cl0) (cl_conns cl0) (cl_bad cl0) (cl_down cl0) (cl_deliv cl0) (S (cl_next cl0)) in
    let n := getn cl1 i in
    let s := Sess id cid mp will ka [] c in
    let n1 := match owner n mp cid with Some m => mutate n (sess_delete (n_d n) (m_sid m) clk) | None => n end in
    let r := sess_create (n_d n1) id cid mp will clk in
    match snd r with
    | None => (setn cl1 i n1, [Closed c])          (* Create failed: setup returns the error, the connection is closed *)
    | Some _ =>
      let n2 := set_reg (mutate n1 r) (aset id s (n_reg n1)) in
      (upd_conn (setn cl1 i n2) (Conn c i (Some id) false), [Out c (OConnAck 0); Deadline c (keepalive_ms s)])
    end.

(** ** packets.go Process, per packet kind *)
Definition with_session (cl : cluster) (c : string) (f : conn -> nat -> node -> sess -> cluster * list eobs) : cluster * list eobs :=
  match find_conn cl c with
  | None => (cl, [])
  | Some k =>
    if c_closed k then (cl, []) else
    match c_sid k with
    | None => (cl, [])
    | Some sid =>
      let n := getn cl (c_node k) in
      match alookup sid (n_reg n) with
      | None => (cl, [])
      | Some s => f k (c_node k) n s
      end
    end
  end.
Definition dl (s : sess) : list eobs := [Deadline (ss_conn s) (keepalive_ms s)].

Definition do_publish (cl : cluster) (c : string) (p : publish) (dup : bool) (mid clk : Z) : cluster * list eobs :=
  with_session cl c (fun k i n s =>
    let m := LMsg (prefix_mp (ss_mp s) (p_topic p)) (p_payload p) (p_qos p) false dup in
    if (p_qos p =? 0) || (p_qos p =? 1) then
      let r := worker cl i m (p_retain p) clk (if p_qos p =? 1 then wout (cl_bad cl) c (OPubAck mid) else []) in
      (fst r, (snd r ++ dl s)%list)
    else if p_qos p =? 2 then
      let '(n', ok) := ack_insert n (ss_id s ++ "/in") mid PUBREL (TIn (ss_id s) c m (p_retain p)) in
      if ok then (setn cl i n', (wout (cl_bad cl) c (OPubRec mid) ++ dl s)%list)
      else end_session cl k false clk                              (* ErrDupMID / ErrWrongMID: Process fails, the session ends *)
    else (cl, dl s)).

Definition do_subscribe (cl : cluster) (c : string) (mid : Z) (fs : list (string * Z)) (clk : Z) : cluster * list eobs :=
  with_session cl c (fun k i n s =>
    let '(n1, s1) := fold_left (fun acc fq =>
                        let pat := prefix_mp (ss_mp s) (fst fq) in
                        (mutate (fst acc) (sub_create (n_d (fst acc)) (ss_id s) pat (snd fq) clk), add_topic (snd acc) pat))
                      fs (n, s) in
    let n2 := sess_update n1 s1 in
    (* retained replay, after the SUBACK: one send per stored message per filter, at the filter's QoS, flagged *)
    let replay := flat_map (fun fq => map (fun r => (snd fq, LMsg (p_topic (r_pub r)) (p_payload (r_pub r)) (p_qos (r_pub r)) (p_retain (r_pub r)) (p_dup (r_pub r))))
                                          (ret_get (n_d n2) (prefix_mp (ss_mp s) (fst fq)))) fs in
    let r := fold_left (fun acc qm => let r := send (cl_bad cl) (fst acc) [(ss_id s, fst qm)] (snd qm) in (fst r, (snd acc ++ snd r)%list))
                       replay (n2, []) in
    (setn cl i (fst r), (wout (cl_bad cl) c (OSubAck mid (map snd fs)) ++ snd r ++ dl s)%list)).

Definition do_unsubscribe (cl : cluster) (c : string) (mid : Z) (fs : list string) (clk : Z) : cluster * list eobs :=
  with_session cl c (fun k i n s =>
    let '(n1, s1) := fold_left (fun acc f =>
                        let pat := prefix_mp (ss_mp s) f in
                        (mutate (fst acc) (sub_delete (n_d (fst acc)) (ss_id s) pat clk), del_topic (snd acc) pat))
                      fs (n, s) in
    (setn cl i (sess_update n1 s1), (wout (cl_bad cl) c (OUnsubAck mid) ++ dl s)%list)).

(* which identifier an acknowledgement names: [seen] = per connection, the distinct broker-chosen
   identifiers per (topic, payload, qos) in order of first appearance *)
Definition seen_t := list (string * list ((string * string * Z) * list Z)).
Definition resolve (seen : seen_t) (c : string) (r : aref) : Z :=
  match r with
  | RefRaw m => m
  | RefFor t p q i =>
    match alookup c seen with
    | None => 65000
    | Some l =>
      match find (fun e => String.eqb (fst (fst (fst e))) t && String.eqb (snd (fst (fst e))) p && (snd (fst e) =? q)) l with
      | Some e => nth i (snd e) 65000
      | None => 65000
      end
    end
  end.

Definition do_ack (cl : cluster) (c : string) (ty mid : Z) (clk : Z) : cluster * list eobs :=
  with_session cl c (fun k i n s =>
    let prefix := if ty =? PUBREL then (ss_id s ++ "/in")%string else ss_id s in
    match ack_find (n_acks n) prefix mid with
    | None => (cl, dl s)
    | Some e =>
      if a_expect e =? ty then
        let '(n', o, job) := on_outcome (cl_bad cl) (set_acks n (ack_remove (n_acks n) prefix mid)) e false in
        let cl' := setn cl i n' in
        match job with
        | None => (cl', (o ++ dl s)%list)
        | Some (sid, c', m, retain, pm) =>
          let r := worker cl' i m retain clk (wout (cl_bad cl) c' (OPubComp pm)) in (fst r, (o ++ snd r ++ dl s)%list)
        end
      else (cl, dl s)
    end).

Definition do_ping (cl : cluster) (c : string) (clk : Z) : cluster * list eobs :=
  with_session cl c (fun k i n s =>
    match owner n (ss_mp s) (ss_cid s) with
    | Some m => if String.eqb (m_sid m) (ss_id s) then (cl, (wout (cl_bad cl) c OPingResp ++ dl s)%list)
                else end_session cl k true clk
    | None => end_session cl k true clk
    end).

(* ack.Queue.Expire with everything pending due: callbacks in registration order *)
Definition sweep (cl : cluster) (i : nat) : cluster * list eobs :=
  let n := getn cl i in
  let due := n_acks n in
  let r := fold_left (fun acc e => let '(m, o, _) := on_outcome (cl_bad cl) (fst acc) e true in (m, (snd acc ++ o)%list))
                     due (set_acks n [], []) in
  (setn cl i (fst r), snd r).

(* gossip: every broadcast of src not yet delivered to dst, in order *)
Definition deliv_count (cl : cluster) (a b : nat) : nat :=
  match find (fun x => Nat.eqb (fst (fst x)) a && Nat.eqb (snd (fst x)) b) (cl_deliv cl) with Some x => snd x | None => O end.
Definition gossip_with (reorder : list bevent -> list bevent) (cl : cluster) (a b : nat) : cluster :=
  let src := getn cl a in
  let evs := reorder (skipn (deliv_count cl a b) (n_out src)) in
  let dst := getn cl b in
  let dst' := set_d dst (fold_left merge_event evs (n_d dst)) in
  let cl' := setn cl b dst' in
  Cluster (cl_nodes cl') (cl_conns cl') (cl_bad cl') (cl_down cl')
          ((a, b, length (n_out src)) :: filter (fun x => negb (Nat.eqb (fst (fst x)) a && Nat.eqb (snd (fst x)) b)) (cl_deliv cl')) (cl_next cl').

Definition gossip := gossip_with (fun l => l).

(* nodes.go NotifyGossipLeave on the observer, including the delayed DeletePeer of the session records *)
Definition peer_leave (cl : cluster) (o dead : nat) (clk : Z) : cluster * list eobs :=
  let cl0 := Cluster (cl_nodes cl) (cl_conns cl) (cl_bad cl) (dead :: cl_down cl) (cl_deliv cl) (cl_next cl) in
  let n := getn cl0 o in
  let pid := Z.of_nat (S dead) in
  let n1 := mutate n (sub_delete_peer (n_d n) pid clk) in
  let wills := flat_map (fun m => match m_lwt m with
                                  | Some w => [LMsg (prefix_mp (m_mp m) (p_topic w)) (p_payload w) (p_qos w) (p_retain w) false]
                                  | None => [] end) (sess_by_peer pid (n_d n1)) in
  let r := fold_left (fun acc w => let '(c, ob, _) := append_at (fst acc) o w in (c, (snd acc ++ ob)%list)) wills (setn cl0 o n1, []) in
  let n2 := getn (fst r) o in
  let n3 := mutate n2 (sess_delete_peer (n_d n2) pid clk) in
  (setn (fst r) o n3, snd r).

(* the same in two steps: what NotifyGossipLeave has done when it returns, and the removal of the
   failed peer's session records that it leaves to a goroutine (three seconds later) *)
Definition peer_notice (cl : cluster) (o dead : nat) (clk : Z) : cluster * list eobs :=
  let cl0 := Cluster (cl_nodes cl) (cl_conns cl) (cl_bad cl) (dead :: cl_down cl) (cl_deliv cl) (cl_next cl) in
  let n := getn cl0 o in
  let pid := Z.of_nat (S dead) in
  let n1 := mutate n (sub_delete_peer (n_d n) pid clk) in
  let wills := flat_map (fun m => match m_lwt m with
                                  | Some w => [LMsg (prefix_mp (m_mp m) (p_topic w)) (p_payload w) (p_qos w) (p_retain w) false]
                                  | None => [] end) (sess_by_peer pid (n_d n1)) in
  fold_left (fun acc w => let '(c, ob, _) := append_at (fst acc) o w in (c, (snd acc ++ ob)%list)) wills (setn cl0 o n1, []).
Definition peer_reap (cl : cluster) (o dead : nat) (clk : Z) : cluster :=
  let n := getn cl o in setn cl o (mutate n (sess_delete_peer (n_d n) (Z.of_nat (S dead)) clk)).

Definition listed (cl : cluster) (i : nat) : eobs :=
  let n := getn cl i in Listed i (sess_all (n_d n)) (sub_all (n_d n)) (map fst (n_reg n)) (length (n_acks n)).

(** * one script step, run to quiescence *)
Definition step_raw (seen : seen_t) (cl : cluster) (o : eop) : cluster * list eobs :=
  match o with
  | EConnect n c cid user pass ka will clk => setup cl n c cid user pass ka will clk
  | EPublish c p dup mid clk => do_publish cl c p dup mid clk
  | ESubscribe c mid fs clk => do_subscribe cl c mid fs clk
  | EUnsubscribe c mid fs clk => do_unsubscribe cl c mid fs clk
  | EAck c ty r clk => do_ack cl c ty (resolve seen c r) clk
  | EPing c clk => do_ping cl c clk
  | EDisconnect c clk => match find_conn cl c with Some k => if c_closed k then (cl, []) else end_session cl k true clk | None => (cl, []) end
  | EProtoError c clk | EEof c clk =>
    match find_conn cl c with Some k => if c_closed k then (cl, []) else end_session cl k false clk | None => (cl, []) end
  | EFailWrites c => (Cluster (cl_nodes cl) (cl_conns cl) (c :: cl_bad cl) (cl_down cl) (cl_deliv cl) (cl_next cl), [])
  | ESweep n => sweep cl n
  | EGossip a b => (gossip cl a b, [])
  | ESnapshot a b => let dst := getn cl b in (setn cl b (set_d dst (merge_event (n_d dst) (dump (n_d (getn cl a))))), [])
  | EPeerLeave o d clk => peer_leave cl o d clk
  | EUnreachable ps => (Cluster (cl_nodes cl) (cl_conns cl) (cl_bad cl) ps (cl_deliv cl) (cl_next cl), [])
  | EFailAppend n k => (setn cl n (set_fail (getn cl n) k), [])
  | ECheck n => (cl, [listed cl n])
  | ENoop c => with_session cl c (fun k i n s => (cl, dl s))
  | EBadConnect n c =>
    (Cluster (cl_nodes cl) (cl_conns cl ++ [Conn c n None true])%list (cl_bad cl) (cl_down cl) (cl_deliv cl) (cl_next cl), [Closed c])
  | EPanic => (cl, [])
  | EGossipRev a b => (gossip_with (@rev bevent) cl a b, [])
  | EPeerNotice o d clk => peer_notice cl o d clk
  | EPeerReap o d clk => (peer_reap cl o d clk, [])
  end.
Definition step (seen : seen_t) (cl : cluster) (o : eop) : cluster * list eobs :=
  let r := step_raw seen cl o in
  let d := drain_all (fst r) in
  (fst d, (snd r ++ snd d)%list).
