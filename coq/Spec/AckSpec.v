(** AckSpec — the specification C04 is stated against: the in-flight table is a finite map
    from (session prefix, packet identifier) to one pending exchange.  Executable (it doubles
    as the oracle of the correspondence check). *)
From Wasp Require Export Model.Base.
Open Scope Z_scope.

Definition key : Type := (string * Z)%type.        (* fmt.Sprintf("%s/%d", prefix, id) is injective in the pair *)
Definition key_eqb (a b : key) : bool := String.eqb (fst a) (fst b) && (snd a =? snd b).

(* MQTT control packet types *)
Definition PUBLISH := 3. Definition PUBACK := 4. Definition PUBREC := 5.
Definition PUBREL := 6.  Definition PUBCOMP := 7.

(* what Insert is given *)
Inductive ipkt := IPublish (qos : Z) | IPubRec | IPubRel | IOther.
(* the packet type Insert arms the entry for; None = rejected *)
Definition expected (p : ipkt) : option Z :=
  match p with
  | IPublish q => if q =? 1 then Some PUBACK else if q =? 2 then Some PUBREC else None
  | IPubRec => Some PUBREL
  | IPubRel => Some PUBCOMP
  | IOther => None
  end.

Inductive qop :=
| QInsert (prefix : string) (mid : Z) (p : ipkt) (deadline : Z) (reg : N)   (* reg: registration number, unique per call *)
| QAck (prefix : string) (mid : Z) (ptype : Z) (acker : bool)              (* acker: the packet carries an identifier *)
| QSweep (now : Z).

Inductive rcode := ROk | RDup | RWrongMID | RUnexpected | RInvalidQos | RWrongPacket.
(* result of one operation: return code (sweeps return nothing: ROk) and the callbacks it ran, in order *)
Definition qout : Type := (rcode * list (N * bool))%type.   (* (registration, expired?) *)

Record entry := Entry { ekey : key; ereg : N; eexpect : Z; edl : Z }.
Definition sstate := list entry.                   (* insertion order; keys unique *)

Definition sec : Z := 1000000000.
(* time.Time.Round(time.Second) on nanoseconds since the epoch: nearest second, halves up *)
Definition round_s (d : Z) : Z := ((d + sec / 2) / sec) * sec.
Definition due (now : Z) (e : entry) : bool := round_s (edl e) <? now.

Fixpoint sfind (k : key) (s : sstate) : option entry :=
  match s with [] => None | e :: s' => if key_eqb (ekey e) k then Some e else sfind k s' end.
Definition sremove (k : key) (s : sstate) : sstate := filter (fun e => negb (key_eqb (ekey e) k)) s.

(* stable insertion sort by deadline: entries with equal deadlines keep their insertion order *)
Fixpoint dl_insert (e : entry) (l : list entry) : list entry :=
  match l with
  | [] => [e]
  | x :: l' => if edl x <=? edl e then x :: dl_insert e l' else e :: x :: l'
  end.
Definition dl_sort (l : list entry) : list entry := fold_left (fun acc e => dl_insert e acc) l [].

Definition spec_step (s : sstate) (o : qop) : sstate * qout :=
  match o with
  | QInsert pfx mid p d r =>
    match expected p with
    | None => (s, (match p with IPublish _ => if mid =? 0 then RWrongMID else RInvalidQos | _ => RWrongPacket end, []))
    | Some ty =>
      if mid =? 0 then (s, (RWrongMID, []))
      else match sfind (pfx, mid) s with
           | Some _ => (s, (RDup, []))
           | None => ((s ++ [Entry (pfx, mid) r ty d])%list, (ROk, []))
           end
    end
  | QAck pfx mid ty acker =>
    if negb acker then (s, (RWrongPacket, []))
    else match sfind (pfx, mid) s with
         | None => (s, (RWrongMID, []))
         | Some e => if eexpect e =? ty then (sremove (pfx, mid) s, (ROk, [(ereg e, false)]))
                     else (s, (RUnexpected, []))
         end
  | QSweep now =>
    (filter (fun e => negb (due now e)) s,
     (ROk, map (fun e => (ereg e, true)) (dl_sort (filter (due now) s))))
  end.

Fixpoint spec_run (s : sstate) (os : list qop) : sstate * list qout :=
  match os with
  | [] => (s, [])
  | o :: os' => let r := spec_step s o in let r' := spec_run (fst r) os' in (fst r', snd r :: snd r')
  end.
