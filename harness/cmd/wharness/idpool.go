package main

// Family "idpool" (C06): histories of Get/Put on the real simpleMidPool (through the verif
// hook), observing returned identifiers and the free-interval list after every call.
//   bfs    : every transition of every reachable state for small ranges (validates the model
//            against the code; not the proof)
//   random : seeded histories on the production range 0..65535 and on tiny ranges, with
//            releases of free, unknown and out-of-range identifiers.

import (
	"encoding/json"
	"fmt"
	"math/rand"
	"strings"

	"github.com/vx-labs/wasp/v4/wasp"
)

type poolOp struct {
	Op string `json:"op"` // get | put
	X  int32  `json:"x,omitempty"`
}
type poolInput struct {
	Min int32    `json:"min"`
	Max int32    `json:"max"`
	Ops []poolOp `json:"ops"`
}
type idpoolFamily struct{}

func init() { register("idpool", idpoolFamily{}) }

func ivKey(iv [][2]int32) string {
	var sb strings.Builder
	for _, i := range iv {
		fmt.Fprintf(&sb, "(%d,%d]", i[0], i[1])
	}
	return sb.String()
}

func replayPool(min, max int32, ops []poolOp) (p *wasp.MIDPoolForVerif, ok bool) {
	defer func() {
		if recover() != nil {
			ok = false
		}
	}()
	p = wasp.NewMIDPoolForVerif(min, max)
	for _, o := range ops {
		if o.Op == "get" {
			p.Get()
		} else {
			p.Put(o.X)
		}
	}
	return p, true
}

func (idpoolFamily) Gen(n int, seed int64, mode, tier string) []interface{} {
	var out []interface{}
	if mode == "bfs" {
		ranges := [][2]int32{{0, 3}, {1, 4}, {0, 4}}
		if tier == "thorough" {
			ranges = append(ranges, [2]int32{1, 6}, [2]int32{0, 6})
		}
		for _, r := range ranges {
			min, max := r[0], r[1]
			var allOps []poolOp
			allOps = append(allOps, poolOp{Op: "get"})
			for x := min - 1; x <= max+1; x++ {
				allOps = append(allOps, poolOp{Op: "put", X: x})
			}
			seen := map[string]bool{}
			type st struct{ path []poolOp }
			queue := []st{{nil}}
			p0, _ := replayPool(min, max, nil)
			seen[ivKey(p0.Intervals())] = true
			// an intact pool has 20-136 representable states on these ranges and the search ends by
			// itself; a broken one can have unboundedly many (overlapping intervals), so it is cut
			limit := 400
			if tier == "thorough" {
				limit = 3000
			}
			for len(queue) > 0 && len(seen) < limit {
				cur := queue[0]
				queue = queue[1:]
				for _, o := range allOps {
					path := append(append([]poolOp{}, cur.path...), o)
					out = append(out, poolInput{Min: min, Max: max, Ops: path})
					p, ok := replayPool(min, max, path)
					if !ok {
						continue
					}
					k := ivKey(p.Intervals())
					if !seen[k] {
						seen[k] = true
						queue = append(queue, st{path})
					}
				}
			}
		}
		return out
	}
	rng := rand.New(rand.NewSource(seed))
	for i := 0; i < n; i++ {
		in := poolInput{Min: 0, Max: 65535}
		steps := 150
		switch i % 4 {
		case 1:
			in.Min, in.Max = 1, int32(3+rng.Intn(6))
		case 2:
			in.Min, in.Max = int32(rng.Intn(3)), int32(5+rng.Intn(20))
		case 3:
			steps = 400
		}
		var held []int32
		span := int(in.Max-in.Min) + 1
		for j := 0; j < steps; j++ {
			r := rng.Intn(100)
			switch {
			case r < 50 || (in.Max > 1000 && j < steps/3):
				in.Ops = append(in.Ops, poolOp{Op: "get"})
				held = append(held, -2) // unknown until executed; placeholder keeps the mix
			case r < 80 && len(held) > 0:
				// release something plausibly outstanding: small ids are handed out first
				x := in.Min + int32(rng.Intn(len(held)+1))
				in.Ops = append(in.Ops, poolOp{Op: "put", X: x})
			case r < 90:
				// free / unknown identifier
				in.Ops = append(in.Ops, poolOp{Op: "put", X: in.Min + int32(rng.Intn(span))})
			default:
				// out of range
				xs := []int32{in.Min - 1, in.Max + 1, -1, in.Max + 100, in.Min - 5}
				in.Ops = append(in.Ops, poolOp{Op: "put", X: xs[rng.Intn(len(xs))]})
			}
		}
		out = append(out, in)
	}
	return out
}

func cqIvs(iv [][2]int32) string {
	xs := make([]string, len(iv))
	for i, v := range iv {
		xs[i] = fmt.Sprintf("(%s, %s)", cqZ(int64(v[0])), cqZ(int64(v[1])))
	}
	return cqList(xs)
}

func (idpoolFamily) Exec(id int, raw json.RawMessage) Case {
	var in poolInput
	if err := json.Unmarshal(raw, &in); err != nil {
		panic(err)
	}
	c := Case{ID: id}
	p := wasp.NewMIDPoolForVerif(in.Min, in.Max)
	var terms []string
	var obs []interface{}
	gets, puts, exhausted, bad := 0, 0, 0, 0
	step := func(o poolOp) (term string, ob interface{}) {
		defer func() {
			if r := recover(); r != nil {
				term, ob = "GPanic", fmt.Sprintf("panic: %v", r)
			}
		}()
		if o.Op == "get" {
			v := p.Get()
			gets++
			if v == -1 {
				exhausted++
			}
			return fmt.Sprintf("GGet %s %s", cqZ(int64(v)), cqIvs(p.Intervals())), v
		}
		p.Put(o.X)
		puts++
		if o.X < in.Min || o.X > in.Max {
			bad++
		}
		return fmt.Sprintf("GPut %s %s", cqZ(int64(o.X)), cqIvs(p.Intervals())), ivKey(p.Intervals())
	}
	for _, o := range in.Ops {
		t, ob := step(o)
		terms = append(terms, t)
		obs = append(obs, ob)
		if t == "GPanic" {
			break
		}
	}
	if len(obs) > 12 {
		obs = append(obs[:12], fmt.Sprintf("... %d more", len(obs)-12))
	}
	c.Obs = obs
	c.Coq = fmt.Sprintf("(%s, (%s, %s), %s)", cqN(int64(id)), cqZ(int64(in.Min)), cqZ(int64(in.Max)), cqList(terms))
	c.Nontrivial = gets >= 1 && puts >= 1
	c.Sig = string(raw)
	if exhausted > 0 {
		c.Tags = append(c.Tags, "exhausted")
	}
	if bad > 0 {
		c.Tags = append(c.Tags, "out-of-range-put")
	}
	return c
}
