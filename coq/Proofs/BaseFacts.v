(** Facts about association lists, the tokenizer and the canonical sort. *)
From Wasp Require Import Model.Base.
From stdpp Require Import list sets strings.

Lemma eqb_ne s1 s2 : s1 ≠ s2 → String.eqb s1 s2 = false.
Proof. by intros; apply String.eqb_neq. Qed.

Lemma alookup_aset_eq {A} k (v : A) l : alookup k (aset k v l) = Some v.
Proof.
  induction l as [|[k' v'] l IH]; cbn [aset alookup]; [by rewrite String.eqb_refl|].
  destruct (String.eqb_spec k k') as [->|Hne]; cbn [alookup]; [by rewrite String.eqb_refl|].
  by rewrite eqb_ne.
Qed.
Lemma alookup_aset_ne {A} k k' (v : A) l : k' ≠ k → alookup k' (aset k v l) = alookup k' l.
Proof.
  intros Hne. induction l as [|[k2 v2] l IH]; cbn [aset alookup]; [by rewrite eqb_ne|].
  destruct (String.eqb_spec k k2) as [->|Hne2]; cbn [alookup].
  - by rewrite !(eqb_ne k' k2).
  - destruct (String.eqb k' k2); [done|apply IH].
Qed.
Lemma alookup_adel_ne {A} k k' (l : list (string * A)) : k' ≠ k → alookup k' (adel k l) = alookup k' l.
Proof.
  intros Hne. induction l as [|[k2 v2] l IH]; cbn [adel alookup]; [done|].
  destruct (String.eqb_spec k k2) as [->|Hne2]; cbn [alookup].
  - by rewrite (eqb_ne k' k2).
  - destruct (String.eqb k' k2); [done|apply IH].
Qed.
Lemma alookup_None {A} k (l : list (string * A)) : k ∉ map fst l → alookup k l = None.
Proof.
  induction l as [|[k3 v3] l IH]; cbn [alookup map fst]; [done|]. intros Hn.
  rewrite eqb_ne; [apply IH|]; set_solver.
Qed.
Lemma alookup_adel_eq {A} k (l : list (string * A)) : NoDup (map fst l) → alookup k (adel k l) = None.
Proof.
  induction l as [|[k2 v2] l IH]; cbn [adel alookup map fst]; [done|]. intros Hnd.
  apply NoDup_cons in Hnd as [Hnotin Hnd'].
  destruct (String.eqb_spec k k2) as [->|Hne2]; cbn [alookup].
  - by apply alookup_None.
  - rewrite eqb_ne by done. by apply IH.
Qed.
Lemma alookup_Some_in {A} k (v : A) l : alookup k l = Some v → (k, v) ∈ l.
Proof.
  induction l as [|[k2 v2] l IH]; cbn [alookup]; [done|].
  destruct (String.eqb_spec k k2) as [->|Hne]; [intros [= ->]; left|intros; right; by apply IH].
Qed.
Lemma aset_keys_subseteq {A} k (v : A) l x : x ∈ map fst (aset k v l) → x = k ∨ x ∈ map fst l.
Proof.
  induction l as [|[k2 v2] l IH]; cbn [aset map fst]; [set_solver|].
  destruct (String.eqb_spec k k2) as [->|Hne]; cbn [map fst]; set_solver.
Qed.
Lemma NoDup_aset {A} k (v : A) l : NoDup (map fst l) → NoDup (map fst (aset k v l)).
Proof.
  induction l as [|[k2 v2] l IH]; cbn [aset map fst]; intros Hnd.
  { apply NoDup_cons; split; [set_solver|constructor]. }
  apply NoDup_cons in Hnd as [Hnotin Hnd'].
  destruct (String.eqb_spec k k2) as [->|Hne]; cbn [map fst]; [by apply NoDup_cons|].
  apply NoDup_cons; split; [|by apply IH]. intros Hin. apply aset_keys_subseteq in Hin. set_solver.
Qed.
Lemma adel_keys_subseteq {A} k (l : list (string * A)) x : x ∈ map fst (adel k l) → x ∈ map fst l.
Proof.
  induction l as [|[k2 v2] l IH]; cbn [adel map fst]; [done|].
  destruct (String.eqb_spec k k2) as [->|Hne]; cbn [map fst]; set_solver.
Qed.
Lemma NoDup_adel {A} k (l : list (string * A)) : NoDup (map fst l) → NoDup (map fst (adel k l)).
Proof.
  induction l as [|[k2 v2] l IH]; cbn [adel map fst]; intros Hnd; [constructor|].
  apply NoDup_cons in Hnd as [Hnotin Hnd'].
  destruct (String.eqb_spec k k2) as [->|Hne]; cbn [map fst]; [done|].
  apply NoDup_cons; split; [|by apply IH]. intros Hin. apply adel_keys_subseteq in Hin. done.
Qed.
Lemma aset_values {A} (P : A → Prop) k v (l : list (string * A)) :
  P v → Forall (λ kc, P kc.2) l → Forall (λ kc, P kc.2) (aset k v l).
Proof.
  intros Hv. induction l as [|[k2 v2] l IH]; cbn [aset]; intros Hall; [by constructor|].
  inversion Hall; subst. destruct (String.eqb k k2); constructor; auto.
Qed.
Lemma adel_values {A} (P : A → Prop) k (l : list (string * A)) :
  Forall (λ kc, P kc.2) l → Forall (λ kc, P kc.2) (adel k l).
Proof.
  induction l as [|[k2 v2] l IH]; cbn [adel]; intros Hall; [constructor|].
  inversion Hall; subst. destruct (String.eqb k k2); [done|constructor; auto].
Qed.
Lemma alookup_values {A} (P : A → Prop) k v (l : list (string * A)) :
  Forall (λ kc, P kc.2) l → alookup k l = Some v → P v.
Proof.
  induction l as [|[k2 v2] l IH]; cbn [alookup]; intros Hall; [done|]. inversion Hall; subst.
  destruct (String.eqb k k2); [by intros [= <-]|by apply IH].
Qed.

(** the tokenizer: [levels] is injective (distinct topic strings are distinct paths) and never
    yields the empty list *)
Lemma split_on_nonnil sep s : split_on sep s ≠ [].
Proof. destruct s as [|c s]; cbn; [done|]. destruct (Ascii.eqb c sep); [done|]. by destruct (split_on sep s). Qed.
Lemma split_on_head_nosep sep s x r : split_on sep s = x :: r →
  ∀ c y, x = String c y → c ≠ sep.
Proof.
  destruct s as [|c0 s]; cbn; [intros [= <- <-] c y; done|].
  destruct (Ascii.eqb_spec c0 sep) as [->|Hne]; [intros [= <- <-] c y; done|].
  destruct (split_on sep s) as [|x0 r0] eqn:Hs; intros [= <- <-] c y [= <- <-]; done.
Qed.
Lemma split_on_inj sep s1 : ∀ s2, split_on sep s1 = split_on sep s2 → s1 = s2.
Proof.
  induction s1 as [|c1 s1 IH]; intros s2.
  - destruct s2 as [|c2 s2]; [done|]. cbn.
    destruct (Ascii.eqb c2 sep).
    + intros [= H]. symmetry in H. by apply split_on_nonnil in H.
    + destruct (split_on sep s2); done.
  - destruct s2 as [|c2 s2].
    + cbn. destruct (Ascii.eqb c1 sep).
      * intros [= H]. by apply split_on_nonnil in H.
      * destruct (split_on sep s1); done.
    + cbn [split_on].
      destruct (Ascii.eqb_spec c1 sep) as [->|H1], (Ascii.eqb_spec c2 sep) as [->|H2].
      * intros [= H]. f_equal. by apply IH.
      * destruct (split_on sep s2) as [|x2 r2] eqn:E2; done.
      * destruct (split_on sep s1) as [|x1 r1] eqn:E1; done.
      * destruct (split_on sep s1) as [|x1 r1] eqn:E1; [by apply split_on_nonnil in E1|].
        destruct (split_on sep s2) as [|x2 r2] eqn:E2; [by apply split_on_nonnil in E2|].
        intros [= -> -> ->]. f_equal. apply IH. congruence.
Qed.
Lemma levels_inj s1 s2 : levels s1 = levels s2 → s1 = s2.
Proof. apply split_on_inj. Qed.
Lemma levels_nonnil s : levels s ≠ [].
Proof. apply split_on_nonnil. Qed.
