(** C17 — Mount points isolate tenants.  Statements only (matching level; the delivery-level
    statement [tenant_isolation] lives with the node model). *)
From Wasp Require Import Model.Base Spec.MatchSpec Model.Mount Proofs.BaseFacts Proofs.MountFacts.
From stdpp Require Import list strings.

(** Topics delivered to a client are exactly the names publishers used: trimming undoes prefixing. *)
Theorem prefix_trim : ∀ mp t, trim_mp mp (prefix_mp mp t) = t.
Proof. exact prefix_trim. Qed.
Print Assumptions prefix_trim.

(** No filter of one mount point - '#', '+/...' and everything else - matches any topic of
    another: every subscription is stored under mp/filter and every publish, retained message
    and will is routed under mp/topic, and the mount point is one whole first level. *)
Theorem no_cross_match : ∀ mp1 mp2 f t, mp_ok mp1 = true → mp_ok mp2 = true → mp1 ≠ mp2 →
  mmatch (levels (prefix_mp mp1 f)) (levels (prefix_mp mp2 t)) = false.
Proof. exact no_cross_match. Qed.
Print Assumptions no_cross_match.

(** Inside one mount point matching is exactly matching of what the clients wrote. *)
Theorem same_tenant_match : ∀ mp f t, mp_ok mp = true →
  mmatch (levels (prefix_mp mp f)) (levels (prefix_mp mp t)) = mmatch (levels f) (levels t).
Proof. exact same_tenant_match. Qed.
Print Assumptions same_tenant_match.

Example c17_examples :
  mp_ok "tenantA" = true ∧ mp_ok "a/b" = false ∧ mp_ok "+" = false
  ∧ mmatch (levels (prefix_mp "ta" "#")) (levels (prefix_mp "tb" "x")) = false
  ∧ mmatch (levels (prefix_mp "ta" "+/#")) (levels (prefix_mp "ta" "/lead")) = true
  ∧ trim_mp "ta" (prefix_mp "ta" "/lead") = "/lead".
Proof. vm_compute. done. Qed.
