(** C11: ending a session removes every trace of it.  On the hosting node, after
    shutdownSession: the session is out of the registry ([end_leaves_registry]), every
    subscription it remembers is tombstoned (no listing, no ByPattern shows it), and — when the
    identifier still resolves to it — so is its record; the broadcasts that [shutdown] queues
    carry exactly these changes (C09), so every node that merges them sees the same. *)
From Wasp Require Import Model.Base Spec.MatchSpec Model.DState Model.IdPool Model.Mount Model.Node
  Proofs.BaseFacts Proofs.Lww Proofs.DStateFacts Proofs.NodeFacts Proofs.TakeoverFacts.
From stdpp Require Import list strings.
From Coq Require Import ZArith Lia.
Open Scope Z_scope.

Definition tomb (sid : string) (peer clk : Z) (pat : string) : sub := Sub sid pat peer 0 0 clk.

Lemma amerge_tomb (tb : sub) : ∀ (us : list sub) (m : amap (K:=string * string) (V:=sub)) (k : string * string),
  (∀ u, u ∈ us → sub_key u = k → u = tb) →
  ((∃ u, u ∈ us ∧ sub_key u = k) ∨ m k = Some tb) →
  (∀ old, m k = Some old → sub_ts old < sub_ts tb ∨ old = tb) →
  amerge sub_key sub_ts m us k = Some tb.
Proof.
  induction us as [|u us IH]; intros m k Hall Hex Hold; cbn [amerge fold_left].
  - destruct Hex as [(u & Hu & _)|Hm]; [by apply elem_of_nil in Hu|done].
  - apply IH.
    + intros v Hv. apply Hall. apply elem_of_cons. by right.
    + unfold amerge1. destruct (decide (k = sub_key u)) as [Hk|Hk].
      * right. assert (u = tb) as -> by (apply Hall; [apply elem_of_cons; by left|done]).
        unfold ajoin. destruct (m k) as [old|] eqn:Hm; [|done].
        destruct (Hold old eq_refl) as [Hlt| ->]; [by rewrite (proj2 (Z.ltb_lt _ _) Hlt)|by rewrite Z.ltb_irrefl].
      * destruct Hex as [(v & Hv & Hkv)|Hm]; [|by right]. left. exists v. split; [|done].
        apply elem_of_cons in Hv as [->|Hv]; [congruence|done].
    + intros old. unfold amerge1. destruct (decide (k = sub_key u)) as [Hk|Hk]; [|apply Hold].
      assert (u = tb) as -> by (apply Hall; [apply elem_of_cons; by left|done]).
      unfold ajoin. destruct (m k) as [old0|] eqn:Hm.
      * destruct (Hold old0 eq_refl) as [Hlt| ->].
        -- rewrite (proj2 (Z.ltb_lt _ _) Hlt). intros [= <-]. by right.
        -- rewrite Z.ltb_irrefl. intros [= <-]. by right.
      * intros [= <-]. by right.
Qed.

Lemma fold_unsub_abs sid clk topics : ∀ n, subs_wf (d_subs (n_d n)) →
  let n' := fold_left (λ m t, mutate m (sub_delete (n_d m) sid t clk)) topics n in
  subs_wf (d_subs (n_d n')) ∧ d_peer (n_d n') = d_peer (n_d n) ∧
  ∀ k, abs_subs (d_subs (n_d n')) k = amerge sub_key sub_ts (abs_subs (d_subs (n_d n))) (map (tomb sid (d_peer (n_d n)) clk) topics) k.
Proof.
  induction topics as [|t ts IH]; intros n Hwf; cbn [fold_left map amerge]; [done|].
  set (n1 := mutate n (sub_delete (n_d n) sid t clk)).
  assert (Hd1 : d_subs (n_d n1) = sub_set (d_subs (n_d n)) (tomb sid (d_peer (n_d n)) clk t)) by (unfold n1; by rewrite n_d_mutate).
  assert (Hp1 : d_peer (n_d n1) = d_peer (n_d n)) by (unfold n1; by rewrite n_d_mutate).
  destruct (sub_set_abs (d_subs (n_d n)) (tomb sid (d_peer (n_d n)) clk t) Hwf) as [Hwf1 Habs1].
  rewrite <- Hd1 in Hwf1, Habs1.
  destruct (IH n1 Hwf1) as (I1 & I2 & I3). split; [done|]. split; [congruence|].
  intros k. rewrite I3, Hp1. apply amerge_ext. exact Habs1.
Qed.

Lemma fold_unsub_ok sid clk topics : sid ≠ "" → Forall (λ t, t ≠ "") topics → ∀ n, subs_ok (d_subs (n_d n)) →
  subs_ok (d_subs (n_d (fold_left (λ m t, mutate m (sub_delete (n_d m) sid t clk)) topics n))).
Proof.
  intros Hsid Htops. induction Htops as [|t ts Ht _ IH]; intros n Hok; cbn [fold_left]; [done|].
  apply IH. rewrite n_d_mutate. cbn [sub_delete fst d_subs with_subs]. apply sub_set_ok; [done|]. by split.
Qed.

Lemma find_by_key {A B} `{EqDecision B} (f : A → B) (l : list A) (u : A) : NoDup (map f l) → u ∈ l →
  List.find (λ x, bool_decide (f x = f u)) l = Some u.
Proof.
  induction l as [|x l IH]; [intros _ H; by apply elem_of_nil in H|]. cbn [map List.find]. intros [Hnot Hnd]%NoDup_cons [->|Hin]%elem_of_cons.
  - by rewrite bool_decide_true.
  - rewrite bool_decide_false; [by apply IH|]. intros Heq. apply Hnot. rewrite Heq. apply elem_of_list_fmap. by exists u.
Qed.
Lemma stored_is_abs t u : subs_ok t → u ∈ concat (map snd t) → abs_subs t (s_pattern u, s_sid u) = Some u.
Proof.
  intros Hok Hin. rewrite <- subs_dump_find by done. change (s_pattern u, s_sid u) with (sub_key u).
  apply find_by_key; [by apply subs_dump_nodup|done].
Qed.

(** every subscription the session remembers is tombstoned: no ByPattern, no listing shows it *)
Theorem end_removes_subscriptions cl i s clk pat :
  subs_ok (d_subs (n_d (getn cl i))) → ss_id s ≠ "" → Forall (λ t, t ≠ "") (ss_topics s) → pat ∈ ss_topics s →
  (∀ old, abs_subs (d_subs (n_d (getn cl i))) (pat, ss_id s) = Some old → sub_ts old < clk) → 0 < clk →
  let d' := n_d (after_unsub cl i s clk) in
  abs_subs (d_subs d') (pat, ss_id s) = Some (tomb (ss_id s) (d_peer (n_d (getn cl i))) clk pat) ∧
  (∀ topic u, u ∈ sub_by_pattern d' topic → ¬ (s_sid u = ss_id s ∧ s_pattern u = pat)) ∧
  (∀ u, u ∈ sub_all d' → ¬ (s_sid u = ss_id s ∧ s_pattern u = pat)).
Proof.
  intros Hok Hsid Htops Hin Hnewer Hclk d'.
  set (n0 := set_reg (getn cl i) (adel (ss_id s) (n_reg (getn cl i)))).
  destruct (fold_unsub_abs (ss_id s) clk (ss_topics s) n0 (subs_ok_wf _ Hok)) as (Hwf' & Hp & Habs).
  pose proof (fold_unsub_ok (ss_id s) clk (ss_topics s) Hsid Htops n0 Hok) as Hok'.
  fold (after_unsub cl i s clk) in Hwf', Hp, Habs, Hok'. fold d' in Hwf', Hp, Habs, Hok'.
  assert (Hkey : abs_subs (d_subs d') (pat, ss_id s) = Some (tomb (ss_id s) (d_peer (n_d (getn cl i))) clk pat)).
  { rewrite Habs. apply amerge_tomb.
    - intros u (t & -> & Ht)%elem_of_list_fmap Hk. unfold sub_key, tomb in Hk. cbn in Hk. by injection Hk as ->.
    - left. exists (tomb (ss_id s) (d_peer (n_d n0)) clk pat). split; [|done]. apply elem_of_list_fmap. by exists pat.
    - intros old Ho. left. unfold tomb, sub_ts at 2. cbn. rewrite last_update_max. specialize (Hnewer old Ho). lia. }
  assert (Hgone : ∀ u, u ∈ concat (map snd (d_subs d')) → sub_added u = true → ¬ (s_sid u = ss_id s ∧ s_pattern u = pat)).
  { intros u Hu Hadd [Hs Hpt]. pose proof (stored_is_abs _ u Hok' Hu) as Habs'.
    assert (Hx : Some (tomb (ss_id s) (d_peer (n_d (getn cl i))) clk pat) = Some u) by (rewrite <- Hkey, <- Hs, <- Hpt; exact Habs').
    injection Hx as <-. unfold sub_added, tomb, is_added in Hadd. cbn in Hadd. done. }
  split; [exact Hkey|]. split.
  - intros topic u Hu. unfold sub_by_pattern in Hu. apply elem_of_list_In, filter_In in Hu as [Hu Hadd].
    apply Hgone; [|done]. apply elem_of_list_In. apply in_concat in Hu as (l & Hl & Hul). apply in_concat. exists l. split; [|done].
    apply in_map_iff in Hl as (kv & <- & Hkv). apply filter_In in Hkv as [Hkv _]. apply in_map_iff. by exists kv.
  - intros u Hu. unfold sub_all, sub_filter, sub_entries in Hu. apply elem_of_list_In, filter_In in Hu as [Hu Hadd].
    apply andb_true_iff in Hadd as [Hadd _]. apply Hgone; [by apply elem_of_list_In|done].
Qed.

(** ... and so is its record, when the identifier still resolves to it *)
Theorem end_removes_record cl i s clk m :
  let n2 := after_unsub cl i s clk in
  sess_ok (d_sess (n_d n2)) → alookup (ss_id s) (d_sess (n_d n2)) = Some m → sess_added m = true → sess_ts m < clk →
  let d' := (sess_delete (n_d n2) (ss_id s) clk).1 in
  sess_get d' (ss_id s) = None ∧ (∀ x, x ∈ sess_all d' → m_sid x ≠ ss_id s).
Proof.
  intros n2 Hok Hl Hadd Hts d'.
  assert (Hlook : alookup (ss_id s) (d_sess d') = Some (sess_mark_deleted m clk)).
  { unfold d'. rewrite sess_delete_lookup; [|intros old Ho; rewrite Hl in Ho; by injection Ho as <-].
    rewrite String.eqb_refl, Hl.
    assert (is_removed (m_la m) (m_ld m) = false) as ->; [|done].
    unfold sess_added, is_added, is_removed in *. apply andb_true_iff in Hadd as [_ Ha]. apply Z.ltb_lt in Ha.
    apply andb_false_iff. right. apply Z.ltb_ge. lia. }
  assert (Hok' : sess_ok (d_sess d')) by (by apply sess_delete_ok).
  split.
  - unfold sess_get. rewrite Hlook. by rewrite marked_not_added.
  - intros x Hx Hid. unfold sess_all in Hx. apply sess_filter_spec in Hx as (Hlx & Hax & _); [|done].
    rewrite Hid, Hlook in Hlx. injection Hlx as <-. by rewrite marked_not_added in Hax.
Qed.

(** what shutdownSession does to the replicated state is a sequence of local operations, each
    with its broadcast: C09 applies to it *)
Definition end_ops (sid : string) (topics : list string) (clk : Z) (owner : bool) : list dop :=
  map (λ t, DSubDelete sid t clk) topics ++ (if owner then [DSessDelete sid clk] else []).

Lemma origin_run_app os1 : ∀ d os2,
  origin_run d (os1 ++ os2) = let r1 := origin_run d os1 in let r2 := origin_run r1.1 os2 in (r2.1, r1.2 ++ r2.2).
Proof.
  induction os1 as [|o os1 IH]; intros d os2; cbn [origin_run app].
  - cbn zeta. cbn [fst snd app]. by destruct (origin_run d os2).
  - rewrite IH. cbn zeta. destruct (dapply d o) as [d1 [e|]]; cbn [fst snd app]; done.
Qed.
Lemma fold_unsub_run sid clk topics : ∀ n,
  let n' := fold_left (λ m t, mutate m (sub_delete (n_d m) sid t clk)) topics n in
  let run := origin_run (n_d n) (map (λ t, DSubDelete sid t clk) topics) in
  n_d n' = run.1 ∧ n_out n' = n_out n ++ run.2.
Proof.
  induction topics as [|t ts IH]; intros n; cbn [fold_left map origin_run dapply]; [by rewrite app_nil_r|].
  destruct (IH (mutate n (sub_delete (n_d n) sid t clk))) as [I1 I2]. rewrite n_d_mutate in I1, I2.
  cbn [sub_delete fst snd] in *. split; [exact I1|]. rewrite I2. unfold mutate. cbn [sub_delete snd fst n_out set_out set_d]. by rewrite <- app_assoc.
Qed.

Theorem end_is_conveyed cl i s clk r :
  let n0 := getn cl i in
  let n2 := after_unsub cl i s clk in
  let n3 := mutate n2 (sess_delete (n_d n2) (ss_id s) clk) in
  dok (n_d n0) → dok r → same_abs (n_d n0) r →
  ss_id s ≠ "" → Forall (λ t, t ≠ "") (ss_topics s) →
  (∀ old, alookup (ss_id s) (d_sess (n_d n0)) = Some old → sess_ts old < clk) →
  let run := origin_run (n_d n0) (end_ops (ss_id s) (ss_topics s) clk true) in
  n_d n3 = run.1 ∧ n_out n3 = n_out n0 ++ run.2 ∧
  dok run.1 ∧ same_abs run.1 (fold_left merge_event run.2 r).
Proof.
  intros n0 n2 n3 Hd Hr Hsame Hsid Htops Hfresh run.
  set (nr := set_reg n0 (adel (ss_id s) (n_reg n0))).
  destruct (fold_unsub_run (ss_id s) clk (ss_topics s) nr) as [F1' F2'].
  assert (F1 : n_d n2 = (origin_run (n_d n0) (map (λ t, DSubDelete (ss_id s) t clk) (ss_topics s))).1) by exact F1'.
  assert (F2 : n_out n2 = n_out n0 ++ (origin_run (n_d n0) (map (λ t, DSubDelete (ss_id s) t clk) (ss_topics s))).2) by exact F2'.
  clear F1' F2'.
  assert (Hrun : run = let r1 := origin_run (n_d n0) (map (λ t, DSubDelete (ss_id s) t clk) (ss_topics s)) in
                       let r2 := origin_run r1.1 [DSessDelete (ss_id s) clk] in (r2.1, r1.2 ++ r2.2)).
  { unfold run, end_ops. by rewrite origin_run_app. }
  assert (Hsess : ∀ ts d, d_sess (origin_run d (map (λ t, DSubDelete (ss_id s) t clk) ts)).1 = d_sess d).
  { induction ts as [|t ts IH]; intros d; cbn [map origin_run dapply fst]; [done|]. by rewrite IH. }
  assert (Hops : ops_ok (n_d n0) (end_ops (ss_id s) (ss_topics s) clk true)).
  { unfold end_ops. assert (Hgen : ∀ ts d, Forall (λ t, t ≠ "") ts → (∀ old, alookup (ss_id s) (d_sess d) = Some old → sess_ts old < clk) →
                                   ops_ok d (map (λ t, DSubDelete (ss_id s) t clk) ts ++ [DSessDelete (ss_id s) clk])).
    { induction ts as [|t ts IH]; intros d Ht Hf; cbn [map app ops_ok op_valid clock_fresh]; [done|].
      apply Forall_cons in Ht as [Ht0 Ht]. split; [done|]. split; [done|]. apply IH; [done|]. cbn [dapply sub_delete fst d_sess with_subs]. exact Hf. }
    by apply Hgen. }
  destruct (receiver_equals_origin _ _ _ Hd Hr Hsame Hops) as (R1 & _ & R3). fold run in R1, R3.
  split; [|split; [|done]].
  - unfold n3. rewrite n_d_mutate, F1, Hrun. cbn zeta. cbn [origin_run dapply fst].
    match goal with |- context [sess_delete ?a ?b ?c] => by destruct (sess_delete a b c) as [d2 [e|]] end.
  - unfold n3. rewrite Hrun. cbn zeta. cbn [origin_run dapply fst snd]. unfold mutate. rewrite F1. cbn [n_out set_out set_d]. rewrite F2.
    match goal with |- context [sess_delete ?a ?b ?c] => destruct (sess_delete a b c) as [d2 [e|]] end; cbn [snd]; [by rewrite <- app_assoc|by rewrite app_nil_r].
Qed.
