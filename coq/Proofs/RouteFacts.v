(** C01 at the level of the replicated subscription store and of one node: which entries
    ByPattern returns, and hence to whom a stored message is written. *)
From Wasp Require Import Model.Base Spec.MatchSpec Model.DState Model.IdPool Model.Mount Model.Node
  Proofs.BaseFacts Proofs.Lww Proofs.DStateFacts Proofs.NodeFacts Proofs.TakeoverFacts Proofs.TraceFacts.
From stdpp Require Import list strings.
From Coq Require Import ZArith Lia.
Open Scope Z_scope.

Lemma in_stored_iff t u : subs_ok t → (u ∈ concat (map snd t) ↔ abs_subs t (sub_key u) = Some u).
Proof.
  intros Hok. split; [by apply stored_is_abs|].
  intros Habs. unfold sub_key in Habs. rewrite <- subs_dump_find in Habs by done. apply find_some in Habs as [Hin _]. by apply elem_of_list_In.
Qed.
Lemma stored_under_pattern t p l u : subs_ok t → (p, l) ∈ t → u ∈ l → s_pattern u = p.
Proof.
  intros [_ Hall] Hin Hu. rewrite Forall_forall in Hall. destruct (Hall _ Hin) as [_ He]. cbn in He.
  rewrite Forall_forall in He. by destruct (He u Hu).
Qed.

(** ByPattern(topic) returns exactly the added entries whose own filter matches the topic:
    membership depends on that entry and the topic, on nothing else in the store *)
Theorem by_pattern_spec d topic u : subs_ok (d_subs d) →
  (u ∈ sub_by_pattern d topic ↔
   abs_subs (d_subs d) (sub_key u) = Some u ∧ sub_added u = true ∧ mmatch (levels (s_pattern u)) (levels topic) = true).
Proof.
  intros Hok. unfold sub_by_pattern. rewrite elem_of_list_In, filter_In, in_concat. split.
  - intros [(l & Hl & Hul) Hadd]. apply in_map_iff in Hl as ([p l'] & <- & Hkv). apply filter_In in Hkv as [Hkv Hm]. cbn [fst snd] in *.
    assert (Hp : s_pattern u = p) by (apply (stored_under_pattern (d_subs d) p l'); [done|by apply elem_of_list_In|by apply elem_of_list_In]).
    split; [|split; [done|by rewrite Hp]].
    apply in_stored_iff; [done|]. apply elem_of_list_In, in_concat. exists l'. split; [|done]. apply in_map_iff. by exists (p, l').
  - intros (Habs & Hadd & Hm). split; [|done].
    apply in_stored_iff in Habs; [|done]. apply elem_of_list_In, in_concat in Habs as (l & Hl & Hul).
    apply in_map_iff in Hl as ([p l'] & <- & Hkv). cbn [snd] in Hul.
    assert (Hp : s_pattern u = p) by (apply (stored_under_pattern (d_subs d) p l'); [done|by apply elem_of_list_In|by apply elem_of_list_In]).
    exists l'. split; [|done]. apply in_map_iff. exists (p, l'). split; [done|]. apply filter_In. split; [done|]. cbn. by rewrite <- Hp.
Qed.

(** ... and no entry is returned twice *)
Theorem by_pattern_nodup d topic : subs_ok (d_subs d) → NoDup (map sub_key (sub_by_pattern d topic)).
Proof.
  intros Hok. unfold sub_by_pattern. apply NoDup_map_filter.
  pose proof (subs_dump_nodup _ Hok) as Hnd. revert Hnd. generalize (d_subs d). clear. intros t.
  induction t as [|[p l] t IH]; cbn [map snd concat List.filter fst]; [done|]. rewrite map_app. intros Hnd.
  apply NoDup_app in Hnd as (H1 & H2 & H3). destruct (mmatch (levels p) (levels topic)); cbn [map snd concat]; [|by apply IH].
  rewrite map_app. apply NoDup_app. split; [done|]. split; [|by apply IH].
  intros k Hk Hk'. apply (H2 k Hk). clear -Hk'. induction t as [|[p' l'] t IH]; cbn [map snd concat List.filter fst] in *; [done|].
  rewrite map_app, elem_of_app. destruct (mmatch (levels p') (levels topic)); cbn [map snd concat] in Hk'; [|right; by apply IH].
  rewrite map_app, elem_of_app in Hk'. destruct Hk' as [?|?]; [by left|right; by apply IH].
Qed.
