(** Correspondence evaluators for family "auth" (C16).  The harness writes a credential file,
    loads it with auth.FileHandler (or builds auth.StaticHandler) and authenticates candidates;
    the digest of every string involved is computed by the harness (its own crypto/sha256) and
    handed over as a table.  model = Model/Auth.v (sort, bisection, scan); oracle = first
    configured line that matches. *)
From Wasp Require Export Model.Base Model.Auth.
Open Scope Z_scope.

Inductive aobs :=
| AFile (u p : string) (got : option string)     (* Authenticate(u, p) -> mount point, None = refused *)
| AStatic (su sp u p : string) (got : option string)
| ALoadError | APanic.
Definition case : Type := (N * list (string * Z) * list aline * list aobs)%type.

Definition Hof (dg : list (string * Z)) (s : string) : Z := odflt (-1) (alookup s dg).
Definition ostr_eqb (a b : option string) : bool :=
  match a, b with Some x, Some y => String.eqb x y | None, None => true | _, _ => false end.

Definition model_ok (c : case) : bool :=
  let '(_, dg, ls, obs) := c in
  forallb (fun o => match o with
                    | AFile u p got => ostr_eqb (file_auth (Hof dg) ls u p) got
                    | AStatic su sp u p got => ostr_eqb (static_auth (Hof dg) su sp u p) got
                    | ALoadError | APanic => false
                    end) obs.
(* the oracle does not sort or bisect: it reads the file top to bottom *)
Definition spec_file (dg : list (string * Z)) (ls : list aline) (u p : string) : option string :=
  match find (fun l => (Nat.eqb (l_n l) 2 || Nat.eqb (l_n l) 3) && String.eqb (l_user l) u && (l_ph l =? Hof dg p)) ls with
  | Some l => Some (if Nat.eqb (l_n l) 2 then default_mp else if String.eqb (l_mp l) "" then default_mp else l_mp l)
  | None => None
  end.
Definition oracle_ok (c : case) : bool :=
  let '(_, dg, ls, obs) := c in
  forallb (fun o => match o with
                    | AFile u p got => ostr_eqb (spec_file dg ls u p) got
                    | AStatic su sp u p got => ostr_eqb (if String.eqb u su && String.eqb p sp then Some default_mp else None) got
                    | ALoadError | APanic => false
                    end) obs.

Definition case_id (c : case) : N := fst (fst (fst c)).
Definition mismatches (cs : list case) : list N := map case_id (filter (fun c => negb (model_ok c)) cs).
Definition oracle_failures (cs : list case) : list N := map case_id (filter (fun c => negb (oracle_ok c)) cs).
