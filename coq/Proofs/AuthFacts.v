(** Go's sort.Search returns the least index satisfying a monotone predicate; the file
    handler admits exactly the configured (user, password) pairs, with the mount point of the
    first matching line. *)
From Wasp Require Import Model.Base Model.Auth Proofs.StableInsert.
From stdpp Require Import list sorting.
From Coq Require Import ZArith Lia Arith.
Open Scope nat_scope.

Lemma div2_bounds i j : i < j → i ≤ (i + j) / 2 < j.
Proof. intros Hlt. split; [apply Nat.div_le_lower_bound; lia|apply Nat.div_lt_upper_bound; lia]. Qed.

Definition monotone (n : nat) (f : nat → bool) := ∀ a b, a ≤ b → b < n → f a = true → f b = true.

Lemma search_aux_spec f n (Hm : monotone n f) : ∀ fuel i j,
  j - i ≤ fuel → i ≤ j ≤ n →
  (∀ k, k < i → f k = false) → (∀ k, j ≤ k < n → f k = true) →
  let r := search_aux fuel f i j in
  i ≤ r ≤ j ∧ (∀ k, k < r → f k = false) ∧ (∀ k, r ≤ k < n → f k = true).
Proof.
  induction fuel as [|fuel IH]; intros i j Hf Hij Hlo Hhi; cbn [search_aux].
  - assert (i = j) by lia. subst. cbn. split; [lia|]. split; [done|done].
  - destruct (Nat.ltb_spec i j) as [Hlt|Hge].
    + pose proof (div2_bounds i j Hlt) as [Hh1 Hh2]. cbn zeta.
      destruct (f ((i + j) / 2)) eqn:Hfh.
      * destruct (IH i ((i + j) / 2)) as (R1 & R2 & R3); [lia|lia|done| |].
        { intros k [Hk1 Hk2]. apply (Hm ((i + j) / 2)); [lia|lia|done]. }
        split; [lia|]. split; [exact R2|exact R3].
      * destruct (IH ((i + j) / 2 + 1) j) as (R1 & R2 & R3); [lia|lia| |done|].
        { intros k Hk. destruct (f k) eqn:Hfk; [|done].
          assert (f ((i + j) / 2) = true); [|congruence].
          apply (Hm k); [lia|lia|done]. }
        split; [lia|]. split; [exact R2|exact R3].
    + assert (i = j) by lia. subst. split; [lia|]. split; [done|done].
Qed.

Theorem search_least f n : monotone n f →
  let r := search n f in r ≤ n ∧ (∀ k, k < r → f k = false) ∧ (∀ k, r ≤ k < n → f k = true).
Proof.
  intros Hm. unfold search.
  destruct (search_aux_spec f n Hm n 0 n) as (R1 & R2 & R3); [lia|lia|intros; lia|intros; lia|].
  split; [lia|]. split; [exact R2|exact R3].
Qed.

Open Scope Z_scope.
Section AuthFacts.
  Variable H : string → Z.

  Lemma uh_insert_ins e l : uh_insert e l = ins uh e l.
  Proof. induction l as [|x l IH]; cbn; [done|]. by rewrite IH. Qed.
  Lemma uh_sort_isort l : uh_sort l = isort uh l.
  Proof.
    unfold uh_sort, isort. generalize (@nil arec). induction l as [|x l IH]; intros acc; cbn; [done|].
    by rewrite uh_insert_ins, IH.
  Qed.

  Definition hit (t pw : Z) (r : arec) : bool := (uh r =? t) && (ph r =? pw).

  (* on a sorted list whose entries are all >= t the scan finds the first hit *)
  Lemma scan_find l t pw : srt uh l → Forall (λ r, t ≤ uh r) l →
    scan_l l t pw = option_map amp (List.find (hit t pw) l).
  Proof.
    induction l as [|r l IH]; intros Hs Hge; [done|]. apply StronglySorted_inv in Hs as [Hs Hall].
    apply Forall_cons in Hge as [Hr Hge]. cbn [scan_l List.find]. unfold hit at 1.
    destruct (Z.eqb_spec (uh r) t) as [Heq|Hne]; cbn [andb].
    - destruct (ph r =? pw); [done|]. by apply IH.
    - assert (List.find (hit t pw) l = None) as ->; [|done].
      clear -Hall Hr Hne. induction Hall as [|x l Hx _ IHl]; [done|]. cbn [List.find]. unfold hit at 1.
      rewrite (proj2 (Z.eqb_neq (uh x) t)) by lia. done.
  Qed.
  Lemma find_skip_lt (l1 l2 : list arec) t pw : Forall (λ r, uh r < t) l1 →
    List.find (hit t pw) (l1 ++ l2) = List.find (hit t pw) l2.
  Proof.
    induction 1 as [|x l1 Hx _ IH]; [done|]. cbn [app List.find]. unfold hit at 1.
    by rewrite (proj2 (Z.eqb_neq (uh x) t)) by lia.
  Qed.

  Lemma srt_drop {A} (m : A → Z) l n : srt m l → srt m (drop n l).
  Proof.
    revert l. induction n as [|n IH]; intros [|x l] Hs; cbn; try done. apply IH.
    by apply StronglySorted_inv in Hs as [Hs _].
  Qed.
  Lemma nth_error_lookup {A} (l : list A) i : nth_error l i = l !! i.
  Proof. revert i. induction l as [|x l IH]; intros [|i]; cbn; auto. Qed.

  Lemma authenticate_sorted tbl u p : srt uh tbl →
    authenticate H tbl u p = option_map amp (List.find (hit (H u) (H p)) tbl).
  Proof.
    intros Hs. unfold authenticate. set (t := H u). set (n := length tbl).
    set (f := λ i, match nth_error tbl i with Some r => t <=? uh r | None => true end).
    assert (Hm : monotone n f).
    { intros a b Hab Hb. unfold f. rewrite !nth_error_lookup. destruct (tbl !! a) as [ra|] eqn:Ha.
      2:{ apply lookup_ge_None in Ha. unfold n in *. lia. }
      destruct (tbl !! b) as [rb|] eqn:Hb'; [|done].
      intros Ht. apply Z.leb_le in Ht. apply Z.leb_le.
      assert (uh ra ≤ uh rb); [|lia].
      destruct (decide (a = b)) as [->|Hne]; [rewrite Ha in Hb'; injection Hb' as ->; lia|].
      clear -Hs Ha Hb' Hab Hne. revert a b Ha Hb' Hab Hne. induction Hs as [|x l Hs IH Hall]; intros a b Ha Hb Hab Hne; [done|].
      destruct a as [|a], b as [|b]; cbn in *; try lia.
      - injection Ha as ->. rewrite Forall_forall in Hall. apply Hall. by eapply elem_of_list_lookup_2.
      - apply (IH a b); [done|done|lia|lia]. }
    destruct (search_least f n Hm) as (R1 & R2 & R3). set (idx := search n f) in *.
    rewrite <- (take_drop idx tbl) at 2. rewrite find_skip_lt.
    - fold (drop idx tbl). apply scan_find.
      + by apply srt_drop.
      + rewrite Forall_forall. intros r Hr. apply elem_of_list_lookup in Hr as [k Hk]. rewrite lookup_drop in Hk.
        assert (Hfk : f (idx + k)%nat = true).
        { apply R3. split; [lia|]. apply lookup_lt_Some in Hk. unfold n. lia. }
        unfold f in Hfk. rewrite nth_error_lookup, Hk in Hfk. by apply Z.leb_le.
    - rewrite Forall_forall. intros r Hr. apply elem_of_list_lookup in Hr as [k Hk].
      pose proof (lookup_lt_Some _ _ _ Hk) as Hlt. rewrite take_length in Hlt. rewrite lookup_take in Hk by lia.
      assert (Hfk : f k = false) by (apply R2; lia).
      unfold f in Hfk. rewrite nth_error_lookup, Hk in Hfk. by apply Z.leb_gt.
  Qed.

  (* a stable sort keeps the file order among the lines of one user *)
  Lemma find_as_filter {A} (P : A → bool) l : List.find P l = head (List.filter P l).
  Proof. induction l as [|x l IH]; cbn; [done|]. destruct (P x); [done|exact IH]. Qed.
  Lemma isort_same_measure l t : Forall (λ r, uh r = t) l → isort uh l = l.
  Proof.
    induction l as [|x l IH] using rev_ind; intros Hall; [done|]. apply Forall_app in Hall as [Hl Hx].
    apply Forall_cons in Hx as [Hx _]. rewrite isort_snoc, IH by done.
    rewrite <- (app_nil_r l) at 1. rewrite ins_app_le; [done|].
    eapply Forall_impl; [exact Hl|]. cbn. intros; lia.
  Qed.
  Lemma find_sorted_eq l t pw : List.find (hit t pw) (isort uh l) = List.find (hit t pw) l.
  Proof.
    rewrite !find_as_filter. f_equal.
    assert (Hsplit : ∀ l', List.filter (hit t pw) l' = List.filter (λ r, ph r =? pw) (List.filter (λ r, uh r =? t) l')).
    { intros l'. induction l' as [|x l' IHl]; cbn; [done|]. unfold hit at 1. destruct (uh x =? t); cbn; [|exact IHl].
      destruct (ph x =? pw); by rewrite IHl. }
    rewrite !Hsplit. f_equal. rewrite filter_isort. apply (isort_same_measure _ t).
    rewrite Forall_forall. intros r Hr. apply elem_of_list_In, filter_In in Hr as [_ Hr]. by apply Z.eqb_eq.
  Qed.

  Theorem file_auth_spec ls u p : file_auth H ls u p = auth_spec H ls u p.
  Proof.
    unfold file_auth, auth_spec. rewrite uh_sort_isort, authenticate_sorted by apply isort_srt.
    by rewrite find_sorted_eq.
  Qed.
End AuthFacts.

Section AuthIff.
  Variable H : string → Z.
  Hypothesis H_inj : ∀ a b, H a = H b → a = b.

  Definition configured (ls : list aline) (u p : string) : Prop :=
    ∃ l, l ∈ ls ∧ (l_n l = 2%nat ∨ l_n l = 3%nat) ∧ l_user l = u ∧ l_ph l = H p.

  Theorem accepted_iff_configured ls u p : is_Some (file_auth H ls u p) ↔ configured ls u p.
  Proof.
    rewrite file_auth_spec. unfold auth_spec, configured. split.
    - intros [m Hm]. destruct (List.find _ (parse H ls)) as [r|] eqn:Hf; [|done].
      apply find_some in Hf as [Hin Hhit]. apply andb_true_iff in Hhit as [Hu Hp]. apply Z.eqb_eq in Hu, Hp.
      unfold parse in Hin. apply in_flat_map in Hin as (l & Hl & Hr). exists l. split; [by apply elem_of_list_In|].
      unfold parse_line in Hr. destruct (l_n l) as [|[|[|[|n]]]]; try done; destruct Hr as [<-|[]]; cbn in *.
      + split; [by left|]. split; [by apply H_inj|done].
      + split; [by right|]. split; [by apply H_inj|done].
    - intros (l & Hl & Hn & Hu & Hp).
      destruct (List.find _ (parse H ls)) as [r|] eqn:Hf; [by eexists|]. exfalso.
      assert (Hex : ∃ r, In r (parse H ls) ∧ uh r = H u ∧ ph r = H p).
      { unfold parse. destruct Hn as [Hn|Hn].
        - exists (ARec (H (l_user l)) (l_ph l) default_mp). split; [|by rewrite Hu, Hp].
          apply in_flat_map. exists l. split; [by apply elem_of_list_In|]. unfold parse_line. rewrite Hn. by left.
        - eexists (ARec (H (l_user l)) (l_ph l) _). split; [|by rewrite Hu, Hp].
          apply in_flat_map. exists l. split; [by apply elem_of_list_In|]. unfold parse_line. rewrite Hn. by left. }
      destruct Hex as (r & Hin & Hu' & Hp'). pose proof (find_none _ _ Hf r Hin) as Hno. cbn in Hno.
      rewrite Hu', Hp', !Z.eqb_refl in Hno. done.
  Qed.

  Theorem static_iff su sp u p : static_auth H su sp u p = Some default_mp ↔ u = su ∧ p = sp.
  Proof.
    unfold static_auth. destruct (Z.eqb_spec (H u) (H su)) as [Hu|Hu], (Z.eqb_spec (H p) (H sp)) as [Hp|Hp]; cbn.
    - split; [intros _; split; by apply H_inj|done].
    - split; [done|intros [_ ->]; done].
    - split; [done|intros [-> _]; done].
    - split; [done|intros [-> _]; done].
  Qed.
  Theorem static_refuses su sp u p : static_auth H su sp u p = None ∨ static_auth H su sp u p = Some default_mp.
  Proof. unfold static_auth. destruct (_ && _); auto. Qed.
End AuthIff.
