(** C06 / C03 at node level: in every reachable node state the packet identifiers of the
    outbound in-flight entries are pairwise distinct, lie in 1..65535, and are exactly the
    identifiers of that range that the pool does not hold free — none is handed out twice, none
    leaks.  [G acks p held] is the invariant with [held] = identifiers taken from the pool and not
    (yet / any more) registered in the in-flight table; a quiescent node has [held = []]. *)
From Wasp Require Import Model.Base Spec.MatchSpec Model.DState Model.IdPool Model.Mount Model.Node
  Proofs.BaseFacts Proofs.IdPoolFacts Proofs.DStateFacts Proofs.NodeFacts.
From stdpp Require Import list strings.
From Coq Require Import ZArith Lia.
Open Scope Z_scope.

Definition outbound (e : aentry) : bool := match a_tag e with TIn _ _ _ _ => false | _ => true end.
Definition out_mids (l : list aentry) : list Z := map a_mid (List.filter outbound l).
Definition akey (e : aentry) : string * Z := (a_prefix e, a_mid e).
Definition tag_ok (e : aentry) : Prop :=
  match a_tag e with
  | TQ1 sid p | TQ2Pub sid p => opkt_mid p = a_mid e ∧ a_prefix e = sid
  | TQ2Rel sid mid => mid = a_mid e ∧ a_prefix e = sid
  | TIn _ _ _ _ => True
  end.

Record G (acks : list aentry) (p : pool) (held : list Z) : Prop := mkG {
  g_inv : Inv p; g_min : pmin p = 0; g_max : pmax p = 65535;
  g_keys : NoDup (map akey acks);
  g_tags : Forall tag_ok acks;
  g_nodup : NoDup (out_mids acks ++ held);
  g_range : ∀ x, x ∈ out_mids acks ++ held → 1 ≤ x ≤ 65535;
  g_free : ∀ x, 1 ≤ x ≤ 65535 → (infree (ivs p) x ↔ x ∉ out_mids acks ++ held) }.

Lemma out_mids_app a b : out_mids (a ++ b) = out_mids a ++ out_mids b.
Proof. unfold out_mids. by rewrite List.filter_app, map_app. Qed.
Lemma out_mids_cons e l : out_mids (e :: l) = if outbound e then a_mid e :: out_mids l else out_mids l.
Proof. unfold out_mids. cbn. by destruct (outbound e). Qed.

Lemma G_init : G [] (pnew 0 65535) [].
Proof.
  destruct (new_inv 0 65535 ltac:(lia)) as [Hi Hf].
  split; [exact Hi|reflexivity|reflexivity|apply NoDup_nil_2|constructor|apply NoDup_nil_2| |].
  - intros y Hy. by apply elem_of_nil in Hy.
  - intros y Hy. rewrite Hf. split; [intros _ Hin; by apply elem_of_nil in Hin|lia].
Qed.

Lemma G_held_perm acks p h h' : h ≡ₚ h' → G acks p h → G acks p h'.
Proof.
  intros Hp [H1 H2 H3 H4 H5 H6 H7 H8]. split; try done.
  - by rewrite <- Hp.
  - intros x. rewrite <- Hp. apply H7.
  - intros x Hx. rewrite <- Hp. by apply H8.
Qed.

(** getFree *)
Lemma G_get_free acks held : ∀ tries p, G acks p held →
  match get_free tries p with
  | (Some mid, p') => G acks p' (mid :: held)
  | (None, p') => G acks p' held
  end.
Proof.
  induction tries as [|k IH]; intros p HG; cbn [get_free]; [done|].
  destruct (pget p) as [v p'] eqn:Hg. cbn [fst snd].
  destruct HG as [H1 H2 H3 H4 H5 H6 H7 H8].
  destruct (get_spec p v p' H1 Hg) as [(-> & -> & Hnone)|(Hr & Hfree & Hi' & Hmn' & Hmx' & Hf')].
  - cbn. apply IH. by split.
  - destruct (Z.ltb_spec 0 v) as [Hpos|Hneg].
    + rewrite H2, H3 in Hr. assert (Hv : 1 ≤ v ≤ 65535) by lia.
      assert (Hnotin : v ∉ out_mids acks ++ held) by (by apply H8).
      split; try done; try congruence.
      * apply (NoDup_Permutation_proper _ _ (Permutation_middle _ _ _)). apply NoDup_cons. by split.
      * intros x. rewrite <- Permutation_middle. intros [->|Hx]%elem_of_cons; [done|by apply H7].
      * intros x Hx. rewrite Hf', <- Permutation_middle, not_elem_of_cons, (H8 x Hx). tauto.
    + apply IH. split; try done; try congruence.
      intros x Hx. rewrite Hf', (H8 x Hx). split; [tauto|]. intros Hn. split; [done|]. lia.
Qed.

Lemma ack_find_None l pfx mid : ack_find l pfx mid = None ↔ (pfx, mid) ∉ map akey l.
Proof.
  unfold ack_find. induction l as [|e l IH]; cbn [List.find map]; [split; [intros _ H; by apply elem_of_nil in H|done]|].
  unfold akey_eq at 1. rewrite not_elem_of_cons.
  destruct (String.eqb_spec (a_prefix e) pfx) as [Hp|Hp]; cbn [andb].
  - destruct (Z.eqb_spec (a_mid e) mid) as [Hm|Hm].
    + split; [done|]. intros [Hne _]. exfalso. apply Hne. unfold akey. by rewrite Hp, Hm.
    + rewrite IH. split; [intros H; split; [|done]|tauto]. unfold akey. intros [= ? ?]. congruence.
  - rewrite IH. split; [intros H; split; [|done]|tauto]. unfold akey. intros [= ? ?]. congruence.
Qed.
Lemma ack_find_Some l pfx mid e : ack_find l pfx mid = Some e → e ∈ l ∧ a_prefix e = pfx ∧ a_mid e = mid.
Proof.
  unfold ack_find. intros H. apply find_some in H as [Hin Hk]. split; [by apply elem_of_list_In|].
  unfold akey_eq in Hk. apply andb_true_iff in Hk as [Hp Hm]. apply String.eqb_eq in Hp. apply Z.eqb_eq in Hm. done.
Qed.

(** registering an identifier that is held *)
Lemma G_insert acks p mid held e : G acks p (mid :: held) → (a_prefix e, a_mid e) ∉ map akey acks →
  a_mid e = mid → outbound e = true → tag_ok e → G (acks ++ [e]) p held.
Proof.
  intros [H1 H2 H3 H4 H5 H6 H7 H8] Hkey Hm Ho Ht.
  assert (Hout : out_mids (acks ++ [e]) ++ held ≡ₚ out_mids acks ++ mid :: held).
  { rewrite out_mids_app, out_mids_cons, Ho, Hm. cbn. by rewrite <- app_assoc. }
  split; try done.
  - rewrite map_app. cbn. apply NoDup_app. split; [done|]. split; [|apply NoDup_singleton].
    intros k Hk [->|Hn]%elem_of_cons; [done|by apply elem_of_nil in Hn].
  - apply Forall_app. split; [done|by repeat constructor].
  - by rewrite Hout.
  - intros x. rewrite Hout. apply H7.
  - intros x Hx. rewrite Hout. by apply H8.
Qed.
Lemma G_insert_in acks p held e : G acks p held → (a_prefix e, a_mid e) ∉ map akey acks →
  outbound e = false → tag_ok e → G (acks ++ [e]) p held.
Proof.
  intros [H1 H2 H3 H4 H5 H6 H7 H8] Hkey Ho Ht.
  assert (Hout : out_mids (acks ++ [e]) = out_mids acks).
  { rewrite out_mids_app, out_mids_cons, Ho. cbn. by rewrite app_nil_r. }
  split; try done; rewrite ?Hout; try done.
  - rewrite map_app. cbn. apply NoDup_app. split; [done|]. split; [|apply NoDup_singleton].
    intros k Hk [->|Hn]%elem_of_cons; [done|by apply elem_of_nil in Hn].
  - apply Forall_app. split; [done|by repeat constructor].
Qed.

(** returning a held identifier to the pool *)
Lemma G_put acks p mid held : G acks p (mid :: held) → G acks (pput mid p) held.
Proof.
  intros [H1 H2 H3 H4 H5 H6 H7 H8]. destruct (put_spec mid p H1) as (Hi' & Hmn' & Hmx' & Hf').
  assert (Hnd : NoDup (mid :: out_mids acks ++ held)) by (by rewrite Permutation_middle).
  apply NoDup_cons in Hnd as [Hnotin Hnd].
  assert (Hr : 1 ≤ mid ≤ 65535). { apply H7. rewrite <- Permutation_middle. apply elem_of_cons. by left. }
  split; try done; try congruence.
  - intros x Hx. apply H7. rewrite <- Permutation_middle. apply elem_of_cons. by right.
  - intros x Hx. rewrite Hf', (H8 x Hx), <- Permutation_middle, not_elem_of_cons, H2, H3.
    destruct (decide (x = mid)) as [->|Hne]; [split; [done|]; intros _; right; split; [done|lia]|]. tauto.
Qed.

(** taking an entry out of the table *)
Lemma ack_remove_notin l pfx mid : (pfx, mid) ∉ map akey l → ack_remove l pfx mid = l.
Proof.
  unfold ack_remove. induction l as [|e l IH]; cbn [List.filter map]; [done|]. rewrite not_elem_of_cons. intros [Hne Hn].
  assert (akey_eq e pfx mid = false) as ->.
  { unfold akey_eq. apply andb_false_iff. destruct (String.eqb_spec (a_prefix e) pfx) as [Hp|]; [|by left]. right.
    apply Z.eqb_neq. intros Hm. apply Hne. unfold akey. by rewrite Hp, Hm. }
  cbn. by rewrite IH.
Qed.
Lemma ack_remove_perm l e : NoDup (map akey l) → e ∈ l → l ≡ₚ e :: ack_remove l (a_prefix e) (a_mid e).
Proof.
  induction l as [|x l IH]; [intros _ H; by apply elem_of_nil in H|]. cbn [map]. intros [Hnot Hnd]%NoDup_cons [->|Hin]%elem_of_cons.
  - unfold ack_remove. cbn [List.filter]. unfold akey_eq at 1. rewrite String.eqb_refl, Z.eqb_refl. cbn.
    fold (ack_remove l (a_prefix x) (a_mid x)). by rewrite ack_remove_notin.
  - unfold ack_remove. cbn [List.filter].
    assert (akey_eq x (a_prefix e) (a_mid e) = false) as ->.
    { unfold akey_eq. apply andb_false_iff. destruct (String.eqb_spec (a_prefix x) (a_prefix e)) as [Hp|]; [|by left]. right.
      apply Z.eqb_neq. intros Hm. apply Hnot. apply elem_of_list_fmap. exists e. split; [|done]. unfold akey. by rewrite Hp, Hm. }
    cbn. fold (ack_remove l (a_prefix e) (a_mid e)). rewrite (IH Hnd Hin) at 1. apply perm_swap.
Qed.
Lemma out_mids_perm l l' : l ≡ₚ l' → out_mids l ≡ₚ out_mids l'.
Proof. intros H. unfold out_mids. apply fmap_Permutation. induction H; cbn; try done; [by destruct (outbound x); [constructor|]|destruct (outbound x), (outbound y); try done; apply perm_swap|etrans; eauto]. Qed.

Lemma G_remove acks p held e : G acks p held → e ∈ acks →
  let acks' := ack_remove acks (a_prefix e) (a_mid e) in
  G acks' p (if outbound e then a_mid e :: held else held) ∧ akey e ∉ map akey acks' ∧ tag_ok e ∧
  (∀ k, k ∈ map akey acks' → k ∈ map akey acks).
Proof.
  intros [H1 H2 H3 H4 H5 H6 H7 H8] Hin acks'.
  pose proof (ack_remove_perm acks e H4 Hin) as Hp. fold acks' in Hp.
  assert (Hk : map akey acks ≡ₚ akey e :: map akey acks') by (by rewrite Hp).
  assert (Hnd : NoDup (akey e :: map akey acks')) by (by rewrite <- Hk).
  apply NoDup_cons in Hnd as [Hnot Hnd].
  assert (Ht : Forall tag_ok (e :: acks')) by (by rewrite <- Hp).
  apply Forall_cons in Ht as [Hte Ht].
  assert (Hout : out_mids acks ++ held ≡ₚ out_mids acks' ++ (if outbound e then a_mid e :: held else held)).
  { rewrite (out_mids_perm _ _ Hp), out_mids_cons. destruct (outbound e); [|done]. cbn. apply Permutation_middle. }
  split; [|split; [done|split; [done|]]].
  - split; try done.
    + by rewrite <- Hout.
    + intros x. rewrite <- Hout. apply H7.
    + intros x Hx. rewrite <- Hout. by apply H8.
  - intros k Hk'. rewrite Hk. apply elem_of_cons. by right.
Qed.

(** * one node *)
Definition reg_ok (reg : list (string * sess)) : Prop := Forall (λ kv, ss_id kv.2 = kv.1) reg.
Lemma reg_ok_lookup reg sid s : reg_ok reg → alookup sid reg = Some s → ss_id s = sid.
Proof. intros H Hl. exact (alookup_values2 (λ k v, ss_id v = k) _ _ _ H Hl). Qed.

Definition GN (n : node) (held : list Z) : Prop := G (n_acks n) (n_pool n) held.
Definition tag_out (t : tag) : bool := match t with TIn _ _ _ _ => false | _ => true end.

(* ack.Queue.Insert of an identifier that is held and whose key is free always succeeds *)
Lemma reinsert_G n pfx mid expect t held :
  GN n (mid :: held) → (pfx, mid) ∉ map akey (n_acks n) → tag_out t = true → tag_ok (AEntry pfx mid expect t) →
  ack_insert n pfx mid expect t = (set_acks n (n_acks n ++ [AEntry pfx mid expect t]), true) ∧
  GN (set_acks n (n_acks n ++ [AEntry pfx mid expect t])) held.
Proof.
  intros HG Hkey Ht Htag. unfold ack_insert.
  assert (Hr : 1 ≤ mid ≤ 65535). { apply (g_range _ _ _ HG). rewrite <- Permutation_middle. apply elem_of_cons. by left. }
  rewrite (proj2 (Z.eqb_neq mid 0)) by lia. rewrite (proj2 (ack_find_None _ _ _) Hkey). split; [done|].
  unfold GN. cbn [n_acks n_pool set_acks]. by apply (G_insert _ _ mid).
Qed.
(* in general it succeeds or changes nothing *)
Lemma ack_insert_G n pfx mid expect t held :
  GN n (mid :: held) → tag_out t = true → tag_ok (AEntry pfx mid expect t) →
  let r := ack_insert n pfx mid expect t in
  n_reg r.1 = n_reg n ∧ n_pool r.1 = n_pool n ∧ if r.2 then GN r.1 held else r.1 = n.
Proof.
  intros HG Ht Htag. unfold ack_insert. destruct (mid =? 0); [done|].
  destruct (ack_find (n_acks n) pfx mid) as [old|] eqn:Hf; [done|]. cbn [fst snd]. split; [done|]. split; [done|].
  unfold GN. cbn [n_acks n_pool set_acks]. apply (G_insert _ _ mid); try done. by apply ack_find_None.
Qed.

Lemma send_q1_G bad n s p held : GN n (opkt_mid p :: held) →
  let r := send_q1 bad n s p in n_reg r.1.1 = n_reg n ∧ n_pool r.1.1 = n_pool n ∧ if r.2 then GN r.1.1 held else r.1.1 = n.
Proof.
  intros HG. unfold send_q1.
  pose proof (ack_insert_G n (ss_id s) (opkt_mid p) PUBACK (TQ1 (ss_id s) p) held HG eq_refl ltac:(by split)) as H.
  destruct (ack_insert _ _ _ _ _) as [n' [|]]; cbn in *; done.
Qed.
Lemma send_q2_G bad n s p held : GN n (opkt_mid p :: held) →
  let r := send_q2 bad n s p in n_reg r.1.1 = n_reg n ∧ n_pool r.1.1 = n_pool n ∧ if r.2 then GN r.1.1 held else r.1.1 = n.
Proof.
  intros HG. unfold send_q2.
  pose proof (ack_insert_G n (ss_id s) (opkt_mid p) PUBREC (TQ2Pub (ss_id s) p) held HG eq_refl ltac:(by split)) as H.
  destruct (ack_insert _ _ _ _ _) as [n' [|]]; cbn in *; done.
Qed.

(** writer.send keeps the invariant *)
Lemma send_G bad recips : ∀ n m, GN n [] → GN (send bad n recips m).1 [] ∧ n_reg (send bad n recips m).1 = n_reg n.
Proof.
  induction recips as [|[r q] rs IH]; intros n m HG; cbn [send]; [done|].
  destruct (alookup r (n_reg n)) as [s|]; [|by apply IH].
  destruct (q =? 0); [cbn [fst]; by apply IH|].
  destruct ((q =? 1) || (q =? 2)); [|by apply IH].
  pose proof (G_get_free (n_acks n) [] 5 (n_pool n) HG) as Hgf.
  destruct (get_free 5 (n_pool n)) as [[mid|] pl]; [|done].
  set (pk := OPublish (trim_mp (ss_mp s) (l_topic m)) (l_payload m) q (l_retain m) (l_dup m) mid).
  assert (HG1 : GN (set_pool n pl) (opkt_mid pk :: [])) by done.
  destruct (q =? 1).
  - pose proof (send_q1_G bad (set_pool n pl) s pk [] HG1) as (Hreg & Hpool & Hres).
    destruct (send_q1 bad (set_pool n pl) s pk) as [[n2 o1] ok]. cbn [fst snd] in *. destruct ok.
    + destruct (IH n2 m Hres) as [I1 I2]. split; [done|]. by rewrite I2, Hreg.
    + subst n2. assert (HG3 : GN (set_pool (set_pool n pl) (pput mid (n_pool (set_pool n pl)))) []) by (by apply G_put).
      destruct (IH _ m HG3) as [I1 I2]. split; [done|]. by rewrite I2.
  - pose proof (send_q2_G bad (set_pool n pl) s pk [] HG1) as (Hreg & Hpool & Hres).
    destruct (send_q2 bad (set_pool n pl) s pk) as [[n2 o1] ok]. cbn [fst snd] in *. destruct ok.
    + destruct (IH n2 m Hres) as [I1 I2]. split; [done|]. by rewrite I2, Hreg.
    + subst n2. assert (HG3 : GN (set_pool (set_pool n pl) (pput mid (n_pool (set_pool n pl)))) []) by (by apply G_put).
      destruct (IH _ m HG3) as [I1 I2]. split; [done|]. by rewrite I2.
Qed.

(** the callbacks of the in-flight table: the entry has left the table, its identifier is held *)
Lemma on_outcome_G bad n e expired held : reg_ok (n_reg n) → tag_ok e → akey e ∉ map akey (n_acks n) →
  GN n (if outbound e then a_mid e :: held else held) →
  let n' := (on_outcome bad n e expired).1.1 in
  GN n' held ∧ n_reg n' = n_reg n ∧ (∀ k, k ∈ map akey (n_acks n') → k ∈ map akey (n_acks n) ∨ k = akey e).
Proof.
  intros Hreg Htag Hkey HG. unfold on_outcome, outbound, tag_ok, akey in *.
  destruct e as [pfx emid expect t]. cbn [a_tag a_mid a_prefix] in *.
  assert (Hkeys_same : ∀ n0 : node, n_acks n0 = n_acks n → ∀ k, k ∈ map akey (n_acks n0) → k ∈ map akey (n_acks n) ∨ k = (pfx, emid)).
  { intros n0 -> k Hk. by left. }
  assert (Hkeys_add : ∀ ex tg k, k ∈ map akey (n_acks n ++ [AEntry pfx emid ex tg]) → k ∈ map akey (n_acks n) ∨ k = (pfx, emid)).
  { intros ex tg k. rewrite map_app, elem_of_app. cbn. intros [?|[->|Hn]%elem_of_cons]; [by left|by right|by apply elem_of_nil in Hn]. }
  destruct t as [sid p|sid p|sid mid|sid c m r]; cbn [a_tag] in *.
  - destruct Htag as [Hm Hp]. subst pfx emid.
    destruct (alookup sid (n_reg n)) as [s|] eqn:Hs.
    + pose proof (reg_ok_lookup _ _ _ Hreg Hs) as Hid. destruct expired.
      * unfold send_q1. rewrite Hid.
        destruct (reinsert_G n sid (opkt_mid p) PUBACK (TQ1 sid p) held HG Hkey eq_refl ltac:(by split)) as [-> HG'].
        cbn [fst snd]. split; [done|]. split; [done|]. apply Hkeys_add.
      * cbn [fst snd]. split; [by apply G_put|]. split; [done|]. by apply Hkeys_same.
    + cbn [fst snd]. split; [by apply G_put|]. split; [done|]. by apply Hkeys_same.
  - destruct Htag as [Hm Hp]. subst pfx emid.
    destruct (alookup sid (n_reg n)) as [s|] eqn:Hs.
    + pose proof (reg_ok_lookup _ _ _ Hreg Hs) as Hid. destruct expired.
      * unfold send_q2. rewrite Hid.
        destruct (reinsert_G n sid (opkt_mid p) PUBREC (TQ2Pub sid p) held HG Hkey eq_refl ltac:(by split)) as [-> HG'].
        cbn [fst snd]. split; [done|]. split; [done|]. apply Hkeys_add.
      * unfold complete_q2. rewrite Hid.
        destruct (reinsert_G n sid (opkt_mid p) PUBCOMP (TQ2Rel sid (opkt_mid p)) held HG Hkey eq_refl ltac:(by split)) as [-> HG'].
        cbn [fst snd]. split; [done|]. split; [done|]. apply Hkeys_add.
    + cbn [fst snd]. split; [by apply G_put|]. split; [done|]. by apply Hkeys_same.
  - destruct Htag as [Hm Hp]. subst pfx emid.
    destruct (alookup sid (n_reg n)) as [s|] eqn:Hs.
    + pose proof (reg_ok_lookup _ _ _ Hreg Hs) as Hid. destruct expired.
      * unfold complete_q2. rewrite Hid.
        destruct (reinsert_G n sid mid PUBCOMP (TQ2Rel sid mid) held HG Hkey eq_refl ltac:(by split)) as [-> HG'].
        cbn [fst snd]. split; [done|]. split; [done|]. apply Hkeys_add.
      * cbn [fst snd]. split; [by apply G_put|]. split; [done|]. by apply Hkeys_same.
    + cbn [fst snd]. split; [by apply G_put|]. split; [done|]. by apply Hkeys_same.
  - destruct expired; cbn [fst snd]; (split; [done|]; split; [done|]; by apply Hkeys_same).
Qed.

(** ack.Queue.Expire with everything due: every entry leaves the table and is either re-armed
    under its own identifier or its identifier goes back to the pool *)
Lemma sweep_fold_G bad due : ∀ m o0, reg_ok (n_reg m) → Forall tag_ok due → NoDup (map akey due) →
  (∀ k, k ∈ map akey due → k ∉ map akey (n_acks m)) → GN m (out_mids due) →
  let r := fold_left (λ acc e, let '(m', o, _) := on_outcome bad acc.1 e true in (m', (acc.2 ++ o)%list)) due (m, o0) in
  GN r.1 [] ∧ n_reg r.1 = n_reg m.
Proof.
  induction due as [|e due IH]; intros m o0 Hreg Htags Hnd Hdisj HG; cbn [fold_left]; [done|].
  apply Forall_cons in Htags as [Hte Htags]. cbn [map] in Hnd. apply NoDup_cons in Hnd as [Hnot Hnd].
  rewrite out_mids_cons in HG.
  assert (Hkey : akey e ∉ map akey (n_acks m)). { apply Hdisj. cbn. apply elem_of_cons. by left. }
  pose proof (on_outcome_G bad m e true (out_mids due) Hreg Hte Hkey HG) as (HG' & Hreg' & Hkeys').
  cbn [fst snd]. destruct (on_outcome bad m e true) as [[m' o] j]. cbn [fst snd] in *.
  assert (Hreg2 : reg_ok (n_reg m')) by (by rewrite Hreg').
  assert (Hdisj' : ∀ k, k ∈ map akey due → k ∉ map akey (n_acks m')).
  { intros k Hk Hin. destruct (Hkeys' k Hin) as [Hold| ->]; [|done]. apply (Hdisj k); [|done]. cbn. apply elem_of_cons. by right. }
  destruct (IH m' (o0 ++ o)%list Hreg2 Htags Hnd Hdisj' HG') as [I1 I2]. split; [done|]. by rewrite I2.
Qed.

(** * the cluster *)
Definition node_ok (n : node) : Prop := GN n [] ∧ reg_ok (n_reg n).
Definition cl_ok (cl : cluster) : Prop := Forall node_ok (cl_nodes cl).

Lemma node_ok_ext n n' : n_acks n' = n_acks n → n_pool n' = n_pool n → n_reg n' = n_reg n → node_ok n → node_ok n'.
Proof. unfold node_ok, GN. by intros -> -> ->. Qed.
Lemma node_ok_new id : node_ok (nnew id).
Proof. split; [apply G_init|constructor]. Qed.
Lemma getn_ok cl i : cl_ok cl → node_ok (getn cl i).
Proof.
  unfold cl_ok, getn. intros H. destruct (nth_in_or_default i (cl_nodes cl) (nnew 0)) as [Hin| ->]; [|apply node_ok_new].
  rewrite Forall_forall in H. apply H. by apply elem_of_list_In.
Qed.
Lemma set_nth_Forall {A} (P : A → Prop) i x : ∀ l, Forall P l → P x → Forall P (set_nth i x l).
Proof.
  revert i. intros i l. revert i. induction l as [|y l IH]; intros i Hl Hx; destruct i; cbn; try done.
  - apply Forall_cons in Hl as [_ Hl]. by constructor.
  - apply Forall_cons in Hl as [Hy Hl]. constructor; [done|by apply IH].
Qed.
Lemma setn_ok cl i n : cl_ok cl → node_ok n → cl_ok (setn cl i n).
Proof. unfold cl_ok, setn. cbn. intros. by apply set_nth_Forall. Qed.
Lemma cl_ok_nodes cl cl' : cl_nodes cl' = cl_nodes cl → cl_ok cl → cl_ok cl'.
Proof. unfold cl_ok. by intros ->. Qed.
Lemma node_ok_mutate n r : node_ok n → node_ok (mutate n r).
Proof. by apply node_ok_ext. Qed.

Lemma append_at_ok cl i m : cl_ok cl → cl_ok (append_at cl i m).1.1.
Proof.
  intros H. unfold append_at. destruct (n_fail (getn cl i)); cbn [fst]; apply setn_ok; try done; (eapply node_ok_ext; [| | |by apply (getn_ok cl i)]; done).
Qed.
Lemma distribute_ok cl i m : cl_ok cl → cl_ok (distribute cl i m).1.1.
Proof.
  intros H. unfold distribute. generalize (dedup (map s_peer (sub_by_pattern (n_d (getn cl i)) (l_topic m)))). intros dests.
  assert (Hf : ∀ (acc : cluster * list eobs * bool), cl_ok acc.1.1 →
    cl_ok (fold_left (λ acc dst, let '(c, o, failed) := acc in
      let j := node_index c dst in
      if Nat.eqb j i then let '(c', o', ok) := append_at c i m in (c', (o ++ o')%list, failed || negb ok)
      else if is_down c j then (c, (o ++ [Call i j false])%list, true)
      else let '(c', o', ok) := append_at c j m in (c', (o ++ o' ++ [Call i j ok])%list, failed || negb ok)) dests acc).1.1).
  { induction dests as [|d ds IH]; intros [[c o] f] Hacc; cbn [fold_left]; [done|]. apply IH. cbn [fst] in Hacc.
    destruct (Nat.eqb (node_index c d) i).
    - pose proof (append_at_ok c i m Hacc). by destruct (append_at c i m) as [[c' o'] ok].
    - destruct (is_down c (node_index c d)); [done|].
      pose proof (append_at_ok c (node_index c d) m Hacc). by destruct (append_at c (node_index c d) m) as [[c' o'] ok]. }
  apply (Hf (cl, [], false)). done.
Qed.
Lemma worker_ok cl i m retain clk ackp : cl_ok cl → cl_ok (worker cl i m retain clk ackp).1.
Proof.
  intros H. unfold worker.
  set (n1 := if retain then _ else _).
  assert (H1 : cl_ok (setn cl i n1)).
  { apply setn_ok; [done|]. unfold n1. destruct retain; [|by apply getn_ok]. destruct (String.eqb _ _); apply node_ok_mutate; by apply getn_ok. }
  pose proof (distribute_ok (setn cl i n1) i m H1) as H2. by destruct (distribute (setn cl i n1) i m) as [[c2 o] failed].
Qed.

Lemma drain_node_ok fuel : ∀ cl i, cl_ok cl → cl_ok (drain_node fuel cl i).1.
Proof.
  induction fuel as [|f IH]; intros cl i H; cbn [drain_node]; [done|].
  destruct (nth_error _ _) as [m|]; [|done]. cbn [fst]. apply IH. apply setn_ok; [done|].
  set (n0 := set_coff (getn cl i) (S (n_coff (getn cl i)))).
  assert (H0 : node_ok n0) by (apply (node_ok_ext (getn cl i)); try done; by apply getn_ok).
  match goal with |- node_ok (send ?b ?n ?r ?m).1 => destruct (send_G b r n m (proj1 H0)) as [S1 S2] end.
  split; [done|]. rewrite S2. apply H0.
Qed.
Lemma drain_all_ok cl : cl_ok cl → cl_ok (drain_all cl).1.
Proof.
  intros H. unfold drain_all. generalize (seq 0 (length (cl_nodes cl))). intros l.
  generalize (@nil eobs). revert cl H.
  induction l as [|i l IH]; intros cl H o; cbn [fold_left]; [done|]. cbn [fst snd]. apply IH. by apply drain_node_ok.
Qed.

(** ** sessions, packets *)
Lemma reg_ok_adel k reg : reg_ok reg → reg_ok (adel k reg).
Proof.
  unfold reg_ok. induction reg as [|[k' v] reg IH]; cbn [adel]; [done|]. intros [H0 H]%Forall_cons.
  destruct (String.eqb k k'); [done|]. constructor; [done|by apply IH].
Qed.
Lemma reg_ok_aset s reg : reg_ok reg → reg_ok (aset (ss_id s) s reg).
Proof. intros H. by apply (aset_values2 (λ k v, ss_id v = k)). Qed.

Lemma fold_sub_delete_ok (s : sess) clk ts : ∀ n, node_ok n →
  node_ok (fold_left (λ m t, mutate m (sub_delete (n_d m) (ss_id s) t clk)) ts n).
Proof. induction ts as [|t ts IH]; intros n H; cbn [fold_left]; [done|]. apply IH. by apply node_ok_mutate. Qed.

Lemma shutdown_ok cl i s d clk : cl_ok cl → cl_ok (shutdown cl i s d clk).1.
Proof.
  intros H. unfold shutdown.
  set (n1 := set_reg (getn cl i) (adel (ss_id s) (n_reg (getn cl i)))).
  assert (H1 : node_ok n1). { destruct (getn_ok cl i H) as [G1 R1]. split; [done|]. by apply reg_ok_adel. }
  set (n2 := fold_left _ (ss_topics s) n1).
  assert (H2 : node_ok n2) by (by apply fold_sub_delete_ok).
  destruct (match owner n2 (ss_mp s) (ss_cid s) with Some m => if String.eqb (m_sid m) (ss_id s) then Some true else Some false | None => None end) as [[|]|].
  - assert (H3 : cl_ok (setn cl i (mutate n2 (sess_delete (n_d n2) (ss_id s) clk)))) by (apply setn_ok; [done|by apply node_ok_mutate]).
    destruct d; [done|]. destruct (ss_lwt s) as [w|]; [|done]. cbn [fst]. by apply worker_ok.
  - cbn [fst]. by apply setn_ok.
  - assert (H3 : cl_ok (setn cl i n2)) by (by apply setn_ok).
    destruct d; [done|]. destruct (ss_lwt s) as [w|]; [|done]. cbn [fst]. by apply worker_ok.
Qed.
Lemma upd_conn_ok cl k : cl_ok cl → cl_ok (upd_conn cl k).
Proof. by apply cl_ok_nodes. Qed.
Lemma end_session_ok cl k d clk : cl_ok cl → cl_ok (end_session cl k d clk).1.
Proof.
  intros H. unfold end_session. destruct (c_sid k) as [sid|]; [|done].
  destruct (alookup sid (n_reg (getn cl (c_node k)))) as [s|]; [|by apply upd_conn_ok].
  apply shutdown_ok. by apply upd_conn_ok.
Qed.

Lemma setup_ok cl i c cid user pass ka will clk : cl_ok cl → cl_ok (setup cl i c cid user pass ka will clk).1.
Proof.
  intros H. unfold setup. destruct (String.eqb pass "bad" || String.eqb pass "bad-static"); [by apply (cl_ok_nodes cl)|].
  cbn zeta.
  set (cl0 := Cluster (cl_nodes cl) (cl_conns cl ++ [Conn c i None false]) (cl_bad cl) (cl_down cl) (cl_deliv cl) (cl_next cl)).
  set (cl1 := Cluster (cl_nodes cl0) (cl_conns cl0) (cl_bad cl0) (cl_down cl0) (cl_deliv cl0) (S (cl_next cl0))).
  assert (H1 : cl_ok cl1) by (by apply (cl_ok_nodes cl)).
  set (mp := if String.eqb user "" then "_default" else user).
  set (n1 := match owner (getn cl1 i) mp cid with Some m => mutate (getn cl1 i) (sess_delete (n_d (getn cl1 i)) (m_sid m) clk) | None => getn cl1 i end).
  assert (Hn1 : node_ok n1). { unfold n1. destruct (owner _ _ _); [apply node_ok_mutate|]; by apply getn_ok. }
  destruct (sess_create (n_d n1) (session_id (cl_next cl0)) cid mp will clk) as [d2 [e|]]; cbn [snd fst].
  - apply upd_conn_ok. apply setn_ok; [done|].
    destruct (node_ok_mutate n1 (d2, Some e) Hn1) as [G2 R2]. split; [done|]. cbn [n_reg set_reg].
    apply (reg_ok_aset (Sess (session_id (cl_next cl0)) cid mp will ka [] c)). apply Hn1.
  - by apply setn_ok.
Qed.

Lemma with_session_ok cl c f : cl_ok cl →
  (∀ k s, cl_ok (f k (c_node k) (getn cl (c_node k)) s).1) → cl_ok (with_session cl c f).1.
Proof.
  intros H Hf. unfold with_session. destruct (find_conn cl c) as [k|]; [|done]. destruct (c_closed k); [done|].
  destruct (c_sid k) as [sid|]; [|done]. destruct (alookup sid _) as [s|]; [apply Hf|done].
Qed.

Lemma do_publish_ok cl c p dup mid clk : cl_ok cl → cl_ok (do_publish cl c p dup mid clk).1.
Proof.
  intros H. unfold do_publish. apply with_session_ok; [done|]. intros k s.
  destruct ((p_qos p =? 0) || (p_qos p =? 1)); [cbn [fst]; by apply worker_ok|].
  destruct (p_qos p =? 2); [|done].
  set (n := getn cl (c_node k)). unfold ack_insert. destruct (mid =? 0); [by apply end_session_ok|].
  destruct (ack_find (n_acks n) (ss_id s ++ "/in") mid) as [old|] eqn:Hf; [by apply end_session_ok|].
  cbn [fst]. apply setn_ok; [done|]. destruct (getn_ok cl (c_node k) H) as [G1 R1]. split; [|done].
  unfold GN. cbn [n_acks n_pool set_acks]. apply G_insert_in; try done. by apply ack_find_None.
Qed.

Lemma fold_send_ok bad (replay : list (Z * lmsg)) sid : ∀ n o, node_ok n →
  node_ok (fold_left (λ acc qm, let r := send bad acc.1 [(sid, qm.1)] qm.2 in (r.1, (acc.2 ++ r.2)%list)) replay (n, o)).1.
Proof.
  induction replay as [|qm replay IH]; intros n o Hn; cbn [fold_left]; [done|]. apply IH. cbn [fst].
  destruct (send_G bad [(sid, qm.1)] n qm.2 (proj1 Hn)) as [S1 S2]. split; [done|]. rewrite S2. apply Hn.
Qed.
Lemma do_subscribe_ok cl c mid fs clk : cl_ok cl → cl_ok (do_subscribe cl c mid fs clk).1.
Proof.
  intros H. unfold do_subscribe. apply with_session_ok; [done|]. intros k s.
  set (n := getn cl (c_node k)).
  assert (Hf : ∀ acc : node * sess, node_ok acc.1 →
     node_ok (fold_left (λ acc fq, let pat := prefix_mp (ss_mp s) fq.1 in
                 (mutate acc.1 (sub_create (n_d acc.1) (ss_id s) pat fq.2 clk), add_topic acc.2 pat)) fs acc).1).
  { induction fs as [|fq fs IH]; intros acc Hacc; cbn [fold_left]; [done|]. apply IH. cbn [fst]. by apply node_ok_mutate. }
  specialize (Hf (n, s) (getn_ok cl (c_node k) H)).
  destruct (fold_left _ fs (n, s)) as [n1 s1]. cbn [fst] in Hf.
  assert (H2 : node_ok (sess_update n1 s1)). { destruct Hf as [G1 R1]. split; [done|]. by apply reg_ok_aset. }
  cbn [fst]. apply setn_ok; [done|]. by apply fold_send_ok.
Qed.
Lemma do_unsubscribe_ok cl c mid fs clk : cl_ok cl → cl_ok (do_unsubscribe cl c mid fs clk).1.
Proof.
  intros H. unfold do_unsubscribe. apply with_session_ok; [done|]. intros k s.
  set (n := getn cl (c_node k)).
  assert (Hf : ∀ acc : node * sess, node_ok acc.1 →
     node_ok (fold_left (λ acc f, let pat := prefix_mp (ss_mp s) f in
                 (mutate acc.1 (sub_delete (n_d acc.1) (ss_id s) pat clk), del_topic acc.2 pat)) fs acc).1).
  { induction fs as [|f fs IH]; intros acc Hacc; cbn [fold_left]; [done|]. apply IH. cbn [fst]. by apply node_ok_mutate. }
  specialize (Hf (n, s) (getn_ok cl (c_node k) H)).
  destruct (fold_left _ fs (n, s)) as [n1 s1]. cbn [fst] in *. apply setn_ok; [done|].
  destruct Hf as [G1 R1]. split; [done|]. by apply reg_ok_aset.
Qed.

Lemma do_ack_ok cl c ty mid clk : cl_ok cl → cl_ok (do_ack cl c ty mid clk).1.
Proof.
  intros H. unfold do_ack. apply with_session_ok; [done|]. intros k s.
  set (n := getn cl (c_node k)). set (prefix := if ty =? PUBREL then (ss_id s ++ "/in")%string else ss_id s).
  destruct (ack_find (n_acks n) prefix mid) as [e|] eqn:Hfind; [|done].
  destruct (a_expect e =? ty); [|done].
  destruct (ack_find_Some _ _ _ _ Hfind) as (Hin & Hp & Hm).
  destruct (getn_ok cl (c_node k) H) as [G1 R1]. fold n in G1, R1.
  destruct (G_remove _ _ _ e G1 Hin) as (G2 & Hkey & Htag & _). rewrite Hp, Hm in G2, Hkey.
  set (n0 := set_acks n (ack_remove (n_acks n) prefix mid)).
  assert (G0 : GN n0 (if outbound e then a_mid e :: [] else [])) by (by rewrite Hm).
  pose proof (on_outcome_G (cl_bad cl) n0 e false [] R1 Htag Hkey G0) as (G3 & R3 & _).
  destruct (on_outcome (cl_bad cl) n0 e false) as [[n' o] job]. cbn [fst snd] in *.
  assert (H4 : cl_ok (setn cl (c_node k) n')). { apply setn_ok; [done|]. split; [done|]. by rewrite R3. }
  destruct job as [[[[[sid c'] m] retain] pm]|]; cbn [fst]; [by apply worker_ok|done].
Qed.

Lemma do_ping_ok cl c clk : cl_ok cl → cl_ok (do_ping cl c clk).1.
Proof.
  intros H. unfold do_ping. apply with_session_ok; [done|]. intros k s.
  destruct (owner _ _ _) as [m|]; [destruct (String.eqb _ _); [done|]|]; by apply end_session_ok.
Qed.

Lemma G_unregister_all acks p : G acks p [] → G [] p (out_mids acks).
Proof.
  intros [H1 H2 H3 H4 H5 H6 H7 H8]. rewrite app_nil_r in *.
  split; [exact H1|exact H2|exact H3|apply NoDup_nil_2|constructor|exact H6|exact H7|exact H8].
Qed.
Lemma sweep_ok cl i : cl_ok cl → cl_ok (sweep cl i).1.
Proof.
  intros H. unfold sweep. cbn [fst]. apply setn_ok; [done|].
  destruct (getn_ok cl i H) as [G1 R1].
  pose proof (sweep_fold_G (cl_bad cl) (n_acks (getn cl i)) (set_acks (getn cl i) []) [] R1 (g_tags _ _ _ G1) (g_keys _ _ _ G1)
                ltac:(intros k _ Hk; by apply elem_of_nil in Hk) (G_unregister_all _ _ G1)) as [S1 S2].
  cbn zeta in S1, S2.
  split; [exact S1|]. rewrite S2. exact R1.
Qed.

Lemma gossip_ok f cl a b : cl_ok cl → cl_ok (gossip_with f cl a b).
Proof.
  intros H. unfold gossip_with. apply (cl_ok_nodes (setn cl b (set_d (getn cl b) (fold_left merge_event (f (skipn (deliv_count cl a b) (n_out (getn cl a)))) (n_d (getn cl b)))))); [done|].
  apply setn_ok; [done|]. apply (node_ok_ext (getn cl b)); try done. by apply getn_ok.
Qed.
Lemma peer_leave_ok cl o d clk : cl_ok cl → cl_ok (peer_leave cl o d clk).1.
Proof.
  intros H. unfold peer_leave.
  set (cl0 := Cluster (cl_nodes cl) (cl_conns cl) (cl_bad cl) (d :: cl_down cl) (cl_deliv cl) (cl_next cl)).
  assert (H0 : cl_ok cl0) by (by apply (cl_ok_nodes cl)).
  set (n1 := mutate (getn cl0 o) _).
  assert (H1 : cl_ok (setn cl0 o n1)) by (apply setn_ok; [done|]; apply node_ok_mutate; by apply getn_ok).
  match goal with |- context [fold_left ?f ?w (setn cl0 o n1, [])] => generalize w end. intros wills.
  assert (Hf : ∀ (c : cluster) (ob : list eobs), cl_ok c →
     cl_ok (fold_left (λ acc w, let '(c, ob, _) := append_at acc.1 o w in (c, (acc.2 ++ ob)%list)) wills (c, ob)).1).
  { induction wills as [|w wills IH]; intros c ob Hc; cbn [fold_left]; [done|]. cbn [fst snd].
    pose proof (append_at_ok c o w Hc) as Ha. destruct (append_at c o w) as [[c' ob'] ok]. cbn [fst] in Ha. by apply IH. }
  specialize (Hf _ [] H1). cbn [fst]. apply setn_ok; [done|]. apply node_ok_mutate. by apply getn_ok.
Qed.

Lemma peer_leave_split cl o d clk :
  peer_leave cl o d clk = (peer_reap (peer_notice cl o d clk).1 o d clk, (peer_notice cl o d clk).2).
Proof. reflexivity. Qed.
Lemma peer_reap_ok cl o d clk : cl_ok cl → cl_ok (peer_reap cl o d clk).
Proof. intros H. unfold peer_reap. apply setn_ok; [done|]. apply node_ok_mutate. by apply getn_ok. Qed.
Lemma peer_notice_ok cl o d clk : cl_ok cl → cl_ok (peer_notice cl o d clk).1.
Proof.
  intros H. unfold peer_notice.
  set (cl0 := Cluster (cl_nodes cl) (cl_conns cl) (cl_bad cl) (d :: cl_down cl) (cl_deliv cl) (cl_next cl)).
  assert (H0 : cl_ok cl0) by (by apply (cl_ok_nodes cl)).
  set (n1 := mutate (getn cl0 o) _).
  assert (H1 : cl_ok (setn cl0 o n1)) by (apply setn_ok; [done|]; apply node_ok_mutate; by apply getn_ok).
  match goal with |- context [fold_left ?f ?w (setn cl0 o n1, [])] => generalize w end. intros wills.
  assert (Hf : ∀ (c : cluster) (ob : list eobs), cl_ok c →
     cl_ok (fold_left (λ acc w, let '(c, ob, _) := append_at acc.1 o w in (c, (acc.2 ++ ob)%list)) wills (c, ob)).1).
  { induction wills as [|w wills IH]; intros c ob Hc; cbn [fold_left]; [done|]. cbn [fst snd].
    pose proof (append_at_ok c o w Hc) as Ha. destruct (append_at c o w) as [[c' ob'] ok]. cbn [fst] in Ha. by apply IH. }
  exact (Hf _ [] H1).
Qed.

Theorem step_raw_ok seen cl o : cl_ok cl → cl_ok (step_raw seen cl o).1.
Proof.
  intros H. destruct o; cbn [step_raw fst].
  - by apply setup_ok.
  - by apply do_publish_ok.
  - by apply do_subscribe_ok.
  - by apply do_unsubscribe_ok.
  - by apply do_ack_ok.
  - by apply do_ping_ok.
  - destruct (find_conn cl c) as [k|]; [|done]. destruct (c_closed k); [done|]. by apply end_session_ok.
  - destruct (find_conn cl c) as [k|]; [|done]. destruct (c_closed k); [done|]. by apply end_session_ok.
  - destruct (find_conn cl c) as [k|]; [|done]. destruct (c_closed k); [done|]. by apply end_session_ok.
  - by apply (cl_ok_nodes cl).
  - by apply sweep_ok.
  - by apply gossip_ok.
  - apply setn_ok; [done|]. apply (node_ok_ext (getn cl dst)); try done. by apply getn_ok.
  - by apply peer_leave_ok.
  - by apply (cl_ok_nodes cl).
  - apply setn_ok; [done|]. apply (node_ok_ext (getn cl n)); try done. by apply getn_ok.
  - done.
  - apply with_session_ok; [done|]. done.
  - by apply (cl_ok_nodes cl).
  - done.
  - by apply gossip_ok.
  - by apply peer_notice_ok.
  - by apply peer_reap_ok.
Qed.
Theorem step_ok seen cl o : cl_ok cl → cl_ok (step seen cl o).1.
Proof. intros H. unfold step. cbn [fst]. apply drain_all_ok. by apply step_raw_ok. Qed.

(** every cluster state a history can reach *)
Inductive reachable (k : nat) : cluster → Prop :=
| reach_init : reachable k (cnew k)
| reach_step cl seen o : reachable k cl → reachable k (step seen cl o).1.
Lemma cnew_ok k : cl_ok (cnew k).
Proof. unfold cl_ok, cnew. cbn. apply Forall_forall. intros n (i & -> & _)%elem_of_list_fmap. apply node_ok_new. Qed.
Theorem reachable_ok k cl : reachable k cl → cl_ok cl.
Proof. induction 1; [apply cnew_ok|by apply step_ok]. Qed.

Theorem inflight_ids cl k n : reachable k cl → n ∈ cl_nodes cl →
  NoDup (out_mids (n_acks n)) ∧
  (∀ x, x ∈ out_mids (n_acks n) → 1 ≤ x ≤ 65535) ∧
  (∀ x, 1 ≤ x ≤ 65535 → (infree (ivs (n_pool n)) x ↔ x ∉ out_mids (n_acks n))) ∧
  (∀ mid pl, get_free 5 (n_pool n) = (Some mid, pl) → 1 ≤ mid ≤ 65535 ∧ mid ∉ out_mids (n_acks n)).
Proof.
  intros Hr Hin. pose proof (reachable_ok _ _ Hr) as Hok. unfold cl_ok in Hok. rewrite Forall_forall in Hok.
  destruct (Hok n Hin) as [HG _]. pose proof HG as [H1 H2 H3 H4 H5 H6 H7 H8]. rewrite app_nil_r in *.
  split; [done|]. split; [done|]. split; [done|].
  intros mid pl Hgf. pose proof (G_get_free (n_acks n) [] 5 (n_pool n) HG) as Hg. rewrite Hgf in Hg.
  destruct Hg as [_ _ _ _ _ G6 G7 _]. split.
  - apply G7. apply elem_of_app. right. apply elem_of_cons. by left.
  - apply NoDup_app in G6 as (_ & Hd & _). intros Hx. apply (Hd mid Hx). apply elem_of_cons. by left.
Qed.
