(** Models of subscriptions/node.go (update, walk, iterate) and topics/node.go (insert,
    remove, match, allRetained, iterate, count), as repaired by F1, F2, F3, F20.
    A node's Children map is an association list; []byte values are strings and nil == "" ==
    empty (the Go code only ever tests len(..) == 0). *)
From Wasp Require Export Model.Base.

Inductive node := Node (data : string) (children : list (string * node)).
Definition ndata n := match n with Node d _ => d end.
Definition nchildren n := match n with Node _ c => c end.
Definition empty_node := Node "" [].

(** the abstract map: data stored at a path; "" when the node does not exist *)
Fixpoint tget (p : list string) (n : node) : string :=
  match p with
  | [] => ndata n
  | k :: p' => match alookup k (nchildren n) with Some c => tget p' c | None => "" end
  end.

Definition pre (k : string) (e : list string * string) : list string * string := (k :: fst e, snd e).
(** every (path, data) pair of the trie, own data first *)
Fixpoint entries (n : node) : list (list string * string) :=
  match n with Node d cs =>
    ([] , d) ::
    (fix go (cs : list (string * node)) : list (list string * string) :=
       match cs with
       | [] => []
       | kc :: cs' => (map (pre (fst kc)) (entries (snd kc)) ++ go cs')%list
       end) cs
  end.

(** * subscriptions/node.go *)

(* func (n *Node) update(topic, f): at End() Data = f(Data); else descend into (or create)
   the child, then prune it when it has neither data nor children. *)
Fixpoint supdate (ls : list string) (f : string -> string) (n : node) : node :=
  match ls with
  | [] => Node (f (ndata n)) (nchildren n)
  | tok :: ls' =>
    let child := odflt empty_node (alookup tok (nchildren n)) in
    let child' := supdate ls' f child in
    if (String.eqb (ndata child') "" && is_nil (nchildren child'))%bool
    then Node (ndata n) (adel tok (nchildren n))
    else Node (ndata n) (aset tok child' (nchildren n))
  end.

(* func (this *Node) walk(topic, iterator): at End() report own Data and the Data of a "#"
   child (F1); else for each child: "#" -> its Data; "+" or token -> recurse. *)
Fixpoint walk (ls : list string) (n : node) : list string :=
  match ls with
  | [] => ndata n :: match alookup "#" (nchildren n) with Some c => [ndata c] | None => [] end
  | tok :: ls' =>
    flat_map (fun kc : string * node =>
      if String.eqb (fst kc) "#" then [ndata (snd kc)]
      else if (String.eqb (fst kc) "+" || String.eqb (fst kc) tok)%bool then walk ls' (snd kc) else [])
      (nchildren n)
  end.

(* func (this *Node) iterate: own Data when non-empty, then every child *)
Fixpoint iterate (n : node) : list string :=
  match n with Node d cs =>
    ((if String.eqb d "" then [] else [d]) ++
    (fix go (cs : list (string * node)) : list string :=
       match cs with [] => [] | kc :: cs' => (iterate (snd kc) ++ go cs')%list end) cs)%list
  end.

(** * topics/node.go *)

(* insert: returns (old, node'); old = the node at the path already held a non-empty Buf *)
Fixpoint tinsert (ls : list string) (v : string) (n : node) : bool * node :=
  match ls with
  | [] => (nonempty (ndata n), Node v (nchildren n))
  | tok :: ls' =>
    let child := odflt empty_node (alookup tok (nchildren n)) in
    let r := tinsert ls' v child in
    (fst r, Node (ndata n) (aset tok (snd r) (nchildren n)))
  end.

(* remove: None = ErrTopicNotFound (tree unchanged); prune a child only when it has no
   children and no value (F2) *)
Fixpoint tremove (ls : list string) (n : node) : option node :=
  match ls with
  | [] => Some (Node "" (nchildren n))
  | tok :: ls' =>
    match alookup tok (nchildren n) with
    | None => None
    | Some child =>
      match tremove ls' child with
      | None => None
      | Some child' =>
        if (is_nil (nchildren child') && String.eqb (ndata child') "")%bool
        then Some (Node (ndata n) (adel tok (nchildren n)))
        else Some (Node (ndata n) (aset tok child' (nchildren n)))
      end
    end
  end.

(* match: at End() own Buf when non-empty; token "#" -> allRetained (= iterate) whatever
   follows; "+" -> every child; else the named child *)
Fixpoint tmatch (ls : list string) (n : node) : list string :=
  match ls with
  | [] => if String.eqb (ndata n) "" then [] else [ndata n]
  | tok :: ls' =>
    if String.eqb tok "#" then iterate n
    else if String.eqb tok "+" then flat_map (fun kc : string * node => tmatch ls' (snd kc)) (nchildren n)
    else match alookup tok (nchildren n) with Some c => tmatch ls' c | None => [] end
  end.

Definition tcount (n : node) : nat := length (iterate n).
