(** C03 over histories: in every reachable node state, an expiry sweep re-sends every pending
    outbound delivery whose session is still registered — the same packet under the same
    identifier — and leaves it pending with the same key; entries of vanished sessions are
    dropped.  Together with [completion_frees] (the expected acknowledgement removes the entry and
    frees the identifier) this is "again every time the deadline passes, until acknowledged or
    the session ends". *)
From Wasp Require Import Model.Base Spec.MatchSpec Model.DState Model.IdPool Model.Mount Model.Node
  Proofs.BaseFacts Proofs.IdPoolFacts Proofs.DStateFacts Proofs.NodeFacts Proofs.IdsFacts.
From stdpp Require Import list strings.
From Coq Require Import ZArith Lia.
Open Scope Z_scope.

Definition tag_sid (t : tag) : string := match t with TQ1 s _ | TQ2Pub s _ | TQ2Rel s _ | TIn s _ _ _ => s end.
(* what is written again, and the entry that stays *)
Definition resend_pkt (e : aentry) : opkt :=
  match a_tag e with TQ1 _ p | TQ2Pub _ p => p | TQ2Rel _ mid => OPubRel mid | TIn _ _ _ _ => OOther 0 end.
Definition rearm (e : aentry) : aentry :=
  AEntry (a_prefix e) (a_mid e) (match a_tag e with TQ1 _ _ => PUBACK | TQ2Pub _ _ => PUBREC | _ => PUBCOMP end) (a_tag e).

Lemma on_outcome_mono bad n e expired x : x ∈ n_acks n → x ∈ n_acks (on_outcome bad n e expired).1.1.
Proof.
  intros Hx. unfold on_outcome.
  assert (Hins : ∀ pfx mid ex t, x ∈ n_acks (ack_insert n pfx mid ex t).1).
  { intros. unfold ack_insert. destruct (mid =? 0); [done|]. destruct (ack_find _ _ _); [done|]. cbn. apply elem_of_app. by left. }
  destruct (a_tag e) as [sid p|sid p|sid mid|sid c m r].
  - destruct (alookup sid (n_reg n)) as [s|]; [|done]. destruct expired; [|done].
    unfold send_q1. pose proof (Hins (ss_id s) (opkt_mid p) PUBACK (TQ1 (ss_id s) p)). by destruct (ack_insert _ _ _ _ _) as [n' [|]].
  - destruct (alookup sid (n_reg n)) as [s|]; [|done]. destruct expired.
    + unfold send_q2. pose proof (Hins (ss_id s) (opkt_mid p) PUBREC (TQ2Pub (ss_id s) p)). by destruct (ack_insert _ _ _ _ _) as [n' [|]].
    + unfold complete_q2. pose proof (Hins (ss_id s) (opkt_mid p) PUBCOMP (TQ2Rel (ss_id s) (opkt_mid p))). by destruct (ack_insert _ _ _ _ _) as [n' ok].
  - destruct (alookup sid (n_reg n)) as [s|]; [|done]. destruct expired; [|done].
    unfold complete_q2. pose proof (Hins (ss_id s) mid PUBCOMP (TQ2Rel (ss_id s) mid)). by destruct (ack_insert _ _ _ _ _) as [n' ok].
  - by destruct expired.
Qed.

(* an expired entry of a registered session: written again, re-armed as it was *)
Lemma expired_live bad n e s held : reg_ok (n_reg n) → tag_ok e → outbound e = true → akey e ∉ map akey (n_acks n) →
  GN n (a_mid e :: held) → alookup (tag_sid (a_tag e)) (n_reg n) = Some s →
  (on_outcome bad n e true).1 = (set_acks n (n_acks n ++ [rearm e]), wout bad (ss_conn s) (resend_pkt e)).
Proof.
  intros Hreg Htag Hout Hkey HG Hs. unfold on_outcome, rearm, resend_pkt, tag_ok, akey, outbound in *.
  destruct e as [pfx emid expect t]. cbn [a_tag a_mid a_prefix] in *.
  pose proof (reg_ok_lookup _ _ _ Hreg Hs) as Hid.
  destruct t as [sid p|sid p|sid mid|sid c m r]; cbn [tag_sid] in *; try done; destruct Htag as [Hm Hp]; subst pfx emid; rewrite Hs.
  - unfold send_q1. rewrite Hid.
    destruct (reinsert_G n sid (opkt_mid p) PUBACK (TQ1 sid p) held HG Hkey eq_refl ltac:(by split)) as [-> _]. done.
  - unfold send_q2. rewrite Hid.
    destruct (reinsert_G n sid (opkt_mid p) PUBREC (TQ2Pub sid p) held HG Hkey eq_refl ltac:(by split)) as [-> _]. done.
  - unfold complete_q2. rewrite Hid.
    destruct (reinsert_G n sid mid PUBCOMP (TQ2Rel sid mid) held HG Hkey eq_refl ltac:(by split)) as [-> _]. done.
Qed.
(* of a vanished session: nothing written, not re-armed *)
Lemma expired_dead bad n e : outbound e = true → alookup (tag_sid (a_tag e)) (n_reg n) = None →
  (on_outcome bad n e true).1.2 = [] ∧ n_acks (on_outcome bad n e true).1.1 = n_acks n.
Proof.
  unfold on_outcome, outbound. destruct (a_tag e) as [sid p|sid p|sid mid|sid c m r]; cbn [tag_sid]; try done; by intros _ ->.
Qed.

Definition sweep_f (bad : list string) := λ (acc : node * list eobs) (e : aentry), let '(m', o, _) := on_outcome bad acc.1 e true in (m', (acc.2 ++ o)%list).

Lemma sweep_fold_acks_mono bad due : ∀ m o0 x, x ∈ n_acks m → x ∈ n_acks (fold_left (sweep_f bad) due (m, o0)).1.
Proof.
  induction due as [|e due IH]; intros m o0 x Hx; cbn [fold_left]; [done|].
  unfold sweep_f at 2. cbn [fst snd]. pose proof (on_outcome_mono bad m e true x Hx) as Hm.
  destruct (on_outcome bad m e true) as [[m' o] j]. cbn [fst snd] in *. by apply IH.
Qed.
Lemma sweep_fold_out_mono bad due : ∀ m o0 y, y ∈ o0 → y ∈ (fold_left (sweep_f bad) due (m, o0)).2.
Proof.
  induction due as [|e due IH]; intros m o0 y Hy; cbn [fold_left]; [done|].
  unfold sweep_f at 2. cbn [fst snd]. destruct (on_outcome bad m e true) as [[m' o] j]. apply IH. apply elem_of_app. by left.
Qed.

Lemma sweep_fold_resends bad due : ∀ m o0 e s, reg_ok (n_reg m) → Forall tag_ok due → NoDup (map akey due) →
  (∀ k, k ∈ map akey due → k ∉ map akey (n_acks m)) → GN m (out_mids due) →
  e ∈ due → outbound e = true → alookup (tag_sid (a_tag e)) (n_reg m) = Some s →
  let r := fold_left (sweep_f bad) due (m, o0) in
  rearm e ∈ n_acks r.1 ∧ (∀ y, y ∈ wout bad (ss_conn s) (resend_pkt e) → y ∈ r.2).
Proof.
  induction due as [|e0 due IH]; intros m o0 e s Hreg Htags Hnd Hdisj HG Hin Hout Hs; [by apply elem_of_nil in Hin|].
  cbn [fold_left]. unfold sweep_f at 2 4. cbn [fst snd].
  apply Forall_cons in Htags as [Hte Htags]. cbn [map] in Hnd. apply NoDup_cons in Hnd as [Hnot Hnd].
  rewrite out_mids_cons in HG.
  assert (Hkey : akey e0 ∉ map akey (n_acks m)). { apply Hdisj. cbn. apply elem_of_cons. by left. }
  pose proof (on_outcome_G bad m e0 true (out_mids due) Hreg Hte Hkey HG) as (HG' & Hreg' & Hkeys').
  apply elem_of_cons in Hin as [->|Hin].
  - rewrite Hout in HG. pose proof (expired_live bad m e0 s (out_mids due) Hreg Hte Hout Hkey HG Hs) as Hl.
    destruct (on_outcome bad m e0 true) as [[m' o] j]. cbn [fst snd] in *. injection Hl as -> ->.
    split.
    + apply sweep_fold_acks_mono. cbn. apply elem_of_app. right. apply elem_of_cons. by left.
    + intros y Hy. apply sweep_fold_out_mono. apply elem_of_app. by right.
  - destruct (on_outcome bad m e0 true) as [[m' o] j]. cbn [fst snd] in *.
    assert (Hreg2 : reg_ok (n_reg m')) by (by rewrite Hreg').
    assert (Hdisj' : ∀ k, k ∈ map akey due → k ∉ map akey (n_acks m')).
    { intros k Hk Hin'. destruct (Hkeys' k Hin') as [Hold| ->]; [|done]. apply (Hdisj k); [|done]. cbn. apply elem_of_cons. by right. }
    apply IH; try done. by rewrite Hreg'.
Qed.

(** the theorem, on reachable states *)
Theorem sweep_resends_pending cl k i e s : reachable k cl →
  e ∈ n_acks (getn cl i) → outbound e = true → alookup (tag_sid (a_tag e)) (n_reg (getn cl i)) = Some s →
  (i < length (cl_nodes cl))%nat →
  let r := sweep cl i in
  rearm e ∈ n_acks (getn r.1 i) ∧ akey (rearm e) = akey e ∧ a_tag (rearm e) = a_tag e ∧
  (¬ ss_conn s ∈ cl_bad cl → Out (ss_conn s) (resend_pkt e) ∈ r.2).
Proof.
  intros Hr Hin Hout Hs Hi r.
  pose proof (getn_ok cl i (reachable_ok _ _ Hr)) as [G1 R1].
  pose proof (sweep_fold_resends (cl_bad cl) (n_acks (getn cl i)) (set_acks (getn cl i) []) [] e s R1 (g_tags _ _ _ G1) (g_keys _ _ _ G1)
                ltac:(intros k' _ Hk; by apply elem_of_nil in Hk) (G_unregister_all _ _ G1) Hin Hout Hs) as [S1 S2].
  unfold r, sweep. cbn [fst snd]. rewrite getn_setn by done. split; [exact S1|]. split; [done|]. split; [done|].
  intros Hbad. apply S2. unfold wout.
  assert (existsb (String.eqb (ss_conn s)) (cl_bad cl) = false) as ->; [|apply elem_of_cons; by left].
  apply not_true_is_false. intros Hex. apply existsb_exists in Hex as (x & Hx & Heq). apply String.eqb_eq in Heq. subst x. apply Hbad. by apply elem_of_list_In.
Qed.
(** entries of vanished sessions: after the sweep nothing holds their identifier and the pool has it back *)
Definition live_in (reg : list (string * sess)) (e : aentry) : Prop := outbound e = true ∧ alookup (tag_sid (a_tag e)) reg ≠ None.

Lemma on_outcome_expired_acks bad n e held : reg_ok (n_reg n) → tag_ok e → akey e ∉ map akey (n_acks n) →
  GN n (if outbound e then a_mid e :: held else held) →
  n_acks (on_outcome bad n e true).1.1 = n_acks n ∨
  (n_acks (on_outcome bad n e true).1.1 = n_acks n ++ [rearm e] ∧ live_in (n_reg n) e).
Proof.
  intros Hreg Htag Hkey HG. destruct (outbound e) eqn:Hout.
  - destruct (alookup (tag_sid (a_tag e)) (n_reg n)) as [s|] eqn:Hs.
    + right. rewrite (expired_live bad n e s held Hreg Htag Hout Hkey HG Hs). cbn. split; [done|]. split; [done|]. by rewrite Hs.
    + left. by apply expired_dead.
  - left. unfold on_outcome, outbound in *. by destruct (a_tag e).
Qed.
Lemma sweep_fold_sources bad due : ∀ m o0, reg_ok (n_reg m) → Forall tag_ok due → NoDup (map akey due) →
  (∀ k, k ∈ map akey due → k ∉ map akey (n_acks m)) → GN m (out_mids due) →
  ∀ x, x ∈ n_acks (fold_left (sweep_f bad) due (m, o0)).1 → x ∈ n_acks m ∨ ∃ e0, e0 ∈ due ∧ x = rearm e0 ∧ live_in (n_reg m) e0.
Proof.
  induction due as [|e0 due IH]; intros m o0 Hreg Htags Hnd Hdisj HG x; cbn [fold_left]; [by left|].
  unfold sweep_f at 2. cbn [fst snd].
  apply Forall_cons in Htags as [Hte Htags]. cbn [map] in Hnd. apply NoDup_cons in Hnd as [Hnot Hnd].
  rewrite out_mids_cons in HG.
  assert (Hkey : akey e0 ∉ map akey (n_acks m)). { apply Hdisj. cbn. apply elem_of_cons. by left. }
  pose proof (on_outcome_G bad m e0 true (out_mids due) Hreg Hte Hkey HG) as (HG' & Hreg' & Hkeys').
  pose proof (on_outcome_expired_acks bad m e0 (out_mids due) Hreg Hte Hkey HG) as Hacks.
  destruct (on_outcome bad m e0 true) as [[m' o] j]. cbn [fst snd] in *.
  assert (Hreg2 : reg_ok (n_reg m')) by (by rewrite Hreg').
  assert (Hdisj' : ∀ k, k ∈ map akey due → k ∉ map akey (n_acks m')).
  { intros k Hk Hin'. destruct (Hkeys' k Hin') as [Hold| ->]; [|done]. apply (Hdisj k); [|done]. cbn. apply elem_of_cons. by right. }
  intros Hx. destruct (IH m' (o0 ++ o)%list Hreg2 Htags Hnd Hdisj' HG' x Hx) as [Hin|(e1 & He1 & -> & Hl)].
  - destruct Hacks as [Ha|[Ha Hlive]]; rewrite Ha in Hin; [by left|]. apply elem_of_app in Hin as [?|[->|Hn]%elem_of_cons]; [by left| |by apply elem_of_nil in Hn].
    right. exists e0. split; [apply elem_of_cons; by left|done].
  - right. exists e1. split; [apply elem_of_cons; by right|]. split; [done|]. by rewrite <- Hreg'.
Qed.

Lemma out_mids_elem l x : x ∈ out_mids l ↔ ∃ e, e ∈ l ∧ outbound e = true ∧ a_mid e = x.
Proof.
  unfold out_mids. rewrite elem_of_list_fmap. split.
  - intros (e & -> & He). apply elem_of_list_In, filter_In in He as [He Ho]. exists e. split; [by apply elem_of_list_In|done].
  - intros (e & He & Ho & <-). exists e. split; [done|]. apply elem_of_list_In, filter_In. split; [by apply elem_of_list_In|done].
Qed.
Lemma out_mids_inj l e1 e2 : NoDup (out_mids l) → e1 ∈ l → e2 ∈ l → outbound e1 = true → outbound e2 = true → a_mid e1 = a_mid e2 → e1 = e2.
Proof.
  unfold out_mids. induction l as [|x l IH]; [intros _ H; by apply elem_of_nil in H|]. cbn [List.filter].
  intros Hnd H1 H2 O1 O2 Hm. apply elem_of_cons in H1 as [->|H1]; apply elem_of_cons in H2 as [->|H2]; try done.
  - rewrite O1 in Hnd. cbn in Hnd. apply NoDup_cons in Hnd as [Hnot _]. exfalso. apply Hnot. rewrite Hm.
    apply (proj2 (out_mids_elem l (a_mid e2))). by exists e2.
  - rewrite O2 in Hnd. cbn in Hnd. apply NoDup_cons in Hnd as [Hnot _]. exfalso. apply Hnot. rewrite <- Hm.
    apply (proj2 (out_mids_elem l (a_mid e1))). by exists e1.
  - apply IH; try done. destruct (outbound x); [|done]. cbn in Hnd. by apply NoDup_cons in Hnd as [_ ?].
Qed.

Theorem sweep_frees_dead cl k i e : reachable k cl → (i < length (cl_nodes cl))%nat →
  e ∈ n_acks (getn cl i) → outbound e = true → alookup (tag_sid (a_tag e)) (n_reg (getn cl i)) = None →
  let n' := getn (sweep cl i).1 i in
  a_mid e ∉ out_mids (n_acks n') ∧ infree (ivs (n_pool n')) (a_mid e).
Proof.
  intros Hr Hi Hin Hout Hs n'.
  pose proof (reachable_ok _ _ Hr) as Hok. pose proof (getn_ok cl i Hok) as [G1 R1].
  assert (Hnot : a_mid e ∉ out_mids (n_acks n')).
  { intros Hx. apply out_mids_elem in Hx as (x & Hx & Hox & Hmx).
    unfold n', sweep in Hx. cbn [fst] in Hx. rewrite getn_setn in Hx by done.
    destruct (sweep_fold_sources (cl_bad cl) (n_acks (getn cl i)) (set_acks (getn cl i) []) [] R1 (g_tags _ _ _ G1) (g_keys _ _ _ G1)
                ltac:(intros k' _ Hk; by apply elem_of_nil in Hk) (G_unregister_all _ _ G1) x Hx) as [Hn|(e0 & He0 & -> & Hl0 & Hl1)].
    - by apply elem_of_nil in Hn.
    - cbn [rearm a_mid] in Hmx. pose proof G1 as [_ _ _ _ _ G6 _ _]. rewrite app_nil_r in G6.
      assert (e0 = e) as -> by (by apply (out_mids_inj (n_acks (getn cl i)))). cbn [set_acks n_reg] in Hl1. by rewrite Hs in Hl1. }
  split; [done|].
  pose proof (getn_ok _ i (sweep_ok cl i Hok)) as [[_ _ _ _ _ _ _ G8] _]. fold n' in G8. rewrite app_nil_r in G8.
  apply G8; [|done]. pose proof G1 as [_ _ _ _ _ _ G7 _]. apply G7. rewrite app_nil_r. apply out_mids_elem. by exists e.
Qed.
