(** C20, the premise "each method of the shared objects is one atomic step": the table of how
    every method of the anchored types takes its mutex is extracted from the CURRENT sources by
    the harness (go/ast); this file is the policy that table must satisfy.  A method is atomic
    when it takes the object's mutex at the head of its body (deferred unlock) and touches only
    immutable fields before that; or takes no lock and touches only fields that are never
    assigned after construction (pointers to objects that synchronise themselves included); or
    is an unexported helper every caller of which holds the lock at the call; or is one of the
    listed exceptions, each with its reason. *)
From Wasp Require Export Model.Base.

Record mrow := MRow { r_file : string; r_type : string; r_name : string; r_exported : bool; r_lock : nat;
                      r_pre : list string; r_fields : list string; r_calls : list string; r_lcalls : list string }.
Definition case : Type := (N * list mrow)%type.

Definition smem (x : string) (l : list string) : bool := existsb (String.eqb x) l.
Definition key3_eqb (a b : string * string * string) : bool :=
  String.eqb (fst (fst a)) (fst (fst b)) && String.eqb (snd (fst a)) (snd (fst b)) && String.eqb (snd a) (snd b).

(* fields never assigned after the constructor returns *)
Definition immutable_fields : list (string * string * string) := [
  ("wasp/state.go", "lockedMapState", "id");
  ("wasp/idpool.go", "simpleMidPool", "min"); ("wasp/idpool.go", "simpleMidPool", "max");
  ("wasp/distributed/sessions.go", "sessionMetadatasState", "peer"); ("wasp/distributed/sessions.go", "sessionMetadatasState", "bcast");
  ("wasp/distributed/sessions.go", "sessionMetadatasState", "recorder");
  ("wasp/distributed/subscriptions.go", "subscriptionsState", "peer"); ("wasp/distributed/subscriptions.go", "subscriptionsState", "bcast");
  ("wasp/distributed/subscriptions.go", "subscriptionsState", "recorder");
  ("wasp/distributed/topics.go", "topicsState", "bcast");
  ("wasp/distributed/topics.go", "topicsState", "tree");           (* pointer to a store with its own RWMutex *)
  ("wasp/sessions/session.go", "Session", "id"); ("wasp/sessions/session.go", "Session", "conn");
  ("wasp/sessions/session.go", "Session", "mountPoint"); ("wasp/sessions/session.go", "Session", "transport");
  ("wasp/sessions/session.go", "Session", "clientID"); ("wasp/sessions/session.go", "Session", "lwt");
  ("wasp/sessions/session.go", "Session", "keepaliveInterval");
  ("wasp/writer.go", "writer", "peerID"); ("wasp/writer.go", "writer", "queue"); ("wasp/writer.go", "writer", "state");
  ("wasp/writer.go", "writer", "local"); ("wasp/writer.go", "writer", "inflights"); ("wasp/writer.go", "writer", "midPool");
  ("wasp/writer.go", "writer", "encoder")
].
(* methods accepted for a stated reason *)
Definition exceptions : list (string * string * string) := [
  (* two steps: find/create the bucket under the list lock, then bucket.put under the bucket's own mutex;
     safe while deadlines are armed ahead of every sweep (hypothesis armed_ahead, C20) *)
  ("wasp/expiration/pqueue.go", "pqList", "insert");
  (* debug printing / ordering hooks of the unwired btree and skiplist variants *)
  ("wasp/expiration/bucket.go", "bucket", "String"); ("wasp/expiration/bucket.go", "bucket", "ExtractKey"); ("wasp/expiration/bucket.go", "bucket", "Less");
  (* runs inside NewSession, before the session is shared *)
  ("wasp/sessions/session.go", "Session", "processConnect");
  (* the in-flight table is a lock-free hash (gotomic) whose PutIfMissing/Delete are the linearisation points,
     over a timeout list that locks itself *)
  ("wasp/ack/queue.go", "queue", "Ack"); ("wasp/ack/queue.go", "queue", "Expire"); ("wasp/ack/queue.go", "queue", "push"); ("wasp/ack/queue.go", "queue", "Insert")
].

Definition immut (r : mrow) (f : string) : bool := existsb (key3_eqb (r_file r, r_type r, f)) immutable_fields.
Definition excepted (r : mrow) : bool := existsb (key3_eqb (r_file r, r_type r, r_name r)) exceptions.
Definition same_obj (a b : mrow) : bool := String.eqb (r_file a) (r_file b) && String.eqb (r_type a) (r_type b).
Definition callers_unlocked (tbl : list mrow) (r : mrow) : list mrow := filter (fun c => same_obj c r && smem (r_name r) (r_calls c) && negb (String.eqb (r_name c) (r_name r))) tbl.
Definition callers_locked (tbl : list mrow) (r : mrow) : list mrow := filter (fun c => same_obj c r && smem (r_name r) (r_lcalls c)) tbl.

Fixpoint row_ok (fuel : nat) (tbl : list mrow) (r : mrow) : bool :=
  excepted r
  || (Nat.ltb 0 (r_lock r) && forallb (immut r) (r_pre r))
  || (Nat.eqb (r_lock r) 0 &&
      (forallb (immut r) (r_fields r)
       || (negb (r_exported r) && negb (is_nil (callers_locked tbl r ++ callers_unlocked tbl r)%list)
           && match fuel with
              | O => is_nil (callers_unlocked tbl r)
              | S f => forallb (fun c => Nat.eqb (r_lock c) 0 && negb (r_exported c) && row_ok f tbl c) (callers_unlocked tbl r)
              end))).
Definition parse_ok (r : mrow) : bool := negb (String.prefix "PARSE-ERROR" (r_name r)).
(* the methods the theorems of C20 speak about must be there *)
Definition required : list (string * string * string) := [
  ("wasp/state.go", "lockedMapState", "Create"); ("wasp/state.go", "lockedMapState", "Delete"); ("wasp/state.go", "lockedMapState", "Get");
  ("wasp/idpool.go", "simpleMidPool", "Get"); ("wasp/idpool.go", "simpleMidPool", "Put");
  ("wasp/expiration/pqueue.go", "pqList", "Expire"); ("wasp/expiration/bucket.go", "bucket", "put"); ("wasp/expiration/bucket.go", "bucket", "delete");
  ("topics/tree.go", "tree", "Insert"); ("topics/tree.go", "tree", "Remove"); ("topics/tree.go", "tree", "Match");
  ("subscriptions/node.go", "tree", "Upsert"); ("subscriptions/node.go", "tree", "Walk");
  ("wasp/distributed/sessions.go", "sessionMetadatasState", "mergeSessions"); ("wasp/distributed/subscriptions.go", "subscriptionsState", "mergeSubscriptions");
  ("wasp/distributed/topics.go", "topicsState", "mergeMessages"); ("wasp/sessions/session.go", "Session", "AddTopic")
].
Definition all_atomic (tbl : list mrow) : bool :=
  forallb parse_ok tbl && forallb (row_ok 3 tbl) tbl
  && forallb (fun k => existsb (fun r => key3_eqb (r_file r, r_type r, r_name r) k) tbl) required.
Definition offenders (tbl : list mrow) : list (string * string) := map (fun r => (r_type r, r_name r)) (filter (fun r => negb (row_ok 3 tbl r)) tbl).

Definition model_ok (c : case) : bool := all_atomic (snd c).
Definition oracle_ok (c : case) : bool := true.
Definition mismatches (cs : list case) : list N := map fst (filter (fun c => negb (model_ok c)) cs).
Definition oracle_failures (cs : list case) : list N := map fst (filter (fun c => negb (oracle_ok c)) cs).
