(** C09 — Every local state change is carried completely by the broadcasts it queues. Statements only. *)
From Wasp Require Import Model.Base Spec.MatchSpec Model.DState Proofs.BaseFacts Proofs.Lww Proofs.DStateFacts.
From stdpp Require Import list strings.
Open Scope Z_scope.

(** One operation.  [d] is the node, [r] any replica holding the same entries ([same_abs]).
    [dapply d o] returns the new state and the broadcast queued (None: the operation changed
    nothing, e.g. Create of an existing session).  Merging that one broadcast into [r] yields the
    same entries as the node now holds: no change takes effect locally without a broadcast that
    conveys it, and every entry touched by a bulk change (DeletePeer, DeleteSession) is in it.
    [clock_fresh]: the node's clock reading exceeds the timestamps of the SESSION entries the
    operation replaces (sessions are written unconditionally; subscriptions and retained
    messages need no such premise).  [dok]: representation invariant, preserved. *)
Theorem broadcast_complete_step : ∀ d r o, dok d → dok r → same_abs d r → op_valid o → clock_fresh d o →
  let res := dapply d o in
  dok res.1 ∧
  match res.2 with
  | Some e => ev_valid e ∧ same_abs res.1 (merge_event r e)
  | None => res.1 = d
  end.
Proof. exact broadcast_complete. Qed.
Print Assumptions broadcast_complete_step.

(** Any sequence of operations: a second node that merges the broadcasts queued by those
    changes holds the same entries as the first (with C08: in any delivery order). *)
Theorem receiver_equals_origin : ∀ os d r, dok d → dok r → same_abs d r → ops_ok d os →
  let res := origin_run d os in
  dok res.1 ∧ Forall ev_valid res.2 ∧ same_abs res.1 (fold_left merge_event res.2 r).
Proof. exact receiver_equals_origin. Qed.
Print Assumptions receiver_equals_origin.

(** non-vacuity: a bulk removal touching two entries *)
Example c09_history :
  let os := [DSubCreate "s1" "mp/a" 1 10; DSubCreate "s1" "mp/b" 0 11; DSubCreate "s2" "mp/a" 2 12; DSubDeleteSession "s1" 13] in
  ops_ok (dnew 1) os ∧
  let res := origin_run (dnew 1) os in
  map s_sid (sub_all res.1) = ["s2"] ∧ map s_sid (sub_all (fold_left merge_event res.2 (dnew 2))) = ["s2"]
  ∧ length (b_subs (nth 3 res.2 ev_empty)) = 2%nat.
Proof. vm_compute. repeat split; done. Qed.
