package main

// Family "crdt" (C08, C09, C10; ByPattern for C01; Get for C07): scripts over up to three real
// distributed.State replicas. Clocks are scripted through the verif hook (one reading per
// operation), broadcasts are drained from each replica's TransmitLimitedQueue and delivered
// (NotifyMsg / MergeRemoteState) exactly as the script says: any order, duplicated, merged
// into one message, or never.

import (
	"encoding/hex"
	"encoding/json"
	"fmt"
	"math/rand"
	"sort"
	"strings"

	"github.com/golang/protobuf/proto"
	"github.com/hashicorp/memberlist"
	"github.com/vx-labs/mqtt-protocol/packet"
	"github.com/vx-labs/wasp/v4/wasp/api"
	"github.com/vx-labs/wasp/v4/wasp/audit"
	"github.com/vx-labs/wasp/v4/wasp/distributed"
)

type jPub struct {
	T string `json:"t"`
	P string `json:"p"`
	Q int32  `json:"q"`
	R bool   `json:"r"`
	D bool   `json:"d,omitempty"`
}
type jSess struct {
	ID   string `json:"id"`
	CID  string `json:"cid"`
	MP   string `json:"mp"`
	Peer uint64 `json:"peer"`
	LWT  *jPub  `json:"lwt,omitempty"`
	LA   int64  `json:"la"`
	LD   int64  `json:"ld"`
}
type jSub struct {
	SID  string `json:"sid"`
	Pat  string `json:"pat"`
	Peer uint64 `json:"peer"`
	QoS  int32  `json:"qos"`
	LA   int64  `json:"la"`
	LD   int64  `json:"ld"`
}
type jRet struct {
	Pub jPub  `json:"pub"`
	LA  int64 `json:"la"`
	LD  int64 `json:"ld"`
}
type jEvent struct {
	Sess []jSess `json:"sess,omitempty"`
	Subs []jSub  `json:"subs,omitempty"`
	Ret  []jRet  `json:"ret,omitempty"`
}
type crdtOp struct {
	Op   string  `json:"op"`
	N    int     `json:"n"`             // node index the op runs on (dst for deliveries)
	Src  int     `json:"src,omitempty"` // deliver / batch / snapshot
	K    int     `json:"k,omitempty"`
	Ks   []int   `json:"ks,omitempty"`
	ID   string  `json:"id,omitempty"`
	CID  string  `json:"cid,omitempty"`
	CIDX string  `json:"cidx,omitempty"` // client identifier as hex, for byte strings JSON cannot carry
	MP   string  `json:"mp,omitempty"`
	LWT  *jPub   `json:"lwt,omitempty"`
	Pat  string  `json:"pat,omitempty"`
	QoS  int32   `json:"qos,omitempty"`
	Peer uint64  `json:"peer,omitempty"`
	Pub  *jPub   `json:"pub,omitempty"`
	Clk  int64   `json:"clk,omitempty"`
	Ev   *jEvent `json:"ev,omitempty"` // inject
}
type crdtInput struct {
	Peers []uint64 `json:"peers"`
	Ops   []crdtOp `json:"ops"`
	// Held: node 0 is shadowed by a second replica that performs the same local operations (and
	// receives the same injected updates) but whose broadcast queue is left alone until the end of
	// the script, as memberlist leaves it alone between gossip rounds; what the queue then still
	// holds is delivered to a fresh replica, which must list what node 0 lists (C09: a broadcast
	// that is dropped or replaced while it waits in the queue conveys nothing).
	Held bool `json:"held,omitempty"`
}
type crdtFamily struct{}

func init() { register("crdt", crdtFamily{}) }

// ---- Gallina emitters

func cqPub(p jPub) string {
	return fmt.Sprintf("(Publish %s %s %s %s %s)", cqStr(p.T), cqStr(p.P), cqZ(int64(p.Q)), cqBool(p.R), cqBool(p.D))
}
func cqOptPub(p *jPub) string {
	if p == nil {
		return "None"
	}
	return "(Some " + cqPub(*p) + ")"
}
func cqSess(s jSess) string {
	return fmt.Sprintf("(SMeta %s %s %s %s %s %s %s)", cqStr(s.ID), cqStr(s.CID), cqStr(s.MP), cqZ(int64(s.Peer)), cqOptPub(s.LWT), cqZ(s.LA), cqZ(s.LD))
}
func cqSub(s jSub) string {
	return fmt.Sprintf("(Sub %s %s %s %s %s %s)", cqStr(s.SID), cqStr(s.Pat), cqZ(int64(s.Peer)), cqZ(int64(s.QoS)), cqZ(s.LA), cqZ(s.LD))
}
func cqRet(r jRet) string {
	return fmt.Sprintf("(RMsg %s %s %s)", cqPub(r.Pub), cqZ(r.LA), cqZ(r.LD))
}
func cqSessL(l []jSess) string {
	xs := make([]string, len(l))
	for i, x := range l {
		xs[i] = cqSess(x)
	}
	return cqList(xs)
}
func cqSubL(l []jSub) string {
	xs := make([]string, len(l))
	for i, x := range l {
		xs[i] = cqSub(x)
	}
	return cqList(xs)
}
func cqRetL(l []jRet) string {
	xs := make([]string, len(l))
	for i, x := range l {
		xs[i] = cqRet(x)
	}
	return cqList(xs)
}
func cqEvent(e jEvent) string {
	return fmt.Sprintf("(BEvent %s %s %s)", cqSessL(e.Sess), cqSubL(e.Subs), cqRetL(e.Ret))
}
func cqNat(n int) string { return fmt.Sprintf("%d%%nat", n) }

// ---- conversions

func toJPub(p *packet.Publish) *jPub {
	if p == nil {
		return nil
	}
	j := &jPub{T: string(p.Topic), P: string(p.Payload)}
	if p.Header != nil {
		j.Q, j.R, j.D = p.Header.Qos, p.Header.Retain, p.Header.Dup
	}
	return j
}
func fromJPub(j *jPub) *packet.Publish {
	if j == nil {
		return nil
	}
	return &packet.Publish{Header: &packet.Header{Qos: j.Q, Retain: j.R, Dup: j.D}, Topic: []byte(j.T), Payload: []byte(j.P)}
}
func toJSess(s *api.SessionMetadatas) jSess {
	return jSess{ID: s.SessionID, CID: s.ClientID, MP: s.MountPoint, Peer: s.Peer, LWT: toJPub(s.LWT), LA: s.LastAdded, LD: s.LastDeleted}
}
func toJSub(s *api.Subscription) jSub {
	return jSub{SID: s.SessionID, Pat: string(s.Pattern), Peer: s.Peer, QoS: s.QoS, LA: s.LastAdded, LD: s.LastDeleted}
}
func toJRet(r *api.RetainedMessage) jRet {
	p := toJPub(r.Publish)
	if p == nil {
		p = &jPub{}
	}
	return jRet{Pub: *p, LA: r.LastAdded, LD: r.LastDeleted}
}
func decodeEvent(buf []byte) jEvent {
	ev := &api.StateBroadcastEvent{}
	var out jEvent
	if err := proto.Unmarshal(buf, ev); err != nil {
		return out
	}
	for _, s := range ev.SessionMetadatas {
		out.Sess = append(out.Sess, toJSess(s))
	}
	for _, s := range ev.Subscriptions {
		out.Subs = append(out.Subs, toJSub(s))
	}
	for _, r := range ev.RetainedMessages {
		out.Ret = append(out.Ret, toJRet(r))
	}
	sortEvent(&out)
	return out
}
func encodeEvent(e jEvent) []byte {
	ev := &api.StateBroadcastEvent{}
	for _, s := range e.Sess {
		ev.SessionMetadatas = append(ev.SessionMetadatas, &api.SessionMetadatas{SessionID: s.ID, ClientID: s.CID, MountPoint: s.MP, Peer: s.Peer, LWT: fromJPub(s.LWT), LastAdded: s.LA, LastDeleted: s.LD})
	}
	for _, s := range e.Subs {
		ev.Subscriptions = append(ev.Subscriptions, &api.Subscription{SessionID: s.SID, Pattern: []byte(s.Pat), Peer: s.Peer, QoS: s.QoS, LastAdded: s.LA, LastDeleted: s.LD})
	}
	for _, r := range e.Ret {
		p := r.Pub
		ev.RetainedMessages = append(ev.RetainedMessages, &api.RetainedMessage{Publish: fromJPub(&p), LastAdded: r.LA, LastDeleted: r.LD})
	}
	buf, err := proto.Marshal(ev)
	if err != nil {
		panic(err)
	}
	return buf
}
func sortEvent(e *jEvent) {
	sort.SliceStable(e.Sess, func(i, j int) bool { return e.Sess[i].ID < e.Sess[j].ID })
	sort.SliceStable(e.Subs, func(i, j int) bool {
		if e.Subs[i].Pat != e.Subs[j].Pat {
			return e.Subs[i].Pat < e.Subs[j].Pat
		}
		return e.Subs[i].SID < e.Subs[j].SID
	})
	sort.SliceStable(e.Ret, func(i, j int) bool { return e.Ret[i].Pub.T < e.Ret[j].Pub.T })
}

// ---- execution

// visibleOf: what a replica lists (sessions, subscriptions, retained messages), sorted
func visibleOf(st distributed.State) jEvent {
	var vis jEvent
	for _, s := range st.SessionMetadatas().All() {
		s := s
		vis.Sess = append(vis.Sess, toJSess(&s))
	}
	for _, s := range st.Subscriptions().All() {
		s := s
		vis.Subs = append(vis.Subs, toJSub(&s))
	}
	rs, err := st.Topics().Get([]byte("#"))
	if err != nil {
		panic(err)
	}
	for _, r := range rs {
		r := r
		vis.Ret = append(vis.Ret, toJRet(&r))
	}
	sortEvent(&vis)
	return vis
}

type crdtNode struct {
	st    distributed.State
	bcast *memberlist.TransmitLimitedQueue
	out   [][]byte
}

func (n *crdtNode) drain() (last []byte, count int) {
	for {
		msgs := n.bcast.GetBroadcasts(0, 1<<30)
		if len(msgs) == 0 {
			return
		}
		for _, m := range msgs {
			n.out = append(n.out, m)
			last = m
			count++
		}
	}
}

func (crdtFamily) Exec(id int, raw json.RawMessage) Case {
	var in crdtInput
	if err := json.Unmarshal(raw, &in); err != nil {
		panic(err)
	}
	c := Case{ID: id}
	var cur int64
	distributed.SetClockForVerif(func() int64 { return cur })
	nodes := make([]*crdtNode, len(in.Peers))
	for i, p := range in.Peers {
		q := &memberlist.TransmitLimitedQueue{RetransmitMult: 1, NumNodes: func() int { return 1 }}
		nodes[i] = &crdtNode{st: distributed.NewState(p, q, audit.NoneRecorder()), bcast: q}
	}
	var terms []string
	var obs []interface{}
	nLocal, nDeliver, nCheck, nBulk := 0, 0, 0, 0
	var shadow, shadowRecv *crdtNode
	if in.Held && len(in.Peers) > 0 {
		q := &memberlist.TransmitLimitedQueue{RetransmitMult: 1, NumNodes: func() int { return 1 }}
		shadow = &crdtNode{st: distributed.NewState(in.Peers[0], q, audit.NoneRecorder()), bcast: q}
		q2 := &memberlist.TransmitLimitedQueue{RetransmitMult: 1, NumNodes: func() int { return 1 }}
		shadowRecv = &crdtNode{st: distributed.NewState(in.Peers[0]+1000, q2, audit.NoneRecorder()), bcast: q2}
	}
	step := func(o crdtOp) (term string, ob interface{}) {
		defer func() {
			if r := recover(); r != nil {
				term, ob = "CPanic", fmt.Sprintf("panic: %v", r)
			}
		}()
		if o.N < 0 || o.N >= len(nodes) || o.Src < 0 || o.Src >= len(nodes) {
			panic("bad node index")
		}
		n := nodes[o.N]
		local := func(dop string, f func()) (string, interface{}) {
			nLocal++
			cur = o.Clk
			f()
			if shadow != nil && o.N == 0 {
				// the closures read n.st when they run: the same operation, same clock, on the shadow
				real := n.st
				n.st = shadow.st
				func() {
					defer func() { n.st = real }()
					f()
				}()
			}
			last, cnt := n.drain()
			ev := "None"
			var evo interface{}
			if cnt == 1 {
				d := decodeEvent(last)
				ev, evo = "(Some "+cqEvent(d)+")", d
			} else if cnt > 1 {
				panic(fmt.Sprintf("%d broadcasts queued by one operation", cnt))
			}
			return fmt.Sprintf("CLocal %s (%s) %s", cqNat(o.N), dop, ev), evo
		}
		switch o.Op {
		case "sess_create":
			cid := o.CID
			if o.CIDX != "" {
				b, _ := hex.DecodeString(o.CIDX)
				cid = string(b)
			}
			return local(fmt.Sprintf("DSessCreate %s %s %s %s %s", cqStr(o.ID), cqStr(cid), cqStr(o.MP), cqOptPub(o.LWT), cqZ(o.Clk)), func() {
				n.st.SessionMetadatas().Create(o.ID, cid, 0, fromJPub(o.LWT), o.MP)
			})
		case "sess_delete":
			return local(fmt.Sprintf("DSessDelete %s %s", cqStr(o.ID), cqZ(o.Clk)), func() { n.st.SessionMetadatas().Delete(o.ID) })
		case "sess_delete_peer":
			nBulk++
			return local(fmt.Sprintf("DSessDeletePeer %s %s", cqZ(int64(o.Peer)), cqZ(o.Clk)), func() { n.st.SessionMetadatas().DeletePeer(o.Peer) })
		case "sub_create":
			return local(fmt.Sprintf("DSubCreate %s %s %s %s", cqStr(o.ID), cqStr(o.Pat), cqZ(int64(o.QoS)), cqZ(o.Clk)), func() {
				n.st.Subscriptions().Create(o.ID, []byte(o.Pat), o.QoS)
			})
		case "sub_delete":
			return local(fmt.Sprintf("DSubDelete %s %s %s", cqStr(o.ID), cqStr(o.Pat), cqZ(o.Clk)), func() { n.st.Subscriptions().Delete(o.ID, []byte(o.Pat)) })
		case "sub_delete_peer":
			nBulk++
			return local(fmt.Sprintf("DSubDeletePeer %s %s", cqZ(int64(o.Peer)), cqZ(o.Clk)), func() { n.st.Subscriptions().DeletePeer(o.Peer) })
		case "sub_delete_session":
			nBulk++
			return local(fmt.Sprintf("DSubDeleteSession %s %s", cqStr(o.ID), cqZ(o.Clk)), func() { n.st.Subscriptions().DeleteSession(o.ID) })
		case "ret_set":
			return local(fmt.Sprintf("DRetSet %s %s", cqPub(*o.Pub), cqZ(o.Clk)), func() { n.st.Topics().Set(fromJPub(o.Pub)) })
		case "ret_delete":
			return local(fmt.Sprintf("DRetDelete %s %s", cqStr(o.Pat), cqZ(o.Clk)), func() { n.st.Topics().Delete([]byte(o.Pat)) })
		case "deliver":
			nDeliver++
			src := nodes[o.Src]
			if o.K < len(src.out) {
				n.st.Distributor().NotifyMsg(src.out[o.K])
			}
			return fmt.Sprintf("CDeliver %s %s %s", cqNat(o.Src), cqNat(o.N), cqNat(o.K)), nil
		case "batch":
			nDeliver++
			src := nodes[o.Src]
			var all jEvent
			var ks []string
			for _, k := range o.Ks {
				ks = append(ks, cqNat(k))
				if k < len(src.out) {
					// decodeEvent sorts; keep the wire order of each message by decoding unsorted
					ev := &api.StateBroadcastEvent{}
					if proto.Unmarshal(src.out[k], ev) == nil {
						for _, s := range ev.SessionMetadatas {
							all.Sess = append(all.Sess, toJSess(s))
						}
						for _, s := range ev.Subscriptions {
							all.Subs = append(all.Subs, toJSub(s))
						}
						for _, r := range ev.RetainedMessages {
							all.Ret = append(all.Ret, toJRet(r))
						}
					}
				}
			}
			n.st.Distributor().NotifyMsg(encodeEvent(all))
			return fmt.Sprintf("CBatch %s %s %s", cqNat(o.Src), cqNat(o.N), cqList(ks)), nil
		case "inject":
			nDeliver++
			n.st.Distributor().NotifyMsg(encodeEvent(*o.Ev))
			if shadow != nil && o.N == 0 {
				shadow.st.Distributor().NotifyMsg(encodeEvent(*o.Ev))
				shadowRecv.st.Distributor().NotifyMsg(encodeEvent(*o.Ev))
			}
			return fmt.Sprintf("CInject %s %s", cqNat(o.N), cqEvent(*o.Ev)), nil
		case "snapshot":
			nDeliver++
			buf := nodes[o.Src].st.Distributor().LocalState(false)
			d := decodeEvent(buf)
			n.st.Distributor().MergeRemoteState(buf, true)
			return fmt.Sprintf("CSnapshot %s %s %s", cqNat(o.Src), cqNat(o.N), cqEvent(d)), d
		case "check":
			nCheck++
			vis := visibleOf(n.st)
			if o.K == 1 { // visible lists only (C09: the full-state dump is C10's business)
				return fmt.Sprintf("CCheck %s %s %s %s None", cqNat(o.N), cqSessL(vis.Sess), cqSubL(vis.Subs), cqRetL(vis.Ret)), map[string]interface{}{"visible": vis}
			}
			d := decodeEvent(n.st.Distributor().LocalState(false))
			return fmt.Sprintf("CCheck %s %s %s %s (Some %s)", cqNat(o.N), cqSessL(vis.Sess), cqSubL(vis.Subs), cqRetL(vis.Ret), cqEvent(d)), map[string]interface{}{"visible": vis, "dump": d}
		case "by_pattern":
			var got jEvent
			for _, s := range n.st.Subscriptions().ByPattern([]byte(o.Pat)) {
				s := s
				got.Subs = append(got.Subs, toJSub(&s))
			}
			sortEvent(&got)
			return fmt.Sprintf("CByPattern %s %s %s", cqNat(o.N), cqStr(o.Pat), cqSubL(got.Subs)), got.Subs
		case "ret_get":
			rs, err := n.st.Topics().Get([]byte(o.Pat))
			if err != nil {
				panic(err)
			}
			var got jEvent
			for _, r := range rs {
				r := r
				got.Ret = append(got.Ret, toJRet(&r))
			}
			sortEvent(&got)
			return fmt.Sprintf("CRetGet %s %s %s", cqNat(o.N), cqStr(o.Pat), cqRetL(got.Ret)), got.Ret
		}
		panic("unknown op " + o.Op)
	}
	for _, o := range in.Ops {
		t, ob := step(o)
		terms = append(terms, t)
		obs = append(obs, ob)
	}
	if shadow != nil {
		// gossip at last: whatever the shadow's queue still holds goes to the fresh replica
		held := 0
		func() {
			defer func() {
				if r := recover(); r != nil {
					terms = append(terms, "CPanic")
					obs = append(obs, fmt.Sprintf("panic: %v", r))
				}
			}()
			for {
				msgs := shadow.bcast.GetBroadcasts(0, 1<<30)
				if len(msgs) == 0 {
					break
				}
				for _, m := range msgs {
					held++
					shadowRecv.st.Distributor().NotifyMsg(m)
				}
			}
			vis := visibleOf(shadowRecv.st)
			nCheck++
			terms = append(terms, fmt.Sprintf("CCheck %s %s %s %s None", cqNat(0), cqSessL(vis.Sess), cqSubL(vis.Subs), cqRetL(vis.Ret)))
			obs = append(obs, map[string]interface{}{"held_queue_receiver": vis, "held_broadcasts": held})
		}()
	}
	if len(obs) > 30 {
		obs = append(obs[:30], fmt.Sprintf("... %d more", len(obs)-30))
	}
	c.Obs = obs
	var peers []string
	for _, p := range in.Peers {
		peers = append(peers, cqZ(int64(p)))
	}
	c.Coq = fmt.Sprintf("(%s, %s, %s)", cqN(int64(id)), cqList(peers), cqList(terms))
	c.Nontrivial = (nLocal+nDeliver) >= 2 && nCheck >= 1
	c.Sig = string(raw)
	if nBulk > 0 {
		c.Tags = append(c.Tags, "bulk")
	}
	return c
}

// ---- generators

func (crdtFamily) Gen(n int, seed int64, mode, tier string) []interface{} {
	rng := rand.New(rand.NewSource(seed))
	var out []interface{}
	peers := []uint64{1, 2, 3}
	checks := func(ops []crdtOp) []crdtOp {
		for i := range peers {
			o := crdtOp{Op: "check", N: i}
			if mode == "bcast" {
				o.K = 1
			}
			ops = append(ops, o)
		}
		return ops
	}
	switch mode {
	case "perm":
		// C08: every multiset of <= S updates from a pool of 12 per store (2 keys x 3 timestamps
		// x {add, remove}), injected into three fresh replicas: in order; in every other order
		// (spread over cases) with one element duplicated; as one batch.
		S := 3
		if tier == "thorough" {
			S = 4
		}
		for store := 0; store < 3; store++ {
			var pool []jEvent
			for _, key := range []string{"k1", "k2"} {
				for _, ts := range []int64{10, 20, 30} {
					for _, add := range []bool{true, false} {
						la, ld := ts, int64(0)
						if !add {
							la, ld = 0, ts
						}
						switch store {
						case 0:
							pool = append(pool, jEvent{Sess: []jSess{{ID: key, CID: fmt.Sprintf("c%d%v", ts, add), MP: "mp", Peer: 1, LA: la, LD: ld}}})
						case 1:
							pool = append(pool, jEvent{Subs: []jSub{{SID: "s1", Pat: "mp/" + key, Peer: 1, QoS: int32(ts / 10 % 3), LA: la, LD: ld}}})
						default:
							p := fmt.Sprintf("v%d", ts)
							if !add {
								p = ""
							}
							pool = append(pool, jEvent{Ret: []jRet{{Pub: jPub{T: "mp/" + key, P: p, R: add}, LA: la, LD: ld}}})
						}
					}
				}
			}
			var rec func(start int, cur []int)
			emit := func(cur []int) {
				k := len(cur)
				perms := permutations(k)
				for pi := 0; pi < len(perms); pi += 2 {
					var ops []crdtOp
					for _, i := range cur {
						ev := pool[i]
						ops = append(ops, crdtOp{Op: "inject", N: 0, Ev: &ev})
					}
					p1 := perms[pi]
					for j, i := range p1 {
						ev := pool[cur[i]]
						ops = append(ops, crdtOp{Op: "inject", N: 1, Ev: &ev})
						if j == 0 { // duplicate the first element
							ops = append(ops, crdtOp{Op: "inject", N: 1, Ev: &ev})
						}
					}
					p2 := perms[(pi+1)%len(perms)]
					var batch jEvent
					for _, i := range p2 {
						ev := pool[cur[i]]
						batch.Sess = append(batch.Sess, ev.Sess...)
						batch.Subs = append(batch.Subs, ev.Subs...)
						batch.Ret = append(batch.Ret, ev.Ret...)
					}
					ops = append(ops, crdtOp{Op: "inject", N: 2, Ev: &batch})
					out = append(out, crdtInput{Peers: peers, Ops: checks(ops)})
				}
			}
			rec = func(start int, cur []int) {
				if len(cur) > 0 {
					emit(cur)
				}
				if len(cur) == S {
					return
				}
				for i := start; i < len(pool); i++ {
					rec(i+1, append(append([]int{}, cur...), i)) // sets; duplicates come from the delivery
				}
			}
			rec(0, nil)
		}
		return out
	}
	sids := []string{"s1", "s2", "s3"}
	pats := []string{"mp/a", "mp/a/#", "mp/+/b", "mp/a/b", "mp2/a", "mp/#"}
	tops := []string{"mp/a", "mp/a/b", "mp/c", "mp2/a"}
	randLocal := func(node int, clk int64, created map[string]bool) crdtOp {
		sid := sids[rng.Intn(len(sids))]
		switch r := rng.Intn(100); {
		case r < 12:
			id := fmt.Sprintf("%s-n%d", sid, node)
			if created[id] {
				return crdtOp{Op: "sess_delete", N: node, ID: id, Clk: clk}
			}
			created[id] = true
			o := crdtOp{Op: "sess_create", N: node, ID: id, CID: "c" + sid, MP: []string{"mp", "mp2"}[rng.Intn(2)], Clk: clk}
			if rng.Intn(2) == 0 {
				o.LWT = &jPub{T: "mp/will", P: "bye", Q: int32(rng.Intn(3)), R: rng.Intn(2) == 0}
			}
			if rng.Intn(5) == 0 {
				// client identifiers are client-chosen bytes: well-formed multi-byte UTF-8 and the ill-formed kinds
				// (stray continuation, truncated, overlong, surrogate, beyond U+10FFFF) the broadcast encoder refuses
				odd := []string{"c\xe2\x82\xac", "\xc3\xa9-id", "\xf0\x9f\x98\x80", "c\xff", "\x80x", "\xc3\x28", "ab\xe2\x82", "\xc0\xaf", "\xe0\x80\xaf", "\xed\xa0\x80", "\xf4\x90\x80\x80", "\xf0\x8f\xbf\xbf", "\xf8\x88\x80\x80\x80", "\xed\x9f\xbf", "\xee\x80\x80", "\xf4\x8f\xbf\xbf"}
				o.CID, o.CIDX = "", hex.EncodeToString([]byte(odd[rng.Intn(len(odd))]))
			}
			return o
		case r < 20:
			return crdtOp{Op: "sess_delete", N: node, ID: fmt.Sprintf("%s-n%d", sid, rng.Intn(3)), Clk: clk}
		case r < 26:
			return crdtOp{Op: "sess_delete_peer", N: node, Peer: peers[rng.Intn(3)], Clk: clk}
		case r < 55:
			return crdtOp{Op: "sub_create", N: node, ID: fmt.Sprintf("%s-n%d", sid, rng.Intn(3)), Pat: pats[rng.Intn(len(pats))], QoS: int32(rng.Intn(3)), Clk: clk}
		case r < 67:
			return crdtOp{Op: "sub_delete", N: node, ID: fmt.Sprintf("%s-n%d", sid, rng.Intn(3)), Pat: pats[rng.Intn(len(pats))], Clk: clk}
		case r < 73:
			return crdtOp{Op: "sub_delete_peer", N: node, Peer: peers[rng.Intn(3)], Clk: clk}
		case r < 80:
			return crdtOp{Op: "sub_delete_session", N: node, ID: fmt.Sprintf("%s-n%d", sid, rng.Intn(3)), Clk: clk}
		case r < 93:
			return crdtOp{Op: "ret_set", N: node, Pub: &jPub{T: tops[rng.Intn(len(tops))], P: fmt.Sprintf("p%d", rng.Intn(50)), Q: int32(rng.Intn(3)), R: true}, Clk: clk}
		default:
			return crdtOp{Op: "ret_delete", N: node, Pat: tops[rng.Intn(len(tops))], Clk: clk}
		}
	}
	queries := func(ops []crdtOp) []crdtOp {
		for i := range peers {
			ops = append(ops, crdtOp{Op: "by_pattern", N: i, Pat: []string{"mp/a", "mp/a/b", "mp/x/b", "mp2/a", "mp"}[rng.Intn(5)]})
			ops = append(ops, crdtOp{Op: "ret_get", N: i, Pat: []string{"mp/#", "mp/+", "mp/a/b", "#", "mp2/a", "+/a"}[rng.Intn(6)]})
		}
		return ops
	}
	for i := 0; i < n; i++ {
		var ops []crdtOp
		created := map[string]bool{}
		emitted := make([]int, 3)
		switch mode {
		case "tenants":
			// C17: the same filters and topics under two or three mount points; nothing may cross
			mpl := []string{"ta", "tb", "_default"}[:2+rng.Intn(2)]
			fl := []string{"a", "+", "#", "", "b"}
			tl := []string{"a", "", "b"}
			clk := int64(100)
			for _, mp := range mpl {
				for j := 0; j < 2+rng.Intn(5); j++ {
					clk++
					ops = append(ops, crdtOp{Op: "sub_create", N: 0, ID: "s-" + mp, Pat: mp + "/" + randLevels(rng, fl, 3), QoS: int32(rng.Intn(3)), Clk: clk})
				}
				clk++
				ops = append(ops, crdtOp{Op: "sub_create", N: 0, ID: "s-" + mp, Pat: mp + "/#", QoS: 0, Clk: clk})
				for j := 0; j < 1+rng.Intn(3); j++ {
					clk++
					ops = append(ops, crdtOp{Op: "ret_set", N: 0, Pub: &jPub{T: mp + "/" + randLevels(rng, tl, 3), P: "r-" + mp, Q: 0, R: true}, Clk: clk})
				}
			}
			for q := 0; q < 6; q++ {
				mp := mpl[rng.Intn(len(mpl))]
				ops = append(ops, crdtOp{Op: "by_pattern", N: 0, Pat: mp + "/" + randLevels(rng, tl, 3)})
				ops = append(ops, crdtOp{Op: "ret_get", N: 0, Pat: mp + "/" + []string{"#", "+", "+/#", "a/#", "+/+"}[rng.Intn(5)]})
			}
			ops = append(ops, crdtOp{Op: "check", N: 0, K: 1})
		case "retained":
			// C07 (store level): histories of retained publishes and clears over topics with shared
			// prefixes on replica 0, replicated (shuffled, duplicated) to replica 1, Get with many filters
			rt := []string{"mp/a", "mp/a/b", "mp/a/b/c", "mp/a/c", "mp/b", "mp/b/a", "mp/", "mp//a"}
			rf := []string{"a", "b", "c", "+", "#", ""}
			clk := int64(100)
			steps := 2 + rng.Intn(28)
			for j := 0; j < steps; j++ {
				clk += int64(1 + rng.Intn(3))
				t := rt[rng.Intn(len(rt))]
				if rng.Intn(4) == 0 {
					ops = append(ops, crdtOp{Op: "ret_delete", N: 0, Pat: t, Clk: clk})
				} else {
					ops = append(ops, crdtOp{Op: "ret_set", N: 0, Pub: &jPub{T: t, P: fmt.Sprintf("p%d", j), Q: int32(rng.Intn(3)), R: true}, Clk: clk})
				}
				if rng.Intn(5) == 0 {
					ops = append(ops, crdtOp{Op: "ret_get", N: 0, Pat: "mp/" + randLevels(rng, rf, 3)})
				}
			}
			for _, k := range rng.Perm(steps) {
				ops = append(ops, crdtOp{Op: "deliver", Src: 0, N: 1, K: k})
				if rng.Intn(4) == 0 {
					ops = append(ops, crdtOp{Op: "deliver", Src: 0, N: 1, K: rng.Intn(steps)})
				}
			}
			for q := 0; q < 8; q++ {
				f := "mp/" + randLevels(rng, rf, 3)
				ops = append(ops, crdtOp{Op: "ret_get", N: 0, Pat: f}, crdtOp{Op: "ret_get", N: 1, Pat: f})
			}
			ops = append(ops, crdtOp{Op: "check", N: 0, K: 1}, crdtOp{Op: "check", N: 1, K: 1})
		case "subs":
			// C01: subscribe / unsubscribe / re-subscribe histories on replica 0 (increasing clock),
			// replica 1 receives the broadcasts shuffled and duplicated, replica 2 in order with
			// some sent back to replica 0 (echo); then ByPattern on many topics at all three
			fl := []string{"a", "b", "+", "#", "", "a"}
			tl := []string{"a", "b", "", "c"}
			clk := int64(100)
			steps := 3 + rng.Intn(18)
			var used []string
			for j := 0; j < steps; j++ {
				clk += int64(1 + rng.Intn(3))
				pat := "mp/" + randLevels(rng, fl, 3)
				if len(used) > 0 && rng.Intn(3) == 0 {
					pat = used[rng.Intn(len(used))]
				}
				used = append(used, pat)
				sid := sids[rng.Intn(len(sids))]
				if rng.Intn(4) == 0 {
					ops = append(ops, crdtOp{Op: "sub_delete", N: 0, ID: sid, Pat: pat, Clk: clk})
				} else {
					ops = append(ops, crdtOp{Op: "sub_create", N: 0, ID: sid, Pat: pat, QoS: int32(rng.Intn(3)), Clk: clk})
				}
			}
			order := rng.Perm(steps)
			for _, k := range order {
				ops = append(ops, crdtOp{Op: "deliver", Src: 0, N: 1, K: k})
				if rng.Intn(3) == 0 {
					ops = append(ops, crdtOp{Op: "deliver", Src: 0, N: 1, K: order[rng.Intn(len(order))]})
				}
			}
			for k := 0; k < steps; k++ {
				ops = append(ops, crdtOp{Op: "deliver", Src: 0, N: 2, K: k})
				if rng.Intn(3) == 0 {
					ops = append(ops, crdtOp{Op: "deliver", Src: 0, N: 0, K: rng.Intn(k + 1)}) // echo of an own, possibly stale, update
				}
			}
			if rng.Intn(2) == 0 {
				ops = append(ops, crdtOp{Op: "snapshot", Src: 2, N: 0})
			}
			for q := 0; q < 8; q++ {
				t := "mp/" + randLevels(rng, tl, 3)
				for i := range peers {
					ops = append(ops, crdtOp{Op: "by_pattern", N: i, Pat: t})
				}
			}
			for i := range peers {
				ops = append(ops, crdtOp{Op: "check", N: i, K: 1})
			}
		case "bcast":
			// C09: one origin with an increasing clock; replica 1 gets every broadcast in order,
			// replica 2 a shuffled stream with duplicates
			clk := int64(100)
			steps := 5 + rng.Intn(36)
			if rng.Intn(2) == 0 {
				// retained messages written by a peer whose clock runs ahead, already merged everywhere:
				// the origin's own Set/Delete of those topics must still win (and be conveyed)
				var ev jEvent
				for _, t := range tops {
					if rng.Intn(2) == 0 {
						ev.Ret = append(ev.Ret, jRet{Pub: jPub{T: t, P: "fast-" + t, R: true}, LA: clk + int64(20+rng.Intn(200))})
					}
				}
				if len(ev.Ret) > 0 {
					for nd := 0; nd < 3; nd++ {
						e := ev
						ops = append(ops, crdtOp{Op: "inject", N: nd, Ev: &e})
					}
				}
			}
			sameTick := rng.Intn(3) == 0
			var prev crdtOp
			for j := 0; j < steps; j++ {
				clk += int64(1 + rng.Intn(5))
				o := randLocal(0, clk, created)
				if sameTick && j > 0 && strings.HasPrefix(o.Op, "ret_") && strings.HasPrefix(prev.Op, "ret_") {
					// a coarse clock: consecutive retained writes in the same tick
					clk = prev.Clk
					o.Clk = clk
				}
				prev = o
				if o.Op == "sess_delete_peer" || o.Op == "sub_delete_peer" {
					o.Peer = 1
				}
				if strings.HasPrefix(o.Op, "sub_") || o.Op == "sess_delete" {
					o.ID = strings.Replace(o.ID, "-n1", "-n0", 1)
					o.ID = strings.Replace(o.ID, "-n2", "-n0", 1)
				}
				ops = append(ops, o)
			}
			// every local op queues at most one broadcast; deliver indices generously (missing ones are skipped)
			for k := 0; k < steps; k++ {
				ops = append(ops, crdtOp{Op: "deliver", Src: 0, N: 1, K: k})
			}
			order := rng.Perm(steps)
			for _, k := range order {
				ops = append(ops, crdtOp{Op: "deliver", Src: 0, N: 2, K: k})
				if rng.Intn(4) == 0 {
					ops = append(ops, crdtOp{Op: "deliver", Src: 0, N: 2, K: order[rng.Intn(len(order))]})
				}
			}
			ops = queries(checks(ops))
		case "snapshot":
			// C10: two histories with lossy gossip, then snapshots one way or both
			base := []int64{1000, 1000 + int64(rng.Intn(41)-20), 0}
			steps := 6 + rng.Intn(25)
			loss := rng.Intn(101)
			for j := 0; j < steps; j++ {
				node := rng.Intn(2)
				base[node] += int64(1 + rng.Intn(4))
				o := randLocal(node, base[node], created)
				ops = append(ops, o)
				k := emitted[node]
				emitted[node]++
				if rng.Intn(100) >= loss {
					ops = append(ops, crdtOp{Op: "deliver", Src: node, N: 1 - node, K: k})
				}
			}
			switch rng.Intn(3) {
			case 0:
				ops = append(ops, crdtOp{Op: "snapshot", Src: 0, N: 1}, crdtOp{Op: "snapshot", Src: 0, N: 2})
			case 1:
				ops = append(ops, crdtOp{Op: "snapshot", Src: 1, N: 0}, crdtOp{Op: "snapshot", Src: 1, N: 2})
			default:
				ops = append(ops, crdtOp{Op: "snapshot", Src: 0, N: 1}, crdtOp{Op: "snapshot", Src: 1, N: 0}, crdtOp{Op: "snapshot", Src: 0, N: 2})
			}
			ops = queries(checks(ops))
		default:
			// random: three origins with offset clocks, lossy, reordered, duplicated, batched gossip
			base := []int64{10000, 10000 + int64(rng.Intn(20001)-10000), 10000 + int64(rng.Intn(20001)-10000)}
			steps := 6 + rng.Intn(35)
			for j := 0; j < steps; j++ {
				node := rng.Intn(3)
				switch r := rng.Intn(100); {
				case r < 50:
					base[node] += int64(1 + rng.Intn(50))
					ops = append(ops, randLocal(node, base[node], created))
					emitted[node]++
				case r < 85:
					src := rng.Intn(3)
					if emitted[src] > 0 {
						ops = append(ops, crdtOp{Op: "deliver", Src: src, N: node, K: rng.Intn(emitted[src])})
					}
				case r < 93:
					src := rng.Intn(3)
					if emitted[src] > 1 {
						ks := []int{rng.Intn(emitted[src]), rng.Intn(emitted[src]), rng.Intn(emitted[src])}
						ops = append(ops, crdtOp{Op: "batch", Src: src, N: node, Ks: ks[:2+rng.Intn(2)]})
					}
				case r < 97:
					ops = append(ops, crdtOp{Op: "snapshot", Src: rng.Intn(3), N: node})
				default:
					ops = append(ops, crdtOp{Op: "check", N: node})
				}
			}
			ops = queries(checks(ops))
		}
		out = append(out, crdtInput{Peers: peers, Ops: ops, Held: mode == "bcast"})
	}
	return out
}

func permutations(k int) [][]int {
	var out [][]int
	var rec func(cur []int, used []bool)
	rec = func(cur []int, used []bool) {
		if len(cur) == k {
			out = append(out, append([]int{}, cur...))
			return
		}
		for i := 0; i < k; i++ {
			if !used[i] {
				used[i] = true
				rec(append(cur, i), used)
				used[i] = false
			}
		}
	}
	rec(nil, make([]bool, k))
	return out
}
