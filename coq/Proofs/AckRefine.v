(** The implementation model of the in-flight table (hash + bucketed timeout list,
    Model/AckQueue.v) refines the specification (Spec/AckSpec.v): for every history the return
    codes and the callback sequences are equal, step for step. *)
From Wasp Require Import Model.Base Spec.AckSpec Model.AckQueue Proofs.AckSpecFacts Proofs.StableInsert.
From stdpp Require Import list sorting.
From Coq Require Import ZArith Lia.
Open Scope Z_scope.

Definition proj (e : entry) : item := (ekey e, edl e).
Definition tomsg (e : entry) : key * msg := (ekey e, Msg (eexpect e) (ereg e) (edl e)).
Definition pitems (q : pq) : list item := concat (map snd q).

Lemma key_eqb_eq a b : key_eqb a b = true ↔ a = b.
Proof.
  destruct a as [a1 a2], b as [b1 b2]. unfold key_eqb. cbn [fst snd].
  rewrite andb_true_iff, String.eqb_eq, Z.eqb_eq. split; [intros [-> ->]; done|intros [= -> ->]; done].
Qed.
Lemma key_eqb_refl a : key_eqb a a = true.
Proof. by apply key_eqb_eq. Qed.
Lemma key_eqb_neq a b : key_eqb a b = false ↔ a ≠ b.
Proof. rewrite <- key_eqb_eq. destruct (key_eqb a b); split; congruence. Qed.

Lemma bput_ins it l : bput it l = ins snd it l.
Proof. induction l as [|x l IH]; cbn; [done|]. by rewrite IH. Qed.

Lemma round_lt d1 d2 : round_s d1 < round_s d2 → d1 < d2.
Proof. intros H. destruct (Z.lt_ge_cases d1 d2) as [|Hge]; [done|]. apply round_mono in Hge. lia. Qed.

(** ** generic list facts *)
Lemma filter_list_all {A} (P : A → bool) l : Forall (λ x, P x = true) l → List.filter P l = l.
Proof. induction 1 as [|x l Hx _ IH]; cbn; [done|]. by rewrite Hx, IH. Qed.
Lemma filter_list_none {A} (P : A → bool) l : Forall (λ x, P x = false) l → List.filter P l = [].
Proof. induction 1 as [|x l Hx _ IH]; cbn; [done|]. by rewrite Hx, IH. Qed.
Lemma filter_list_ext {A} (f g : A → bool) l : (∀ x, x ∈ l → f x = g x) → List.filter f l = List.filter g l.
Proof.
  induction l as [|x l IH]; intros H; cbn; [done|]. rewrite (H x) by left. rewrite IH; [done|].
  intros y Hy. apply H. by right.
Qed.
Lemma srt_filter {A} (m : A → Z) (P : A → bool) l : srt m l → srt m (List.filter P l).
Proof.
  induction 1 as [|x l Hs IH Hall]; cbn [List.filter]; [constructor|].
  destruct (P x); [|done]. constructor; [done|]. by apply Forall_filter_list.
Qed.
Lemma elem_of_filter_list {A} (P : A → bool) l x : x ∈ List.filter P l ↔ x ∈ l ∧ P x = true.
Proof. rewrite !elem_of_list_In. apply filter_In. Qed.
Lemma NoDup_map_filter_list {A B} (f : A → B) (P : A → bool) l : NoDup (map f l) → NoDup (map f (List.filter P l)).
Proof.
  induction l as [|x l IH]; cbn; [done|]. intros [Hn Hnd]%NoDup_cons.
  destruct (P x); [|by apply IH]. cbn. apply NoDup_cons. split; [|by apply IH].
  intros Hin. apply Hn. apply elem_of_list_fmap in Hin as (y & -> & Hy). apply elem_of_filter_list in Hy as [Hy _].
  apply elem_of_list_fmap. by exists y.
Qed.

(** ** buckets *)
Definition bucket_ok (b : bucket) : Prop := Forall (λ it : item, round_s it.2 = b.1) b.2 ∧ srt snd b.2.
Definition bsorted (q : pq) : Prop := StronglySorted (λ a b : bucket, a.1 < b.1) q.

Lemma pitems_cons d l q : pitems ((d, l) :: q) = l ++ pitems q.
Proof. done. Qed.
Lemma pitems_round_ge d q : Forall (λ b : bucket, d < b.1) q → Forall bucket_ok q →
  Forall (λ it : item, d < round_s it.2) (pitems q).
Proof.
  induction q as [|[d' l] q IH]; intros Hd Hok; [constructor|].
  apply Forall_cons in Hd as [Hd Hd']. apply Forall_cons in Hok as [[Hl _] Hok']. cbn [fst snd] in *.
  rewrite pitems_cons. apply Forall_app. split; [|by apply IH].
  eapply Forall_impl; [exact Hl|]. cbn. intros it ->. done.
Qed.

Lemma pinsert_keys (P : Z → Prop) (it : item) (q : pq) : P (round_s it.2) → Forall (λ b : bucket, P b.1) q →
  Forall (λ b : bucket, P b.1) (pinsert it q).
Proof.
  intros Hr. induction q as [|[d l] q IH]; cbn [pinsert]; intros Hall.
  { by repeat constructor. }
  apply Forall_cons in Hall as [Hd Hall]. cbn [fst] in Hd.
  destruct (d =? round_s it.2); [by constructor|].
  destruct (round_s it.2 <? d); [by repeat constructor|]. constructor; [done|by apply IH].
Qed.

Lemma pinsert_spec (it : item) (q : pq) : bsorted q → Forall bucket_ok q →
  pitems (pinsert it q) = ins snd it (pitems q) ∧ bsorted (pinsert it q) ∧ Forall bucket_ok (pinsert it q).
Proof.
  induction q as [|[d l] q IH]; intros Hs Hok; cbn [pinsert].
  { split; [done|]. split; [repeat constructor|]. constructor; [|constructor].
    split; cbn [fst snd]; repeat constructor. }
  apply StronglySorted_inv in Hs as [Hs Hgt]. apply Forall_cons in Hok as [[Hl Hsl] Hok]. cbn [fst snd] in *.
  assert (Hlater : Forall (λ x : item, d < round_s x.2) (pitems q)) by (by apply pitems_round_ge).
  destruct (Z.eqb_spec d (round_s it.2)) as [->|Hne].
  - rewrite !pitems_cons, bput_ins. split; [|split].
    + symmetry. apply ins_app_gt. eapply Forall_impl; [exact Hlater|]. cbn. intros x Hx. by apply round_lt.
    + by constructor.
    + constructor; [|done]. split; cbn [fst snd]; [|by apply ins_srt].
      rewrite ins_perm. by constructor.
  - destruct (Z.ltb_spec (round_s it.2) d) as [Hlt|Hge].
    + split; [|split].
      * rewrite pitems_cons. cbn [app]. symmetry. apply ins_gt. rewrite pitems_cons. apply Forall_app. split.
        -- eapply Forall_impl; [exact Hl|]. cbn. intros x Hx. apply round_lt. lia.
        -- eapply Forall_impl; [exact Hlater|]. cbn. intros x Hx. apply round_lt. lia.
      * constructor; [by constructor|]. constructor; [done|]. eapply Forall_impl; [exact Hgt|]. cbn. intros; lia.
      * constructor; [split; cbn [fst snd]; repeat constructor|]. constructor; [by split|done].
    + destruct (IH Hs Hok) as (IHi & IHs & IHo). assert (d < round_s it.2) by lia.
      split; [|split].
      * rewrite !pitems_cons, IHi. symmetry. apply ins_app_le.
        eapply Forall_impl; [exact Hl|]. cbn. intros x Hx. assert (x.2 < it.2) by (apply round_lt; lia). lia.
      * constructor; [done|]. by apply (pinsert_keys (λ z, d < z)).
      * constructor; [by split|done].
Qed.

Definition notkey (k : key) (x : item) : bool := negb (key_eqb x.1 k).

Lemma bscan_filter (it : item) (l : list item) : srt snd l → it ∈ l → NoDup (map fst l) → Forall (λ x : item, it.2 ≤ x.2) l →
  bscan it l = List.filter (notkey it.1) l.
Proof.
  induction l as [|x l IH]; intros Hs Hin Hnd Hge; [by apply elem_of_nil in Hin|].
  apply StronglySorted_inv in Hs as [Hs Hall]. apply NoDup_cons in Hnd as [Hn Hnd]. apply Forall_cons in Hge as [Hx Hge].
  cbn [bscan List.filter map fst] in *. unfold notkey at 1.
  destruct (Z.eqb_spec x.2 it.2) as [Heq|Hne].
  - destruct (key_eqb x.1 it.1) eqn:Hk; cbn [negb].
    + apply key_eqb_eq in Hk. symmetry. apply filter_list_all. rewrite Forall_forall. intros y Hy.
      unfold notkey. apply negb_true_iff, key_eqb_neq. intros Heq'. apply Hn. rewrite Hk, <- Heq'.
      apply elem_of_list_fmap. by exists y.
    + f_equal. apply IH; [done| |done|done]. apply elem_of_cons in Hin as [->|Hin]; [|done].
      by rewrite key_eqb_refl in Hk.
  - exfalso. apply elem_of_cons in Hin as [->|Hin]; [done|].
    rewrite Forall_forall in Hall. specialize (Hall it Hin). lia.
Qed.
Lemma bdelete_filter (it : item) (l : list item) : srt snd l → it ∈ l → NoDup (map fst l) → bdelete it l = List.filter (notkey it.1) l.
Proof.
  induction l as [|x l IH]; intros Hs Hin Hnd; [by apply elem_of_nil in Hin|].
  cbn [bdelete]. destruct (Z.ltb_spec x.2 it.2) as [Hlt|Hge].
  - pose proof Hs as Hs0. apply StronglySorted_inv in Hs as [Hs Hall]. apply NoDup_cons in Hnd as [Hn Hnd].
    apply elem_of_cons in Hin as [->|Hin]; [lia|]. cbn [List.filter]. unfold notkey at 1.
    assert (Hk : key_eqb x.1 it.1 = false).
    { apply key_eqb_neq. intros Heq. apply Hn. rewrite Heq. apply elem_of_list_fmap. by exists it. }
    rewrite Hk. cbn [negb]. f_equal. by apply IH.
  - apply bscan_filter; [done|done|done|]. apply StronglySorted_inv in Hs as [Hs Hall].
    constructor; [done|]. eapply Forall_impl; [exact Hall|]. cbn. intros; lia.
Qed.

Lemma notkey_all (it : item) (l : list item) : it.1 ∉ map fst l → List.filter (notkey it.1) l = l.
Proof.
  intros Hn. apply filter_list_all. rewrite Forall_forall. intros y Hy. unfold notkey.
  apply negb_true_iff, key_eqb_neq. intros Heq. apply Hn. rewrite <- Heq. apply elem_of_list_fmap. by exists y.
Qed.

Lemma pdelete_spec (it : item) (q : pq) : bsorted q → Forall bucket_ok q → NoDup (map fst (pitems q)) → it ∈ pitems q →
  pitems (pdelete it q) = List.filter (notkey it.1) (pitems q) ∧ bsorted (pdelete it q) ∧ Forall bucket_ok (pdelete it q)
  ∧ map fst (pdelete it q) = map fst q.
Proof.
  induction q as [|[d l] q IH]; intros Hs Hok Hnd Hin; [by apply elem_of_nil in Hin|].
  apply StronglySorted_inv in Hs as [Hs Hgt]. apply Forall_cons in Hok as [[Hl Hsl] Hok]. cbn [fst snd] in *.
  rewrite pitems_cons in Hnd, Hin. rewrite map_app in Hnd. apply NoDup_app in Hnd as (Hnd1 & Hdisj & Hnd2).
  cbn [pdelete]. destruct (Z.eqb_spec d (round_s it.2)) as [->|Hne].
  - assert (Hinl : it ∈ l).
    { apply elem_of_app in Hin as [?|Hin]; [done|]. exfalso.
      pose proof (pitems_round_ge _ _ Hgt Hok) as Hall. rewrite Forall_forall in Hall. specialize (Hall it Hin). lia. }
    rewrite !pitems_cons, List.filter_app. rewrite bdelete_filter by done.
    rewrite (notkey_all it (pitems q)).
    2:{ intros Hk. eapply Hdisj; [|exact Hk]. apply elem_of_list_fmap. by exists it. }
    split; [done|]. split; [by constructor|]. split; [|done].
    constructor; [|done]. split; cbn [fst snd]; [by apply Forall_filter_list|by apply srt_filter].
  - assert (Hinq : it ∈ pitems q).
    { apply elem_of_app in Hin as [Hin|?]; [|done]. exfalso. rewrite Forall_forall in Hl. specialize (Hl it Hin). done. }
    destruct (IH Hs Hok Hnd2 Hinq) as (IHi & IHs & IHo & IHk).
    rewrite !pitems_cons, List.filter_app, IHi. rewrite (notkey_all it l).
    2:{ intros Hk. eapply Hdisj; [exact Hk|]. apply elem_of_list_fmap. by exists it. }
    split; [done|]. split; [|split; [by constructor; [split|]|by cbn; rewrite IHk]].
    constructor; [done|]. clear -Hgt IHk. rewrite Forall_forall in *. intros b Hb.
    assert (b.1 ∈ map fst (pdelete it q)) by (apply elem_of_list_fmap; by exists b). rewrite IHk in H.
    apply elem_of_list_fmap in H as (b' & -> & Hb'). by apply Hgt.
Qed.

Definition rdue (now : Z) (x : item) : bool := round_s x.2 <? now.
Lemma pexpire_spec now q : bsorted q → Forall bucket_ok q →
  (pexpire now q).1 = List.filter (rdue now) (pitems q) ∧
  pitems (pexpire now q).2 = List.filter (λ x, negb (rdue now x)) (pitems q) ∧
  bsorted (pexpire now q).2 ∧ Forall bucket_ok (pexpire now q).2.
Proof.
  induction q as [|[d l] q IH]; intros Hs Hok; [cbn; repeat split; constructor|].
  pose proof Hs as Hs0. pose proof Hok as Hok0.
  apply StronglySorted_inv in Hs as [Hs Hgt]. apply Forall_cons in Hok as [[Hl Hsl] Hok]. cbn [fst snd] in *.
  cbn [pexpire]. destruct (Z.ltb_spec d now) as [Hlt|Hge].
  - destruct (IH Hs Hok) as (IH1 & IH2 & IH3 & IH4). cbn [fst snd]. rewrite pitems_cons, !List.filter_app, IH1, IH2.
    rewrite (filter_list_all (rdue now) l), (filter_list_none (λ x, negb (rdue now x)) l).
    + done.
    + eapply Forall_impl; [exact Hl|]. cbn. intros x Hx. unfold rdue. rewrite Hx. apply negb_false_iff. by apply Z.ltb_lt.
    + eapply Forall_impl; [exact Hl|]. cbn. intros x Hx. unfold rdue. rewrite Hx. by apply Z.ltb_lt.
  - cbn [fst snd].
    assert (Hall : Forall (λ x : item, now ≤ round_s x.2) (pitems ((d, l) :: q))).
    { rewrite pitems_cons. apply Forall_app. split.
      - eapply Forall_impl; [exact Hl|]. cbn. intros x ->. done.
      - eapply Forall_impl; [apply (pitems_round_ge d q Hgt Hok)|]. cbn. intros; lia. }
    rewrite filter_list_none, filter_list_all; [done| |].
    + eapply Forall_impl; [exact Hall|]. cbn. intros x Hx. unfold rdue. apply negb_true_iff. by apply Z.ltb_ge.
    + eapply Forall_impl; [exact Hall|]. cbn. intros x Hx. unfold rdue. by apply Z.ltb_ge.
Qed.

(** ** the hash of pending messages *)
Lemma mfind_tomsg s e : NoDup (map ekey s) → e ∈ s → mfind (ekey e) (map tomsg s) = Some (tomsg e).2.
Proof.
  induction s as [|x s IH]; intros Hnd Hin; [by apply elem_of_nil in Hin|].
  cbn [map ekey] in Hnd. apply NoDup_cons in Hnd as [Hn Hnd]. cbn [map mfind tomsg fst].
  apply elem_of_cons in Hin as [->|Hin]; [by rewrite key_eqb_refl|].
  assert (Hk : key_eqb (ekey x) (ekey e) = false).
  { apply key_eqb_neq. intros Heq. apply Hn. rewrite Heq. apply elem_of_list_fmap. by exists e. }
  rewrite Hk. by apply IH.
Qed.
Lemma mfind_sfind k s : mfind k (map tomsg s) = option_map (λ e, (tomsg e).2) (sfind k s).
Proof. induction s as [|x s IH]; cbn; [done|]. destruct (key_eqb (ekey x) k); [done|exact IH]. Qed.
Lemma mremove_tomsg k s : mremove k (map tomsg s) = map tomsg (sremove k s).
Proof.
  unfold mremove, sremove. induction s as [|x s IH]; cbn; [done|].
  destruct (key_eqb (ekey x) k); cbn; by rewrite IH.
Qed.
Lemma sfind_Some k s e : sfind k s = Some e → e ∈ s ∧ ekey e = k.
Proof.
  induction s as [|x s IH]; cbn; [done|]. destruct (key_eqb (ekey x) k) eqn:Hk.
  - intros [= ->]. apply key_eqb_eq in Hk. split; [left|done].
  - intros H. destruct (IH H). split; [by right|done].
Qed.
Lemma sfind_None k s : sfind k s = None → k ∉ map ekey s.
Proof.
  induction s as [|x s IH]; cbn; [intros _ H; by apply elem_of_nil in H|].
  destruct (key_eqb (ekey x) k) eqn:Hk; [done|]. intros H Hin. apply key_eqb_neq in Hk.
  apply elem_of_cons in Hin as [?|?]; [done|by apply IH].
Qed.

Definition inkeys (L : list entry) (e : entry) : bool := existsb (key_eqb (ekey e)) (map ekey L).
Lemma fire_expired_spec L : ∀ s, NoDup (map ekey s) → Forall (λ e, e ∈ s) L → NoDup (map ekey L) →
  fire_expired (map proj L) (map tomsg s) =
  (map tomsg (List.filter (λ e, negb (inkeys L e)) s), map (λ e, (ereg e, true)) L).
Proof.
  induction L as [|e L IH]; intros s Hnd Hsub HndL.
  { cbn. f_equal. f_equal. symmetry. by apply filter_list_all, Forall_true. }
  apply Forall_cons in Hsub as [He Hsub]. cbn [map ekey] in HndL. apply NoDup_cons in HndL as [HnL HndL].
  cbn [map fire_expired proj fst]. rewrite mfind_tomsg by done. rewrite mremove_tomsg.
  rewrite IH; [| |  |done].
  - cbn [fst snd tomsg]. f_equal. f_equal. unfold sremove. clear.
    induction s as [|x s IHs]; cbn [List.filter]; [done|]. unfold inkeys at 2. cbn [map existsb].
    destruct (key_eqb (ekey x) (ekey e)) eqn:Hk; cbn [negb orb List.filter]; [done|].
    fold (inkeys L x). destruct (inkeys L x); cbn [negb]; by rewrite IHs.
  - by apply NoDup_map_filter_list.
  - rewrite Forall_forall in Hsub |- *. intros y Hy. apply elem_of_filter_list. split; [by apply Hsub|].
    apply negb_true_iff, key_eqb_neq. intros Heq. apply HnL. rewrite <- Heq. apply elem_of_list_fmap. by exists y.
Qed.

(** ** the refinement relation *)
Record R (q : queue) (s : sstate) : Prop := mkR {
  R_msg : qmsg q = map tomsg s;
  R_items : pitems (qto q) = map proj (dl_sort s);
  R_sorted : bsorted (qto q);
  R_buckets : Forall bucket_ok (qto q);
  R_nodup : NoDup (map ekey s) }.

Lemma R_init : R qempty [].
Proof. split; cbn; try done; try constructor. Qed.

Lemma proj_snd x : (proj x).2 = edl x. Proof. done. Qed.

Lemma due_rdue now e : rdue now (proj e) = due now e. Proof. done. Qed.
Lemma filter_map_proj (P : item → bool) l : List.filter P (map proj l) = map proj (List.filter (λ e, P (proj e)) l).
Proof. induction l as [|x l IH]; cbn; [done|]. destruct (P (proj x)); cbn; by rewrite IH. Qed.

Lemma R_insert q s k ty r d : R q s → sfind k s = None →
  R (Queue (qmsg q ++ [(k, Msg ty r d)]) (pinsert (k, d) (qto q))) (s ++ [Entry k r ty d]).
Proof.
  intros [Hmsg Hitems Hsorted Hbuckets Hnd] Hs. apply sfind_None in Hs.
  destruct (pinsert_spec (k, d) (qto q) Hsorted Hbuckets) as (Hi & Hs' & Hb').
  split; cbn [qmsg qto]; [by rewrite Hmsg, map_app| |done|done|].
  - rewrite Hi, Hitems, (dl_sort_isort s), (dl_sort_isort (s ++ _)), isort_snoc. symmetry. by apply (map_ins edl snd proj).
  - rewrite map_app. apply NoDup_app. split; [done|]. split; [|cbn; apply NoDup_singleton].
    intros k' Hk Hk'. cbn in Hk'. apply elem_of_list_singleton in Hk'. by subst k'.
Qed.

Theorem step_refines q s o : R q s →
  (q_step q o).2 = (spec_step s o).2 ∧ R (q_step q o).1 (spec_step s o).1.
Proof.
  intros [Hmsg Hitems Hsorted Hbuckets Hnd]. destruct o as [pfx mid p d r|pfx mid ty acker|now].
  - (* Insert *)
    cbn [q_step spec_step].
    assert (Hfind : mfind (pfx, mid) (qmsg q) = option_map (λ e, (tomsg e).2) (sfind (pfx, mid) s)) by (rewrite Hmsg; apply mfind_sfind).
    destruct p as [qos| | |]; cbn [expected].
    1: destruct (qos =? 1); [|destruct (qos =? 2)].
    all: try (destruct (mid =? 0); cbn [fst snd]; [by split|]).
    all: try (cbn [fst snd]; by split).
    all: rewrite Hfind; destruct (sfind (pfx, mid) s) as [e0|] eqn:Hs; cbn [option_map fst snd]; [by split|].
    all: split; [done|]; by apply R_insert.
  - (* Ack *)
    cbn [q_step spec_step]. destruct acker; cbn [negb]; [|by split].
    rewrite Hmsg, mfind_sfind. destruct (sfind (pfx, mid) s) as [e|] eqn:Hs; cbn [option_map]; [|by split].
    cbn [tomsg snd mstate mreg mdl]. destruct (eexpect e =? ty); [|by split]. cbn [fst snd]. split; [done|].
    apply sfind_Some in Hs as [Hin Hk].
    assert (Hitin : ((pfx, mid), edl e) ∈ pitems (qto q)).
    { rewrite Hitems. apply elem_of_list_fmap. exists e. split; [by rewrite <- Hk|].
      rewrite dl_sort_isort, isort_perm. done. }
    assert (Hndi : NoDup (map fst (pitems (qto q)))).
    { rewrite Hitems, map_map. cbn. rewrite dl_sort_isort. by rewrite isort_perm. }
    destruct (pdelete_spec _ _ Hsorted Hbuckets Hndi Hitin) as (Hi & Hs' & Hb' & _).
    split; cbn [qmsg qto]; [by rewrite ?Hmsg, mremove_tomsg| |done|done|by apply NoDup_map_filter_list].
    rewrite Hi, Hitems. cbn [fst]. rewrite filter_map_proj. f_equal.
    unfold sremove. rewrite (dl_sort_isort s), (dl_sort_isort (List.filter _ s)). by rewrite filter_isort.
  - (* Sweep *)
    cbn [q_step spec_step fst snd].
    destruct (pexpire_spec now (qto q) Hsorted Hbuckets) as (H1 & H2 & H3 & H4).
    set (L := dl_sort (List.filter (due now) s)).
    assert (HL : (pexpire now (qto q)).1 = map proj L).
    { rewrite H1, Hitems, filter_map_proj. f_equal. unfold L. rewrite (dl_sort_isort s), (dl_sort_isort (List.filter _ s)). apply filter_isort. }
    assert (HLsub : Forall (λ e, e ∈ s) L).
    { rewrite Forall_forall. intros e. unfold L. rewrite dl_sort_isort, isort_perm. intros He.
      apply elem_of_filter_list in He. tauto. }
    assert (HLnd : NoDup (map ekey L)).
    { unfold L. rewrite dl_sort_isort, isort_perm. by apply NoDup_map_filter_list. }
    assert (HLkeys : ∀ e, e ∈ s → inkeys L e = due now e).
    { intros e He. unfold inkeys. destruct (due now e) eqn:Hd.
      - apply existsb_exists. exists (ekey e). split; [|apply key_eqb_refl]. apply elem_of_list_In.
        apply elem_of_list_fmap. exists e. split; [done|]. unfold L. rewrite dl_sort_isort, isort_perm.
        apply elem_of_filter_list. done.
      - apply not_true_is_false. intros Hex. apply existsb_exists in Hex as (k & Hk & Hkeq).
        apply key_eqb_eq in Hkeq. subst k. apply elem_of_list_In, elem_of_list_fmap in Hk as (e' & Hke & He').
        unfold L in He'. rewrite dl_sort_isort, isort_perm in He'. apply elem_of_filter_list in He' as [He' Hd'].
        assert (e = e').
        { clear -Hnd He He' Hke. induction s as [|x s IH]; [by apply elem_of_nil in He|].
          cbn in Hnd. apply NoDup_cons in Hnd as [Hn Hnd].
          apply elem_of_cons in He as [->|He], He' as [->|He']; [done| | |by apply IH].
          - exfalso. apply Hn. rewrite Hke. apply elem_of_list_fmap. by exists e'.
          - exfalso. apply Hn. rewrite <- Hke. apply elem_of_list_fmap. by exists e. }
        subst e'. congruence. }
    rewrite HL, Hmsg, fire_expired_spec by done. cbn [fst snd]. split; [done|].
    assert (Hfilt : List.filter (λ e, negb (inkeys L e)) s = List.filter (λ e, negb (due now e)) s).
    { apply filter_list_ext. intros e He. by rewrite HLkeys. }
    split; cbn [qmsg qto fst snd]; [by rewrite Hfilt| |done|done|by apply NoDup_map_filter_list].
    rewrite H2, Hitems, filter_map_proj. f_equal. rewrite (dl_sort_isort s), (dl_sort_isort (List.filter _ s)). apply filter_isort.
Qed.

Theorem run_refines os : ∀ q s, R q s → (q_run q os).2 = (spec_run s os).2.
Proof.
  induction os as [|o os IH]; intros q s HR; cbn [q_run spec_run snd]; [done|].
  destruct (step_refines q s o HR) as [Hout HR']. rewrite Hout. f_equal. by apply IH.
Qed.
