(** C07 — Retained: the last non-empty publish per topic is replayed to new subscribers.
    Statements only (store level; the replay on a client connection after SUBACK and the
    unflagged live copy are statements about the node model). *)
From Wasp Require Import Model.Base Model.Trie Spec.MatchSpec Model.DState Proofs.BaseFacts Proofs.TrieFacts Proofs.StoreRefine Proofs.Lww Proofs.DStateFacts Proofs.RetainedFacts.
From stdpp Require Import list sets strings.
Open Scope Z_scope.

(** The retained trie: a Match with filter [f] (whose '#', if any, is its last level) returns
    exactly the non-empty values stored under the topics [f] matches, after ANY history of
    inserts and removes. *)
Theorem match_spec : ∀ ops ks f, NoDup ks → touched ops ⊆ ks → filter_ok (levels f) = true →
  tmatch (levels f) (run ops) ≡ₚ
  filter (λ v, nonempty v = true) (map (spec_run ops) (filter (λ k, mmatch (levels f) (levels k) = true) ks)).
Proof. exact tmatch_spec. Qed.
Print Assumptions match_spec.

(** After any history of operations on a node, what the store holds for topic [t] is decided
    by the last retained publish or clear on [t] alone - operations on other topics (prefixes
    included), sessions and subscriptions do not matter: a publish leaves an added entry with
    that message, a clear leaves a tombstone. *)
Theorem retained_last_write : ∀ os d t, Forall op_valid os →
  match last_write t os with
  | Some w => holds (drun d os) t w
  | None => abs_ret (d_ret (drun d os)) t = abs_ret (d_ret d) t
  end.
Proof. exact retained_last_write. Qed.
Print Assumptions retained_last_write.

(** Get(filter) lists an entry iff it is the stored, added (i.e. last write non-empty) entry
    of a topic the filter matches, and lists no topic twice. *)
Theorem get_exactly_matching : ∀ d f r, flat_ok ret_key (d_ret d) → filter_ok (levels f) = true →
  r ∈ ret_get d f ↔ abs_ret (d_ret d) (ret_key r) = Some r ∧ ret_added r = true ∧ mmatch (levels f) (levels (ret_key r)) = true.
Proof. exact ret_get_member. Qed.
Print Assumptions get_exactly_matching.
Theorem get_once_per_topic : ∀ d f, flat_ok ret_key (d_ret d) → NoDup (map ret_key (ret_get d f)).
Proof. exact ret_get_nodup. Qed.
Print Assumptions get_once_per_topic.

(** replication: the retained store is a last-writer-wins map (C08, C09) *)
Theorem retained_replicates : ∀ t r k,
  abs_ret (merge_ret1 t r) k = if ret_eff r then amerge1 ret_key ret_ts (abs_ret t) r k else abs_ret t k.
Proof. exact merge_ret1_abs. Qed.
Print Assumptions retained_replicates.

From Wasp Require Import Model.IdPool Model.Mount Model.Node.
(** on a client connection (node model; regression example): the replay follows the SUBACK,
    carries the retain flag and the subscription's QoS, once per matching topic per filter; the
    live copy is not flagged; a cleared topic is not replayed; a filter that matches nothing does
    not stop the replay of the next filter *)
Example c07_replay :
  let run := fold_left (λ st o, let r := step [] st.1 o in (r.1, (st.2 ++ [r.2])%list)) in
  let ops := [EConnect 0%nat "live" "cl" "" "" 60 None 10; ESubscribe "live" 1 [("#", 0)] 20;
              EConnect 0%nat "pub" "cp" "" "" 60 None 30;
              EPublish "pub" (Publish "a" "1" 0 true false) false 0 40; EPublish "pub" (Publish "a/b" "2" 0 true false) false 0 50;
              EPublish "pub" (Publish "a" "" 0 true false) false 0 60;
              EConnect 0%nat "late" "cx" "" "" 60 None 70; ESubscribe "late" 2 [("nothing/here", 0); ("a/#", 0)] 80] in
  let o := (run ops (cnew 1%nat, [])).2 in
  nth 3%nat o [] = [Appended 0%nat "_default/a" "1" 0 false; Deadline "pub" 120000; Out "live" (OPublish "a" "1" 0 false false 0)]
  ∧ nth 7%nat o [] = [Out "late" (OSubAck 2 [0; 0]); Out "late" (OPublish "a/b" "2" 0 true false 0); Deadline "late" 120000].
Proof. vm_compute. done. Qed.

From Wasp Require Import Proofs.NodeFacts Proofs.Qos2Facts Proofs.StepFacts.
(** The SUBSCRIBE step as a whole, from EVERY cluster state whose log consumers have caught up:
    the SUBACK, then for each filter of the packet, in order, exactly the messages [Get] returns
    for that filter inside the session's mount point — on the session's own connection, mount
    point trimmed, with the stored payload and flags — then the keep-alive re-arm; nothing is
    written to anybody else.  Which messages [Get] returns is [get_exactly_matching] (the added
    entries of exactly the matching topics, once each) and what is stored per topic is
    [retained_last_write] (the last write).  Stated for QoS 0 filters, where the packets carry
    no identifier; at QoS 1/2 the same packets carry pool identifiers (C02 [qos_recipient_is_written]). *)
Theorem subscribe_replays_exactly : ∀ seen cl c k s mid fs clk,
  find_conn cl c = Some k → c_closed k = false → c_sid k = Some (ss_id s) →
  alookup (ss_id s) (n_reg (getn cl (c_node k))) = Some s →
  quiescent cl → Forall (λ fq : string * Z, fq.2 = 0) fs →
  (step seen cl (ESubscribe c mid fs clk)).2 =
    (wout (cl_bad cl) c (OSubAck mid (map snd fs)) ++
     flat_map (λ fq, flat_map (λ r, wout (cl_bad cl) (ss_conn s)
                                      (OPublish (trim_mp (ss_mp s) (p_topic (r_pub r))) (p_payload (r_pub r)) 0 (p_retain (r_pub r)) (p_dup (r_pub r)) 0))
                              (ret_get (n_d (getn cl (c_node k))) (prefix_mp (ss_mp s) fq.1))) fs ++
     dl s)%list.
Proof. exact subscribe_step_spec. Qed.
Print Assumptions subscribe_replays_exactly.

(** The retained PUBLISH itself, as a whole step (Proofs/StepFacts.v): the worker writes — or, for an
    empty payload, clears — the retained entry of the publisher's node ([after_retain]; this touches
    no subscription and no registry: [retained_write_touches_no_subscription]), and the copies then
    written to the live subscribers are those of [m], whose retain flag is false: the live copy is
    not flagged, whatever the flag of the incoming packet. *)
Theorem live_copy_is_not_flagged : ∀ seen cl c k s p dup mid clk,
  find_conn cl c = Some k → c_closed k = false → c_sid k = Some (ss_id s) →
  alookup (ss_id s) (n_reg (getn cl (c_node k))) = Some s →
  quiescent cl → healthy cl → (p_qos p = 0 ∨ p_qos p = 1) →
  let i := c_node k in
  let m := LMsg (prefix_mp (ss_mp s) (p_topic p)) (p_payload p) (p_qos p) false dup in
  let cl1 := after_retain cl i p (ss_mp s) dup clk in
  Forall (λ d, 1 ≤ d) (NodeFacts.dests_of cl1 i m) →
  ∃ stores, NodeFacts.quiet (λ x, negb (is_store x)) stores ∧
    (step seen cl (EPublish c p dup mid clk)).2 =
      (stores ++ (if p_qos p =? 1 then wout (cl_bad cl) c (OPubAck mid) else []) ++ dl s ++
       flat_map (λ j, if dest_here cl1 i m j then deliveries (cl_bad cl) (app_node (getn cl1 j) m) m else []) (seq 0 (nlen cl)))%list.
Proof. exact publish_step_spec_retained. Qed.
Print Assumptions live_copy_is_not_flagged.
Theorem retained_write_touches_no_subscription : ∀ cl i p mp dup clk j topic,
  sub_by_pattern (n_d (getn (after_retain cl i p mp dup clk) j)) topic = sub_by_pattern (n_d (getn cl j)) topic
  ∧ n_reg (getn (after_retain cl i p mp dup clk) j) = n_reg (getn cl j).
Proof. exact after_retain_untouched. Qed.
Print Assumptions retained_write_touches_no_subscription.

(** the premises hold in a reachable state (the one before the last step of [c07_replay]) *)
Example subscribe_premises_hold :
  let ops := [EConnect 0%nat "pub" "cp" "" "" 60 None 30;
              EPublish "pub" (Publish "a" "1" 0 true false) false 0 40; EPublish "pub" (Publish "a/b" "2" 0 true false) false 0 50;
              EPublish "pub" (Publish "a" "" 0 true false) false 0 60; EConnect 0%nat "late" "cx" "" "" 60 None 70] in
  let cl := fold_left (λ st o, (step [] st o).1) ops (cnew 1%nat) in
  quiescent cl ∧
  (∃ k s, find_conn cl "late" = Some k ∧ c_closed k = false ∧ alookup "s002" (n_reg (getn cl (c_node k))) = Some s ∧ c_sid k = Some (ss_id s) ∧
          map (λ r, p_payload (r_pub r)) (ret_get (n_d (getn cl (c_node k))) (prefix_mp (ss_mp s) "a/#")) = ["2"]).
Proof.
  cbv zeta. split.
  - intros [|j] Hj; [vm_compute; done|]. vm_compute in Hj. lia.
  - eexists _, _. vm_compute. repeat split; reflexivity.
Qed.

Example c07_history :
  let os := [DRetSet (Publish "mp/a" "1" 0 true false) 10; DRetSet (Publish "mp/a/b" "2" 1 true false) 11; DRetSet (Publish "mp/a" "3" 0 true false) 12;
             DRetDelete "mp/a/b" 13; DRetSet (Publish "mp/b" "4" 0 true false) 14] in
  map (λ r, p_payload (r_pub r)) (ret_get (drun (dnew 1) os) "mp/#") = ["3"; "4"]
  ∧ map (λ r, p_payload (r_pub r)) (ret_get (drun (dnew 1) os) "mp/+/b") = [].
Proof. vm_compute. done. Qed.
