(** C12 — One live session per client identifier. *)
From Wasp Require Import Model.Base Spec.MatchSpec Model.DState Model.IdPool Model.Mount Model.Node Proofs.BaseFacts Proofs.MountFacts Proofs.NodeFacts Proofs.DStateFacts Proofs.TakeoverFacts.
From stdpp Require Import list strings.
Open Scope Z_scope.

(** Tearing down a displaced session (its client identifier now resolves to another session)
    changes no session record at all, publishes no will, and only tombstones subscriptions keyed
    by its own session id. *)
Theorem teardown_spares_new : ∀ cl i s d clk, mine_of (after_unsub cl i s clk) s = Some false →
  (shutdown cl i s d clk).2 = [Closed (ss_conn s)] ∧ (shutdown cl i s d clk).1 = setn cl i (after_unsub cl i s clk).
Proof. exact no_will_when_displaced. Qed.
Print Assumptions teardown_spares_new.
Theorem teardown_keeps_records : ∀ cl i s clk, d_sess (n_d (after_unsub cl i s clk)) = d_sess (n_d (getn cl i)).
Proof. exact teardown_spares_records. Qed.
Print Assumptions teardown_keeps_records.

(** The new session is always established.  On the node that serves a CONNECT whose client
    identifier is in use (and whose credentials are accepted): the replicated session map becomes
    [takeover d ...] — the record the identifier resolved to is tombstoned, the new one stored —
    the identifier resolves to the new session and to nothing else, the session is registered
    and CONNACK 0 is written.  Premises: the authenticator's session id is fresh, the strings are
    well-formed UTF-8 (F22), the node's clock reading is above the stamp of the record it
    replaces (LWW with wall clocks cannot do without: C08), and the identifier resolved to at most
    one session before. *)
Theorem new_session_established : ∀ cl i c cid user pass ka will clk,
  (i < length (cl_nodes cl))%nat →
  String.eqb pass "bad" || String.eqb pass "bad-static" = false →
  let mp := if String.eqb user "" then "_default" else user in
  let id := session_id (cl_next cl) in
  let d := n_d (getn cl i) in
  sess_ok (d_sess d) → alookup id (d_sess d) = None → id ≠ "" →
  utf8_ok id = true → utf8_ok cid = true → utf8_ok mp = true → 0 < clk →
  (∀ m, m ∈ sess_by_client mp cid d → sess_ts m < clk) →
  (∀ m m', m ∈ sess_by_client mp cid d → m' ∈ sess_by_client mp cid d → m = m') →
  let r := setup cl i c cid user pass ka will clk in
  let new := SMeta id cid mp (d_peer d) will clk 0 in
  n_d (getn r.1 i) = takeover d id cid mp will clk ∧
  owner (getn r.1 i) mp cid = Some new ∧
  alookup id (n_reg (getn r.1 i)) = Some (Sess id cid mp will ka [] c) ∧
  Out c (OConnAck 0) ∈ r.2.
Proof. exact takeover_established. Qed.
Print Assumptions new_session_established.

(** ... and becomes the one that every node resolves the identifier to: any node whose view
    agreed with the serving node's before, and that merges the broadcasts the takeover queued,
    resolves the identifier to exactly the new session. *)
Theorem every_node_resolves_new : ∀ d r id cid mp lwt clk,
  dok d → dok r → same_abs d r → alookup id (d_sess d) = None → id ≠ "" →
  utf8_ok id = true → utf8_ok cid = true → utf8_ok mp = true → 0 < clk →
  (∀ m, m ∈ sess_by_client mp cid d → sess_ts m < clk) →
  (∀ m m', m ∈ sess_by_client mp cid d → m' ∈ sess_by_client mp cid d → m = m') →
  let ops := match hd_error (sess_by_client mp cid d) with
             | Some m => [DSessDelete (m_sid m) clk; DSessCreate id cid mp lwt clk]
             | None => [DSessCreate id cid mp lwt clk] end in
  let run := origin_run d ops in
  run.1 = takeover d id cid mp lwt clk ∧
  ∀ m, m ∈ sess_by_client mp cid (fold_left merge_event run.2 r) ↔ m = SMeta id cid mp (d_peer d) lwt clk 0.
Proof. exact takeover_everywhere. Qed.
Print Assumptions every_node_resolves_new.

(** ... the earlier session stops being served no later than its next keep-alive exchange: a
    PINGREQ on a session whose identifier resolves elsewhere (or to nothing) is answered by closing
    the connection and by nothing else; the session the identifier resolves to gets its PINGRESP
    and the cluster state is unchanged. *)
Theorem displaced_stops_being_served : ∀ cl c clk k sid s,
  find_conn cl c = Some k → c_closed k = false → c_sid k = Some sid →
  alookup sid (n_reg (getn cl (c_node k))) = Some s →
  (∀ m, owner (getn cl (c_node k)) (ss_mp s) (ss_cid s) = Some m → m_sid m ≠ ss_id s) →
  (do_ping cl c clk).2 = [Closed (ss_conn s)].
Proof. exact displaced_not_served. Qed.
Print Assumptions displaced_stops_being_served.
Theorem live_session_is_served : ∀ cl c clk k sid s m,
  find_conn cl c = Some k → c_closed k = false → c_sid k = Some sid →
  alookup sid (n_reg (getn cl (c_node k))) = Some s →
  owner (getn cl (c_node k)) (ss_mp s) (ss_cid s) = Some m → m_sid m = ss_id s →
  do_ping cl c clk = (cl, wout (cl_bad cl) c OPingResp ++ dl s).
Proof. exact live_session_answered. Qed.
Print Assumptions live_session_is_served.

(** the premises are met by a reachable state in which the identifier is in use: node 1 of the
    history below, just before the second CONNECT *)
Example takeover_premises_hold :
  let run := fold_left (λ st o, (step [] st o).1) in
  let cl := run [EConnect 0%nat "old" "dev" "" "" 60 None 10; ESubscribe "old" 1 [("t", 0)] 20; EGossip 0%nat 1%nat] (cnew 2%nat) in
  let d := n_d (getn cl 1%nat) in
  d_sess d = [("s001", SMeta "s001" "dev" "_default" 1 None 10 0)] ∧
  sess_by_client "_default" "dev" d = [SMeta "s001" "dev" "_default" 1 None 10 0] ∧
  session_id (cl_next cl) = "s002" ∧ utf8_ok "s002" && utf8_ok "dev" && utf8_ok "_default" = true.
Proof. vm_compute. done. Qed.

(** takeover on one node and across nodes (non-vacuity / regression examples): the new session
    is established, the old one gets no PINGRESP and is closed at its next keep-alive exchange,
    only the new one is listed and receives, and a connection with the same identifier in
    another mount point displaces nobody *)
Example c12_history :
  let run := fold_left (λ st o, let r := step [] st.1 o in (r.1, (st.2 ++ [r.2])%list)) in
  let ops := [EConnect 0%nat "old" "dev" "" "" 60 None 10; ESubscribe "old" 1 [("t", 0)] 20; EGossip 0%nat 1%nat;
              EConnect 1%nat "new" "dev" "" "" 60 None 30; ESubscribe "new" 1 [("t", 0)] 40; EGossip 1%nat 0%nat;
              EConnect 0%nat "tz" "dev" "tz" "" 60 None 50;
              EPing "old" 60; EPing "new" 70; EGossip 0%nat 1%nat; ECheck 1%nat] in
  let o := (run ops (cnew 2%nat, [])).2 in
  nth 3%nat o [] = [Out "new" (OConnAck 0); Deadline "new" 120000]
  ∧ nth 7%nat o [] = [Closed "old"]
  ∧ nth 8%nat o [] = [Out "new" OPingResp; Deadline "new" 120000]
  ∧ match nth 10%nat o [] with [Listed _ ss sb reg _] => map m_sid ss = ["s002"; "s003"] ∧ map s_sid sb = ["s002"] ∧ reg = ["s002"] | _ => False end.
Proof. vm_compute. done. Qed.
