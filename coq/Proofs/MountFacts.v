From Wasp Require Import Model.Base Spec.MatchSpec Model.Mount Proofs.BaseFacts.
From stdpp Require Import list strings.

Theorem prefix_trim mp t : trim_mp mp (prefix_mp mp t) = t.
Proof. unfold trim_mp, prefix_mp. induction mp as [|c mp IH]; simpl; [done|exact IH]. Qed.

Theorem levels_prefix mp t : no_slash mp = true → levels (prefix_mp mp t) = mp :: levels t.
Proof.
  unfold levels, prefix_mp. induction mp as [|c mp IH]; cbn [no_slash append split_on].
  - intros _. simpl. done.
  - intros [Hc Hns]%andb_true_iff. apply negb_true_iff in Hc. change (String c mp +:+ "/" +:+ t) with (String c (mp +:+ "/" +:+ t)). cbn [split_on].
    rewrite Hc. by rewrite IH.
Qed.

Lemma mp_ok_spec mp : mp_ok mp = true → no_slash mp = true ∧ mp ≠ "" ∧ mp ≠ "+" ∧ mp ≠ "#".
Proof.
  unfold mp_ok. rewrite !andb_true_iff, !negb_true_iff, !String.eqb_neq. tauto.
Qed.

Theorem no_cross_match mp1 mp2 f t : mp_ok mp1 = true → mp_ok mp2 = true → mp1 ≠ mp2 →
  mmatch (levels (prefix_mp mp1 f)) (levels (prefix_mp mp2 t)) = false.
Proof.
  intros (H1 & _ & Hp & Hh)%mp_ok_spec (H2 & _)%mp_ok_spec Hne. rewrite !levels_prefix by done. cbn [mmatch].
  rewrite (eqb_ne mp1 "#") by done. cbn [andb].
  rewrite (eqb_ne mp1 "+") by done. rewrite (eqb_ne mp1 mp2) by done. done.
Qed.

Theorem same_tenant_match mp f t : mp_ok mp = true →
  mmatch (levels (prefix_mp mp f)) (levels (prefix_mp mp t)) = mmatch (levels f) (levels t).
Proof.
  intros (H & _ & _ & Hh)%mp_ok_spec. rewrite !levels_prefix by done. cbn [mmatch].
  rewrite (eqb_ne mp "#") by done. cbn [andb]. rewrite String.eqb_refl, orb_true_r. done.
Qed.

(** a prefixed topic is a valid publish topic iff the client's topic is *)
Theorem topic_ok_prefix mp t : mp_ok mp = true → topic_ok (levels (prefix_mp mp t)) = topic_ok (levels t).
Proof.
  intros (H & _ & _ & Hh)%mp_ok_spec. rewrite levels_prefix by done. cbn [topic_ok forallb].
  by rewrite (eqb_ne mp "#") by done.
Qed.
