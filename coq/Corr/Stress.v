(** Evaluator for family "stress" (C20): the harness reports, per stress scenario, whether the
    invariants that must survive any interleaving held afterwards (a data race reported by the
    race detector kills the harness process and is reported by the driver with the race report). *)
From Wasp Require Export Model.Base.
Definition case : Type := (N * string * bool * list string)%type.
Definition model_ok (c : case) : bool := true.
Definition oracle_ok (c : case) : bool := snd (fst c).
Definition case_id (c : case) : N := fst (fst (fst c)).
Definition mismatches (cs : list case) : list N := map case_id (filter (fun c => negb (model_ok c)) cs).
Definition oracle_failures (cs : list case) : list N := map case_id (filter (fun c => negb (oracle_ok c)) cs).
