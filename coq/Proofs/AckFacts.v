(** C03, completion over reachable states: the expected acknowledgement of a pending QoS 1
    delivery (PUBACK) or of a pending PUBREL (PUBCOMP) sends nothing, removes the entry, and the
    identifier is free in the pool again and held by nothing. *)
From Wasp Require Import Model.Base Spec.MatchSpec Model.DState Model.IdPool Model.Mount Model.Node
  Proofs.BaseFacts Proofs.IdPoolFacts Proofs.DStateFacts Proofs.NodeFacts Proofs.IdsFacts.
From stdpp Require Import list strings.
From Coq Require Import ZArith Lia.
Open Scope Z_scope.

Definition completing (e : aentry) (ty : Z) : Prop :=
  (∃ p, a_tag e = TQ1 (a_prefix e) p ∧ ty = PUBACK) ∨ (a_tag e = TQ2Rel (a_prefix e) (a_mid e) ∧ ty = PUBCOMP).

Theorem ack_completes cl c ty mid clk k s e :
  cl_ok cl → (c_node k < length (cl_nodes cl))%nat →
  find_conn cl c = Some k → c_closed k = false → c_sid k = Some (ss_id s) →
  alookup (ss_id s) (n_reg (getn cl (c_node k))) = Some s →
  ty ≠ PUBREL → ack_find (n_acks (getn cl (c_node k))) (ss_id s) mid = Some e → a_expect e = ty → completing e ty →
  let r := do_ack cl c ty mid clk in
  let n' := getn r.1 (c_node k) in
  r.2 = dl s ∧
  ack_find (n_acks n') (ss_id s) mid = None ∧ mid ∉ out_mids (n_acks n') ∧ infree (ivs (n_pool n')) mid ∧ node_ok n'.
Proof.
  intros Hok Hlen Hk Hc Hs Hreg Hty Hfind Hexp Hcomp r n'.
  set (n := getn cl (c_node k)) in *.
  destruct (getn_ok cl (c_node k) Hok) as [G1 R1]. fold n in G1, R1.
  destruct (ack_find_Some _ _ _ _ Hfind) as (Hin & Hp & Hm).
  destruct (G_remove _ _ _ e G1 Hin) as (G2 & Hkey & Htag & _). unfold akey in Hkey. rewrite Hp, Hm in G2, Hkey.
  assert (Hout : outbound e = true). { unfold outbound. destruct Hcomp as [(p & -> & _)|[-> _]]; done. }
  rewrite Hout in G2.
  set (n0 := set_acks n (ack_remove (n_acks n) (ss_id s) mid)).
  assert (Hrel : (on_outcome (cl_bad cl) n0 e false) = (release n0 mid, [], None)).
  { unfold on_outcome. destruct Hcomp as [(p & Ht & _)|[Ht _]]; rewrite Ht.
    - unfold tag_ok in Htag. rewrite Ht in Htag. destruct Htag as [Hpm _]. rewrite Hp. cbn [n_reg n0 set_acks]. rewrite Hreg. by rewrite Hpm, Hm.
    - rewrite Hp. cbn [n_reg n0 set_acks]. rewrite Hreg. by rewrite Hm. }
  assert (Hdo : do_ack cl c ty mid clk = (setn cl (c_node k) (release n0 mid), dl s)).
  { unfold do_ack, with_session. rewrite Hk, Hc, Hs. fold n. rewrite Hreg.
    assert ((if ty =? PUBREL then (ss_id s ++ "/in")%string else ss_id s) = ss_id s) as -> by (destruct (Z.eqb_spec ty PUBREL); [done|done]).
    rewrite Hfind, Hexp, Z.eqb_refl. fold n0. rewrite Hrel. done. }
  subst n' r. rewrite Hdo. cbn [fst snd]. rewrite getn_setn by done.
  assert (G3 : GN (release n0 mid) []). { unfold release, GN. cbn [n_acks n_pool set_pool set_acks n0]. apply G_put. exact G2. }
  split; [done|]. split; [|split; [|split]].
  - unfold release, n0. cbn [n_acks set_pool set_acks]. apply ack_find_None. exact Hkey.
  - unfold release, n0. cbn [n_acks set_pool set_acks]. pose proof (g_nodup _ _ _ G2) as Hnd. apply NoDup_app in Hnd as (_ & Hd & _).
    intros Hx. apply (Hd mid Hx). apply elem_of_cons. by left.
  - pose proof G3 as [_ _ _ _ _ _ _ G8]. rewrite app_nil_r in G8. apply G8.
    + apply (g_range _ _ _ G2). apply elem_of_app. right. apply elem_of_cons. by left.
    + unfold release, n0. cbn [n_acks set_pool set_acks]. pose proof (g_nodup _ _ _ G2) as Hnd. apply NoDup_app in Hnd as (_ & Hd & _).
      intros Hx. apply (Hd mid Hx). apply elem_of_cons. by left.
  - split; [exact G3|]. exact R1.
Qed.
