#!/usr/bin/env python3
"""selftest/sweep.py [ids...]: run every seeded defect (or the given ones) against the quick check of
its property; prints a table and writes selftest/sweep_result.json. /repo must be clean."""
import sys, os, json, subprocess, glob, time
V='/verif'
ids = sys.argv[1:] or sorted(os.path.basename(d) for d in glob.glob(V+'/seeded/*') if os.path.isdir(d))
res = {}
if os.path.exists(V+'/selftest/sweep_result.json'):
    res = json.load(open(V+'/selftest/sweep_result.json'))
for sid in ids:
    prop = sid.split('-')[0]
    patch = '%s/seeded/%s/patch.diff' % (V, sid)
    if subprocess.run(['git','-C','/repo','apply','--check',patch]).returncode != 0:
        res[sid] = dict(verdict='patch does not apply'); print(sid, res[sid]); continue
    subprocess.check_call(['git','-C','/repo','apply',patch])
    t=time.time()
    try:
        r = subprocess.run([V+'/bin/check', prop], stdout=subprocess.PIPE, stderr=subprocess.STDOUT, text=True)
    finally:
        subprocess.check_call(['git','-C','/repo','checkout','--','.'])
    v = [l for l in r.stdout.splitlines() if l.startswith('VIOLATION')]
    verdict = 'clean' if r.returncode == 0 else ('VIOLATION(no-failing-input)' if v and all('no-failing-input-found' in l for l in v) else 'VIOLATION' if v else 'exit %d' % r.returncode)
    res[sid] = dict(property=prop, verdict=verdict, wall_s=round(time.time()-t,1))
    print('%-8s %-28s %5.1fs' % (sid, verdict, time.time()-t), flush=True)
    json.dump(res, open(V+'/selftest/sweep_result.json','w'), indent=1, sort_keys=True)
