package main

// Family "locks" (C20): a small go/ast extractor that reads the CURRENT sources of the shared
// objects under /repo and emits, for every method of the anchored types, how it takes the
// object's mutex (at the head of the body with a deferred unlock, or not at all), which receiver
// fields it touches (and which of them before the lock is taken), and which sibling methods it
// calls and whether it holds the lock at the call. The table is data: the policy that decides
// whether "each method is one atomic step" holds is Coq/Corr/Locks.v.

import (
	"encoding/json"
	"fmt"
	"go/ast"
	"go/parser"
	"go/token"
	"os"
	"path/filepath"
	"sort"
)

type lockTarget struct {
	File string `json:"file"`
	Type string `json:"type"`
	Mtx  string `json:"mtx"`
}
type locksInput struct {
	Targets []lockTarget `json:"targets"`
}
type locksFamily struct{}

func init() { register("locks", locksFamily{}) }

func repoRoot() string {
	if r := os.Getenv("VERIF_REPO"); r != "" {
		return r
	}
	return "/repo"
}

func (locksFamily) Gen(n int, seed int64, mode, tier string) []interface{} {
	return []interface{}{locksInput{Targets: []lockTarget{
		{"wasp/state.go", "lockedMapState", "mtx"},
		{"wasp/idpool.go", "simpleMidPool", "mtx"},
		{"wasp/expiration/pqueue.go", "pqList", "mtx"},
		{"wasp/expiration/bucket.go", "bucket", "mtx"},
		{"topics/tree.go", "tree", "mtx"},
		{"subscriptions/node.go", "tree", "mtx"},
		{"wasp/distributed/sessions.go", "sessionMetadatasState", "mu"},
		{"wasp/distributed/subscriptions.go", "subscriptionsState", "mu"},
		{"wasp/distributed/topics.go", "topicsState", "mu"},
		{"wasp/sessions/session.go", "Session", "mtx"},
		{"wasp/writer.go", "writer", "mtx"},
		{"wasp/ack/queue.go", "queue", ""},
	}}}
}

type methodRow struct {
	File, Type, Name string
	Exported         bool
	Lock             int // 0 none, 1 Lock at head + defer Unlock, 2 RLock at head + defer RUnlock
	Pre              []string
	Fields           []string
	Calls            []string // sibling methods called without holding the lock (lexically)
	CallsLocked      []string // sibling methods called while holding the lock
}

func recvName(fd *ast.FuncDecl) (name, typ string) {
	if fd.Recv == nil || len(fd.Recv.List) == 0 {
		return "", ""
	}
	f := fd.Recv.List[0]
	if len(f.Names) > 0 {
		name = f.Names[0].Name
	}
	switch t := f.Type.(type) {
	case *ast.StarExpr:
		if id, ok := t.X.(*ast.Ident); ok {
			typ = id.Name
		}
	case *ast.Ident:
		typ = t.Name
	}
	return
}

// isMtxCall: recv.mtx.<meth>()
func isMtxCall(e ast.Expr, recv, mtx string) string {
	call, ok := e.(*ast.CallExpr)
	if !ok {
		return ""
	}
	sel, ok := call.Fun.(*ast.SelectorExpr)
	if !ok {
		return ""
	}
	inner, ok := sel.X.(*ast.SelectorExpr)
	if !ok {
		return ""
	}
	id, ok := inner.X.(*ast.Ident)
	if !ok || id.Name != recv || inner.Sel.Name != mtx {
		return ""
	}
	return sel.Sel.Name
}

func uniq(xs []string) []string {
	m := map[string]bool{}
	var out []string
	for _, x := range xs {
		if !m[x] {
			m[x] = true
			out = append(out, x)
		}
	}
	sort.Strings(out)
	return out
}

func fieldsIn(n ast.Node, recv string, methods map[string]bool) (fields []string) {
	ast.Inspect(n, func(x ast.Node) bool {
		if sel, ok := x.(*ast.SelectorExpr); ok {
			if id, ok := sel.X.(*ast.Ident); ok && id.Name == recv && !methods[sel.Sel.Name] {
				fields = append(fields, sel.Sel.Name)
			}
		}
		return true
	})
	return
}

func analyse(fd *ast.FuncDecl, recv, mtx string, methods map[string]bool) methodRow {
	row := methodRow{Name: fd.Name.Name, Exported: fd.Name.IsExported()}
	if fd.Body == nil {
		return row
	}
	stmts := fd.Body.List
	// head lock: the first statement that is not a pure guard is recv.mtx.Lock()/RLock(), the next a deferred unlock
	lockIdx := -1
	for i, st := range stmts {
		if es, ok := st.(*ast.ExprStmt); ok && mtx != "" {
			if m := isMtxCall(es.X, recv, mtx); m == "Lock" || m == "RLock" {
				if i+1 < len(stmts) {
					if ds, ok := stmts[i+1].(*ast.DeferStmt); ok {
						if u := isMtxCall(ds.Call, recv, mtx); (m == "Lock" && u == "Unlock") || (m == "RLock" && u == "RUnlock") {
							lockIdx = i
							if m == "Lock" {
								row.Lock = 1
							} else {
								row.Lock = 2
							}
						}
					}
				}
				break
			}
		}
		// anything but an if-guard before the lock ends the search
		if _, ok := st.(*ast.IfStmt); !ok {
			if _, ok := st.(*ast.ExprStmt); !ok {
				break
			}
		}
	}
	if lockIdx > 0 {
		for _, st := range stmts[:lockIdx] {
			row.Pre = append(row.Pre, fieldsIn(st, recv, methods)...)
		}
	}
	for _, f := range fieldsIn(fd.Body, recv, methods) {
		if f != mtx {
			row.Fields = append(row.Fields, f)
		}
	}
	// sibling calls, with the lexical lock state at the call
	var walk func(list []ast.Stmt, held bool) bool
	record := func(n ast.Node, held bool) {
		ast.Inspect(n, func(x ast.Node) bool {
			if _, isLit := x.(*ast.FuncLit); isLit {
				return false // closures run later, possibly without the lock: recorded separately below
			}
			if call, ok := x.(*ast.CallExpr); ok {
				if sel, ok := call.Fun.(*ast.SelectorExpr); ok {
					if id, ok := sel.X.(*ast.Ident); ok && id.Name == recv && methods[sel.Sel.Name] {
						if held || row.Lock != 0 {
							row.CallsLocked = append(row.CallsLocked, sel.Sel.Name)
						} else {
							row.Calls = append(row.Calls, sel.Sel.Name)
						}
					}
				}
			}
			return true
		})
	}
	walk = func(list []ast.Stmt, held bool) bool {
		for _, st := range list {
			if es, ok := st.(*ast.ExprStmt); ok && mtx != "" {
				switch isMtxCall(es.X, recv, mtx) {
				case "Lock", "RLock":
					held = true
					continue
				case "Unlock", "RUnlock":
					held = false
					continue
				}
			}
			switch s := st.(type) {
			case *ast.BlockStmt:
				held = walk(s.List, held)
			case *ast.IfStmt:
				record(s.Cond, held)
				walk(s.Body.List, held)
				if s.Else != nil {
					if b, ok := s.Else.(*ast.BlockStmt); ok {
						walk(b.List, held)
					} else {
						walk([]ast.Stmt{s.Else}, held)
					}
				}
			case *ast.ForStmt:
				walk(s.Body.List, held)
			case *ast.RangeStmt:
				walk(s.Body.List, held)
			case *ast.SelectStmt:
				for _, cc := range s.Body.List {
					walk(cc.(*ast.CommClause).Body, held)
				}
			case *ast.SwitchStmt:
				for _, cc := range s.Body.List {
					walk(cc.(*ast.CaseClause).Body, held)
				}
			case *ast.TypeSwitchStmt:
				for _, cc := range s.Body.List {
					walk(cc.(*ast.CaseClause).Body, held)
				}
			default:
				record(st, held)
			}
		}
		return held
	}
	walk(stmts, false)
	// calls inside closures (callbacks, goroutines): never counted as under the lock
	ast.Inspect(fd.Body, func(x ast.Node) bool {
		if lit, ok := x.(*ast.FuncLit); ok {
			ast.Inspect(lit.Body, func(y ast.Node) bool {
				if call, ok := y.(*ast.CallExpr); ok {
					if sel, ok := call.Fun.(*ast.SelectorExpr); ok {
						if id, ok := sel.X.(*ast.Ident); ok && id.Name == recv && methods[sel.Sel.Name] {
							row.Calls = append(row.Calls, sel.Sel.Name)
						}
					}
				}
				return true
			})
			return false
		}
		return true
	})
	row.Pre, row.Fields, row.Calls, row.CallsLocked = uniq(row.Pre), uniq(row.Fields), uniq(row.Calls), uniq(row.CallsLocked)
	return row
}

func (locksFamily) Exec(id int, raw json.RawMessage) Case {
	var in locksInput
	if err := json.Unmarshal(raw, &in); err != nil {
		panic(err)
	}
	c := Case{ID: id}
	var rows []methodRow
	fset := token.NewFileSet()
	for _, tg := range in.Targets {
		path := filepath.Join(repoRoot(), tg.File)
		f, err := parser.ParseFile(fset, path, nil, 0)
		if err != nil {
			rows = append(rows, methodRow{File: tg.File, Type: tg.Type, Name: "PARSE-ERROR " + err.Error()})
			continue
		}
		methods := map[string]bool{}
		var decls []*ast.FuncDecl
		for _, d := range f.Decls {
			if fd, ok := d.(*ast.FuncDecl); ok {
				if _, typ := recvName(fd); typ == tg.Type {
					methods[fd.Name.Name] = true
					decls = append(decls, fd)
				}
			}
		}
		for _, fd := range decls {
			recv, _ := recvName(fd)
			r := analyse(fd, recv, tg.Mtx, methods)
			r.File, r.Type = tg.File, tg.Type
			rows = append(rows, r)
		}
	}
	var terms []string
	var obs []interface{}
	for _, r := range rows {
		terms = append(terms, fmt.Sprintf("MRow %s %s %s %s %s %s %s %s %s", cqStr(r.File), cqStr(r.Type), cqStr(r.Name), cqBool(r.Exported), cqNat(r.Lock),
			cqStrs(r.Pre), cqStrs(r.Fields), cqStrs(r.Calls), cqStrs(r.CallsLocked)))
		obs = append(obs, fmt.Sprintf("%s (%s).%s lock=%d pre=%v fields=%v calls=%v locked-calls=%v", r.File, r.Type, r.Name, r.Lock, r.Pre, r.Fields, r.Calls, r.CallsLocked))
	}
	c.Obs = obs
	c.Coq = fmt.Sprintf("(%s, %s)", cqN(int64(id)), cqList(terms))
	c.Nontrivial = len(rows) > 10
	c.Sig = fmt.Sprint(obs)
	return c
}
