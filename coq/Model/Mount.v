(** wasp/sessions/session.go: prefixMountPoint / trimMountPoint *)
From Wasp Require Export Model.Base Spec.MatchSpec.

Definition prefix_mp (mp t : string) : string := mp ++ "/" ++ t.
Fixpoint drop_s (n : nat) (s : string) : string :=
  match n, s with O, _ => s | S n', String _ s' => drop_s n' s' | S _, EmptyString => EmptyString end.
(* t[len(mountPoint)+1:]  (Go panics when t is shorter; callers only pass prefixed topics) *)
Definition trim_mp (mp t : string) : string := drop_s (String.length mp + 1) t.
Fixpoint no_slash (s : string) : bool :=
  match s with EmptyString => true | String c s' => negb (Ascii.eqb c "/"%char) && no_slash s' end.
(* a mount point is a non-empty single level other than + and # (operator-supplied; wasp does not validate it) *)
Definition mp_ok (mp : string) : bool :=
  no_slash mp && negb (String.eqb mp "") && negb (String.eqb mp "+") && negb (String.eqb mp "#").
