(** Facts about the node / cluster model (Model/Node.v), part 1: what the building blocks emit. *)
From Wasp Require Import Model.Base Spec.MatchSpec Model.DState Model.IdPool Model.Mount Model.Node Proofs.BaseFacts.
From stdpp Require Import list strings.
From Coq Require Import ZArith Lia.
Open Scope Z_scope.

Global Opaque drain_fuel.

(** ** observation classes *)
Definition is_closed (o : eobs) : bool := match o with Closed _ => true | _ => false end.
Definition is_store (o : eobs) : bool := match o with Appended _ _ _ _ _ | AppendFailed _ | Call _ _ _ => true | _ => false end.
Definition is_out_to (c : string) (o : eobs) : bool := match o with Out c' _ => String.eqb c' c | _ => false end.
Definition quiet (P : eobs → bool) (l : list eobs) : Prop := Forall (λ o, P o = false) l.

Lemma quiet_app P a b : quiet P (a ++ b) ↔ quiet P a ∧ quiet P b.
Proof. apply Forall_app. Qed.
Lemma quiet_nil P : quiet P []. Proof. constructor. Qed.

Lemma wout_quiet P bad c p : P (Out c p) = false → quiet P (wout bad c p).
Proof. intros H. unfold wout. destruct (existsb _ _); [constructor|by repeat constructor]. Qed.

(** ** the writer never closes a connection, never stores anything *)
Section WriterQuiet.
  Variable P : eobs → bool.
  Hypothesis Pout : ∀ c p, P (Out c p) = false.

  Lemma send_q1_quiet bad n s p : quiet P (send_q1 bad n s p).1.2.
  Proof. unfold send_q1. destruct (ack_insert _ _ _ _ _) as [n' [|]]; cbn; [by apply wout_quiet|constructor]. Qed.
  Lemma send_q2_quiet bad n s p : quiet P (send_q2 bad n s p).1.2.
  Proof. unfold send_q2. destruct (ack_insert _ _ _ _ _) as [n' [|]]; cbn; [by apply wout_quiet|constructor]. Qed.
  Lemma complete_q2_quiet bad n s mid : quiet P (complete_q2 bad n s mid).2.
  Proof. unfold complete_q2. destruct (ack_insert _ _ _ _ _) as [n' ok]. cbn. by apply wout_quiet. Qed.

  Lemma send_quiet bad recips : ∀ n m, quiet P (send bad n recips m).2.
  Proof.
    induction recips as [|[r q] rs IH]; intros n m; cbn [send]; [constructor|].
    destruct (alookup r (n_reg n)) as [s|]; [|apply IH].
    destruct (q =? 0).
    - cbn. apply quiet_app. split; [by apply wout_quiet|apply IH].
    - destruct ((q =? 1) || (q =? 2)); [|apply IH].
      destruct (get_free 5 (n_pool n)) as [[mid|] pl]; [|constructor].
      destruct (q =? 1).
      + pose proof (send_q1_quiet bad (set_pool n pl) s (OPublish (trim_mp (ss_mp s) (l_topic m)) (l_payload m) q (l_retain m) (l_dup m) mid)) as H1.
        destruct (send_q1 _ _ _ _) as [[n2 o1] ok]. cbn in *. apply quiet_app. split; [done|apply IH].
      + pose proof (send_q2_quiet bad (set_pool n pl) s (OPublish (trim_mp (ss_mp s) (l_topic m)) (l_payload m) q (l_retain m) (l_dup m) mid)) as H1.
        destruct (send_q2 _ _ _ _) as [[n2 o1] ok]. cbn in *. apply quiet_app. split; [done|apply IH].
  Qed.

  Lemma on_outcome_quiet bad n e expired : quiet P (on_outcome bad n e expired).1.2.
  Proof.
    unfold on_outcome. destruct (a_tag e) as [sid p|sid p|sid mid|sid c m r].
    - destruct (alookup sid (n_reg n)) as [s|]; [|constructor]. destruct expired; [|constructor].
      pose proof (send_q1_quiet bad n s p). by destruct (send_q1 bad n s p) as [[? ?] ?].
    - destruct (alookup sid (n_reg n)) as [s|]; [|constructor]. destruct expired.
      + pose proof (send_q2_quiet bad n s p). by destruct (send_q2 bad n s p) as [[? ?] ?].
      + cbn. apply complete_q2_quiet.
    - destruct (alookup sid (n_reg n)) as [s|]; [|constructor]. destruct expired; [cbn; apply complete_q2_quiet|constructor].
    - destruct expired; constructor.
  Qed.
End WriterQuiet.

Lemma find_app' {A} (P : A → bool) l1 l2 : List.find P (l1 ++ l2) = match List.find P l1 with Some x => Some x | None => List.find P l2 end.
Proof. induction l1 as [|x l1 IH]; cbn; [done|]. by destruct (P x). Qed.

(** ** C16: a refused CONNECT receives a refusal CONNACK and creates nothing *)
Definition refused (pass : string) : bool := String.eqb pass "bad" || String.eqb pass "bad-static".
Theorem refused_connect_creates_nothing cl i c cid user pass ka will clk : refused pass = true →
  let r := setup cl i c cid user pass ka will clk in
  cl_nodes r.1 = cl_nodes cl ∧ cl_next r.1 = cl_next cl ∧
  (∀ k, find_conn r.1 k = match find_conn cl k with Some x => Some x | None => if String.eqb c k then Some (Conn c i None false) else None end) ∧
  r.2 = [Out c (OConnAck 4); Deadline c 3000].
Proof.
  intros Hr. unfold setup, refused in *. rewrite Hr. cbn [fst snd cl_nodes cl_next]. repeat split.
  intros k. unfold find_conn. cbn [cl_conns]. rewrite find_app'. destruct (List.find _ (cl_conns cl)); [done|]. cbn. done.
Qed.

(** ** Distribute (C05, C14) *)
Definition dist_step (i : nat) (m : lmsg) (acc : cluster * list eobs * bool) (dst : Z) : cluster * list eobs * bool :=
  let '(c, o, failed) := acc in
  let j := node_index c dst in
  if Nat.eqb j i then let '(c', o', ok) := append_at c i m in (c', (o ++ o')%list, failed || negb ok)
  else if is_down c j then (c, (o ++ [Call i j false])%list, true)
  else let '(c', o', ok) := append_at c j m in (c', (o ++ o' ++ [Call i j ok])%list, failed || negb ok).
Lemma distribute_fold cl i m :
  distribute cl i m = fold_left (dist_step i m) (dedup (map s_peer (sub_by_pattern (n_d (getn cl i)) (l_topic m)))) (cl, [], false).
Proof. reflexivity. Qed.

Definition bad_store (o : eobs) : bool := match o with AppendFailed _ | Call _ _ false => true | _ => false end.
Definition stored_at (j : nat) (m : lmsg) (o : eobs) : bool :=
  match o with Appended j' t p q r => Nat.eqb j' j && String.eqb t (l_topic m) && String.eqb p (l_payload m) && (q =? l_qos m) && Bool.eqb r (l_retain m) | _ => false end.

Lemma append_at_spec cl j m : let r := append_at cl j m in
  (r.2 = true ∧ r.1.2 = [Appended j (l_topic m) (l_payload m) (l_qos m) (l_retain m)]) ∨ (r.2 = false ∧ r.1.2 = [AppendFailed j]).
Proof. unfold append_at. destruct (n_fail (getn cl j)); cbn; auto. Qed.
Lemma append_at_down cl j m : cl_down (append_at cl j m).1.1 = cl_down cl.
Proof. unfold append_at. destruct (n_fail (getn cl j)); done. Qed.

(* one destination: the failure flag is exactly "a store failed here", and a success leaves one append at that node *)
Lemma dist_step_spec i m c o f dst : let r := dist_step i m (c, o, f) dst in
  ∃ o', r.1.2 = o ++ o' ∧ r.2 = f || existsb bad_store o' ∧ quiet (λ x, negb (is_store x)) o' ∧ cl_down r.1.1 = cl_down c ∧
        (existsb bad_store o' = false → existsb (stored_at (node_index c dst) m) o' = true).
Proof.
  unfold dist_step. destruct (Nat.eqb_spec (node_index c dst) i) as [->|Hne].
  - pose proof (append_at_spec c i m) as Hs. pose proof (append_at_down c i m) as Hd.
    destruct (append_at c i m) as [[c' o'] ok]. cbn in *. exists o'.
    destruct Hs as [[-> ->]|[-> ->]]; cbn; rewrite ?Nat.eqb_refl, ?String.eqb_refl, ?Z.eqb_refl, ?eqb_reflx, ?orb_false_r; repeat split; try done; by repeat constructor.
  - destruct (is_down c (node_index c dst)) eqn:Hdn; cbn.
    + exists [Call i (node_index c dst) false]. cbn. rewrite orb_true_r. repeat split; try done; by repeat constructor.
    + pose proof (append_at_spec c (node_index c dst) m) as Hs. pose proof (append_at_down c (node_index c dst) m) as Hd.
      destruct (append_at c (node_index c dst) m) as [[c' o'] ok]. cbn in *. exists (o' ++ [Call i (node_index c dst) ok]).
      destruct Hs as [[-> ->]|[-> ->]]; cbn; rewrite ?Nat.eqb_refl, ?String.eqb_refl, ?Z.eqb_refl, ?eqb_reflx, ?orb_false_r; repeat split; try done; by repeat constructor.
Qed.

Definition appended_at (j : nat) (o : eobs) : bool := match o with Appended j' _ _ _ _ => Nat.eqb j' j | _ => false end.
Definition napp (j : nat) (l : list eobs) : nat := length (List.filter (appended_at j) l).
Lemma napp_app j a b : napp j (a ++ b) = (napp j a + napp j b)%nat.
Proof. unfold napp. by rewrite List.filter_app, app_length. Qed.

Lemma dist_step_count i m c o f dst j : let r := dist_step i m (c, o, f) dst in
  (napp j r.1.2 ≤ napp j o + (if Nat.eqb (node_index c dst) j then 1 else 0))%nat.
Proof.
  unfold dist_step. destruct (Nat.eqb_spec (node_index c dst) i) as [->|Hne].
  - pose proof (append_at_spec c i m) as Hs. destruct (append_at c i m) as [[c' o'] ok]. cbn [fst snd] in *.
    rewrite napp_app. destruct Hs as [[-> ->]|[-> ->]]; unfold napp; cbn; destruct (Nat.eqb i j); cbn; lia.
  - destruct (is_down c (node_index c dst)); cbn [fst snd].
    + rewrite napp_app. unfold napp. cbn. lia.
    + pose proof (append_at_spec c (node_index c dst) m) as Hs. destruct (append_at c (node_index c dst) m) as [[c' o'] ok]. cbn [fst snd] in *.
      rewrite !napp_app. destruct Hs as [[-> ->]|[-> ->]]; unfold napp; cbn; destruct (Nat.eqb (node_index c dst) j); cbn; lia.
Qed.

Lemma one_dest_per_node (l : list Z) j : NoDup l → Forall (λ d, 1 ≤ d) l →
  (length (List.filter (λ dst, Nat.eqb (Z.to_nat (dst - 1)) j) l) ≤ 1)%nat.
Proof.
  induction l as [|d l IH]; cbn; [lia|]. intros [Hn Hnd]%NoDup_cons [Hd Hall]%Forall_cons.
  destruct (Nat.eqb_spec (Z.to_nat (d - 1)) j) as [Hj|]; [|by apply IH]. cbn.
  assert (List.filter (λ dst, Nat.eqb (Z.to_nat (dst - 1)) j) l = []) as ->; [|cbn; lia].
  destruct (List.filter _ l) as [|d' l'] eqn:E; [done|]. exfalso.
  assert (In d' (List.filter (λ dst, Nat.eqb (Z.to_nat (dst - 1)) j) l)) as Hin by (rewrite E; by left).
  apply filter_In in Hin as [Hin Heq]. apply Nat.eqb_eq in Heq. apply Hn.
  rewrite Forall_forall in Hall. specialize (Hall d' (proj2 (elem_of_list_In _ _) Hin)).
  assert (d = d') as -> by lia. by apply elem_of_list_In.
Qed.

Lemma dist_fold_spec i m dests : ∀ c o f,
  ∃ o', (fold_left (dist_step i m) dests (c, o, f)).1.2 = o ++ o' ∧
        (fold_left (dist_step i m) dests (c, o, f)).2 = f || existsb bad_store o' ∧ quiet (λ x, negb (is_store x)) o' ∧
        (existsb bad_store o' = false → ∀ dst, dst ∈ dests → existsb (stored_at (Z.to_nat (dst - 1)) m) o' = true) ∧
        (∀ j, napp j o' ≤ length (List.filter (λ dst, Nat.eqb (Z.to_nat (dst - 1)) j) dests))%nat.
Proof.
  induction dests as [|dst dests IH]; intros c o f; cbn [fold_left].
  { exists []. cbn. rewrite app_nil_r, orb_false_r. repeat split; try done; [constructor|by intros _ ? ?%elem_of_nil]. }
  destruct (dist_step_spec i m c o f dst) as (o1 & E1 & F1 & Q1 & D1 & S1).
  pose proof (λ j, dist_step_count i m c o f dst j) as C1. cbn zeta in *.
  destruct (dist_step i m (c, o, f) dst) as [[c1 oo1] f1] eqn:Hstep. cbn [fst snd] in E1, F1, D1, C1. subst oo1 f1.
  destruct (IH c1 (o ++ o1) (f || existsb bad_store o1)) as (o2 & E2 & F2 & Q2 & S2 & C2).
  exists (o1 ++ o2). rewrite E2, F2. split; [by rewrite app_assoc|]. split; [by rewrite existsb_app, orb_assoc|].
  split; [apply quiet_app; by split|]. split.
  - rewrite existsb_app. intros [H1 H2]%orb_false_iff dst' [->|Hin]%elem_of_cons; rewrite existsb_app.
    + unfold node_index in S1. rewrite (S1 H1). done.
    + rewrite (S2 H2 dst' Hin). apply orb_true_r.
  - intros j. rewrite napp_app. cbn [List.filter]. specialize (C1 j). specialize (C2 j). rewrite napp_app in C1.
    unfold node_index in C1. destruct (Nat.eqb (Z.to_nat (dst - 1)) j); cbn [length]; lia.
Qed.

Lemma dedup_cons x l : dedup (x :: l) = if existsb (Z.eqb x) (dedup l) then dedup l else x :: dedup l.
Proof. reflexivity. Qed.
Lemma dedup_nodup l : NoDup (dedup l).
Proof.
  induction l as [|x l IH]; [apply NoDup_nil_2|]. rewrite dedup_cons. destruct (existsb (Z.eqb x) (dedup l)) eqn:E; [done|].
  apply NoDup_cons. split; [|done]. intros Hin. apply not_true_iff_false in E. apply E. apply existsb_exists. exists x.
  split; [by apply elem_of_list_In|apply Z.eqb_refl].
Qed.
Lemma dedup_in l x : x ∈ dedup l ↔ x ∈ l.
Proof.
  induction l as [|y l IH]; [done|]. rewrite dedup_cons. destruct (existsb (Z.eqb y) (dedup l)) eqn:E.
  - rewrite elem_of_cons, IH. split; [by right|]. intros [->|?]; [|done].
    apply existsb_exists in E as (z & Hz & ->%Z.eqb_eq). apply IH. by apply elem_of_list_In.
  - by rewrite !elem_of_cons, IH.
Qed.

(** C05 / C14: the destination set is the set of peers of the matching subscriptions known to
    the publishing node; the message is appended at most once per node, to no node outside that
    set; success is reported iff every destination stored it. *)
Definition dests_of (cl : cluster) (i : nat) (m : lmsg) : list Z := dedup (map s_peer (sub_by_pattern (n_d (getn cl i)) (l_topic m))).

Theorem distribute_spec cl i m : let r := distribute cl i m in
  quiet (λ x, negb (is_store x)) r.1.2 ∧
  r.2 = existsb bad_store r.1.2 ∧
  (r.2 = false → ∀ dst, dst ∈ dests_of cl i m → existsb (stored_at (Z.to_nat (dst - 1)) m) r.1.2 = true) ∧
  (Forall (λ d : Z, (1 ≤ d)%Z) (dests_of cl i m) → ∀ j, (napp j r.1.2 ≤ 1)%nat) ∧
  (∀ j, (∀ dst, dst ∈ dests_of cl i m → Z.to_nat (dst - 1) ≠ j) → napp j r.1.2 = 0%nat).
Proof.
  rewrite distribute_fold. fold (dests_of cl i m).
  destruct (dist_fold_spec i m (dests_of cl i m) cl [] false) as (o' & E & F & Q & S & C).
  destruct (fold_left _ _ _) as [[c' oo] ff]. cbn [fst snd app orb] in *. subst oo ff. repeat split; try done.
  - intros Hpos j. specialize (C j). etrans; [exact C|]. apply one_dest_per_node; [apply dedup_nodup|done].
  - intros j Hj. specialize (C j).
    assert (List.filter (λ dst, Nat.eqb (Z.to_nat (dst - 1)) j) (dests_of cl i m) = []) as Hnil; [|rewrite Hnil in C; cbn in C; lia].
    clear -Hj. induction (dests_of cl i m) as [|d l IH]; [done|]. cbn. rewrite (proj2 (Nat.eqb_neq _ _)); [|apply Hj; left].
    apply IH. intros dst Hin. apply Hj. by right.
Qed.

(** ** the publish worker: acknowledgement only after every destination stored the message (C05) *)
Theorem worker_spec cl i m retain clk ackp : ∃ cl1 o,
  (worker cl i m retain clk ackp).2 = o ++ (if existsb bad_store o then [] else ackp) ∧
  quiet (λ x, negb (is_store x)) o ∧
  (existsb bad_store o = false → ∀ dst, dst ∈ dests_of cl1 i m → existsb (stored_at (Z.to_nat (dst - 1)) m) o = true) ∧
  (∀ j, (∀ dst, dst ∈ dests_of cl1 i m → Z.to_nat (dst - 1) ≠ j) → napp j o = 0%nat).
Proof.
  unfold worker. set (cl1 := setn cl i _).
  destruct (distribute_spec cl1 i m) as (Q & F & S & _ & N).
  destruct (distribute cl1 i m) as [[c2 o] failed]. cbn [fst snd] in *. exists cl1, o. subst failed. done.
Qed.

(** ** nothing but a cause closes a connection (C11) *)
Lemma closed_wout bad c p : quiet is_closed (wout bad c p).
Proof. by apply wout_quiet. Qed.
Lemma quiet_store_closed o : quiet (λ x, negb (is_store x)) o → quiet is_closed o.
Proof. intros H. eapply Forall_impl; [exact H|]. intros [] Hx; try done. Qed.

Lemma worker_closed cl i m retain clk ackp : quiet is_closed ackp → quiet is_closed (worker cl i m retain clk ackp).2.
Proof.
  intros Ha. destruct (worker_spec cl i m retain clk ackp) as (cl1 & o & -> & Q & _). apply quiet_app. split; [by apply quiet_store_closed|].
  destruct (existsb bad_store o); [constructor|done].
Qed.

Lemma drain_node_closed fuel : ∀ cl i, quiet is_closed (drain_node fuel cl i).2.
Proof.
  induction fuel as [|f IH]; intros cl i; cbn [drain_node]; [constructor|].
  destruct (nth_error _ _) as [m|]; [|constructor]. cbn [fst snd]. apply quiet_app. split; [by apply send_quiet|apply IH].
Qed.
Lemma drain_all_closed cl : quiet is_closed (drain_all cl).2.
Proof.
  unfold drain_all. generalize (seq 0 (length (cl_nodes cl))). intros l.
  assert (H : ∀ acc : cluster * list eobs, quiet is_closed acc.2 →
              quiet is_closed (fold_left (λ acc i, let r := drain_node drain_fuel acc.1 i in (r.1, (acc.2 ++ r.2)%list)) l acc).2).
  { induction l as [|i l IH]; intros acc Hacc; cbn [fold_left]; [done|]. apply IH. cbn [fst snd]. apply quiet_app. split; [done|apply drain_node_closed]. }
  apply H. constructor.
Qed.

Lemma fold_send_closed bad (replay : list (Z * lmsg)) sid : ∀ n o, quiet is_closed o →
  quiet is_closed (fold_left (λ acc qm, let r := send bad acc.1 [(sid, qm.1)] qm.2 in (r.1, (acc.2 ++ r.2)%list)) replay (n, o)).2.
Proof.
  induction replay as [|qm replay IH]; intros n o Ho; cbn [fold_left]; [done|]. apply IH. cbn [fst snd]. apply quiet_app. split; [done|by apply send_quiet].
Qed.

Lemma with_session_closed cl c f : (∀ k i n s, quiet is_closed (f k i n s).2) → quiet is_closed (with_session cl c f).2.
Proof.
  intros Hf. unfold with_session. destruct (find_conn cl c) as [k|]; [|constructor]. destruct (c_closed k); [constructor|].
  destruct (c_sid k) as [sid|]; [|constructor]. destruct (alookup sid _) as [s|]; [apply Hf|constructor].
Qed.
Lemma dl_closed s : quiet is_closed (dl s). Proof. by repeat constructor. Qed.

Lemma do_subscribe_closed cl c mid fs clk : quiet is_closed (do_subscribe cl c mid fs clk).2.
Proof.
  unfold do_subscribe. apply with_session_closed. intros k i n s. destruct (fold_left _ fs (n, s)) as [n1 s1]. cbn [snd].
  apply quiet_app. split; [apply closed_wout|]. apply quiet_app. split; [|apply dl_closed]. apply fold_send_closed. constructor.
Qed.
Lemma do_unsubscribe_closed cl c mid fs clk : quiet is_closed (do_unsubscribe cl c mid fs clk).2.
Proof.
  unfold do_unsubscribe. apply with_session_closed. intros k i n s. destruct (fold_left _ fs (n, s)) as [n1 s1]. cbn [snd].
  apply quiet_app. split; [apply closed_wout|apply dl_closed].
Qed.
Lemma do_ack_closed cl c ty mid clk : quiet is_closed (do_ack cl c ty mid clk).2.
Proof.
  unfold do_ack. apply with_session_closed. intros k i n s. destruct (ack_find _ _ _) as [e|]; [|apply dl_closed].
  destruct (a_expect e =? ty); [|apply dl_closed].
  pose proof (on_outcome_quiet is_closed ltac:(done) (cl_bad cl) (set_acks n (ack_remove (n_acks n) (if ty =? PUBREL then (ss_id s ++ "/in")%string else ss_id s) mid)) e false) as Hq.
  destruct (on_outcome _ _ _ _) as [[n' o] job]. cbn [fst snd] in Hq. destruct job as [[[[[sid c'] m] retain] pm]|]; cbn [snd].
  - apply quiet_app. split; [done|]. apply quiet_app. split; [|apply dl_closed]. apply worker_closed, closed_wout.
  - apply quiet_app. split; [done|apply dl_closed].
Qed.
Lemma sweep_closed cl i : quiet is_closed (sweep cl i).2.
Proof.
  unfold sweep. cbn [snd]. generalize (n_acks (getn cl i)) at 1. intros due. generalize (set_acks (getn cl i) []). intros n0.
  assert (H : ∀ (acc : node * list eobs), quiet is_closed acc.2 →
              quiet is_closed (fold_left (λ acc e, let '(m, o, _) := on_outcome (cl_bad cl) acc.1 e true in (m, (acc.2 ++ o)%list)) due acc).2).
  { induction due as [|e due IH]; intros acc Hacc; cbn [fold_left]; [done|]. apply IH.
    pose proof (on_outcome_quiet is_closed ltac:(done) (cl_bad cl) acc.1 e true) as Hq.
    destruct (on_outcome _ _ _ _) as [[m o] j]. cbn in *. apply quiet_app. by split. }
  apply (H (n0, [])). constructor.
Qed.
Lemma peer_leave_closed cl o d clk : quiet is_closed (peer_leave cl o d clk).2.
Proof.
  unfold peer_leave. cbn [snd].
  match goal with |- context [fold_left _ ?w (?c, [])] => generalize w; generalize c end. intros c0 wills.
  assert (H : ∀ (acc : cluster * list eobs), quiet is_closed acc.2 →
              quiet is_closed (fold_left (λ acc w, let '(c, ob, _) := append_at acc.1 o w in (c, (acc.2 ++ ob)%list)) wills acc).2).
  { induction wills as [|w wills IH]; intros acc Hacc; cbn [fold_left]; [done|]. apply IH.
    pose proof (append_at_spec acc.1 o w) as Hs. destruct (append_at acc.1 o w) as [[c ob] ok]. cbn in *. apply quiet_app. split; [done|].
    destruct Hs as [[_ ->]|[_ ->]]; by repeat constructor. }
  apply (H (c0, [])). constructor.
Qed.

Lemma peer_notice_closed cl o d clk : quiet is_closed (peer_notice cl o d clk).2.
Proof.
  unfold peer_notice.
  match goal with |- context [fold_left _ ?w (?c, [])] => generalize w; generalize c end. intros c0 wills.
  assert (H : ∀ (acc : cluster * list eobs), quiet is_closed acc.2 →
              quiet is_closed (fold_left (λ acc w, let '(c, ob, _) := append_at acc.1 o w in (c, (acc.2 ++ ob)%list)) wills acc).2).
  { induction wills as [|w wills IH]; intros acc Hacc; cbn [fold_left]; [done|]. apply IH.
    pose proof (append_at_spec acc.1 o w) as Hs. destruct (append_at acc.1 o w) as [[c ob] ok]. cbn in *. apply quiet_app. split; [done|].
    destruct Hs as [[_ ->]|[_ ->]]; by repeat constructor. }
  apply (H (c0, [])). constructor.
Qed.

Definition may_close (o : eop) : bool :=
  match o with EConnect _ _ _ _ _ _ _ _ | EBadConnect _ _ | EPublish _ _ _ _ _ | EPing _ _ | EDisconnect _ _ | EProtoError _ _ | EEof _ _ => true | _ => false end.

Theorem closed_needs_cause seen cl o c : Closed c ∈ (step seen cl o).2 → may_close o = true.
Proof.
  unfold step. cbn [snd]. intros [Hin|Hin]%elem_of_app.
  2:{ pose proof (drain_all_closed (step_raw seen cl o).1) as Hq. unfold quiet in Hq. rewrite Forall_forall in Hq. by specialize (Hq _ Hin). }
  destruct o; try done; exfalso; cbn [step_raw] in Hin.
  - pose proof (do_subscribe_closed cl c0 mid fs clk) as Hq. unfold quiet in Hq. rewrite Forall_forall in Hq. by specialize (Hq _ Hin).
  - pose proof (do_unsubscribe_closed cl c0 mid fs clk) as Hq. unfold quiet in Hq. rewrite Forall_forall in Hq. by specialize (Hq _ Hin).
  - pose proof (do_ack_closed cl c0 ty (resolve seen c0 r) clk) as Hq. unfold quiet in Hq. rewrite Forall_forall in Hq. by specialize (Hq _ Hin).
  - by apply elem_of_nil in Hin.
  - pose proof (sweep_closed cl n) as Hq. unfold quiet in Hq. rewrite Forall_forall in Hq. by specialize (Hq _ Hin).
  - by apply elem_of_nil in Hin.
  - by apply elem_of_nil in Hin.
  - pose proof (peer_leave_closed cl observer dead clk) as Hq. unfold quiet in Hq. rewrite Forall_forall in Hq. by specialize (Hq _ Hin).
  - by apply elem_of_nil in Hin.
  - by apply elem_of_nil in Hin.
  - apply elem_of_list_singleton in Hin. done.
  - pose proof (with_session_closed cl c0 (λ k i n s, (cl, dl s)) ltac:(intros; apply dl_closed)) as Hq. unfold quiet in Hq. rewrite Forall_forall in Hq. by specialize (Hq _ Hin).
  - by apply elem_of_nil in Hin.
  - by apply elem_of_nil in Hin.
  - pose proof (peer_notice_closed cl observer dead clk) as Hq. unfold quiet in Hq. rewrite Forall_forall in Hq. by specialize (Hq _ Hin).
  - by apply elem_of_nil in Hin.
Qed.

(** ** acknowledgements from subscribers (C03) *)
(* an acknowledgement of the wrong type, or for an identifier that is not in flight, changes nothing *)
Theorem wrong_ack_harmless cl c ty mid clk k i n s :
  find_conn cl c = Some k → c_closed k = false → c_sid k = Some (ss_id s) → i = c_node k → n = getn cl i →
  alookup (ss_id s) (n_reg n) = Some s →
  let prefix := if ty =? PUBREL then (ss_id s ++ "/in")%string else ss_id s in
  (ack_find (n_acks n) prefix mid = None ∨ ∃ e, ack_find (n_acks n) prefix mid = Some e ∧ a_expect e ≠ ty) →
  do_ack cl c ty mid clk = (cl, dl s).
Proof.
  intros Hk Hc Hs -> -> Hreg prefix Hno. unfold do_ack, with_session. rewrite Hk, Hc, Hs, Hreg. fold prefix.
  destruct Hno as [->|(e & -> & Hne)]; [done|]. by rewrite (proj2 (Z.eqb_neq _ _) Hne).
Qed.

(* what resolving one outbound entry does *)
Definition rearmed (n n' : node) (e : aentry) : Prop := n_acks n' = n_acks n ++ [e] ∧ n_pool n' = n_pool n ∧ n_reg n' = n_reg n.
Lemma ack_insert_fresh n prefix mid expect t : mid ≠ 0 → ack_find (n_acks n) prefix mid = None →
  ack_insert n prefix mid expect t = (set_acks n (n_acks n ++ [AEntry prefix mid expect t]), true).
Proof. intros Hm Hf. unfold ack_insert. by rewrite (proj2 (Z.eqb_neq _ _) Hm), Hf. Qed.

Theorem expired_q1_retransmits bad n sid p s : alookup sid (n_reg n) = Some s → ss_id s = sid →
  opkt_mid p ≠ 0 → ack_find (n_acks n) sid (opkt_mid p) = None →
  let r := on_outcome bad n (AEntry sid (opkt_mid p) PUBACK (TQ1 sid p)) true in
  r.1.2 = wout bad (ss_conn s) p ∧ rearmed n r.1.1 (AEntry sid (opkt_mid p) PUBACK (TQ1 sid p)) ∧ r.2 = None.
Proof.
  intros Hs Hid Hm Hf. unfold on_outcome. cbn [a_tag]. rewrite Hs. unfold send_q1. rewrite Hid.
  rewrite ack_insert_fresh by done. cbn. done.
Qed.
Theorem expired_q2_retransmits bad n sid p s : alookup sid (n_reg n) = Some s → ss_id s = sid →
  opkt_mid p ≠ 0 → ack_find (n_acks n) sid (opkt_mid p) = None →
  let r := on_outcome bad n (AEntry sid (opkt_mid p) PUBREC (TQ2Pub sid p)) true in
  r.1.2 = wout bad (ss_conn s) p ∧ rearmed n r.1.1 (AEntry sid (opkt_mid p) PUBREC (TQ2Pub sid p)) ∧ r.2 = None.
Proof.
  intros Hs Hid Hm Hf. unfold on_outcome. cbn [a_tag]. rewrite Hs. unfold send_q2. rewrite Hid.
  rewrite ack_insert_fresh by done. cbn. done.
Qed.
Theorem expired_pubrel_retransmits bad n sid mid s : alookup sid (n_reg n) = Some s → ss_id s = sid →
  mid ≠ 0 → ack_find (n_acks n) sid mid = None →
  let r := on_outcome bad n (AEntry sid mid PUBCOMP (TQ2Rel sid mid)) true in
  r.1.2 = wout bad (ss_conn s) (OPubRel mid) ∧ rearmed n r.1.1 (AEntry sid mid PUBCOMP (TQ2Rel sid mid)) ∧ r.2 = None.
Proof.
  intros Hs Hid Hm Hf. unfold on_outcome. cbn [a_tag]. rewrite Hs. unfold complete_q2. rewrite Hid.
  rewrite ack_insert_fresh by done. cbn. done.
Qed.
(* PUBREC moves a QoS 2 delivery to its PUBREL phase with the same identifier *)
Theorem pubrec_starts_pubrel bad n sid p s : alookup sid (n_reg n) = Some s → ss_id s = sid →
  opkt_mid p ≠ 0 → ack_find (n_acks n) sid (opkt_mid p) = None →
  let r := on_outcome bad n (AEntry sid (opkt_mid p) PUBREC (TQ2Pub sid p)) false in
  r.1.2 = wout bad (ss_conn s) (OPubRel (opkt_mid p)) ∧ rearmed n r.1.1 (AEntry sid (opkt_mid p) PUBCOMP (TQ2Rel sid (opkt_mid p))) ∧ r.2 = None.
Proof.
  intros Hs Hid Hm Hf. unfold on_outcome. cbn [a_tag]. rewrite Hs. unfold complete_q2. rewrite Hid.
  rewrite ack_insert_fresh by done. cbn. done.
Qed.
(* completion, or expiry after the session ended: nothing is sent and the identifier is returned to the pool *)
Definition released (n n' : node) (mid : Z) : Prop := n_acks n' = n_acks n ∧ n_pool n' = pput mid (n_pool n) ∧ n_reg n' = n_reg n.
Theorem completion_frees bad n e expired : 
  match a_tag e with
  | TQ1 sid p => (expired = false ∨ alookup sid (n_reg n) = None) → (on_outcome bad n e expired).1.2 = [] ∧ released n (on_outcome bad n e expired).1.1 (opkt_mid p)
  | TQ2Pub sid p => alookup sid (n_reg n) = None → (on_outcome bad n e expired).1.2 = [] ∧ released n (on_outcome bad n e expired).1.1 (opkt_mid p)
  | TQ2Rel sid mid => (expired = false ∨ alookup sid (n_reg n) = None) → (on_outcome bad n e expired).1.2 = [] ∧ released n (on_outcome bad n e expired).1.1 mid
  | TIn _ _ _ _ => True
  end.
Proof.
  unfold on_outcome. destruct (a_tag e) as [sid p|sid p|sid mid|]; [| | |done].
  - intros [->| ->]; [destruct (alookup sid (n_reg n))|]; cbn; done.
  - intros ->. cbn. done.
  - intros [->| ->]; [destruct (alookup sid (n_reg n))|]; cbn; done.
Qed.

(** ** session end: wills (C13) and clean-up (C11, C12) *)
Definition mine_of (n : node) (s : sess) : option bool :=
  match owner n (ss_mp s) (ss_cid s) with
  | Some m => if String.eqb (m_sid m) (ss_id s) then Some true else Some false
  | None => None end.
Definition after_unsub (cl : cluster) (i : nat) (s : sess) (clk : Z) : node :=
  fold_left (λ m t, mutate m (sub_delete (n_d m) (ss_id s) t clk)) (ss_topics s)
            (set_reg (getn cl i) (adel (ss_id s) (n_reg (getn cl i)))).

(* after DISCONNECT, and when the session was displaced, no will is stored anywhere *)
Theorem no_will_after_disconnect cl i s clk : (shutdown cl i s true clk).2 = [Closed (ss_conn s)].
Proof.
  unfold shutdown. fold (after_unsub cl i s clk). fold (mine_of (after_unsub cl i s clk) s).
  destruct (mine_of _ s) as [[|]|]; done.
Qed.
Theorem no_will_when_displaced cl i s d clk : mine_of (after_unsub cl i s clk) s = Some false →
  (shutdown cl i s d clk).2 = [Closed (ss_conn s)] ∧ (shutdown cl i s d clk).1 = setn cl i (after_unsub cl i s clk).
Proof. intros H. unfold shutdown. fold (after_unsub cl i s clk). fold (mine_of (after_unsub cl i s clk) s). by rewrite H. Qed.
(* an unclean end hands exactly the will, under the session's mount point, to the publish path, once *)
Theorem will_on_unclean_end cl i s w clk : ss_lwt s = Some w → mine_of (after_unsub cl i s clk) s ≠ Some false →
  ∃ cl3, (shutdown cl i s false clk).2 =
         Closed (ss_conn s) :: (worker cl3 i (LMsg (prefix_mp (ss_mp s) (p_topic w)) (p_payload w) (p_qos w) false false) (p_retain w) clk []).2.
Proof.
  intros Hw Hm. unfold shutdown. fold (after_unsub cl i s clk). fold (mine_of (after_unsub cl i s clk) s).
  destruct (mine_of _ s) as [[|]|] eqn:E; [|done|]; rewrite Hw; cbn [fst snd app]; eexists; reflexivity.
Qed.
Theorem no_will_without_lwt cl i s d clk : ss_lwt s = None → (shutdown cl i s d clk).2 = [Closed (ss_conn s)].
Proof.
  intros Hw. unfold shutdown. fold (after_unsub cl i s clk). fold (mine_of (after_unsub cl i s clk) s).
  destruct (mine_of _ s) as [[|]|]; destruct d; rewrite ?Hw; done.
Qed.
(* the session leaves the registry of its host whatever the cause *)
Lemma fold_mutate_reg (s : sess) clk ts : ∀ n, n_reg (fold_left (λ m t, mutate m (sub_delete (n_d m) (ss_id s) t clk)) ts n) = n_reg n.
Proof. induction ts as [|t ts IH]; intros n; cbn [fold_left]; [done|]. by rewrite IH. Qed.
Theorem end_leaves_registry cl i s clk : n_reg (after_unsub cl i s clk) = adel (ss_id s) (n_reg (getn cl i)).
Proof. unfold after_unsub. by rewrite fold_mutate_reg. Qed.

(* tearing down a displaced session does not touch any session record *)
Lemma fold_mutate_sess (s : sess) clk ts : ∀ n, d_sess (n_d (fold_left (λ m t, mutate m (sub_delete (n_d m) (ss_id s) t clk)) ts n)) = d_sess (n_d n).
Proof. induction ts as [|t ts IH]; intros n; cbn [fold_left]; [done|]. by rewrite IH. Qed.
Theorem teardown_spares_records cl i s clk : d_sess (n_d (after_unsub cl i s clk)) = d_sess (n_d (getn cl i)).
Proof. unfold after_unsub. by rewrite fold_mutate_sess. Qed.

(** ** the writer writes to recipients only (C01, C17) *)
Definition out_conn (o : eobs) : option string := match o with Out c _ => Some c | _ => None end.
Lemma wout_conn bad c p o : o ∈ wout bad c p → o = Out c p.
Proof. unfold wout. destruct (existsb _ _); [by intros ?%elem_of_nil|by intros ?%elem_of_list_singleton]. Qed.

Theorem send_only_recipients bad recips : ∀ n m o, o ∈ (send bad n recips m).2 →
  ∃ r q s mid, (r, q) ∈ recips ∧ alookup r (n_reg n) = Some s ∧
    o = Out (ss_conn s) (OPublish (trim_mp (ss_mp s) (l_topic m)) (l_payload m) q (l_retain m) (l_dup m) mid).
Proof.
  induction recips as [|[r q] rs IH]; intros n m o; cbn [send]; [by intros ?%elem_of_nil|].
  assert (Hreg : ∀ (n' : node) (R : node * list eobs), n_reg n' = n_reg n → o ∈ (send bad n' rs m).2 →
                 ∃ r' q' s mid, (r', q') ∈ (r, q) :: rs ∧ alookup r' (n_reg n) = Some s ∧
                   o = Out (ss_conn s) (OPublish (trim_mp (ss_mp s) (l_topic m)) (l_payload m) q' (l_retain m) (l_dup m) mid)).
  { intros n' _ Hr Hin. destruct (IH n' m o Hin) as (r' & q' & s & mid & H1 & H2 & H3). exists r', q', s, mid. rewrite <- Hr. split; [by right|done]. }
  destruct (alookup r (n_reg n)) as [s|] eqn:Hs; [|intros Hin; by apply (Hreg n (n, []))].
  destruct (q =? 0).
  - cbn [snd]. intros [Hin|Hin]%elem_of_app; [|by apply (Hreg n (n, []))].
    apply wout_conn in Hin. exists r, q, s, 0. split; [left|done].
  - destruct ((q =? 1) || (q =? 2)); [|intros Hin; by apply (Hreg n (n, []))].
    destruct (get_free 5 (n_pool n)) as [[mid|] pl]; [|by intros ?%elem_of_nil].
    set (p := OPublish _ _ _ _ _ mid).
    assert (Hq : ∀ n2 o1 ok, (if q =? 1 then send_q1 bad (set_pool n pl) s p else send_q2 bad (set_pool n pl) s p) = (n2, o1, ok) →
                 n_reg n2 = n_reg n ∧ ∀ x, x ∈ o1 → x = Out (ss_conn s) p).
    { intros n2 o1 ok. destruct (q =? 1); unfold send_q1, send_q2, ack_insert; cbn [opkt_mid p];
        destruct (mid =? 0); [intros [= <- <- <-]; split; [done|by intros ? ?%elem_of_nil]| |intros [= <- <- <-]; split; [done|by intros ? ?%elem_of_nil]|];
        destruct (ack_find _ _ _); intros [= <- <- <-]; (split; [done|]); intros x Hx; try (by apply elem_of_nil in Hx); by apply wout_conn in Hx. }
    destruct (if q =? 1 then _ else _) as [[n2 o1] ok] eqn:E. destruct (Hq n2 o1 ok eq_refl) as [Hr Ho].
    cbn [snd]. intros [Hin|Hin]%elem_of_app.
    + apply Ho in Hin. exists r, q, s, mid. split; [left|done].
    + apply (Hreg (if ok then n2 else set_pool n2 (pput mid (n_pool n2))) (n, [])); [by destruct ok|done].
Qed.

(** ** matching inside the node: tenants (C17) and recipients (C01) *)
From Wasp Require Import Proofs.MountFacts.
Lemma sub_by_pattern_in d topic s : s ∈ sub_by_pattern d topic →
  sub_added s = true ∧ ∃ key l, (key, l) ∈ d_subs d ∧ s ∈ l ∧ mmatch (levels key) (levels topic) = true.
Proof.
  unfold sub_by_pattern. intros [Hin Ha]%elem_of_list_In%filter_In. split; [done|].
  apply in_concat in Hin as (l & Hl & Hs). apply in_map_iff in Hl as ([key l'] & <- & Hkl). apply filter_In in Hkl as [Hkl Hm].
  exists key, l'. split; [by apply elem_of_list_In|]. split; [by apply elem_of_list_In|done].
Qed.
(* a subscription stored under mp2/f receives a message routed under mp1/t only if mp1 = mp2 and f matches t *)
Theorem delivery_same_tenant d mp1 t mp2 f s : mp_ok mp1 = true → mp_ok mp2 = true →
  s ∈ sub_by_pattern d (prefix_mp mp1 t) →
  (∀ key l, (key, l) ∈ d_subs d → s ∈ l → key = prefix_mp mp2 f) →
  mp1 = mp2 ∧ mmatch (levels f) (levels t) = true.
Proof.
  intros H1 H2 Hin Hkey. apply sub_by_pattern_in in Hin as (_ & key & l & Hkl & Hs & Hm).
  rewrite (Hkey key l Hkl Hs) in Hm. destruct (decide (mp2 = mp1)) as [->|Hne].
  - split; [done|]. by rewrite same_tenant_match in Hm.
  - by rewrite no_cross_match in Hm.
Qed.
(* and the topic the client sees is the one the publisher used *)
Theorem delivered_topic_is_publishers mp t : trim_mp mp (prefix_mp mp t) = t.
Proof. apply prefix_trim. Qed.

(** ** inbound QoS 2: nothing is forwarded on PUBLISH alone (C05) *)
Theorem qos2_publish_stores_nothing cl c p dup mid clk : p_qos p = 2 →
  quiet is_store (do_publish cl c p dup mid clk).2 ∨ ∃ k, find_conn cl c = Some k ∧ (do_publish cl c p dup mid clk) = end_session cl k false clk.
Proof.
  intros Hq. unfold do_publish, with_session. destruct (find_conn cl c) as [k|] eqn:Hk; [|left; constructor].
  destruct (c_closed k); [left; constructor|]. destruct (c_sid k) as [sid|]; [|left; constructor].
  destruct (alookup sid _) as [s|]; [|left; constructor]. rewrite Hq. cbn [Z.eqb orb Pos.eqb].
  destruct (ack_insert _ _ _ _ _) as [n' [|]].
  - left. apply quiet_app. split; [by apply wout_quiet|by repeat constructor].
  - right. by exists k.
Qed.
(* a PUBREL for an identifier with no pending handshake (never published, already completed, timed out) forwards nothing *)
Theorem stray_pubrel_forwards_nothing cl c mid clk k n s :
  find_conn cl c = Some k → c_closed k = false → c_sid k = Some (ss_id s) → n = getn cl (c_node k) →
  alookup (ss_id s) (n_reg n) = Some s → ack_find (n_acks n) (ss_id s ++ "/in") mid = None →
  do_ack cl c PUBREL mid clk = (cl, dl s).
Proof.
  intros Hk Hc Hs -> Hreg Hno. eapply wrong_ack_harmless; try done. left. done.
Qed.


(** ** delivery of stored messages at QoS 0 (C01, C02): exactly one PUBLISH per recipient entry
    that is in the registry, nothing else, node state untouched *)
Definition q0_out (bad : list string) (n : node) (m : lmsg) (rq : string * Z) : list eobs :=
  match alookup rq.1 (n_reg n) with
  | Some s => wout bad (ss_conn s) (OPublish (trim_mp (ss_mp s) (l_topic m)) (l_payload m) 0 (l_retain m) (l_dup m) 0)
  | None => []
  end.
Theorem send_q0_exact bad recips n m : Forall (λ rq : string * Z, rq.2 = 0) recips →
  send bad n recips m = (n, flat_map (q0_out bad n m) recips).
Proof.
  induction 1 as [|[r q] rs Hq _ IH]; [done|]. cbn in Hq. subst q. cbn [send flat_map]. unfold q0_out at 1. cbn [fst].
  destruct (alookup r (n_reg n)) as [s|]; [|exact IH]. cbn [Z.eqb]. by rewrite IH.
Qed.

(* the log consumer hands every stored entry to the writer: nothing is skipped, offset 0 included *)
Lemma getn_setn cl i n : (i < length (cl_nodes cl))%nat → getn (setn cl i n) i = n.
Proof.
  unfold getn, setn. cbn [cl_nodes]. generalize (cl_nodes cl). intros l. revert i.
  induction l as [|x l IH]; intros [|i] Hi; cbn in *; try lia; [done|]. apply IH. lia.
Qed.
Lemma setn_length cl i n : length (cl_nodes (setn cl i n)) = length (cl_nodes cl).
Proof.
  unfold setn. cbn [cl_nodes]. generalize (cl_nodes cl). intros l. revert i. induction l as [|x l IH]; intros [|i]; cbn; auto.
Qed.
Lemma send_keeps_log bad recips : ∀ n m, n_log (send bad n recips m).1 = n_log n ∧ n_coff (send bad n recips m).1 = n_coff n.
Proof.
  induction recips as [|[r q] rs IH]; intros n m; cbn [send]; [done|].
  destruct (alookup r (n_reg n)) as [s|]; [|apply IH]. destruct (q =? 0); [apply IH|].
  destruct ((q =? 1) || (q =? 2)); [|apply IH]. destruct (get_free 5 (n_pool n)) as [[mid|] pl]; [|done].
  set (p := OPublish _ _ _ _ _ mid).
  assert (Hq : ∀ n2 o1 ok, (if q =? 1 then send_q1 bad (set_pool n pl) s p else send_q2 bad (set_pool n pl) s p) = (n2, o1, ok) →
               n_log n2 = n_log n ∧ n_coff n2 = n_coff n).
  { intros n2 o1 ok. destruct (q =? 1); unfold send_q1, send_q2, ack_insert; cbn [opkt_mid p];
      destruct (mid =? 0); try (intros [= <- <- <-]; done); destruct (ack_find _ _ _); intros [= <- <- <-]; done. }
  destruct (if q =? 1 then _ else _) as [[n2 o1] ok] eqn:E. destruct (Hq n2 o1 ok eq_refl) as [H1 H2]. cbn [fst].
  destruct (IH (if ok then n2 else set_pool n2 (pput mid (n_pool n2))) m) as [I1 I2]. rewrite I1, I2. by destruct ok.
Qed.
Theorem drain_consumes_everything fuel : ∀ cl i, (i < length (cl_nodes cl))%nat →
  (length (n_log (getn cl i)) - n_coff (getn cl i) ≤ fuel)%nat →
  let n' := getn (drain_node fuel cl i).1 i in
  n_log n' = n_log (getn cl i) ∧ (n_coff n' = Nat.max (n_coff (getn cl i)) (length (n_log (getn cl i))))%nat.
Proof.
  induction fuel as [|f IH]; intros cl i Hi Hf; cbn [drain_node fst].
  { split; [done|]. lia. }
  destruct (nth_error (n_log (getn cl i)) (n_coff (getn cl i))) as [m|] eqn:Hn.
  2:{ apply nth_error_None in Hn. cbn [fst]. split; [done|]. lia. }
  pose proof (proj1 (nth_error_Some _ _) ltac:(by rewrite Hn)) as Hlt.
  set (n0 := set_coff (getn cl i) (S (n_coff (getn cl i)))).
  match goal with |- context [send ?b n0 ?r m] => destruct (send_keeps_log b r n0 m) as [L1 L2]; set (sr := send b n0 r m) in * end.
  cbn [fst]. specialize (IH (setn cl i sr.1) i). rewrite setn_length, getn_setn in IH by done. rewrite L1, L2 in IH. cbn [n_log n_coff n0 set_coff] in IH.
  destruct IH as [I1 I2]; [done|lia|]. cbn zeta in I1, I2. rewrite I1, I2. split; [done|]. lia.
Qed.

(** ** a failing or hostile connection touches only its own session (C18) *)
Lemma alookup_adel_other {A} k r (l : list (string * A)) : r ≠ k → alookup r (adel k l) = alookup r l.
Proof. intros. by apply alookup_adel_ne. Qed.
(* the registry entries of every other session survive the end of session [s] *)
Theorem end_spares_other_sessions cl i s clk r : r ≠ ss_id s →
  alookup r (n_reg (after_unsub cl i s clk)) = alookup r (n_reg (getn cl i)).
Proof. intros Hr. rewrite end_leaves_registry. by apply alookup_adel_ne. Qed.
(* ... and so do their session records and the in-flight table and identifier pool of the node *)
Lemma fold_mutate_misc (s : sess) clk ts : ∀ n,
  let n' := fold_left (λ m t, mutate m (sub_delete (n_d m) (ss_id s) t clk)) ts n in
  n_acks n' = n_acks n ∧ n_pool n' = n_pool n ∧ n_log n' = n_log n ∧ n_coff n' = n_coff n ∧ d_ret (n_d n') = d_ret (n_d n).
Proof. induction ts as [|t ts IH]; intros n; cbn [fold_left]; [done|]. destruct (IH (mutate n (sub_delete (n_d n) (ss_id s) t clk))) as (?&?&?&?&?). done. Qed.
Theorem end_spares_node_state cl i s clk : let n' := after_unsub cl i s clk in let n := getn cl i in
  n_acks n' = n_acks n ∧ n_pool n' = n_pool n ∧ n_log n' = n_log n ∧ n_coff n' = n_coff n ∧ d_ret (n_d n') = d_ret (n_d n)
  ∧ d_sess (n_d n') = d_sess (n_d n).
Proof.
  cbn zeta. unfold after_unsub. destruct (fold_mutate_misc s clk (ss_topics s) (set_reg (getn cl i) (adel (ss_id s) (n_reg (getn cl i))))) as (?&?&?&?&?).
  repeat split; try done. by rewrite fold_mutate_sess.
Qed.
(* the subscriptions it tombstones are its own: entries keyed by another session id are untouched *)
From Wasp Require Import Proofs.Lww Proofs.DStateFacts.
Lemma fold_mutate_subs (s : sess) clk ts : ∀ n, subs_wf (d_subs (n_d n)) → ∀ pat sid, sid ≠ ss_id s →
  abs_subs (d_subs (n_d (fold_left (λ m t, mutate m (sub_delete (n_d m) (ss_id s) t clk)) ts n))) (pat, sid) = abs_subs (d_subs (n_d n)) (pat, sid).
Proof.
  induction ts as [|t ts IH]; intros n Hwf pat sid Hne; cbn [fold_left]; [done|].
  assert (Hstep : subs_wf (d_subs (n_d (mutate n (sub_delete (n_d n) (ss_id s) t clk)))) ∧
                  abs_subs (d_subs (n_d (mutate n (sub_delete (n_d n) (ss_id s) t clk)))) (pat, sid) = abs_subs (d_subs (n_d n)) (pat, sid)).
  { cbn [mutate sub_delete fst snd set_d set_out n_d with_subs d_subs].
    destruct (sub_set_abs (d_subs (n_d n)) (Sub (ss_id s) t (d_peer (n_d n)) 0 0 clk) Hwf) as [Hw Ha]. split; [done|].
    rewrite Ha. apply amerge1_other. unfold sub_key. cbn. congruence. }
  destruct Hstep as [Hw Ha]. rewrite IH by done. exact Ha.
Qed.
Theorem end_spares_other_subscriptions cl i s clk pat sid : subs_wf (d_subs (n_d (getn cl i))) → sid ≠ ss_id s →
  abs_subs (d_subs (n_d (after_unsub cl i s clk))) (pat, sid) = abs_subs (d_subs (n_d (getn cl i))) (pat, sid).
Proof. intros Hwf Hne. unfold after_unsub. by rewrite fold_mutate_subs. Qed.
