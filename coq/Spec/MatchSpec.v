(** MQTT 3.1.1 section 4.7 topic matching on level lists.  '+' stands for exactly one level,
    '#' as the LAST level for the parent level and everything below it.  A '#' that is not
    the last level makes a filter that matches nothing.  Empty levels are ordinary levels. *)
From Wasp Require Export Model.Base.

Fixpoint mmatch (f t : list string) : bool :=
  match f with
  | [] => is_nil t
  | x :: f' =>
    if (String.eqb x "#" && is_nil f')%bool then true
    else match t with
         | [] => false
         | y :: t' => ((String.eqb x "+") || (String.eqb x y)) && mmatch f' t'
         end
  end.

(** PUBLISH topic names carry no '#' level (the hypothesis of C01's theorems). *)
Definition topic_ok (t : list string) : bool := forallb (fun l => negb (String.eqb l "#")) t.
(** filters whose '#', if any, is the last level (hypothesis of the retained-match theorem) *)
Fixpoint filter_ok (f : list string) : bool :=
  match f with
  | [] => true
  | x :: f' => (negb (String.eqb x "#") || is_nil f') && filter_ok f'
  end.
