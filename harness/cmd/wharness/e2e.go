package main

// Family "broker": scripts against 1-3 in-process wasp nodes through client connections.
// One step = one client packet / connection event / sweep / gossip delivery / peer failure,
// followed by waiting for the pipeline to go quiet; the observations of a step are the packets
// each connection received, connections closed, the read deadline in force on the acting
// connection, message-log appends and inter-node calls, and (at checks) the listed sessions
// and subscriptions of a node.

import (
	"os"
	"encoding/json"
	"fmt"
	"sort"
	"strings"
	"sync/atomic"
	"time"

	"github.com/vx-labs/mqtt-protocol/decoder"
	"github.com/vx-labs/mqtt-protocol/packet"
	"github.com/vx-labs/wasp/v4/wasp/transport"
)

type e2eRef struct {
	T string `json:"t"`
	P string `json:"p"`
	Q int    `json:"q"`
	I int    `json:"i"`
}
type e2eOp struct {
	Op    string   `json:"op"`
	N     int      `json:"n,omitempty"`
	C     string   `json:"c,omitempty"`
	CID   string   `json:"cid,omitempty"`
	User  string   `json:"user,omitempty"`
	Pass  string   `json:"pass,omitempty"`
	KA    int      `json:"ka,omitempty"`
	Will  *jPub    `json:"will,omitempty"`
	P     string   `json:"p,omitempty"` // packet kind for send
	T     string   `json:"t,omitempty"`
	Pl    string   `json:"pl,omitempty"`
	Q     int      `json:"q,omitempty"`
	R     bool     `json:"r,omitempty"`
	Dup   bool     `json:"dup,omitempty"`
	Mid   int      `json:"mid,omitempty"`
	Fs    []string `json:"fs,omitempty"`
	Qs    []int    `json:"qs,omitempty"`
	Ref   *e2eRef  `json:"ref,omitempty"`
	Src   int      `json:"src,omitempty"`
	Peers []int    `json:"peers,omitempty"`
	K     int      `json:"k,omitempty"`
	Hex   string   `json:"hex,omitempty"`
	Rev   bool     `json:"rev,omitempty"` // gossip: deliver the pending broadcasts in reverse order
	RC    string   `json:"rc,omitempty"`  // raceconnect: the connection whose DISCONNECT is processed inside the new connection's setup
}
type e2eInput struct {
	Nodes int     `json:"nodes"`
	Offs  []int64 `json:"offs,omitempty"` // clock offset per node
	Ops   []e2eOp `json:"ops"`
}
type e2eFamily struct{}

func init() { register("broker", e2eFamily{}) }

type e2eClient struct {
	name  string
	node  int
	conn  *scriptConn
	seen  int              // packets already reported
	mids  map[string][]int // content key -> distinct broker-chosen mids in order of first appearance
	wasCl bool
}

func refKey(t, p string, q int) string { return fmt.Sprintf("%s\x00%s\x00%d", t, p, q) }

func cqOpkt(p packet.Packet) string {
	switch q := p.(type) {
	case *packet.ConnAck:
		return fmt.Sprintf("OConnAck %s", cqZ(int64(q.ReturnCode)))
	case *packet.Publish:
		h := q.Header
		if h == nil {
			h = &packet.Header{}
		}
		return fmt.Sprintf("OPublish %s %s %s %s %s %s", cqStr(string(q.Topic)), cqStr(string(q.Payload)), cqZ(int64(h.Qos)), cqBool(h.Retain), cqBool(h.Dup), cqZ(int64(q.MessageId)))
	case *packet.PubAck:
		return fmt.Sprintf("OPubAck %s", cqZ(int64(q.MessageId)))
	case *packet.PubRec:
		return fmt.Sprintf("OPubRec %s", cqZ(int64(q.MessageId)))
	case *packet.PubRel:
		return fmt.Sprintf("OPubRel %s", cqZ(int64(q.MessageId)))
	case *packet.PubComp:
		return fmt.Sprintf("OPubComp %s", cqZ(int64(q.MessageId)))
	case *packet.SubAck:
		var qs []string
		for _, x := range q.Qos {
			qs = append(qs, cqZ(int64(x)))
		}
		return fmt.Sprintf("OSubAck %s %s", cqZ(int64(q.MessageId)), cqList(qs))
	case *packet.UnsubAck:
		return fmt.Sprintf("OUnsubAck %s", cqZ(int64(q.MessageId)))
	case *packet.PingResp:
		return "OPingResp"
	}
	return fmt.Sprintf("OOther %s", cqZ(int64(p.Type())))
}
func descPkt(p packet.Packet) string {
	switch q := p.(type) {
	case *packet.Publish:
		h := q.Header
		if h == nil {
			h = &packet.Header{}
		}
		return fmt.Sprintf("PUBLISH(%s,%s,q%d,r%v,mid%d)", q.Topic, q.Payload, h.Qos, h.Retain, q.MessageId)
	case *packet.ConnAck:
		return fmt.Sprintf("CONNACK(%d)", q.ReturnCode)
	case *packet.PubRel:
		return fmt.Sprintf("PUBREL(%d)", q.MessageId)
	case *packet.PubAck:
		return fmt.Sprintf("PUBACK(%d)", q.MessageId)
	case *packet.PubRec:
		return fmt.Sprintf("PUBREC(%d)", q.MessageId)
	case *packet.PubComp:
		return fmt.Sprintf("PUBCOMP(%d)", q.MessageId)
	}
	return packet.TypeString(p)
}

func decoderNew() *decoder.Sync { return decoder.New() }

func unhex(h string) []byte {
	out := make([]byte, 0, len(h)/2)
	for i := 0; i+1 < len(h); i += 2 {
		var b byte
		fmt.Sscanf(h[i:i+2], "%02x", &b)
		out = append(out, b)
	}
	return out
}

type countingReader struct {
	b   []byte
	pos int
}

func (r *countingReader) Read(p []byte) (int, error) {
	if r.pos >= len(r.b) {
		return 0, fmt.Errorf("EOF")
	}
	n := copy(p, r.b[r.pos:])
	r.pos += n
	return n, nil
}

// simulateDecode runs the library decoder on exactly these bytes. complete = the frame's declared
// length did not exceed what was given (otherwise the broker blocks in the body read).
func simulateDecode(b []byte) (pkt packet.Packet, complete bool, err error) {
	complete = completePacketLen(b) > 0 && completePacketLen(b) <= len(b)
	defer func() {
		if r := recover(); r != nil {
			pkt, err = nil, fmt.Errorf("decoder panic: %v", r)
		}
	}()
	pkt, err = decoderNew().Decode(&countingReader{b: b})
	return
}

func rawOpTerm(c string, pkt packet.Packet, derr error, clk int64) string {
	if derr != nil || pkt == nil {
		return fmt.Sprintf("EProtoError %s %s", cqStr(c), cqZ(clk))
	}
	switch p := pkt.(type) {
	case *packet.Publish:
		h := p.Header
		if h == nil {
			h = &packet.Header{}
		}
		return fmt.Sprintf("EPublish %s (Publish %s %s %s %s %s) %s %s %s", cqStr(c), cqStr(string(p.Topic)), cqStr(string(p.Payload)), cqZ(int64(h.Qos)), cqBool(h.Retain), cqBool(h.Dup), cqBool(h.Dup), cqZ(int64(p.MessageId)), cqZ(clk))
	case *packet.Subscribe:
		var fs []string
		for i, f := range p.Topic {
			q := int32(0)
			if i < len(p.Qos) {
				q = p.Qos[i]
			}
			fs = append(fs, fmt.Sprintf("(%s, %s)", cqStr(string(f)), cqZ(int64(q))))
		}
		return fmt.Sprintf("ESubscribe %s %s %s %s", cqStr(c), cqZ(int64(p.MessageId)), cqList(fs), cqZ(clk))
	case *packet.Unsubscribe:
		var fs []string
		for _, f := range p.Topic {
			fs = append(fs, string(f))
		}
		return fmt.Sprintf("EUnsubscribe %s %s %s %s", cqStr(c), cqZ(int64(p.MessageId)), cqStrs(fs), cqZ(clk))
	case *packet.PubAck:
		return fmt.Sprintf("EAck %s 4%%Z (RefRaw %s) %s", cqStr(c), cqZ(int64(p.MessageId)), cqZ(clk))
	case *packet.PubRec:
		return fmt.Sprintf("EAck %s 5%%Z (RefRaw %s) %s", cqStr(c), cqZ(int64(p.MessageId)), cqZ(clk))
	case *packet.PubRel:
		return fmt.Sprintf("EAck %s 6%%Z (RefRaw %s) %s", cqStr(c), cqZ(int64(p.MessageId)), cqZ(clk))
	case *packet.PubComp:
		return fmt.Sprintf("EAck %s 7%%Z (RefRaw %s) %s", cqStr(c), cqZ(int64(p.MessageId)), cqZ(clk))
	case *packet.PingReq:
		return fmt.Sprintf("EPing %s %s", cqStr(c), cqZ(clk))
	case *packet.Disconnect:
		return fmt.Sprintf("EDisconnect %s %s", cqStr(c), cqZ(clk))
	case *packet.Connect:
		return fmt.Sprintf("EProtoError %s %s", cqStr(c), cqZ(clk))
	}
	return fmt.Sprintf("ENoop %s", cqStr(c))
}

func cqOptPubE(p *jPub) string {
	if p == nil {
		return "None"
	}
	return "(Some " + cqPub(*p) + ")"
}

func (e2eFamily) Exec(id int, raw json.RawMessage) Case {
	var in e2eInput
	if err := json.Unmarshal(raw, &in); err != nil {
		panic(err)
	}
	c := Case{ID: id}
	if in.Nodes < 1 {
		in.Nodes = 1
	}
	ids := []uint64{1, 2, 3}[:in.Nodes]
	cl := newE2ECluster(ids)
	defer cl.stop()
	clients := map[string]*e2eClient{}
	var order []string
	var terms []string
	var obsAll []interface{}
	delivered := map[[2]int]int{} // (src,dst) -> number of src's broadcasts already delivered to dst
	nPub, nConn := 0, 0
	tags := map[string]bool{}

	noticeAt := map[int]time.Time{} // survivor -> when its NotifyGossipLeave returned (its delayed removal is outstanding)
	reapBase := map[int]int{}       // survivor -> broadcasts it had produced by then
	voided := false                 // the machine was too slow for a timing the script depends on: the case is dropped
	var lastRaw []string // the observation terms of the last collect, unsorted by kind
	collect := func(acting string, withDeadline bool) (string, []string) {
		var ts []string
		var hs []string
		for _, name := range order {
			k := clients[name]
			pkts, closed, dl, _, garbage := k.conn.Snapshot()
			for _, p := range pkts[k.seen:] {
				ts = append(ts, fmt.Sprintf("Out %s (%s)", cqStr(name), cqOpkt(p)))
				hs = append(hs, name+"<-"+descPkt(p))
				switch q := p.(type) {
				case *packet.Publish:
					if q.Header != nil && q.Header.Qos > 0 {
						key := refKey(string(q.Topic), string(q.Payload), int(q.Header.Qos))
						found := false
						for _, m := range k.mids[key] {
							if m == int(q.MessageId) {
								found = true
							}
						}
						if !found {
							k.mids[key] = append(k.mids[key], int(q.MessageId))
						}
					}
				}
			}
			k.seen = len(pkts)
			if closed && !k.wasCl {
				k.wasCl = true
				ts = append(ts, fmt.Sprintf("Closed %s", cqStr(name)))
				hs = append(hs, name+" closed")
			}
			if garbage > 0 {
				ts = append(ts, fmt.Sprintf("Garbage %s", cqStr(name)))
			}
			if withDeadline && name == acting && !closed {
				ts = append(ts, fmt.Sprintf("Deadline %s %s", cqStr(name), cqZ(int64(dl/time.Millisecond))))
				hs = append(hs, fmt.Sprintf("%s deadline %v", name, dl))
			}
		}
		for _, n := range cl.nodes {
			for _, ev := range n.log.takeEvents() {
				if !ev.ok {
					ts = append(ts, fmt.Sprintf("AppendFailed %s", cqNat(n.idx)))
					hs = append(hs, fmt.Sprintf("node%d append failed", n.idx))
					continue
				}
				if ev.topic == "_/barrier" {
					continue
				}
				ts = append(ts, fmt.Sprintf("Appended %s %s %s %s %s", cqNat(n.idx), cqStr(ev.topic), cqStr(ev.payload), cqZ(int64(ev.qos)), cqBool(ev.retain)))
				hs = append(hs, fmt.Sprintf("node%d append %q=%q", n.idx, ev.topic, ev.payload))
			}
		}
		cl.mu.Lock()
		calls := cl.calls
		cl.calls = nil
		cl.mu.Unlock()
		for _, cc := range calls {
			var s, d uint64
			var ok bool
			fmt.Sscanf(cc, "%d %d %t", &s, &d, &ok)
			ts = append(ts, fmt.Sprintf("Call %s %s %s", cqNat(int(s)-1), cqNat(int(d)-1), cqBool(ok)))
			hs = append(hs, "call "+cc)
		}
		sort.Strings(ts)
		lastRaw = ts
		return cqList(ts), hs
	}
	settle := func(expectAckOn *e2eClient) string {
		msg := cl.sync(false)
		// quiet period: no new output anywhere for a little while (acks are written by publish
		// workers after Distribute returns, wills are queued by the serve goroutine)
		quiet := 0
		last := -1
		for i := 0; i < 400 && quiet < 12; i++ {
			total := 0
			for _, k := range clients {
				total += k.conn.outCount()
			}
			for _, n := range cl.nodes {
				total += int(n.log.appendedCount()) + int(atomic.LoadInt64(&n.taps.started))
			}
			if total == last {
				quiet++
			} else {
				quiet = 0
				last = total
			}
			time.Sleep(500 * time.Microsecond)
		}
		if m2 := cl.sync(false); m2 != "" && msg == "" {
			msg = m2
		}
		return msg
	}

	step := func(si int, o e2eOp) (term string, ob interface{}) {
		defer func() {
			if r := recover(); r != nil {
				term, ob = "(EPanic, [])", fmt.Sprintf("harness step panicked: %v", r)
			}
		}()
		if o.N < 0 || o.N >= len(cl.nodes) {
			o.N = 0
		}
		off := int64(0)
		if o.N < len(in.Offs) {
			off = in.Offs[o.N]
		}
		clk := int64(1000+10*si) + off
		for _, t0 := range noticeAt {
			if time.Since(t0) > 2500*time.Millisecond {
				voided = true // a delayed removal may fire under another step's clock, or reach a gossip step
			}
		}
		atomic.StoreInt64(&cl.curClock, clk)
		if os.Getenv("VERIF_TIMING") != "" {
			t0 := time.Now()
			defer func(o e2eOp) {
				if d := time.Since(t0); d > 50*time.Millisecond {
					fmt.Fprintf(os.Stderr, "SLOW %v %s %s %s %s\n", d, o.Op, o.C, o.P, o.Hex)
				}
			}(o)
		}
		node := cl.nodes[o.N]
		var k *e2eClient
		if o.C != "" {
			k = clients[o.C]
		}
		opT := ""
		withDl := false
		syncMsg := ""
		switch o.Op {
		case "connect":
			nConn++
			k = &e2eClient{name: o.C, node: o.N, conn: newScriptConn(), mids: map[string][]int{}}
			clients[o.C] = k
			order = append(order, o.C)
			ka := o.KA
			if ka == 0 {
				ka = 60
			}
			go node.mgr.Setup(cl.ctx, transport.Metadata{Name: "script", Channel: k.conn})
			k.conn.Feed(encConnect(o.CID, o.User, o.Pass, ka, o.Will, true))
			if !k.conn.WaitOutCount(1, cl.wait()) {
				tags["no-connack"] = true
			}
			if o.Pass != "bad" && o.Pass != "bad-static" {
				k.conn.WaitIdle(cl.wait())
			} else {
				// the refusal CONNACK is the last thing setup does: nobody reads this connection afterwards
				// (it stays open until the client gives up), so there is no idle state to wait for
				time.Sleep(500 * time.Microsecond)
			}
			syncMsg = settle(nil)
			withDl = true
			opT = fmt.Sprintf("EConnect %s %s %s %s %s %s %s %s", cqNat(o.N), cqStr(o.C), cqStr(o.CID), cqStr(o.User), cqStr(o.Pass), cqZ(int64(ka)), cqOptPubE(o.Will), cqZ(clk))
		case "raceconnect":
			// C12 under the one interleaving that matters inside setup: the session that owns the client
			// identifier ends (its DISCONNECT is processed to completion) after setup has looked it up and
			// before setup removes it. Whatever the order, the outcome must be that of "DISCONNECT, then
			// CONNECT": the new session is established. Reported as those two steps, the observations on
			// the old connection going to the first.
			old := clients[o.RC]
			if old == nil {
				panic("raceconnect on unknown connection " + o.RC)
			}
			nConn++
			k = &e2eClient{name: o.C, node: o.N, conn: newScriptConn(), mids: map[string][]int{}}
			clients[o.C] = k
			order = append(order, o.C)
			ka := o.KA
			if ka == 0 {
				ka = 60
			}
			var fired int32
			ending := func() {
				atomic.StoreInt32(&fired, 1)
				old.conn.Feed([]byte{0xe0, 0})
				old.conn.WaitClosed(cl.wait())
			}
			node.race.arm(ending)
			go node.mgr.Setup(cl.ctx, transport.Metadata{Name: "script", Channel: k.conn})
			k.conn.Feed(encConnect(o.CID, o.User, o.Pass, ka, o.Will, true))
			if !k.conn.WaitOutCount(1, cl.wait()) {
				tags["no-connack"] = true
			}
			k.conn.WaitIdle(cl.wait())
			if f := node.race.take(); f != nil {
				// setup never asked who owns the identifier: the old session ends afterwards
				tags["race-not-reached"] = true
				f()
			}
			syncMsg = settle(nil)
			node.drain()
			_, hs := collect(o.C, true)
			var first, second []string
			mark := " " + cqStr(o.RC)
			for _, t := range lastRaw {
				if strings.HasPrefix(t, "Out"+mark+" ") || strings.HasPrefix(t, "Closed"+mark) || strings.HasPrefix(t, "Garbage"+mark) {
					first = append(first, t)
				} else {
					second = append(second, t)
				}
			}
			if syncMsg != "" {
				tags["sync-timeout"] = true
				hs = append(hs, syncMsg)
			}
			tags["raceconnect"] = true
			tDisc := fmt.Sprintf("(EDisconnect %s %s, %s)", cqStr(o.RC), cqZ(clk), cqList(first))
			tConn := fmt.Sprintf("(EConnect %s %s %s %s %s %s %s %s, %s)", cqNat(o.N), cqStr(o.C), cqStr(o.CID), cqStr(o.User), cqStr(o.Pass), cqZ(int64(ka)), cqOptPubE(o.Will), cqZ(clk), cqList(second))
			if atomic.LoadInt32(&fired) == 1 && !tags["race-not-reached"] {
				return tDisc + "; " + tConn, hs
			}
			return tConn + "; " + tDisc, hs
		case "send":
			if k == nil {
				panic("send on unknown connection " + o.C)
			}
			var buf []byte
			lastAckMid := 0
			switch o.P {
			case "pub":
				nPub++
				buf = encPublish(o.T, o.Pl, o.Q, o.R, o.Dup, o.Mid)
				opT = fmt.Sprintf("EPublish %s (Publish %s %s %s %s %s) %s %s %s", cqStr(o.C), cqStr(o.T), cqStr(o.Pl), cqZ(int64(o.Q)), cqBool(o.R), cqBool(o.Dup), cqBool(o.Dup), cqZ(int64(o.Mid)), cqZ(clk))
			case "sub":
				buf = encSubscribe(o.Mid, o.Fs, o.Qs)
				var fs []string
				for i, f := range o.Fs {
					q := 0
					if i < len(o.Qs) {
						q = o.Qs[i]
					}
					fs = append(fs, fmt.Sprintf("(%s, %s)", cqStr(f), cqZ(int64(q))))
				}
				opT = fmt.Sprintf("ESubscribe %s %s %s %s", cqStr(o.C), cqZ(int64(o.Mid)), cqList(fs), cqZ(clk))
			case "unsub":
				buf = encUnsubscribe(o.Mid, o.Fs)
				opT = fmt.Sprintf("EUnsubscribe %s %s %s %s", cqStr(o.C), cqZ(int64(o.Mid)), cqStrs(o.Fs), cqZ(clk))
			case "puback", "pubrec", "pubrel", "pubcomp":
				typ := map[string]byte{"puback": 4, "pubrec": 5, "pubrel": 6, "pubcomp": 7}[o.P]
				mid := o.Mid
				ref := fmt.Sprintf("(RefRaw %s)", cqZ(int64(o.Mid)))
				if o.Ref != nil {
					ms := k.mids[refKey(o.Ref.T, o.Ref.P, o.Ref.Q)]
					if o.Ref.I < len(ms) {
						mid = ms[o.Ref.I]
					} else {
						mid = 65000 // nothing to refer to: an unknown identifier
					}
					ref = fmt.Sprintf("(RefFor %s %s %s %s)", cqStr(o.Ref.T), cqStr(o.Ref.P), cqZ(int64(o.Ref.Q)), cqNat(o.Ref.I))
				}
				buf = encAck(typ, mid)
				lastAckMid = mid
				opT = fmt.Sprintf("EAck %s %s %s %s", cqStr(o.C), cqZ(int64(typ)), ref, cqZ(clk))
			case "ping":
				buf = []byte{0xc0, 0}
				opT = fmt.Sprintf("EPing %s %s", cqStr(o.C), cqZ(clk))
			case "disc":
				buf = []byte{0xe0, 0}
				opT = fmt.Sprintf("EDisconnect %s %s", cqStr(o.C), cqZ(clk))
			case "connect":
				buf = encConnect("again", "", "", 60, nil, true)
				opT = fmt.Sprintf("EProtoError %s %s", cqStr(o.C), cqZ(clk))
			default:
				panic("unknown packet kind " + o.P)
			}
			from, fails0, rel0 := k.conn.outCount(), cl.storeFailures(), atomic.LoadInt64(&node0(cl, k).q.relJob)
			k.conn.Feed(buf)
			k.conn.WaitIdle(cl.wait())
			syncMsg = settle(k)
			// the acknowledgement is written by the worker after Distribute has returned: when nothing
			// failed to store it must come, so wait for it rather than for a quiet period
			if cl.storeFailures() == fails0 {
				if o.P == "pub" && o.Q == 1 {
					k.conn.WaitAckFrom(from, 4, int32(o.Mid), cl.wait())
				} else if o.P == "pubrel" && atomic.LoadInt64(&node0(cl, k).q.relJob) > rel0 {
					k.conn.WaitAckFrom(from, 7, int32(lastAckMid), cl.wait())
				}
			}
			withDl = o.P != "disc" && o.P != "connect"
		case "raw":
			// arbitrary bytes on an established connection: what the broker's decoder makes of them is
			// found out by running the same decoder on the same bytes (the decoder is a dependency,
			// outside /repo); the model is told the packet it yields, or that it fails
			bytesIn := unhex(o.Hex)
			pkt, complete, derr := simulateDecode(bytesIn)
			from, fails0, rel0 := k.conn.outCount(), cl.storeFailures(), atomic.LoadInt64(&node0(cl, k).q.relJob)
			k.conn.Feed(bytesIn)
			if !complete {
				// the broker blocks reading the body: the read deadline passes (the library ignores that
				// error and decodes the zero-padded buffer)
				time.Sleep(2 * time.Millisecond)
				k.conn.FireTimeout()
			}
			k.conn.WaitIdle(cl.wait())
			syncMsg = settle(k)
			if derr == nil && cl.storeFailures() == fails0 {
				switch p := pkt.(type) {
				case *packet.Publish:
					if p.Header != nil && p.Header.Qos == 1 {
						k.conn.WaitAckFrom(from, 4, p.MessageId, cl.wait())
					}
				case *packet.PubRel:
					if atomic.LoadInt64(&node0(cl, k).q.relJob) > rel0 {
						k.conn.WaitAckFrom(from, 7, p.MessageId, cl.wait())
					}
				}
			}
			withDl = true
			opT = rawOpTerm(o.C, pkt, derr, clk)
			tags["raw"] = true
		case "rawconnect":
			nConn++
			k = &e2eClient{name: o.C, node: o.N, conn: newScriptConn(), mids: map[string][]int{}}
			clients[o.C] = k
			order = append(order, o.C)
			bytesIn := unhex(o.Hex)
			pkt, complete, derr := simulateDecode(bytesIn)
			go node.mgr.Setup(cl.ctx, transport.Metadata{Name: "script", Channel: k.conn})
			k.conn.Feed(bytesIn)
			if !complete {
				time.Sleep(2 * time.Millisecond)
				k.conn.FireTimeout()
			}
			if cp, isConn := pkt.(*packet.Connect); isConn && derr == nil {
				if !k.conn.WaitOutCount(1, cl.wait()) {
					tags["no-connack"] = true
				}
				k.conn.WaitIdle(cl.wait())
				var will *jPub
				if len(cp.WillTopic) > 0 {
					will = &jPub{T: string(cp.WillTopic), P: string(cp.WillPayload), Q: cp.WillQos, R: cp.WillRetain}
				}
				opT = fmt.Sprintf("EConnect %s %s %s %s %s %s %s %s", cqNat(o.N), cqStr(o.C), cqStr(string(cp.ClientId)), cqStr(string(cp.Username)), cqStr(string(cp.Password)), cqZ(int64(cp.KeepaliveTimer)), cqOptPubE(will), cqZ(clk))
			} else {
				k.conn.WaitClosed(cl.wait())
				opT = fmt.Sprintf("EBadConnect %s %s", cqNat(o.N), cqStr(o.C))
			}
			syncMsg = settle(nil)
			withDl = true
			tags["raw"] = true
		case "eof":
			k.conn.ClientEOF()
			if !k.conn.WaitClosed(cl.wait()) {
				tags["not-closed"] = true
			}
			syncMsg = settle(nil)
			opT = fmt.Sprintf("EEof %s %s", cqStr(o.C), cqZ(clk))
		case "timeout":
			k.conn.FireTimeout()
			if !k.conn.WaitClosed(cl.wait()) {
				tags["not-closed"] = true
			}
			syncMsg = settle(nil)
			opT = fmt.Sprintf("EEof %s %s", cqStr(o.C), cqZ(clk)) // a read error like any other
		case "failwrites":
			k.conn.FailWrites()
			opT = fmt.Sprintf("EFailWrites %s", cqStr(o.C))
		case "sweep":
			node.q.Force(time.Now().Add(10 * time.Second))
			syncMsg = settle(nil)
			opT = fmt.Sprintf("ESweep %s", cqNat(o.N))
		case "gossip":
			src := cl.nodes[o.Src]
			src.drain()
			from := delivered[[2]int{o.Src, o.N}]
			pending := src.out[from:]
			if o.Rev {
				// gossip does not keep the order in which broadcasts were queued
				for i := len(pending) - 1; i >= 0; i-- {
					node.dstate.Distributor().NotifyMsg(pending[i])
				}
				opT = fmt.Sprintf("EGossipRev %s %s", cqNat(o.Src), cqNat(o.N))
			} else {
				for _, m := range pending {
					node.dstate.Distributor().NotifyMsg(m)
				}
				opT = fmt.Sprintf("EGossip %s %s", cqNat(o.Src), cqNat(o.N))
			}
			delivered[[2]int{o.Src, o.N}] = len(src.out)
		case "snapshot":
			buf := cl.nodes[o.Src].dstate.Distributor().LocalState(false)
			node.dstate.Distributor().MergeRemoteState(buf, true)
			opT = fmt.Sprintf("ESnapshot %s %s", cqNat(o.Src), cqNat(o.N))
		case "peer_leave":
			dead := cl.nodes[o.Src]
			cl.mu.Lock()
			cl.down[dead.id] = true
			cl.mu.Unlock()
			node.mm.NotifyGossipLeave(dead.id)
			queued0 := node.bcast.NumQueued()
			syncMsg = settle(nil)
			// the session records of the dead peer are removed by a goroutine 3 s later; its DeletePeer
			// always queues one broadcast (an empty one when there is nothing to remove): wait for that
			// broadcast, not for the wall clock, so that the removal is stamped with this step's clock
			for dl := time.Now().Add(3*time.Second + cl.wait()); node.bcast.NumQueued() <= queued0 && time.Now().Before(dl); {
				time.Sleep(2 * time.Millisecond)
			}
			tags["peer-leave"] = true
			opT = fmt.Sprintf("EPeerLeave %s %s %s", cqNat(o.N), cqNat(o.Src), cqZ(clk))
		case "peer_notice":
			// NotifyGossipLeave up to its return: the removal of the failed peer's session records is left
			// to a goroutine that fires three seconds later ("peer_reap" waits for it). The steps between
			// the two must fit into that time; a case that is too slow for it is dropped (voided), never
			// judged.
			dead := cl.nodes[o.Src]
			cl.mu.Lock()
			cl.down[dead.id] = true
			cl.mu.Unlock()
			node.mm.NotifyGossipLeave(dead.id)
			noticeAt[o.N] = time.Now()
			syncMsg = settle(nil)
			node.drain()
			reapBase[o.N] = len(node.out)
			tags["peer-notice"] = true
			opT = fmt.Sprintf("EPeerNotice %s %s %s", cqNat(o.N), cqNat(o.Src), cqZ(clk))
		case "peer_reap":
			// the delayed removals at the survivors o.Peers, all under this step's clock
			var ts []string
			for _, p := range o.Peers {
				t0, ok := noticeAt[p]
				if !ok || time.Since(t0) > 2500*time.Millisecond {
					voided = true
				}
			}
			for _, p := range o.Peers {
				nd := cl.nodes[p]
				for dl := noticeAt[p].Add(5 * time.Second); nd.bcast.NumQueued() == 0 && len(nd.out) <= reapBase[p] && time.Now().Before(dl); {
					time.Sleep(2 * time.Millisecond)
				}
				delete(noticeAt, p)
				nd.drain()
				ts = append(ts, fmt.Sprintf("(EPeerReap %s %s %s, [])", cqNat(p), cqNat(o.Src), cqZ(clk)))
			}
			syncMsg = settle(nil)
			obsT, hs := collect("", false)
			tags["peer-reap"] = true
			if len(ts) == 0 {
				return fmt.Sprintf("(EPanic, %s)", obsT), hs
			}
			// whatever was observed meanwhile (nothing should be) goes with the last removal
			ts[len(ts)-1] = strings.Replace(ts[len(ts)-1], ", [])", ", "+obsT+")", 1)
			return strings.Join(ts, "; "), hs
		case "unreachable":
			cl.mu.Lock()
			cl.down = map[uint64]bool{}
			var ps []string
			for _, p := range o.Peers {
				cl.down[cl.nodes[p].id] = true
				ps = append(ps, cqNat(p))
			}
			cl.mu.Unlock()
			opT = fmt.Sprintf("EUnreachable %s", cqList(ps))
		case "failappend":
			node.log.mu.Lock()
			node.log.failNext = o.K
			node.log.mu.Unlock()
			tags["fault"] = true
			opT = fmt.Sprintf("EFailAppend %s %s", cqNat(o.N), cqNat(o.K))
		case "check":
			var vis jEvent
			for _, s := range node.dstate.SessionMetadatas().All() {
				s := s
				vis.Sess = append(vis.Sess, toJSess(&s))
			}
			for _, s := range node.dstate.Subscriptions().All() {
				s := s
				vis.Subs = append(vis.Subs, toJSub(&s))
			}
			sortEvent(&vis)
			var reg []string
			for _, s := range node.local.ListSessions() {
				reg = append(reg, s.ID())
			}
			sort.Strings(reg)
			pend := int(atomic.LoadInt64(&node.q.pend))
			term = fmt.Sprintf("(ECheck %s, [Listed %s %s %s %s %s])", cqNat(o.N), cqNat(o.N), cqSessL(vis.Sess), cqSubL(vis.Subs), cqStrs(reg), cqNat(pend))
			return term, map[string]interface{}{"sessions": vis.Sess, "subs": vis.Subs, "registry": reg, "inflight": pend}
		default:
			panic("unknown op " + o.Op)
		}
		node.drain()
		obsT, hs := collect(o.C, withDl)
		if syncMsg != "" {
			tags["sync-timeout"] = true
			hs = append(hs, syncMsg)
		}
		return fmt.Sprintf("(%s, %s)", opT, obsT), hs
	}
	for si, o := range in.Ops {
		t, ob := step(si, o)
		terms = append(terms, t)
		obsAll = append(obsAll, ob)
		for _, t0 := range noticeAt {
			if time.Since(t0) > 2500*time.Millisecond {
				voided = true // the step ran into the time at which a delayed removal fires
			}
		}
	}
	if len(obsAll) > 60 {
		obsAll = append(obsAll[:60], fmt.Sprintf("... %d more steps", len(obsAll)-60))
	}
	c.Obs = obsAll
	if voided {
		terms = nil
		tags["voided-too-slow"] = true
	}
	c.Coq = fmt.Sprintf("(%s, %s, %s)", cqN(int64(id)), cqNat(in.Nodes), cqList(terms))
	c.Nontrivial = nConn >= 2 && len(in.Ops) >= 4 && !voided
	c.Sig = string(raw)
	for t := range tags {
		c.Tags = append(c.Tags, t)
	}
	sort.Strings(c.Tags)
	return c
}

func node0(cl *e2eCluster, k *e2eClient) *e2eNode { return cl.nodes[k.node] }
