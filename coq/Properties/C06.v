(** C06 — Packet identifiers in flight are unique and never leak.  Statements only. *)
From Wasp Require Import Model.Base Spec.MatchSpec Model.DState Model.IdPool Model.Mount Model.Node Proofs.IdPoolFacts Proofs.IdsFacts.
From stdpp Require Import list sets.
Open Scope Z_scope.

(** [prun mn mx ops] is the pool after ANY history of Get/Put calls (releases of free, unknown
    and out-of-range identifiers included) together with the list of identifiers handed out
    and not yet returned.  In every reachable state the free-interval list is sorted,
    disjoint, inside (min-1,max], and denotes exactly the range minus the outstanding set. *)
Theorem pool_invariant : ∀ mn mx ops, 0 ≤ mn ≤ mx →
  let st := prun mn mx ops in
  Inv st.1 ∧ NoDup st.2 ∧ ∀ x, infree (ivs st.1) x ↔ (mn ≤ x ≤ mx ∧ x ∉ st.2).
Proof. intros mn mx ops H. destruct (J_run mn mx ops H) as (_ & ? & _ & _ & ? & ?). done. Qed.
Print Assumptions pool_invariant.

(** Get in any reachable state: either every identifier of the range is outstanding and the
    pool reports exhaustion (-1) without changing, or the identifier lies in the range and
    differs from every outstanding one. *)
Theorem get_unique_or_exhausted : ∀ mn mx ops, 0 ≤ mn ≤ mx →
  let st := prun mn mx ops in
  let v := (pget st.1).1 in
  (v = -1 ∧ (pget st.1).2 = st.1 ∧ ∀ x, mn ≤ x ≤ mx → x ∈ st.2) ∨ (mn ≤ v ≤ mx ∧ v ∉ st.2).
Proof. exact get_fresh. Qed.
Print Assumptions get_unique_or_exhausted.

(** One-step specifications on any state satisfying the invariant. *)
Theorem get_removes_exactly_v : ∀ p v p', Inv p → pget p = (v, p') →
  (v = -1 ∧ p' = p ∧ ∀ x, ¬ infree (ivs p) x) ∨
  (pmin p ≤ v ≤ pmax p ∧ infree (ivs p) v ∧ Inv p' ∧ pmin p' = pmin p ∧ pmax p' = pmax p ∧
   ∀ x, infree (ivs p') x ↔ (infree (ivs p) x ∧ x ≠ v)).
Proof. exact get_spec. Qed.
Print Assumptions get_removes_exactly_v.

(** Put frees exactly the given identifier when it is in range, and changes nothing observable
    when it is already free, unknown or out of range. *)
Theorem put_frees_exactly_x : ∀ x p, Inv p →
  Inv (pput x p) ∧ pmin (pput x p) = pmin p ∧ pmax (pput x p) = pmax p ∧
  ∀ y, infree (ivs (pput x p)) y ↔ infree (ivs p) y ∨ (y = x ∧ pmin p ≤ x ≤ pmax p).
Proof. exact put_spec. Qed.
Print Assumptions put_frees_exactly_x.

(** non-vacuity: exhaustion, bad releases and reuse on the range [0,2] *)
Example c06_history :
  let ops := [PGet; PGet; PGet; PGet; PPut 7; PPut 1; PPut 1; PGet; PGet] in
  (prun 0 2 ops).2 = [1; 2; 1; 0]%Z -> False.
Proof. vm_compute. discriminate. Qed.
Example c06_history2 :
  (prun 0 2 [PGet; PGet; PGet; PGet; PPut 7; PPut 1; PPut 1; PGet; PGet]).2 = [1; 2; 0]
  ∧ (pget (prun 0 2 [PGet; PGet; PGet]).1).1 = -1.
Proof. vm_compute. done. Qed.

(** The same at the level of a whole node, for every state that any history of client packets,
    connection events, sweeps, gossip and peer failures can reach ([reachable]: start from [cnew k],
    apply [step] any number of times): the identifiers of the outbound in-flight entries are
    pairwise distinct and lie in 1..65535; an identifier of that range is free in the pool
    exactly when no in-flight entry holds it — so none is handed out twice and none leaks,
    whatever was acknowledged, expired, re-armed, rejected or abandoned on the way; and the
    identifier the writer would pick next differs from every one in flight. *)
Theorem inflight_identifiers_unique_and_never_leak : ∀ cl k n, reachable k cl → n ∈ cl_nodes cl →
  NoDup (out_mids (n_acks n)) ∧
  (∀ x, x ∈ out_mids (n_acks n) → 1 ≤ x ≤ 65535) ∧
  (∀ x, 1 ≤ x ≤ 65535 → (infree (ivs (n_pool n)) x ↔ x ∉ out_mids (n_acks n))) ∧
  (∀ mid pl, get_free 5 (n_pool n) = (Some mid, pl) → 1 ≤ mid ≤ 65535 ∧ mid ∉ out_mids (n_acks n)).
Proof. exact inflight_ids. Qed.
Print Assumptions inflight_identifiers_unique_and_never_leak.

(** non-vacuity: a reachable state with three deliveries in flight (two QoS 1, one QoS 2 whose
    PUBREC has arrived), after one was acknowledged and its identifier reused *)
Example c06_node_history :
  let run := fold_left (λ st o, (step [] st o).1) in
  let ops := [EConnect 0%nat "s" "cs" "" "" 60 None 10; ESubscribe "s" 1 [("a", 1); ("b", 2)] 20;
              EConnect 0%nat "p" "cp" "" "" 60 None 30;
              EPublish "p" (Publish "a" "1" 0 false false) false 0 40; EPublish "p" (Publish "a" "2" 0 false false) false 0 50;
              EAck "s" PUBACK (RefRaw 1) 60; EPublish "p" (Publish "a" "3" 0 false false) false 0 70;
              EPublish "p" (Publish "b" "4" 0 false false) false 0 80; EAck "s" PUBREC (RefRaw 3) 90; ESweep 0%nat] in
  out_mids (n_acks (getn (run ops (cnew 1%nat)) 0%nat)) = [2; 1; 3].
Proof. vm_compute. reflexivity. Qed.
