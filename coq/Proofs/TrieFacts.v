(** Both tries refine a map from level paths to data; [walk] and [tmatch] select exactly the
    entries MQTT matching selects; [iterate]/[tcount] report exactly the non-empty entries. *)
From Wasp Require Import Model.Base Model.Trie Spec.MatchSpec Proofs.BaseFacts.
From stdpp Require Import list sets strings.

(** well-formed = keys of every Children map are unique (a Go map cannot hold a key twice) *)
Inductive wf : node → Prop :=
  | wf_node d cs : NoDup (map fst cs) → Forall (λ kc, wf kc.2) cs → wf (Node d cs).
Lemma wf_children n : wf n → NoDup (map fst (nchildren n)).
Proof. by inversion 1. Qed.
Lemma wf_child_all n : wf n → Forall (λ kc, wf kc.2) (nchildren n).
Proof. by inversion 1. Qed.
Lemma wf_empty : wf empty_node.
Proof. constructor; [apply NoDup_nil_2|constructor]. Qed.
Lemma wf_lookup n k c : wf n → alookup k (nchildren n) = Some c → wf c.
Proof. intros Hwf. apply (alookup_values wf). by apply wf_child_all. Qed.
Lemma wf_child_or_empty n k : wf n → wf (odflt empty_node (alookup k (nchildren n))).
Proof.
  intros Hwf. destruct (alookup k (nchildren n)) eqn:E; cbn [odflt]; [by eapply wf_lookup|apply wf_empty].
Qed.

Section node_ind.
  Variable P : node → Prop.
  Hypothesis H : ∀ d cs, Forall (λ kc, P kc.2) cs → P (Node d cs).
  Fixpoint node_ind' (n : node) : P n :=
    match n with
    | Node d cs => H d cs ((fix go (cs : list (string * node)) : Forall (λ kc, P kc.2) cs :=
                             match cs with
                             | [] => List.Forall_nil _
                             | kc :: cs' => @List.Forall_cons _ _ kc cs' (node_ind' kc.2) (go cs')
                             end) cs)
    end.
End node_ind.

Definition centries (cs : list (string * node)) : list (list string * string) :=
  flat_map (λ kc : string * node, map (pre kc.1) (entries kc.2)) cs.
Lemma entries_unfold d cs : entries (Node d cs) = ([], d) :: centries cs.
Proof. reflexivity. Qed.
Definition citerate (cs : list (string * node)) : list string :=
  flat_map (λ kc : string * node, iterate kc.2) cs.
Lemma iterate_unfold d cs : iterate (Node d cs) = (if String.eqb d "" then [] else [d]) ++ citerate cs.
Proof. reflexivity. Qed.

(** ** the map view *)
Lemma get_empty p : tget p empty_node = "".
Proof. by destruct p. Qed.
Lemma get_pruned c p : is_nil (nchildren c) = true → ndata c = "" → tget p c = "".
Proof. destruct c as [d [|? ?]]; [|done]. cbn. intros _ ->. by destruct p. Qed.
Lemma get_child_dflt k cs q :
  tget q (odflt empty_node (alookup k cs)) = match alookup k cs with Some c => tget q c | None => "" end.
Proof. destruct (alookup k cs); cbn [odflt]; [done|apply get_empty]. Qed.

Theorem get_tinsert ls v : ∀ n p, tget p (tinsert ls v n).2 = if decide (p = ls) then v else tget p n.
Proof.
  induction ls as [|tok ls IH]; intros [d cs] p; cbn [tinsert nchildren ndata snd].
  - destruct p as [|k p]; [done|]. cbn [tget nchildren]. by rewrite decide_False.
  - destruct p as [|k p]; cbn [tget nchildren ndata]; [by rewrite decide_False|].
    destruct (decide (k = tok)) as [->|Hne].
    + rewrite alookup_aset_eq, IH, get_child_dflt.
      destruct (decide (p = ls)) as [->|Hp]; [by rewrite decide_True|].
      by rewrite decide_False by congruence.
    + rewrite alookup_aset_ne by done. rewrite decide_False by congruence. done.
Qed.
Theorem tinsert_old ls v : ∀ n, (tinsert ls v n).1 = nonempty (tget ls n).
Proof.
  induction ls as [|tok ls IH]; intros [d cs]; cbn [tinsert nchildren ndata fst tget]; [done|].
  rewrite IH, get_child_dflt. by destruct (alookup tok cs).
Qed.
Lemma wf_tinsert ls v : ∀ n, wf n → wf (tinsert ls v n).2.
Proof.
  induction ls as [|tok ls IH]; intros [d cs] Hwf; cbn [tinsert nchildren ndata snd].
  - inversion Hwf; subst. by constructor.
  - constructor; [apply NoDup_aset; by apply (wf_children _ Hwf)|].
    apply (aset_values wf); [apply IH; by apply (wf_child_or_empty (Node d cs))|by apply (wf_child_all _ Hwf)].
Qed.

Theorem get_tremove ls : ∀ n n', wf n → tremove ls n = Some n' →
  ∀ p, tget p n' = if decide (p = ls) then "" else tget p n.
Proof.
  induction ls as [|tok ls IH]; intros [d cs] n' Hwf; cbn [tremove nchildren ndata].
  - intros [= <-] p. destruct p as [|k p]; [done|]. cbn [tget nchildren]. by rewrite decide_False.
  - destruct (alookup tok cs) as [child|] eqn:Hc; [|done].
    destruct (tremove ls child) as [child'|] eqn:Hr; [|done].
    assert (Hwfc : wf child) by (by eapply (wf_lookup (Node d cs))).
    pose proof (IH child child' Hwfc Hr) as Hget.
    pose proof (wf_children _ Hwf) as Hnd. cbn [nchildren] in Hnd.
    destruct (is_nil (nchildren child') && String.eqb (ndata child') "")%bool eqn:Hprune.
    + apply andb_true_iff in Hprune as [Hnil Hd]. apply String.eqb_eq in Hd.
      intros [= <-] p. destruct p as [|k p]; cbn [tget nchildren ndata]; [by rewrite decide_False|].
      destruct (decide (k = tok)) as [->|Hne].
      * rewrite alookup_adel_eq by done.
        destruct (decide (p = ls)) as [->|Hp]; [by rewrite decide_True|].
        rewrite decide_False by congruence. rewrite Hc.
        specialize (Hget p). rewrite decide_False in Hget by done. rewrite <- Hget. symmetry. by apply get_pruned.
      * rewrite alookup_adel_ne by done. by rewrite decide_False by congruence.
    + intros [= <-] p. destruct p as [|k p]; cbn [tget nchildren ndata]; [by rewrite decide_False|].
      destruct (decide (k = tok)) as [->|Hne].
      * rewrite alookup_aset_eq, Hget, Hc.
        destruct (decide (p = ls)) as [->|Hp]; [by rewrite decide_True|]. by rewrite decide_False by congruence.
      * rewrite alookup_aset_ne by done. by rewrite decide_False by congruence.
Qed.
(** ErrTopicNotFound is returned only when the path does not exist, i.e. nothing is stored there *)
Theorem tremove_None ls : ∀ n, tremove ls n = None → tget ls n = "".
Proof.
  induction ls as [|tok ls IH]; intros [d cs]; cbn [tremove nchildren ndata tget]; [done|].
  destruct (alookup tok cs) as [child|] eqn:Hc; [|done].
  destruct (tremove ls child) as [child'|] eqn:Hr; [by destruct (_ && _)%bool|].
  intros _. by apply IH.
Qed.
Lemma wf_tremove ls : ∀ n n', wf n → tremove ls n = Some n' → wf n'.
Proof.
  induction ls as [|tok ls IH]; intros [d cs] n' Hwf; cbn [tremove nchildren ndata].
  - intros [= <-]. inversion Hwf; subst. by constructor.
  - destruct (alookup tok cs) as [child|] eqn:Hc; [|done].
    destruct (tremove ls child) as [child'|] eqn:Hr; [|done].
    assert (Hwfc : wf child) by (by eapply (wf_lookup (Node d cs))).
    pose proof (wf_children _ Hwf) as Hnd. pose proof (wf_child_all _ Hwf) as Hall. cbn [nchildren] in *.
    destruct (_ && _)%bool; intros [= <-]; constructor.
    + by apply NoDup_adel. + by apply (adel_values wf).
    + by apply NoDup_aset. + apply (aset_values wf); [by eapply IH|done].
Qed.

Theorem get_supdate ls f : ∀ n, wf n → ∀ p, tget p (supdate ls f n) = if decide (p = ls) then f (tget p n) else tget p n.
Proof.
  induction ls as [|tok ls IH]; intros [d cs] Hwf p; cbn [supdate nchildren ndata].
  - destruct p as [|k p]; [done|]. cbn [tget nchildren]. by rewrite decide_False.
  - pose proof (wf_children _ Hwf) as Hnd. cbn [nchildren] in Hnd.
    set (child := odflt empty_node (alookup tok cs)).
    assert (Hwfc : wf child) by apply (wf_child_or_empty (Node d cs)), Hwf.
    pose proof (IH child Hwfc) as Hget.
    assert (Hchild : ∀ q, tget q child = match alookup tok cs with Some c => tget q c | None => "" end)
      by (intros q; apply get_child_dflt).
    destruct (String.eqb (ndata (supdate ls f child)) "" && is_nil (nchildren (supdate ls f child)))%bool eqn:Hprune.
    + apply andb_true_iff in Hprune as [Hd Hnil]. apply String.eqb_eq in Hd.
      destruct p as [|k p]; cbn [tget nchildren ndata]; [by rewrite decide_False|].
      destruct (decide (k = tok)) as [->|Hne].
      * rewrite alookup_adel_eq by done.
        pose proof (get_pruned _ p Hnil Hd) as Hz. rewrite Hget in Hz.
        destruct (decide (p = ls)) as [->|Hp].
        -- rewrite decide_True by done. rewrite <- Hchild. by rewrite Hz.
        -- rewrite decide_False by congruence. by rewrite <- Hchild, Hz.
      * rewrite alookup_adel_ne by done. by rewrite decide_False by congruence.
    + destruct p as [|k p]; cbn [tget nchildren ndata]; [by rewrite decide_False|].
      destruct (decide (k = tok)) as [->|Hne].
      * rewrite alookup_aset_eq, Hget, Hchild.
        destruct (decide (p = ls)) as [->|Hp]; [by rewrite decide_True|]. by rewrite decide_False by congruence.
      * rewrite alookup_aset_ne by done. by rewrite decide_False by congruence.
Qed.
Lemma wf_supdate ls f : ∀ n, wf n → wf (supdate ls f n).
Proof.
  induction ls as [|tok ls IH]; intros [d cs] Hwf; cbn [supdate nchildren ndata].
  - inversion Hwf; subst. by constructor.
  - pose proof (wf_children _ Hwf) as Hnd. pose proof (wf_child_all _ Hwf) as Hall. cbn [nchildren] in *.
    destruct (_ && _)%bool; constructor.
    + by apply NoDup_adel. + by apply (adel_values wf).
    + by apply NoDup_aset.
    + apply (aset_values wf); [|done]. apply IH. apply (wf_child_or_empty (Node d cs)), Hwf.
Qed.

(** ** entries versus tget *)
Lemma in_centries p v cs :
  (p, v) ∈ centries cs ↔ ∃ k c p', p = k :: p' ∧ (k, c) ∈ cs ∧ (p', v) ∈ entries c.
Proof.
  unfold centries. rewrite elem_of_list_In, in_flat_map. split.
  - intros [[k c] [Hin Hp]]. apply in_map_iff in Hp as [[p' v'] [Heq Hp']].
    unfold pre in Heq. cbn in Heq. injection Heq as <- <-. exists k, c, p'.
    apply elem_of_list_In in Hin, Hp'. done.
  - intros (k & c & p' & -> & Hin & Hp'). exists (k, c). apply elem_of_list_In in Hin, Hp'.
    split; [done|]. apply in_map_iff. by exists (p', v).
Qed.
Lemma alookup_in_nodup {A} k (c : A) cs : NoDup (map fst cs) → (k, c) ∈ cs → alookup k cs = Some c.
Proof.
  induction cs as [|[k2 c2] cs IH]; cbn [map fst alookup]; [by intros _ ?%elem_of_nil|].
  intros [Hnotin Hnd]%NoDup_cons Hin. apply elem_of_cons in Hin as [[= <- <-]|Hin].
  - by rewrite String.eqb_refl.
  - rewrite eqb_ne; [by apply IH|]. intros ->. apply Hnotin. apply elem_of_list_fmap. by exists (k2, c).
Qed.
Theorem entries_get n : wf n → ∀ p v, (p, v) ∈ entries n → tget p n = v.
Proof.
  induction n as [d cs IH] using node_ind'. intros Hwf p v. rewrite entries_unfold.
  intros [[= -> ->]|Hin]%elem_of_cons; [done|].
  apply in_centries in Hin as (k & c & p' & -> & Hin & Hp'). cbn [tget nchildren].
  rewrite (alookup_in_nodup k c cs); [|by apply (wf_children _ Hwf)|done].
  rewrite Forall_forall in IH. apply (IH (k, c)); [done| |done].
  pose proof (wf_child_all _ Hwf) as Hall. rewrite Forall_forall in Hall. by apply (Hall (k, c)).
Qed.
Theorem get_entries n : ∀ p, tget p n ≠ "" → (p, tget p n) ∈ entries n.
Proof.
  induction n as [d cs IH] using node_ind'. intros p. rewrite entries_unfold.
  destruct p as [|k p]; cbn [tget ndata nchildren]; [intros _; left|].
  destruct (alookup k cs) as [c|] eqn:Hc; [|done]. intros Hne. right.
  apply in_centries. exists k, c, p. apply alookup_Some_in in Hc. split; [done|]. split; [done|].
  rewrite Forall_forall in IH. by apply (IH (k, c)).
Qed.
Lemma entries_paths_nodup n : wf n → NoDup (map fst (entries n)).
Proof.
  induction n as [d cs IH] using node_ind'. intros Hwf. rewrite entries_unfold. cbn [map fst].
  apply NoDup_cons. split.
  { intros Hin. apply elem_of_list_fmap in Hin as [[p v] [Hp Hin]]. cbn in Hp. subst p.
    apply in_centries in Hin as (? & ? & ? & ? & _); done. }
  pose proof (wf_children _ Hwf) as Hnd. pose proof (wf_child_all _ Hwf) as Hall. cbn [nchildren] in *.
  clear Hwf. unfold centries.
  induction cs as [|[k c] cs IHcs]; [apply NoDup_nil_2|].
  cbn [flat_map fst snd map] in *. rewrite map_app. apply NoDup_cons in Hnd as [Hnotin Hnd].
  inversion Hall as [|? ? Hc Hall']; subst. inversion IH as [|? ? IHc IH']; subst.
  apply NoDup_app. split; [|split].
  - rewrite map_map. cbn [pre fst]. specialize (IHc Hc).
    assert (Hinj : map (λ x : list string * string, k :: x.1) (entries c) = map (cons k) (map fst (entries c)))
      by (by rewrite map_map).
    rewrite Hinj. by apply (NoDup_fmap_2 (cons k)).
  - intros p Hin1 Hin2. apply elem_of_list_fmap in Hin1 as [[p1 v1] [-> Hin1]].
    apply elem_of_list_fmap in Hin1 as [[p1' v1'] [Heq Hin1]]. unfold pre in Heq. cbn in Heq. injection Heq as -> ->.
    apply elem_of_list_fmap in Hin2 as [[p2 v2] [Heq Hin2]]. cbn in Heq. subst p2.
    fold (centries cs) in Hin2. apply in_centries in Hin2 as (k2 & c2 & p2' & [= <- <-] & Hin2 & _).
    apply Hnotin. apply elem_of_list_fmap. by exists (k, c2).
  - by apply IHcs.
Qed.

(** ** iterate reports exactly the non-empty entries *)
Definition nonempty_data (es : list (list string * string)) : list string :=
  filter (λ s, nonempty s = true) (map snd es).
Lemma nonempty_data_app a b : nonempty_data (a ++ b) = nonempty_data a ++ nonempty_data b.
Proof. unfold nonempty_data. by rewrite map_app, filter_app. Qed.
Lemma nonempty_data_pre k es : nonempty_data (map (pre k) es) = nonempty_data es.
Proof. unfold nonempty_data. by rewrite map_map. Qed.
Theorem iterate_entries n : iterate n = nonempty_data (entries n).
Proof.
  induction n as [d cs IH] using node_ind'. rewrite iterate_unfold, entries_unfold.
  change (([], d) :: centries cs) with ([([] : list string, d)] ++ centries cs).
  rewrite nonempty_data_app. f_equal.
  { unfold nonempty_data, nonempty. cbn [map snd]. rewrite filter_cons, filter_nil.
    destruct (String.eqb d ""); cbn [negb]; [by rewrite decide_False|by rewrite decide_True]. }
  unfold citerate, centries. induction cs as [|[k c] cs IHcs]; [done|].
  inversion IH as [|? ? IHc IH']; subst. cbn [flat_map fst snd].
  cbn [snd] in IHc. rewrite nonempty_data_app, nonempty_data_pre, <- IHc. f_equal. by apply IHcs.
Qed.

(** ** walk selects exactly the entries whose path matches the topic (C01) *)
Definition sel (t : list string) (es : list (list string * string)) : list string :=
  flat_map (λ e : list string * string, if mmatch e.1 t then [e.2] else []) es.
Lemma sel_app t a b : sel t (a ++ b) = sel t a ++ sel t b.
Proof. unfold sel. by rewrite flat_map_app. Qed.
Lemma sel_cons t e es : sel t (e :: es) = (if mmatch e.1 t then [e.2] else []) ++ sel t es.
Proof. done. Qed.

Lemma mmatch_hash t : mmatch ["#"] t = true.
Proof. cbn [mmatch]. by rewrite String.eqb_refl. Qed.
Lemma mmatch_hash_more q tok ls : q ≠ [] → tok ≠ "#" → mmatch ("#" :: q) (tok :: ls) = false.
Proof.
  intros Hq Htok. destruct q as [|q0 q]; [done|]. cbn [mmatch is_nil].
  rewrite andb_false_r. rewrite (eqb_ne "#" "+") by done. rewrite (eqb_ne "#" tok) by done. done.
Qed.
Lemma mmatch_step k p tok ls : k ≠ "#" →
  mmatch (k :: p) (tok :: ls) = ((String.eqb k "+" || String.eqb k tok) && mmatch p ls)%bool.
Proof. intros Hk. cbn [mmatch]. by rewrite (eqb_ne k "#") by done. Qed.
Lemma mmatch_cons_nil k p : mmatch (k :: p) [] = (String.eqb k "#" && is_nil p)%bool.
Proof. cbn [mmatch]. by destruct (_ && _)%bool. Qed.

Definition root_only (es : list (list string * string)) : list string :=
  flat_map (λ e : list string * string, if is_nil e.1 then [e.2] else []) es.
Lemma sel_pre_hash tok ls es : tok ≠ "#" → sel (tok :: ls) (map (pre "#") es) = root_only es.
Proof.
  intros Htok. unfold root_only. induction es as [|[p v] es IH]; [done|].
  rewrite map_cons, sel_cons, IH. unfold pre at 1 2. cbn [fst snd flat_map]. f_equal.
  destruct p as [|p0 p]; [by rewrite mmatch_hash|]. by rewrite mmatch_hash_more.
Qed.
Lemma sel_pre_step k tok ls es : k ≠ "#" →
  sel (tok :: ls) (map (pre k) es) = if (String.eqb k "+" || String.eqb k tok)%bool then sel ls es else [].
Proof.
  intros Hk. induction es as [|[p v] es IH].
  { cbn. by destruct (_ || _)%bool. }
  rewrite map_cons, sel_cons, IH. unfold pre at 1 2. cbn [fst snd].
  rewrite mmatch_step by done.
  destruct (String.eqb k "+" || String.eqb k tok)%bool; cbn [andb]; [|done].
  by rewrite sel_cons.
Qed.
Lemma sel_nil_pre k es : sel [] (map (pre k) es) = if String.eqb k "#" then root_only es else [].
Proof.
  unfold root_only. induction es as [|[p v] es IH]; [cbn; by destruct (String.eqb k "#")|].
  rewrite map_cons, sel_cons, IH. unfold pre at 1 2. cbn [fst snd flat_map]. rewrite mmatch_cons_nil.
  destruct (String.eqb k "#"); cbn [andb]; done.
Qed.
Lemma root_only_pre k es : root_only (map (pre k) es) = [].
Proof. unfold root_only. induction es as [|[p v] es IH]; [done|]. rewrite map_cons. cbn. exact IH. Qed.
Lemma entries_root_only n : root_only (entries n) = [ndata n].
Proof.
  destruct n as [d cs]. rewrite entries_unfold. unfold root_only. cbn [flat_map fst snd is_nil ndata app]. f_equal.
  unfold centries. induction cs as [|[k c] cs IH]; [done|].
  cbn [flat_map fst snd]. rewrite flat_map_app, IH, app_nil_r. apply root_only_pre.
Qed.
Lemma sel_nil_centries_nohash cs : "#" ∉ map fst cs → sel [] (centries cs) = [].
Proof.
  unfold centries. induction cs as [|[k c] cs IH]; [done|]. intros Hn.
  cbn [flat_map fst snd]. rewrite sel_app, IH.
  2:{ intros Hin. apply Hn. cbn. by right. }
  rewrite app_nil_r, sel_nil_pre. rewrite eqb_ne; [done|]. intros ->. apply Hn. cbn. by left.
Qed.

Theorem walk_sel ls : forallb (λ l, negb (String.eqb l "#")) ls = true →
  ∀ n, wf n → walk ls n = sel ls (entries n).
Proof.
  induction ls as [|tok ls IH]; intros Hok n Hwf.
  - destruct n as [d cs]. rewrite entries_unfold, sel_cons. cbn [walk ndata nchildren fst snd mmatch is_nil app].
    f_equal.
    pose proof (wf_children _ Hwf) as Hnd. cbn [nchildren] in Hnd. clear Hwf.
    unfold centries. induction cs as [|[k c] cs IHcs]; [done|].
    cbn [flat_map fst snd alookup]. rewrite sel_app, sel_nil_pre.
    apply NoDup_cons in Hnd as [Hnotin Hnd']. cbn [map fst] in *.
    rewrite (String.eqb_sym "#" k).
    destruct (String.eqb_spec k "#") as [->|Hk].
    + rewrite entries_root_only. fold (centries cs). by rewrite sel_nil_centries_nohash.
    + cbn [app]. by apply IHcs.
  - cbn [forallb] in Hok. apply andb_true_iff in Hok as [Htok Hok'].
    apply negb_true_iff, String.eqb_neq in Htok.
    destruct n as [d cs]. rewrite entries_unfold, sel_cons. cbn [walk nchildren fst snd mmatch is_nil app].
    pose proof (wf_child_all _ Hwf) as Hall. cbn [nchildren] in Hall. clear Hwf.
    unfold centries. induction cs as [|[k c] cs IHcs]; [done|].
    inversion Hall as [|? ? Hc Hall']; subst.
    cbn [flat_map fst snd]. rewrite sel_app. f_equal; [|by apply IHcs].
    destruct (String.eqb_spec k "#") as [->|Hk].
    + rewrite sel_pre_hash by done. by rewrite entries_root_only.
    + rewrite sel_pre_step by done.
      destruct (String.eqb k "+" || String.eqb k tok)%bool; [by apply IH|done].
Qed.

(** ** tmatch selects exactly the non-empty entries whose path the filter matches (C07) *)
Definition selv (f : list string) (es : list (list string * string)) : list string :=
  flat_map (λ e : list string * string, if (mmatch f e.1 && nonempty e.2)%bool then [e.2] else []) es.
Lemma selv_app f a b : selv f (a ++ b) = selv f a ++ selv f b.
Proof. unfold selv. by rewrite flat_map_app. Qed.
Lemma selv_hash es : selv ["#"] es = nonempty_data es.
Proof.
  unfold selv, nonempty_data. induction es as [|[p v] es IH]; [done|].
  cbn [flat_map map fst snd]. rewrite mmatch_hash, filter_cons, IH. cbn [andb].
  destruct (nonempty v); [by rewrite decide_True|by rewrite decide_False].
Qed.
Lemma selv_pre tok ls k es : tok ≠ "#" →
  selv (tok :: ls) (map (pre k) es) = if (String.eqb tok "+" || String.eqb tok k)%bool then selv ls es else [].
Proof.
  intros Htok. unfold selv. induction es as [|[p v] es IH].
  { cbn. by destruct (_ || _)%bool. }
  rewrite map_cons. cbn [flat_map]. rewrite IH. unfold pre at 1 2 3. cbn [fst snd].
  rewrite mmatch_step by done.
  destruct (String.eqb tok "+" || String.eqb tok k)%bool; cbn [andb]; done.
Qed.
Lemma selv_other tok ls cs : tok ≠ "#" → tok ≠ "+" → tok ∉ map fst cs → selv (tok :: ls) (centries cs) = [].
Proof.
  intros H1 H2. unfold centries. induction cs as [|[k c] cs IH]; [done|]. intros Hn.
  cbn [flat_map fst snd]. rewrite selv_app, IH by set_solver. rewrite selv_pre by done.
  rewrite (eqb_ne tok "+") by done. rewrite (eqb_ne tok k); [done|]. set_solver.
Qed.
Theorem tmatch_selv ls : filter_ok ls = true → ∀ n, wf n → tmatch ls n = selv ls (entries n).
Proof.
  induction ls as [|tok ls IH]; intros Hok n Hwf.
  - destruct n as [d cs]. rewrite entries_unfold. cbn [tmatch ndata].
    change (([], d) :: centries cs) with ([([] : list string, d)] ++ centries cs).
    rewrite selv_app. unfold selv at 1. cbn [flat_map fst snd mmatch is_nil andb]. unfold nonempty at 1.
    assert (Hrest : selv [] (centries cs) = []).
    { unfold centries. clear. induction cs as [|[k c] cs IH]; [done|]. cbn [flat_map fst snd].
      rewrite selv_app, IH, app_nil_r. unfold selv. generalize (entries c). intros es.
      induction es as [|[p v] es IHes]; [done|]. cbn. exact IHes. }
    rewrite Hrest. by destruct (String.eqb d "").
  - cbn [filter_ok] in Hok. apply andb_true_iff in Hok as [Hlast Hok'].
    cbn [tmatch]. destruct (String.eqb_spec tok "#") as [->|Htok].
    + cbn [negb orb] in Hlast. destruct ls; [|done]. by rewrite iterate_entries, selv_hash.
    + destruct n as [d cs]. rewrite entries_unfold.
      change (([], d) :: centries cs) with ([([] : list string, d)] ++ centries cs).
      rewrite selv_app. unfold selv at 1. cbn [flat_map fst snd nchildren].
      rewrite mmatch_cons_nil, (eqb_ne tok "#") by done. cbn [andb app].
      pose proof (wf_child_all _ Hwf) as Hall. pose proof (wf_children _ Hwf) as Hnd. cbn [nchildren] in *. clear Hwf.
      destruct (String.eqb_spec tok "+") as [->|Hplus].
      * unfold centries. induction cs as [|[k c] cs IHcs]; [done|].
        inversion Hall as [|? ? Hc Hall']; subst. apply NoDup_cons in Hnd as [_ Hnd].
        cbn [flat_map fst snd]. rewrite selv_app, selv_pre by done. cbn [orb].
        rewrite String.eqb_refl. cbn [orb]. f_equal; [by apply IH|by apply IHcs].
      * unfold centries. induction cs as [|[k c] cs IHcs]; [done|].
        inversion Hall as [|? ? Hc Hall']; subst. apply NoDup_cons in Hnd as [Hnotin Hnd].
        cbn [flat_map fst snd alookup map] in *. rewrite selv_app, selv_pre by done.
        rewrite (eqb_ne tok "+") by done. cbn [orb].
        destruct (String.eqb_spec tok k) as [->|Hk].
        -- fold (centries cs). rewrite selv_other by done. rewrite app_nil_r. by apply IH.
        -- cbn [app]. by apply IHcs.
Qed.
