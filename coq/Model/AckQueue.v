(** Models of wasp/expiration (pqList + bucket, as repaired by F4, F5) and wasp/ack/queue.go
    (as repaired by F6).  The heap + map of buckets is a list of buckets sorted by rounded
    deadline (bucket deadlines are unique map keys, so heap order = sorted order); the
    lock-free hash of pending messages is an association list in insertion order (nothing
    iterates over it). *)
From Wasp Require Export Model.Base Spec.AckSpec.
Open Scope Z_scope.

Definition item : Type := (key * Z)%type.              (* value, deadline *)
Definition bucket : Type := (Z * list item)%type.      (* rounded deadline, data sorted by deadline *)
Definition pq := list bucket.

(* bucket.put: append, then sort.SliceStable by deadline = insert after every item with deadline <= d *)
Fixpoint bput (it : item) (l : list item) : list item :=
  match l with
  | [] => [it]
  | x :: l' => if snd x <=? snd it then x :: bput it l' else it :: x :: l'
  end.
(* bucket.delete (F4): sort.Search for the first index with deadline >= d, then scan the items
   with an equal deadline for the one holding v; remove that one only *)
Fixpoint bscan (it : item) (l : list item) : list item :=
  match l with
  | [] => []
  | x :: l' => if snd x =? snd it then (if key_eqb (fst x) (fst it) then l' else x :: bscan it l') else x :: l'
  end.
Fixpoint bdelete (it : item) (l : list item) : list item :=
  match l with
  | [] => []
  | x :: l' => if snd x <? snd it then x :: bdelete it l' else bscan it l
  end.

(* pqList.insert: find the bucket of the rounded deadline or create it and push it on the heap *)
Fixpoint pinsert (it : item) (q : pq) : pq :=
  let r := round_s (snd it) in
  match q with
  | [] => [(r, [it])]
  | (d, l) :: q' =>
    if d =? r then (d, bput it l) :: q'
    else if r <? d then (r, [it]) :: q
    else (d, l) :: pinsert it q'
  end.
(* pqList.delete: false when there is no bucket for the rounded deadline *)
Fixpoint pdelete (it : item) (q : pq) : pq :=
  let r := round_s (snd it) in
  match q with
  | [] => []
  | (d, l) :: q' => if d =? r then (d, bdelete it l) :: q' else (d, l) :: pdelete it q'
  end.
(* pqList.Expire (F5): pop every bucket whose rounded deadline is before now, forget it *)
Fixpoint pexpire (now : Z) (q : pq) : list item * pq :=
  match q with
  | [] => ([], [])
  | (d, l) :: q' => if d <? now then let r := pexpire now q' in ((l ++ fst r)%list, snd r) else ([], q)
  end.

Record msg := Msg { mstate : Z; mreg : N; mdl : Z }.
Record queue := Queue { qmsg : list (key * msg); qto : pq }.
Definition qempty := Queue [] [].

Fixpoint mfind (k : key) (l : list (key * msg)) : option msg :=
  match l with [] => None | (k', m) :: l' => if key_eqb k' k then Some m else mfind k l' end.
Definition mremove (k : key) (l : list (key * msg)) : list (key * msg) :=
  filter (fun km => negb (key_eqb (fst km) k)) l.

(* queue.Expire: for every expired key, Delete from the hash; run the callback when it was there *)
Fixpoint fire_expired (its : list item) (m : list (key * msg)) : list (key * msg) * list (N * bool) :=
  match its with
  | [] => (m, [])
  | it :: its' =>
    match mfind (fst it) m with
    | Some x => let r := fire_expired its' (mremove (fst it) m) in (fst r, (mreg x, true) :: snd r)
    | None => fire_expired its' m
    end
  end.

Definition q_step (q : queue) (o : qop) : queue * qout :=
  match o with
  | QInsert pfx mid p d r =>
    match p with
    | IOther => (q, (RWrongPacket, []))
    | _ =>
      if mid =? 0 then (q, (RWrongMID, []))
      else match expected p with
           | None => (q, (RInvalidQos, []))
           | Some ty =>
             match mfind (pfx, mid) (qmsg q) with          (* PutIfMissing *)
             | Some _ => (q, (RDup, []))
             | None => (Queue (qmsg q ++ [((pfx, mid), Msg ty r d)])%list (pinsert ((pfx, mid), d) (qto q)), (ROk, []))
             end
           end
    end
  | QAck pfx mid ty acker =>
    if negb acker then (q, (RWrongPacket, []))
    else match mfind (pfx, mid) (qmsg q) with
         | None => (q, (RWrongMID, []))
         | Some m =>
           if mstate m =? ty
           then (Queue (mremove (pfx, mid) (qmsg q)) (pdelete ((pfx, mid), mdl m) (qto q)), (ROk, [(mreg m, false)]))
           else (q, (RUnexpected, []))
         end
  | QSweep now =>
    let r := pexpire now (qto q) in
    let f := fire_expired (fst r) (qmsg q) in
    (Queue (fst f) (snd r), (ROk, snd f))
  end.

Fixpoint q_run (q : queue) (os : list qop) : queue * list qout :=
  match os with
  | [] => (q, [])
  | o :: os' => let r := q_step q o in let r' := q_run (fst r) os' in (fst r', snd r :: snd r')
  end.
