package main

// Family "auth" (C16): credential files of up to 6 entries (2- and 3-field lines, empty third
// field, lines with other field counts, repeated users, any order) loaded by the real
// auth.FileHandler, and the static handler; candidates from present / absent / swapped /
// empty values. Digests are computed here with crypto/sha256 and handed to the Coq side.

import (
	"context"
	"crypto/sha256"
	"encoding/json"
	"fmt"
	"math/big"
	"math/rand"
	"os"
	"path/filepath"
	"strings"

	"github.com/vx-labs/wasp/v4/wasp/auth"
)

type authLine struct {
	N    int    `json:"n"` // number of fields written
	User string `json:"user"`
	PW   string `json:"pw,omitempty"`  // the password whose digest is written as second field
	Raw  string `json:"raw,omitempty"` // or a raw second field (64 hex chars) that is no digest of a candidate
	MP   string `json:"mp,omitempty"`
}
type authCand struct {
	U string `json:"u"`
	P string `json:"p"`
}
type authInput struct {
	Kind  string     `json:"kind"` // file | static
	Lines []authLine `json:"lines,omitempty"`
	SU    string     `json:"su,omitempty"`
	SP    string     `json:"sp,omitempty"`
	Cands []authCand `json:"cands"`
}
type authFamily struct{}

func init() { register("auth", authFamily{}) }

func sha(s string) string { return fmt.Sprintf("%x", sha256.Sum256([]byte(s))) }
func hexZ(h string) string {
	n := new(big.Int)
	n.SetString(h, 16)
	return n.String() + "%Z"
}

func (authFamily) Gen(n int, seed int64, mode, tier string) []interface{} {
	var out []interface{}
	users := []string{"alice", "bob", "carol", "dave"}
	pws := []string{"pw1", "pw2"}
	mps := []string{"", "tenantA", "tenantB"}
	cands := func() []authCand {
		var cs []authCand
		for _, u := range append(append([]string{}, users...), "", "mallory", "pw1") {
			for _, p := range append(append([]string{}, pws...), "", "alice", "nope") {
				cs = append(cs, authCand{u, p})
			}
		}
		return cs
	}
	if mode == "exhaustive" {
		// every table of <= K entries over 4 users x 2 passwords x {2-field, 3-field with mount, 3-field empty}, in every order
		K := 2
		if tier == "thorough" {
			K = 3
		}
		var entries []authLine
		for _, u := range users {
			for _, p := range pws {
				entries = append(entries, authLine{N: 2, User: u, PW: p}, authLine{N: 3, User: u, PW: p, MP: "tenantA"}, authLine{N: 3, User: u, PW: p})
			}
		}
		var rec func(cur []authLine)
		rec = func(cur []authLine) {
			if len(cur) > 0 {
				out = append(out, authInput{Kind: "file", Lines: append([]authLine{}, cur...), Cands: cands()})
			}
			if len(cur) == K {
				return
			}
			for _, e := range entries {
				rec(append(append([]authLine{}, cur...), e))
			}
		}
		rec(nil)
		return out
	}
	rng := rand.New(rand.NewSource(seed))
	moreUsers := []string{"alice", "bob", "carol", "dave", "erin", "frank", "grace", "heidi", "ivan", "judy"}
	for i := 0; i < n; i++ {
		if i%10 == 9 {
			in := authInput{Kind: "static", SU: users[rng.Intn(4)], SP: pws[rng.Intn(2)], Cands: cands()}
			out = append(out, in)
			continue
		}
		in := authInput{Kind: "file"}
		k := 1 + rng.Intn(6)
		if i%7 == 0 {
			k = 6 + rng.Intn(10) // longer tables: more bisection paths
		}
		for j := 0; j < k; j++ {
			l := authLine{User: moreUsers[rng.Intn(len(moreUsers))], PW: pws[rng.Intn(2)]}
			switch r := rng.Intn(20); {
			case r < 8:
				l.N = 2
			case r < 16:
				l.N, l.MP = 3, mps[rng.Intn(3)]
			case r < 17:
				l.N = 1
			case r < 18:
				l.N, l.MP = 4, "x"
			default:
				l.N, l.PW, l.Raw = 2+rng.Intn(2), "", sha(fmt.Sprintf("garbage%d", rng.Int()))
			}
			in.Lines = append(in.Lines, l)
		}
		var cs []authCand
		for _, u := range append(append([]string{}, moreUsers...), "", "mallory") {
			for _, p := range append(append([]string{}, pws...), "", "alice") {
				cs = append(cs, authCand{u, p})
			}
		}
		in.Cands = cs
		out = append(out, in)
	}
	return out
}

func (authFamily) Exec(id int, raw json.RawMessage) Case {
	var in authInput
	if err := json.Unmarshal(raw, &in); err != nil {
		panic(err)
	}
	c := Case{ID: id}
	dg := map[string]string{}
	need := func(s string) { dg[s] = sha(s) }
	var lines []string
	var fileLines []string
	for _, l := range in.Lines {
		need(l.User)
		second := l.Raw
		if second == "" {
			second = sha(l.PW)
			need(l.PW)
		}
		switch l.N {
		case 1:
			fileLines = append(fileLines, l.User)
		case 2:
			fileLines = append(fileLines, l.User+":"+second)
		case 3:
			fileLines = append(fileLines, l.User+":"+second+":"+l.MP)
		default:
			fileLines = append(fileLines, l.User+":"+second+":"+l.MP+":extra")
		}
		lines = append(lines, fmt.Sprintf("ALine %s %s %s %s", cqNat(l.N), cqStr(l.User), hexZ(second), cqStr(l.MP)))
	}
	need(in.SU)
	need(in.SP)
	for _, cd := range in.Cands {
		need(cd.U)
		need(cd.P)
	}
	var obsT []string
	var obs []interface{}
	accepted := 0
	run := func() {
		defer func() {
			if r := recover(); r != nil {
				obsT = append(obsT, "APanic")
				obs = append(obs, fmt.Sprintf("panic: %v", r))
			}
		}()
		var h auth.AuthenticationHandler
		var err error
		if in.Kind == "static" {
			h, err = auth.StaticHandler(in.SU, in.SP)
		} else {
			dir, derr := os.MkdirTemp("", "waspauth")
			if derr != nil {
				panic(derr)
			}
			defer os.RemoveAll(dir)
			path := filepath.Join(dir, "creds.csv")
			if werr := os.WriteFile(path, []byte(strings.Join(fileLines, "\n")+"\n"), 0600); werr != nil {
				panic(werr)
			}
			h, err = auth.FileHandler(path)
		}
		if err != nil {
			obsT = append(obsT, "ALoadError")
			obs = append(obs, "load error: "+err.Error())
			return
		}
		for _, cd := range in.Cands {
			p, err := h.Authenticate(context.Background(), auth.ApplicationContext{Username: []byte(cd.U), Password: []byte(cd.P)}, auth.TransportContext{})
			got := "None"
			if err == nil {
				got = "(Some " + cqStr(p.MountPoint) + ")"
				accepted++
				obs = append(obs, fmt.Sprintf("%s/%s -> %s", cd.U, cd.P, p.MountPoint))
			}
			if in.Kind == "static" {
				obsT = append(obsT, fmt.Sprintf("AStatic %s %s %s %s %s", cqStr(in.SU), cqStr(in.SP), cqStr(cd.U), cqStr(cd.P), got))
			} else {
				obsT = append(obsT, fmt.Sprintf("AFile %s %s %s", cqStr(cd.U), cqStr(cd.P), got))
			}
		}
	}
	run()
	var dgT []string
	for s, h := range dg {
		dgT = append(dgT, fmt.Sprintf("(%s, %s)", cqStr(s), hexZ(h)))
	}
	c.Obs = obs
	c.Coq = fmt.Sprintf("(%s, %s, %s, %s)", cqN(int64(id)), cqList(dgT), cqList(lines), cqList(obsT))
	c.Nontrivial = accepted >= 1
	c.Sig = string(raw)
	return c
}
