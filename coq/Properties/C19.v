(** C19 — Topic-keyed stores behave as maps over full topic strings.
    Statements only; every proof is one [exact] of a lemma proved under Proofs/. *)
From Wasp Require Import Model.Base Model.Trie Spec.MatchSpec Proofs.BaseFacts Proofs.TrieFacts Proofs.StoreRefine.
From stdpp Require Import list sets strings.

(** After ANY history of Upsert / Insert / Remove on a store that started empty, the value at
    every topic string is the value a plain map (string -> value) holds after the same
    history: writing, replacing or removing one topic string changes no other, prefixes
    included (distinct strings are distinct level paths: [levels_inj]). *)
Theorem store_refines_map : ∀ (ops : list sop) (k : string),
  tget (levels k) (run ops) = spec_run ops k.
Proof. exact run_refines. Qed.
Print Assumptions store_refines_map.

Theorem other_keys_untouched : ∀ (ops : list sop) (o : sop) (k' : string),
  k' ≠ op_key o → tget (levels k') (run (ops ++ [o])) = tget (levels k') (run ops).
Proof.
  intros ops o k' Hne. rewrite !run_refines. unfold spec_run, spec_from. rewrite fold_left_app. cbn [fold_left].
  destruct o; cbn [spec_apply op_key] in *; by apply sm_set_ne.
Qed.
Print Assumptions other_keys_untouched.

Theorem topic_strings_are_distinct_paths : ∀ s1 s2 : string, levels s1 = levels s2 → s1 = s2.
Proof. exact levels_inj. Qed.
Print Assumptions topic_strings_are_distinct_paths.

(** Insert reports whether a non-empty value was replaced; Remove fails only where nothing is stored. *)
Theorem insert_reports_old : ∀ ops k v, (tinsert (levels k) v (run ops)).1 = nonempty (spec_run ops k).
Proof. intros. rewrite tinsert_old. by rewrite run_refines. Qed.
Print Assumptions insert_reports_old.
Theorem remove_fails_only_on_absent : ∀ ops k, tremove (levels k) (run ops) = None → spec_run ops k = "".
Proof. intros ops k H. rewrite <- run_refines. by apply tremove_None. Qed.
Print Assumptions remove_fails_only_on_absent.

(** Iteration and Count report exactly the non-empty values of the map ([ks]: any duplicate-free
    list of topic strings covering every key the history touched). *)
Theorem iterate_reports_nonempty : ∀ ops ks, NoDup ks → touched ops ⊆ ks →
  iterate (run ops) ≡ₚ filter (λ v, nonempty v = true) (map (spec_run ops) ks).
Proof. exact iterate_spec. Qed.
Print Assumptions iterate_reports_nonempty.
Theorem count_reports_nonempty : ∀ ops ks, NoDup ks → touched ops ⊆ ks →
  tcount (run ops) = length (filter (λ v, nonempty v = true) (map (spec_run ops) ks)).
Proof. exact count_spec. Qed.
Print Assumptions count_reports_nonempty.

(** An exact Match / Walk on a wildcard-free key returns that key's value and nothing else
    (instances of the matching theorems; see C01 / C07 for wildcards). *)
Theorem match_spec : ∀ ops ks f, NoDup ks → touched ops ⊆ ks → filter_ok (levels f) = true →
  tmatch (levels f) (run ops) ≡ₚ
  filter (λ v, nonempty v = true) (map (spec_run ops) (filter (λ k, mmatch (levels f) (levels k) = true) ks)).
Proof. exact tmatch_spec. Qed.
Print Assumptions match_spec.

(** Dump/Load.  The wire format is gogo/golang protobuf; what the model assumes of it is the
    section hypothesis below (a dumped tree loads back as the same tree; nil-versus-empty
    Children maps are not distinguished by the model, they are exercised on the real code by
    the correspondence check at every position of every history).  Under it, a store rebuilt
    from its dump answers every query identically and every later operation has the same
    effect. *)
Section DumpLoad.
  Context {bytes : Type} (dump : node → bytes) (load : bytes → option node).
  Hypothesis load_dump : ∀ n, load (dump n) = Some n.
  Theorem load_dump_id : ∀ ops1 ops2 n', load (dump (run ops1)) = Some n' →
    run_from n' ops2 = run (ops1 ++ ops2).
  Proof.
    intros ops1 ops2 n'. rewrite load_dump. intros [= <-]. unfold run, run_from. by rewrite fold_left_app.
  Qed.
End DumpLoad.
Print Assumptions load_dump_id.

(** non-vacuity: a concrete history over the shared-prefix keys *)
Example c19_history :
  let ops := [Ins "a" "1"; Ins "a/b" "2"; Ins "a/b/c" "3"; Rm "a/b"; Up "a/c" (λ _, "4"); Ins "b" "5"; Rm "b"] in
  map (λ k, tget (levels k) (run ops)) ["a"; "a/b"; "a/b/c"; "a/c"; "b"; "a/"] = ["1"; ""; "3"; "4"; ""; ""]
  ∧ tcount (run ops) = 3.
Proof. vm_compute. done. Qed.
