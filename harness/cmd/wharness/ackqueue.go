package main

// Family "ackqueue" (C04): register / acknowledge / sweep histories on the real ack.Queue
// (hash of pending messages + expiration list), observing return codes and the order of
// callback invocations.

import (
	"encoding/json"
	"fmt"
	"math/rand"
	"strings"
	"time"

	"github.com/vx-labs/mqtt-protocol/packet"
	"github.com/vx-labs/wasp/v4/wasp/ack"
)

type ackOp struct {
	Op string `json:"op"`           // ins | ack | sweep
	S  string `json:"s,omitempty"`  // session prefix
	ID int32  `json:"id,omitempty"` // packet identifier
	P  string `json:"p,omitempty"`  // ins: pub0 pub1 pub2 pubrec pubrel other ; ack: puback pubrec pubrel pubcomp suback unsuback pingresp
	T  int64  `json:"t,omitempty"`  // deadline / sweep time, in ms relative to the base instant
	Ns int64  `json:"ns,omitempty"` // extra nanoseconds
}
type ackInput struct {
	Ops []ackOp `json:"ops"`
}
type ackFamily struct{}

func init() { register("ackqueue", ackFamily{}) }

const ackBase = int64(1600000000) * int64(time.Second)

func ackTime(o ackOp) int64 { return ackBase + o.T*int64(time.Millisecond) + o.Ns }

func (ackFamily) Gen(n int, seed int64, mode, tier string) []interface{} {
	var out []interface{}
	sess := []string{"s1", "s2", "s3"}
	insP := []string{"pub1", "pub1", "pub1", "pub2", "pub2", "pubrec", "pubrel", "pub0", "other"}
	ackP := map[string]string{"pub1": "puback", "pub2": "pubrec", "pubrec": "pubrel", "pubrel": "pubcomp"}
	wrong := []string{"puback", "pubrec", "pubrel", "pubcomp", "suback", "unsuback", "pingresp"}
	if mode == "exhaustive" {
		// all sequences of <= D operations over a 2x2 key space, two deadlines in the same
		// second, one in the next, sweeps before / between / after
		D := 3
		if tier == "thorough" {
			D = 4
		}
		var basic []ackOp
		for _, s := range []string{"s1", "s2"} {
			for _, id := range []int32{1, 2} {
				basic = append(basic,
					ackOp{Op: "ins", S: s, ID: id, P: "pub1", T: 3000},
					ackOp{Op: "ack", S: s, ID: id, P: "puback"})
			}
		}
		basic = append(basic,
			ackOp{Op: "ins", S: "s1", ID: 1, P: "pub2", T: 3250},
			ackOp{Op: "ins", S: "s2", ID: 1, P: "pub1", T: 3600},
			ackOp{Op: "ack", S: "s1", ID: 1, P: "pubrec"},
			ackOp{Op: "sweep", T: 3000, Ns: 1},
			ackOp{Op: "sweep", T: 4000, Ns: 1})
		var rec func(prefix []ackOp)
		rec = func(prefix []ackOp) {
			if len(prefix) > 0 {
				ops := append(append([]ackOp{}, prefix...), ackOp{Op: "sweep", T: 9000})
				out = append(out, ackInput{Ops: ops})
			}
			if len(prefix) == D {
				return
			}
			for _, b := range basic {
				rec(append(append([]ackOp{}, prefix...), b))
			}
		}
		rec(nil)
		return out
	}
	rng := rand.New(rand.NewSource(seed))
	for i := 0; i < n; i++ {
		var in ackInput
		type pend struct {
			s  string
			id int32
			p  string
		}
		var pending []pend
		steps := 1 + rng.Intn(40)
		clock := int64(0) // ms, advances slowly so that past and future deadlines both occur
		for j := 0; j < steps; j++ {
			clock += int64(rng.Intn(3)) * 250
			r := rng.Intn(100)
			switch {
			case r < 45:
				o := ackOp{Op: "ins", S: sess[rng.Intn(3)], ID: int32(1 + rng.Intn(4)), P: insP[rng.Intn(len(insP))]}
				if rng.Intn(25) == 0 {
					o.ID = 0
				}
				// deadlines on a 250 ms grid around the clock: equal, same-second, past, future
				o.T = clock + int64(rng.Intn(13)-2)*250
				if rng.Intn(6) == 0 {
					o.Ns = int64(rng.Intn(3)) - 1
				}
				in.Ops = append(in.Ops, o)
				pending = append(pending, pend{o.S, o.ID, o.P})
			case r < 75:
				o := ackOp{Op: "ack"}
				if len(pending) > 0 && rng.Intn(100) < 70 {
					p := pending[rng.Intn(len(pending))]
					o.S, o.ID, o.P = p.s, p.id, ackP[p.p]
					if o.P == "" {
						o.P = "puback"
					}
					if rng.Intn(100) < 15 { // wrong type
						o.P = wrong[rng.Intn(len(wrong))]
					}
				} else { // unknown identifier
					o.S, o.ID, o.P = sess[rng.Intn(3)], int32(1+rng.Intn(6)), wrong[rng.Intn(len(wrong))]
				}
				in.Ops = append(in.Ops, o)
			default:
				o := ackOp{Op: "sweep", T: clock + int64(rng.Intn(9)-2)*250}
				if rng.Intn(3) == 0 {
					o.Ns = int64(rng.Intn(3)) - 1
				}
				in.Ops = append(in.Ops, o)
			}
		}
		in.Ops = append(in.Ops, ackOp{Op: "sweep", T: clock + 20000})
		out = append(out, in)
	}
	return out
}

func cqOptQout(code string, fires []string) string {
	return fmt.Sprintf("Some (%s, %s)", code, cqList(fires))
}

func (ackFamily) Exec(id int, raw json.RawMessage) Case {
	var in ackInput
	if err := json.Unmarshal(raw, &in); err != nil {
		panic(err)
	}
	c := Case{ID: id}
	q := ack.NewQueue()
	var terms []string
	var obs []interface{}
	var fires []string
	var fireObs []string
	reg := 0
	nIns, nAck, nSweep, nFired := 0, 0, 0, 0
	errCode := func(err error) string {
		switch {
		case err == nil:
			return "ROk"
		case err == ack.ErrDupMID:
			return "RDup"
		case err == ack.ErrWrongMID:
			return "RWrongMID"
		case err == ack.ErrInvalidQos:
			return "RInvalidQos"
		case err == ack.ErrWrongPacketType:
			return "RWrongPacket"
		case strings.HasPrefix(err.Error(), "unexpected packet type"):
			return "RUnexpected"
		}
		return "RWrongPacket (* unknown error: " + strings.ReplaceAll(err.Error(), "*)", "") + " *)"
	}
	step := func(o ackOp) (term string, ob interface{}) {
		fires, fireObs = nil, nil
		var opTerm string
		defer func() {
			if r := recover(); r != nil {
				term, ob = fmt.Sprintf("(%s, None)", opTerm), fmt.Sprintf("panic: %v", r)
			}
		}()
		switch o.Op {
		case "ins":
			nIns++
			reg++
			myreg := reg
			var pkt packet.Packet
			var ip string
			switch o.P {
			case "pub0":
				pkt, ip = &packet.Publish{Header: &packet.Header{Qos: 0}, MessageId: o.ID}, "(IPublish 0)"
			case "pub1":
				pkt, ip = &packet.Publish{Header: &packet.Header{Qos: 1}, MessageId: o.ID}, "(IPublish 1)"
			case "pub2":
				pkt, ip = &packet.Publish{Header: &packet.Header{Qos: 2}, MessageId: o.ID}, "(IPublish 2)"
			case "pubrec":
				pkt, ip = &packet.PubRec{Header: &packet.Header{}, MessageId: o.ID}, "IPubRec"
			case "pubrel":
				pkt, ip = &packet.PubRel{Header: &packet.Header{}, MessageId: o.ID}, "IPubRel"
			default:
				pkt, ip = &packet.PingReq{Header: &packet.Header{}}, "IOther"
			}
			opTerm = fmt.Sprintf("QInsert %s %s %s %s %s", cqStr(o.S), cqZ(int64(o.ID)), ip, cqZ(ackTime(o)), cqN(int64(myreg)))
			err := q.Insert(o.S, pkt, time.Unix(0, ackTime(o)), func(expired bool, stored, received packet.Packet) {
				fires = append(fires, fmt.Sprintf("(%s, %s)", cqN(int64(myreg)), cqBool(expired)))
				fireObs = append(fireObs, fmt.Sprintf("reg%d:%v", myreg, expired))
				nFired++
			})
			code := errCode(err)
			return fmt.Sprintf("(%s, %s)", opTerm, cqOptQout(code, fires)), code
		case "ack":
			nAck++
			var pkt packet.Packet
			var ty int
			acker := true
			switch o.P {
			case "puback":
				pkt, ty = &packet.PubAck{Header: &packet.Header{}, MessageId: o.ID}, 4
			case "pubrec":
				pkt, ty = &packet.PubRec{Header: &packet.Header{}, MessageId: o.ID}, 5
			case "pubrel":
				pkt, ty = &packet.PubRel{Header: &packet.Header{}, MessageId: o.ID}, 6
			case "pubcomp":
				pkt, ty = &packet.PubComp{Header: &packet.Header{}, MessageId: o.ID}, 7
			case "suback":
				pkt, ty = &packet.SubAck{Header: &packet.Header{}, MessageId: o.ID}, 9
			case "unsuback":
				pkt, ty = &packet.UnsubAck{Header: &packet.Header{}, MessageId: o.ID}, 11
			default:
				pkt, ty, acker = &packet.PingResp{Header: &packet.Header{}}, 13, false
			}
			opTerm = fmt.Sprintf("QAck %s %s %s %s", cqStr(o.S), cqZ(int64(o.ID)), cqZ(int64(ty)), cqBool(acker))
			err := q.Ack(o.S, pkt)
			code := errCode(err)
			return fmt.Sprintf("(%s, %s)", opTerm, cqOptQout(code, fires)), []interface{}{code, fireObs}
		default:
			nSweep++
			opTerm = fmt.Sprintf("QSweep %s", cqZ(ackTime(o)))
			q.Expire(time.Unix(0, ackTime(o)))
			return fmt.Sprintf("(%s, %s)", opTerm, cqOptQout("ROk", fires)), fireObs
		}
	}
	for _, o := range in.Ops {
		t, ob := step(o)
		terms = append(terms, t)
		obs = append(obs, ob)
	}
	c.Obs = obs
	c.Coq = fmt.Sprintf("(%s, %s)", cqN(int64(id)), cqList(terms))
	c.Nontrivial = nIns >= 2 && nFired >= 1
	c.Sig = string(raw)
	return c
}
