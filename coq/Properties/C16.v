(** C16 — Clients are admitted if and only if their credentials match the configured store.
    Statements only.  [H] stands for SHA-256 (hex digest as a number); its injectivity is a
    section hypothesis, i.e. an explicit premise of the iff-theorems (collision resistance). *)
From Wasp Require Import Model.Base Model.Auth Proofs.StableInsert Proofs.AuthFacts.
From stdpp Require Import list.
Open Scope Z_scope.

(** Go's sort.Search (the exact bisection) returns the least index satisfying a monotone predicate. *)
Theorem sort_search_contract : ∀ f n, monotone n f →
  let r := search n f in (r ≤ n)%nat ∧ (∀ k, (k < r)%nat → f k = false) ∧ (∀ k, (r ≤ k < n)%nat → f k = true).
Proof. exact search_least. Qed.
Print Assumptions sort_search_contract.

(** The file handler (parse, stable sort by user digest, bisection, scan) answers, for every
    file of any length and line order and every candidate, what the first line of the file
    with that user and that password digest says - its mount point, the default one for
    2-field lines and for an empty third field; lines with other field counts are ignored. *)
Theorem file_auth_first_match : ∀ H ls u p, file_auth H ls u p = auth_spec H ls u p.
Proof. exact file_auth_spec. Qed.
Print Assumptions file_auth_first_match.

Theorem file_auth_iff : ∀ H, (∀ a b, H a = H b → a = b) → ∀ ls u p,
  is_Some (file_auth H ls u p) ↔ configured H ls u p.
Proof. exact accepted_iff_configured. Qed.
Print Assumptions file_auth_iff.

Theorem static_auth_iff : ∀ H, (∀ a b, H a = H b → a = b) → ∀ su sp u p,
  static_auth H su sp u p = Some default_mp ↔ u = su ∧ p = sp.
Proof. exact static_iff. Qed.
Print Assumptions static_auth_iff.

From Wasp Require Import Spec.MatchSpec Model.DState Model.IdPool Model.Mount Model.Node Proofs.NodeFacts.
(** A refused CONNECT (the credential store said no) receives the refusal CONNACK and leaves
    every node, every registry, every session record, subscription and will as it was. *)
Theorem refused_creates_nothing : ∀ cl i c cid user pass ka will clk, refused pass = true →
  let r := setup cl i c cid user pass ka will clk in
  cl_nodes r.1 = cl_nodes cl ∧ cl_next r.1 = cl_next cl ∧
  (∀ k, find_conn r.1 k = match find_conn cl k with Some x => Some x | None => if String.eqb c k then Some (Conn c i None false) else None end) ∧
  r.2 = [Out c (OConnAck 4); Deadline c 3000].
Proof. exact refused_connect_creates_nothing. Qed.
Print Assumptions refused_creates_nothing.

(** non-vacuity: six users, every one of them found (the pinned == predicate found two) *)
Example c16_table :
  let H := fun s => Z.of_nat (String.length s) * 7 mod 5 + Z.of_nat (String.length s) in
  let ls := map (fun u => ALine 2 u (H "pw") "") ["a"; "bb"; "ccc"; "dddd"; "eeeee"; "ffffff"] in
  map (fun u => file_auth H ls u "pw") ["a"; "bb"; "ccc"; "dddd"; "eeeee"; "ffffff"; "zzzzzzz"]
  = [Some "_default"; Some "_default"; Some "_default"; Some "_default"; Some "_default"; Some "_default"; None].
Proof. vm_compute. reflexivity. Qed.
