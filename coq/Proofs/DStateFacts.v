(** The three replicated stores of Model/DState.v are last-writer-wins maps (Proofs/Lww.v):
    merging an update into the session map, the per-filter subscription lists or the retained
    store is [amerge1] on the store's abstraction (a function from keys to stored entries). *)
From Wasp Require Import Model.Base Spec.MatchSpec Model.DState Proofs.BaseFacts Proofs.Lww.
From stdpp Require Import list strings.
From Coq Require Import ZArith Lia.
Open Scope Z_scope.

Lemma eqb_decide (a b : string) : String.eqb a b = bool_decide (a = b).
Proof. destruct (String.eqb_spec a b); [by rewrite bool_decide_true|by rewrite bool_decide_false]. Qed.

(** ** sessions *)
Definition abs_sess (l : list (string * smeta)) : amap (K:=string) (V:=smeta) := λ k, alookup k l.

Lemma merge_session_abs l m k : abs_sess (merge_session l m) k = amerge1 m_sid sess_ts (abs_sess l) m k.
Proof.
  unfold abs_sess, merge_session, amerge1, ajoin.
  destruct (alookup (m_sid m) l) as [old|] eqn:Hold.
  - destruct (sess_ts old <? sess_ts m) eqn:Hlt.
    + destruct (decide (k = m_sid m)) as [->|Hne]; [by rewrite alookup_aset_eq, Hold, Hlt|by rewrite alookup_aset_ne].
    + destruct (decide (k = m_sid m)) as [->|Hne]; [by rewrite Hold, Hlt|done].
  - destruct (decide (k = m_sid m)) as [->|Hne]; [by rewrite alookup_aset_eq, Hold|by rewrite alookup_aset_ne].
Qed.
Definition sess_valid (m : smeta) : Prop := m_sid m ≠ "".
Lemma merge_sessions_abs ms : Forall sess_valid ms → ∀ l k,
  abs_sess (merge_sessions_l l ms) k = amerge m_sid sess_ts (abs_sess l) ms k.
Proof.
  induction 1 as [|m ms Hm _ IH]; intros l k; cbn [merge_sessions_l amerge fold_left]; [done|].
  rewrite (proj2 (String.eqb_neq _ _) Hm). rewrite IH. apply amerge_ext. intros k'. apply merge_session_abs.
Qed.

(** ** retained messages *)
Definition abs_ret (l : list (string * rmsg)) : amap (K:=string) (V:=rmsg) := λ k, alookup k l.
Definition ret_key (r : rmsg) : string := p_topic (r_pub r).
Definition ret_eff (r : rmsg) : bool := ret_added r || is_removed (r_la r) (r_ld r).

Lemma merge_ret1_abs t r k :
  abs_ret (merge_ret1 t r) k = if ret_eff r then amerge1 ret_key ret_ts (abs_ret t) r k else abs_ret t k.
Proof.
  unfold abs_ret, merge_ret1, amerge1, ajoin, ret_key, ret_eff.
  destruct (ret_added r || is_removed (r_la r) (r_ld r)).
  - destruct (alookup (p_topic (r_pub r)) t) as [old|] eqn:Hold.
    + destruct (ret_ts old <? ret_ts r) eqn:Hlt.
      * destruct (decide (k = p_topic (r_pub r))) as [->|Hne]; [by rewrite alookup_aset_eq, Hold, Hlt|by rewrite alookup_aset_ne].
      * destruct (decide (k = p_topic (r_pub r))) as [->|Hne]; [by rewrite Hold, Hlt|done].
    + destruct (decide (k = p_topic (r_pub r))) as [->|Hne]; [by rewrite alookup_aset_eq, Hold|by rewrite alookup_aset_ne].
  - destruct (alookup (p_topic (r_pub r)) t) as [old|]; [by destruct (ret_ts old <? ret_ts r)|done].
Qed.
Definition ret_valid (r : rmsg) : Prop := ret_key r ≠ "".
Lemma merge_ret_abs rs : Forall ret_valid rs → ∀ t k,
  abs_ret (merge_ret_l t rs) k = amerge ret_key ret_ts (abs_ret t) (List.filter ret_eff rs) k.
Proof.
  induction 1 as [|r rs Hr _ IH]; intros t k; cbn [merge_ret_l List.filter]; [done|].
  unfold ret_valid, ret_key in Hr. rewrite (proj2 (String.eqb_neq _ _) Hr). rewrite IH.
  destruct (ret_eff r) eqn:He; cbn [amerge fold_left].
  - apply amerge_ext. intros k'. by rewrite merge_ret1_abs, He.
  - apply amerge_ext. intros k'. by rewrite merge_ret1_abs, He.
Qed.

(** ** subscriptions: key = (pattern, session id) *)
Definition find_sid (sid : string) (l : list sub) : option sub := List.find (λ s, String.eqb (s_sid s) sid) l.
Definition abs_subs (t : list (string * list sub)) : amap (K:=string * string) (V:=sub) :=
  λ k, find_sid k.2 (odflt [] (alookup k.1 t)).
Definition sub_key (s : sub) : string * string := (s_pattern s, s_sid s).
Definition sids (l : list sub) : list string := map s_sid l.

Lemma find_sid_notin sid l : sid ∉ sids l → find_sid sid l = None.
Proof.
  unfold sids. induction l as [|s l IH]; cbn; [done|]. intros [Hne Hn]%not_elem_of_cons.
  rewrite (proj2 (String.eqb_neq _ _)) by congruence. by apply IH.
Qed.
Lemma set_aux_true_id l u : s_sid u ∉ sids l → set_aux true l u = l.
Proof.
  unfold sids. induction l as [|s l IH]; [done|]. cbn [set_aux map]. intros [Hne Hn]%not_elem_of_cons.
  rewrite (proj2 (String.eqb_neq _ _)) by congruence. by rewrite IH.
Qed.
Lemma set_aux_sids fnd l u x : x ∈ sids (set_aux fnd l u) → x = s_sid u ∨ x ∈ sids l.
Proof.
  unfold sids. revert fnd. induction l as [|s l IH]; intros fnd; cbn [set_aux map].
  { destruct fnd; cbn; [by intros ?%elem_of_nil|]. intros ?%elem_of_list_singleton. by left. }
  destruct (String.eqb_spec (s_sid s) (s_sid u)) as [Heq|Hne].
  - destruct (sub_ts s <? sub_ts u); cbn [map]; rewrite !elem_of_cons.
    + intros [->|?]; [by left|right; by right].
    + intros [->|H]; [right; by left|]. apply IH in H as [?|?]; [by left|right; by right].
  - cbn [map]. rewrite !elem_of_cons. intros [->|H]; [right; by left|]. apply IH in H as [?|?]; [by left|right; by right].
Qed.
Lemma set_aux_spec l u : NoDup (sids l) →
  NoDup (sids (set_aux false l u)) ∧
  ∀ sid, find_sid sid (set_aux false l u) = if decide (sid = s_sid u) then ajoin sub_ts (find_sid sid l) u else find_sid sid l.
Proof.
  unfold sids. induction l as [|s l IH]; intros Hnd.
  { cbn. split; [apply NoDup_singleton|]. intros sid. rewrite String.eqb_sym, eqb_decide.
    destruct (decide (sid = s_sid u)); [by rewrite bool_decide_true|by rewrite bool_decide_false]. }
  cbn [map] in Hnd. apply NoDup_cons in Hnd as [Hn Hnd]. cbn [set_aux].
  destruct (String.eqb_spec (s_sid s) (s_sid u)) as [Heq|Hne].
  - destruct (sub_ts s <? sub_ts u) eqn:Hlt.
    + split. { cbn [map]. rewrite <- Heq. by apply NoDup_cons. }
      intros sid. cbn [find_sid List.find]. rewrite Heq. rewrite (String.eqb_sym (s_sid u) sid), eqb_decide.
      destruct (decide (sid = s_sid u)) as [->|Hd]; [rewrite bool_decide_true by done|rewrite bool_decide_false by done].
      * cbn. by rewrite Hlt.
      * done.
    + rewrite set_aux_true_id by (unfold sids; by rewrite <- Heq). split; [cbn [map]; by apply NoDup_cons|].
      intros sid. cbn [find_sid List.find]. rewrite Heq. rewrite (String.eqb_sym (s_sid u) sid), eqb_decide.
      destruct (decide (sid = s_sid u)) as [->|Hd]; [rewrite bool_decide_true by done|rewrite bool_decide_false by done].
      * cbn. by rewrite Hlt.
      * done.
  - destruct (IH Hnd) as [IHn IHf]. split.
    + cbn [map]. apply NoDup_cons. split; [|done]. intros Hin. apply (set_aux_sids false l u) in Hin as [?|?]; [congruence|done].
    + intros sid. cbn [find_sid List.find]. fold (find_sid sid (set_aux false l u)). fold (find_sid sid l). rewrite IHf.
      destruct (String.eqb_spec (s_sid s) sid) as [<-|Hs].
      * by rewrite decide_False.
      * done.
Qed.

Definition subs_wf (t : list (string * list sub)) : Prop := Forall (λ kv, NoDup (sids kv.2)) t.
Lemma subs_wf_lookup t p l : subs_wf t → alookup p t = Some l → NoDup (sids l).
Proof. intros Hwf. by apply (alookup_values (λ l, NoDup (sids l))). Qed.
Lemma sub_set_abs t u : subs_wf t →
  subs_wf (sub_set t u) ∧ ∀ k, abs_subs (sub_set t u) k = amerge1 sub_key sub_ts (abs_subs t) u k.
Proof.
  intros Hwf. unfold sub_set.
  assert (Hnd : NoDup (sids (odflt [] (alookup (s_pattern u) t)))).
  { destruct (alookup (s_pattern u) t) eqn:E; cbn; [by eapply subs_wf_lookup|apply NoDup_nil_2]. }
  destruct (set_aux_spec _ u Hnd) as [Hn Hf]. split.
  - by apply (aset_values (λ l, NoDup (sids l))).
  - intros [p sid]. unfold abs_subs, amerge1, sub_key. cbn [fst snd].
    destruct (decide (p = s_pattern u)) as [->|Hp].
    + rewrite alookup_aset_eq. cbn [odflt]. rewrite Hf.
      destruct (decide (sid = s_sid u)) as [->|Hs]; [by rewrite decide_True|].
      rewrite decide_False by congruence. done.
    + rewrite alookup_aset_ne by done. by rewrite decide_False by congruence.
Qed.
Definition sub_valid (u : sub) : Prop := s_sid u ≠ "" ∧ s_pattern u ≠ "".
Lemma merge_subs_abs us : Forall sub_valid us → ∀ t, subs_wf t →
  subs_wf (merge_subs_l t us) ∧ ∀ k, abs_subs (merge_subs_l t us) k = amerge sub_key sub_ts (abs_subs t) us k.
Proof.
  induction 1 as [|u us [Hu1 Hu2] _ IH]; intros t Hwf; cbn [merge_subs_l amerge fold_left]; [done|].
  rewrite (proj2 (String.eqb_neq _ _) Hu1), (proj2 (String.eqb_neq _ _) Hu2). cbn [orb].
  destruct (sub_set_abs t u Hwf) as [Hwf' Habs]. destruct (IH _ Hwf') as [IHw IHa]. split; [done|].
  intros k. rewrite IHa. apply amerge_ext. exact Habs.
Qed.
Lemma fold_sub_set_abs us : ∀ t, subs_wf t →
  subs_wf (fold_left sub_set us t) ∧ ∀ k, abs_subs (fold_left sub_set us t) k = amerge sub_key sub_ts (abs_subs t) us k.
Proof.
  induction us as [|u us IH]; intros t Hwf; cbn [amerge fold_left]; [done|].
  destruct (sub_set_abs t u Hwf) as [Hwf' Habs]. destruct (IH _ Hwf') as [IHw IHa]. split; [done|].
  intros k. rewrite IHa. apply amerge_ext. exact Habs.
Qed.

(** ** whole replicas: batches of broadcast events *)
Definition ev_valid (e : bevent) : Prop :=
  Forall sess_valid (b_sess e) ∧ Forall sub_valid (b_subs e) ∧ Forall ret_valid (b_ret e).
Definition wf (d : dstate) : Prop := subs_wf (d_subs d).
Definition all_sess (es : list bevent) := flat_map b_sess es.
Definition all_subs (es : list bevent) := flat_map b_subs es.
Definition all_ret (es : list bevent) := List.filter ret_eff (flat_map b_ret es).

Lemma merge_event_abs d e : wf d → ev_valid e →
  wf (merge_event d e) ∧
  (∀ k, abs_sess (d_sess (merge_event d e)) k = amerge m_sid sess_ts (abs_sess (d_sess d)) (b_sess e) k) ∧
  (∀ k, abs_subs (d_subs (merge_event d e)) k = amerge sub_key sub_ts (abs_subs (d_subs d)) (b_subs e) k) ∧
  (∀ k, abs_ret (d_ret (merge_event d e)) k = amerge ret_key ret_ts (abs_ret (d_ret d)) (List.filter ret_eff (b_ret e)) k).
Proof.
  intros Hwf (Hs & Hu & Hr). unfold merge_event. cbn [d_sess d_subs d_ret].
  destruct (merge_subs_abs _ Hu _ Hwf) as [Hw Ha].
  split; [exact Hw|]. split; [intros; by apply merge_sessions_abs|]. split; [exact Ha|]. intros; by apply merge_ret_abs.
Qed.

Lemma merge_events_abs es : Forall ev_valid es → ∀ d, wf d →
  let d' := fold_left merge_event es d in
  wf d' ∧
  (∀ k, abs_sess (d_sess d') k = amerge m_sid sess_ts (abs_sess (d_sess d)) (all_sess es) k) ∧
  (∀ k, abs_subs (d_subs d') k = amerge sub_key sub_ts (abs_subs (d_subs d)) (all_subs es) k) ∧
  (∀ k, abs_ret (d_ret d') k = amerge ret_key ret_ts (abs_ret (d_ret d)) (all_ret es) k).
Proof.
  induction 1 as [|e es He _ IH]; intros d Hwf; cbn [fold_left].
  { unfold all_sess, all_subs, all_ret. cbn. done. }
  destruct (merge_event_abs d e Hwf He) as (Hw & H1 & H2 & H3).
  destruct (IH _ Hw) as (IHw & I1 & I2 & I3). cbn zeta in *. split; [exact IHw|].
  unfold all_sess, all_subs, all_ret in *. cbn [flat_map]. rewrite List.filter_app.
  split; [|split]; intros k.
  - rewrite I1. unfold amerge. rewrite fold_left_app. by apply amerge_ext.
  - rewrite I2. unfold amerge. rewrite fold_left_app. by apply amerge_ext.
  - rewrite I3. unfold amerge. rewrite fold_left_app. by apply amerge_ext.
Qed.

Lemma wf_new p : wf (dnew p). Proof. constructor. Qed.

(** two replicas that received the same set of updates, in any order, any number of times,
    one at a time or batched, hold the same entry under every key *)
Theorem replicas_converge p1 p2 es1 es2 :
  Forall ev_valid es1 → Forall ev_valid es2 →
  (∀ u, u ∈ all_sess es1 ↔ u ∈ all_sess es2) → tie_free m_sid sess_ts (all_sess es1) →
  (∀ u, u ∈ all_subs es1 ↔ u ∈ all_subs es2) → tie_free sub_key sub_ts (all_subs es1) →
  (∀ u, u ∈ all_ret es1 ↔ u ∈ all_ret es2) → tie_free ret_key ret_ts (all_ret es1) →
  let d1 := fold_left merge_event es1 (dnew p1) in
  let d2 := fold_left merge_event es2 (dnew p2) in
  (∀ k, abs_sess (d_sess d1) k = abs_sess (d_sess d2) k) ∧
  (∀ k, abs_subs (d_subs d1) k = abs_subs (d_subs d2) k) ∧
  (∀ k, abs_ret (d_ret d1) k = abs_ret (d_ret d2) k).
Proof.
  intros V1 V2 S1 T1 S2 T2 S3 T3 d1 d2.
  destruct (merge_events_abs es1 V1 (dnew p1) (wf_new p1)) as (_ & A1 & A2 & A3).
  destruct (merge_events_abs es2 V2 (dnew p2) (wf_new p2)) as (_ & B1 & B2 & B3).
  split; [|split]; intros k.
  - rewrite A1, B1. by apply (amerge_order_irrelevant m_sid sess_ts).
  - rewrite A2, B2. by apply (amerge_order_irrelevant sub_key sub_ts).
  - rewrite A3, B3. by apply (amerge_order_irrelevant ret_key ret_ts).
Qed.

(** what a replica holds under a key is the update with the greatest timestamp *)
Theorem replica_holds_winner p es : Forall ev_valid es →
  tie_free m_sid sess_ts (all_sess es) → tie_free sub_key sub_ts (all_subs es) → tie_free ret_key ret_ts (all_ret es) →
  let d := fold_left merge_event es (dnew p) in
  (∀ k, match abs_sess (d_sess d) k with Some v => winner m_sid sess_ts (all_sess es) k v | None => ∀ v, v ∈ all_sess es → m_sid v ≠ k end) ∧
  (∀ k, match abs_subs (d_subs d) k with Some v => winner sub_key sub_ts (all_subs es) k v | None => ∀ v, v ∈ all_subs es → sub_key v ≠ k end) ∧
  (∀ k, match abs_ret (d_ret d) k with Some v => winner ret_key ret_ts (all_ret es) k v | None => ∀ v, v ∈ all_ret es → ret_key v ≠ k end).
Proof.
  intros V T1 T2 T3 d. destruct (merge_events_abs es V (dnew p) (wf_new p)) as (_ & A1 & A2 & A3).
  split; [|split]; intros k.
  - rewrite A1. by apply (amerge_spec m_sid sess_ts).
  - rewrite A2. by apply (amerge_spec sub_key sub_ts).
  - rewrite A3. by apply (amerge_spec ret_key ret_ts).
Qed.

(** ** local writes *)
(* a local subscription change IS the merge of the event it broadcasts *)
Lemma sub_create_is_merge d sid pat qos clk : sid ≠ "" → pat ≠ "" →
  let r := sub_create d sid pat qos clk in
  ∃ e, r.2 = Some e ∧ d_subs r.1 = d_subs (merge_event d e) ∧ d_sess r.1 = d_sess (merge_event d e) ∧ d_ret r.1 = d_ret (merge_event d e).
Proof.
  intros H1 H2. eexists. split; [reflexivity|]. cbn [sub_create fst snd merge_event d_subs d_sess d_ret with_subs b_sess b_subs b_ret merge_subs_l merge_sessions_l merge_ret_l s_sid s_pattern].
  rewrite (proj2 (String.eqb_neq _ _) H1), (proj2 (String.eqb_neq _ _) H2). done.
Qed.
Lemma sub_delete_is_merge d sid pat clk : sid ≠ "" → pat ≠ "" →
  let r := sub_delete d sid pat clk in
  ∃ e, r.2 = Some e ∧ d_subs r.1 = d_subs (merge_event d e) ∧ d_sess r.1 = d_sess (merge_event d e) ∧ d_ret r.1 = d_ret (merge_event d e).
Proof.
  intros H1 H2. eexists. split; [reflexivity|]. cbn [sub_delete fst snd merge_event d_subs d_sess d_ret with_subs b_sess b_subs b_ret merge_subs_l merge_sessions_l merge_ret_l s_sid s_pattern].
  rewrite (proj2 (String.eqb_neq _ _) H1), (proj2 (String.eqb_neq _ _) H2). done.
Qed.

Lemma last_update_max la ld : last_update la ld = Z.max la ld.
Proof. unfold last_update. destruct (Z.ltb_spec ld la); lia. Qed.

(* a local retained write is stamped above what it replaces, hence it is the merge of its event *)
Lemma ret_set_is_merge d p clk k : 0 < clk → p_topic p ≠ "" →
  let r := ret_set d p clk in
  ∃ e, r.2 = Some e ∧ abs_ret (d_ret r.1) k = abs_ret (d_ret (merge_event d e)) k.
Proof.
  intros Hclk Ht. eexists. split; [reflexivity|].
  cbn [ret_set fst snd merge_event d_ret with_ret b_ret merge_ret_l r_pub].
  rewrite (proj2 (String.eqb_neq _ _) Ht). rewrite merge_ret1_abs.
  set (st := ret_stamp d (p_topic p) clk).
  assert (Hst : 0 < st ∧ ∀ old, alookup (p_topic p) (d_ret d) = Some old → ret_ts old < st).
  { unfold st, ret_stamp. destruct (alookup (p_topic p) (d_ret d)) as [old|].
    - destruct (Z.leb_spec clk (ret_ts old)); (split; [lia|]); intros ? [= <-]; lia.
    - split; [done|]. by intros. }
  destruct Hst as [Hpos Hgt].
  assert (Heff : ret_eff (RMsg p st 0) = true).
  { unfold ret_eff, ret_added, is_added. cbn. rewrite (proj2 (Z.ltb_lt 0 st)) by done. done. }
  rewrite Heff. unfold abs_ret, amerge1, ajoin, ret_key. cbn [r_pub].
  destruct (decide (k = p_topic p)) as [->|Hne]; [|by rewrite alookup_aset_ne].
  rewrite alookup_aset_eq. destruct (alookup (p_topic p) (d_ret d)) as [old|] eqn:Ho; [|done].
  specialize (Hgt old eq_refl). assert (Hts : ret_ts (RMsg p st 0) = st).
  { unfold ret_ts. cbn. rewrite last_update_max. lia. }
  rewrite Hts. by rewrite (proj2 (Z.ltb_lt _ _) Hgt).
Qed.
Lemma ret_delete_is_merge d topic clk k : 0 < clk → topic ≠ "" →
  let r := ret_delete d topic clk in
  ∃ e, r.2 = Some e ∧ abs_ret (d_ret r.1) k = abs_ret (d_ret (merge_event d e)) k.
Proof.
  intros Hclk Ht. eexists. split; [reflexivity|].
  cbn [ret_delete fst snd merge_event d_ret with_ret b_ret merge_ret_l r_pub p_topic].
  rewrite (proj2 (String.eqb_neq _ _) Ht). rewrite merge_ret1_abs.
  set (st := ret_stamp d topic clk).
  assert (Hst : 0 < st ∧ ∀ old, alookup topic (d_ret d) = Some old → ret_ts old < st).
  { unfold st, ret_stamp. destruct (alookup topic (d_ret d)) as [old|].
    - destruct (Z.leb_spec clk (ret_ts old)); (split; [lia|]); intros ? [= <-]; lia.
    - split; [done|]. by intros. }
  destruct Hst as [Hpos Hgt].
  assert (Heff : ret_eff (RMsg (Publish topic "" 0 false false) 0 st) = true).
  { unfold ret_eff, ret_added, is_added, is_removed. cbn. rewrite (proj2 (Z.ltb_lt 0 st)) by done. done. }
  rewrite Heff. unfold abs_ret, amerge1, ajoin, ret_key. cbn [r_pub p_topic].
  destruct (decide (k = topic)) as [->|Hne]; [|by rewrite alookup_aset_ne].
  rewrite alookup_aset_eq. destruct (alookup topic (d_ret d)) as [old|] eqn:Ho; [|done].
  specialize (Hgt old eq_refl). assert (Hts : ret_ts (RMsg (Publish topic "" 0 false false) 0 st) = st).
  { unfold ret_ts. cbn. rewrite last_update_max. lia. }
  rewrite Hts. by rewrite (proj2 (Z.ltb_lt _ _) Hgt).
Qed.

(** ** flat stores (session map, retained store): key-consistent association lists *)
Section Flat.
  Context {V : Type} (key : V → string) (ts : V → Z).
  Definition flat_ok (l : list (string * V)) : Prop := NoDup (map fst l) ∧ Forall (λ kv, key kv.2 = kv.1) l.

  Lemma flat_ok_nil : flat_ok []. Proof. split; [apply NoDup_nil_2|constructor]. Qed.
  Lemma flat_ok_aset l v : flat_ok l → flat_ok (aset (key v) v l).
  Proof. intros [Hn Hk]. split; [by apply NoDup_aset|].
    clear Hn. induction l as [|[k0 v0] l IH]; cbn [aset]; [by repeat constructor|].
    apply Forall_cons in Hk as [Hk0 Hk]. destruct (String.eqb (key v) k0); [by constructor|constructor; auto].
  Qed.
  Lemma flat_lookup_in l k v : flat_ok l → (k, v) ∈ l → alookup k l = Some v.
  Proof.
    intros [Hn _]. induction l as [|[k0 v0] l IH]; [by intros ?%elem_of_nil|]. cbn [map fst] in Hn.
    apply NoDup_cons in Hn as [Hnot Hn]. intros [[= -> ->]|Hin]%elem_of_cons; cbn [alookup].
    - by rewrite String.eqb_refl.
    - rewrite eqb_ne; [by apply IH|]. intros ->. apply Hnot. apply elem_of_list_fmap. by exists (k0, v).
  Qed.
  Lemma flat_values_key l v : flat_ok l → v ∈ map snd l → alookup (key v) l = Some v.
  Proof.
    intros Hok (kv & -> & Hin)%elem_of_list_fmap. destruct kv as [k v]. cbn.
    pose proof Hok as [Hn Hk]. rewrite Forall_forall in Hk. specialize (Hk _ Hin). cbn in Hk. rewrite Hk. by apply flat_lookup_in.
  Qed.
  Lemma flat_values_nodup l : flat_ok l → NoDup (map key (map snd l)).
  Proof.
    intros [Hn Hk]. assert (map key (map snd l) = map fst l) as ->; [|done].
    clear Hn. induction l as [|[k v] l IH]; [done|]. apply Forall_cons in Hk as [Hk0 Hk]. cbn in *. by rewrite Hk0, IH.
  Qed.
  Lemma flat_find l k : flat_ok l → List.find (λ u, bool_decide (key u = k)) (map snd l) = alookup k l.
  Proof.
    intros [Hn Hk]. induction l as [|[k0 v0] l IH]; [done|]. cbn [map fst] in Hn. apply NoDup_cons in Hn as [_ Hn].
    apply Forall_cons in Hk as [Hk0 Hk]. cbn [map snd List.find alookup fst] in *. rewrite Hk0.
    destruct (decide (k0 = k)) as [->|Hne].
    - by rewrite bool_decide_true, String.eqb_refl.
    - rewrite bool_decide_false by done. rewrite eqb_ne by congruence. by apply IH.
  Qed.

  (** writing a list of entries that are newer than what they replace = merging them *)
  Lemma fresh_writes us : ∀ l (r : amap (K:=string) (V:=V)), (∀ k, alookup k l = r k) → NoDup (map key us) →
    Forall (λ u, ∀ old, alookup (key u) l = Some old → ts old < ts u) us →
    ∀ k, alookup k (fold_left (λ l u, aset (key u) u l) us l) = amerge key ts r us k.
  Proof.
    induction us as [|u us IH]; intros l r Heq Hnd Hfresh k; cbn [fold_left amerge]; [apply Heq|].
    cbn [map] in Hnd. apply NoDup_cons in Hnd as [Hnot Hnd]. apply Forall_cons in Hfresh as [Hu Hfresh].
    apply IH; [|done|].
    - intros k'. unfold amerge1, ajoin. destruct (decide (k' = key u)) as [->|Hne].
      + rewrite alookup_aset_eq, <- Heq. destruct (alookup (key u) l) as [old|] eqn:Ho; [|done].
        by rewrite (proj2 (Z.ltb_lt _ _) (Hu old eq_refl)).
      + by rewrite alookup_aset_ne.
    - rewrite Forall_forall in Hfresh |- *. intros u' Hu' old. rewrite alookup_aset_ne; [by apply Hfresh|].
      intros Heq'. apply Hnot. rewrite <- Heq'. apply elem_of_list_fmap. by exists u'.
  Qed.
End Flat.

(** ** representation invariant of a replica *)
Definition sub_entry_ok (p : string) (s : sub) : Prop := s_pattern s = p ∧ sub_valid s.
Definition subs_ok (t : list (string * list sub)) : Prop :=
  NoDup (map fst t) ∧ Forall (λ kv, NoDup (sids kv.2) ∧ Forall (sub_entry_ok kv.1) kv.2) t.
Definition ret_ok (t : list (string * rmsg)) : Prop :=
  flat_ok ret_key t ∧ Forall (λ kv, ret_eff kv.2 = true ∧ ret_valid kv.2) t.
Definition sess_ok (l : list (string * smeta)) : Prop :=
  flat_ok m_sid l ∧ Forall (λ kv, sess_valid kv.2) l.
Record dok (d : dstate) : Prop := mkdok { ok_sess : sess_ok (d_sess d); ok_subs : subs_ok (d_subs d); ok_ret : ret_ok (d_ret d) }.

Lemma dok_new p : dok (dnew p).
Proof. split; cbn; repeat split; try apply NoDup_nil_2; constructor. Qed.
Lemma subs_ok_wf t : subs_ok t → subs_wf t.
Proof. intros [_ H]. eapply Forall_impl; [exact H|]. cbn. tauto. Qed.

Lemma aset_values2 {A} (P : string → A → Prop) k v (l : list (string * A)) :
  P k v → Forall (λ kv, P kv.1 kv.2) l → Forall (λ kv, P kv.1 kv.2) (aset k v l).
Proof.
  intros Hv. induction l as [|[k2 v2] l IH]; cbn [aset]; intros Hall; [by constructor|].
  apply Forall_cons in Hall as [H0 Hall]. destruct (String.eqb_spec k k2) as [->|]; constructor; auto.
Qed.
Lemma alookup_values2 {A} (P : string → A → Prop) k v (l : list (string * A)) :
  Forall (λ kv, P kv.1 kv.2) l → alookup k l = Some v → P k v.
Proof.
  induction l as [|[k2 v2] l IH]; cbn [alookup]; intros Hall; [done|]. apply Forall_cons in Hall as [H0 Hall].
  destruct (String.eqb_spec k k2) as [->|]; [by intros [= <-]|by apply IH].
Qed.

Lemma set_aux_entries fnd l u (P : sub → Prop) : P u → Forall P l → Forall P (set_aux fnd l u).
Proof.
  intros Hu. revert fnd. induction l as [|s l IH]; intros fnd Hl; cbn [set_aux].
  { destruct fnd; by repeat constructor. }
  apply Forall_cons in Hl as [Hs Hl]. destruct (String.eqb (s_sid s) (s_sid u)); [destruct (sub_ts s <? sub_ts u)|]; constructor; auto.
Qed.
Lemma sub_set_ok t u : subs_ok t → sub_valid u → subs_ok (sub_set t u).
Proof.
  intros [Hn Hv] Hu. unfold sub_set. split; [by apply NoDup_aset|].
  apply (aset_values2 (λ k l, NoDup (sids l) ∧ Forall (sub_entry_ok k) l)); [|done].
  assert (Hl : NoDup (sids (odflt [] (alookup (s_pattern u) t))) ∧ Forall (sub_entry_ok (s_pattern u)) (odflt [] (alookup (s_pattern u) t))).
  { destruct (alookup (s_pattern u) t) as [l|] eqn:E; cbn [odflt]; [|split; [apply NoDup_nil_2|constructor]].
    by apply (alookup_values2 (λ k l, NoDup (sids l) ∧ Forall (sub_entry_ok k) l) _ _ _ Hv). }
  destruct Hl as [Hl1 Hl2]. split; [by apply set_aux_spec|]. apply set_aux_entries; [by split|done].
Qed.
Lemma fold_sub_set_ok us : Forall sub_valid us → ∀ t, subs_ok t → subs_ok (fold_left sub_set us t).
Proof. induction 1 as [|u us Hu _ IH]; intros t Ht; cbn; [done|]. apply IH. by apply sub_set_ok. Qed.

Lemma fold_aset_sess_ok us : Forall sess_valid us → ∀ l, sess_ok l → sess_ok (fold_left (λ l m, aset (m_sid m) m l) us l).
Proof.
  induction 1 as [|u us Hu _ IH]; intros l [Hf Hv]; cbn; [done|]. apply IH. split; [by apply flat_ok_aset|].
  by apply (aset_values sess_valid).
Qed.

(** ** C09: every local change is carried completely by the broadcast it queues *)
Definition same_abs (d r : dstate) : Prop :=
  (∀ k, abs_sess (d_sess d) k = abs_sess (d_sess r) k) ∧
  (∀ k, abs_subs (d_subs d) k = abs_subs (d_subs r) k) ∧
  (∀ k, abs_ret (d_ret d) k = abs_ret (d_ret r) k).
Lemma same_abs_refl d : same_abs d d. Proof. by repeat split. Qed.

Definition op_valid (o : dop) : Prop :=
  match o with
  | DSessCreate id _ _ _ clk => id ≠ "" ∧ 0 < clk
  | DSubCreate sid pat _ _ | DSubDelete sid pat _ => sid ≠ "" ∧ pat ≠ ""
  | DRetSet p clk => p_topic p ≠ "" ∧ 0 < clk
  | DRetDelete t clk => t ≠ "" ∧ 0 < clk
  | _ => True
  end.
(* the node's clock reading is above the timestamps of the session entries the operation replaces *)
Definition clock_fresh (d : dstate) (o : dop) : Prop :=
  match o with
  | DSessCreate id _ _ _ clk | DSessDelete id clk => ∀ old, alookup id (d_sess d) = Some old → sess_ts old < clk
  | DSessDeletePeer p clk => ∀ m, m ∈ sess_by_peer p d → sess_ts m < clk
  | _ => True
  end.

Lemma sess_write d (r : dstate) us : sess_ok (d_sess d) → (∀ k, abs_sess (d_sess d) k = abs_sess (d_sess r) k) →
  Forall sess_valid us → NoDup (map m_sid us) →
  Forall (λ u, ∀ old, alookup (m_sid u) (d_sess d) = Some old → sess_ts old < sess_ts u) us →
  ∀ k, abs_sess (fold_left (λ l m, aset (m_sid m) m l) us (d_sess d)) k = abs_sess (merge_sessions_l (d_sess r) us) k.
Proof.
  intros Hok Heq Hv Hnd Hfresh k. rewrite merge_sessions_abs by done.
  unfold abs_sess at 1. rewrite (fresh_writes m_sid sess_ts us (d_sess d) (abs_sess (d_sess d))); [|done|done|done].
  by apply amerge_ext.
Qed.

Lemma sess_by_peer_in p d m : m ∈ sess_by_peer p d → m ∈ map snd (d_sess d).
Proof. unfold sess_by_peer, sess_filter. intros H. apply elem_of_list_In, filter_In in H as [H _]. by apply elem_of_list_In. Qed.
Lemma NoDup_map_filter {A B} (f : A → B) (P : A → bool) l : NoDup (map f l) → NoDup (map f (List.filter P l)).
Proof.
  induction l as [|x l IH]; cbn; [done|]. intros [Hn Hnd]%NoDup_cons.
  destruct (P x); [|by apply IH]. cbn. apply NoDup_cons. split; [|by apply IH].
  intros (y & Hy & Hin)%elem_of_list_fmap. apply Hn. apply elem_of_list_In, filter_In in Hin as [Hin _].
  apply elem_of_list_fmap. exists y. split; [done|]. by apply elem_of_list_In.
Qed.

Theorem broadcast_complete d r o : dok d → dok r → same_abs d r → op_valid o → clock_fresh d o →
  let res := dapply d o in
  dok res.1 ∧
  match res.2 with
  | Some e => ev_valid e ∧ same_abs res.1 (merge_event r e)
  | None => res.1 = d
  end.
Proof.
  intros [[Hsf Hsv] Hsu [Hrf Hre]] [[Hsf' Hsv'] Hsu' [Hrf' Hre']] (E1 & E2 & E3) Hval Hfresh.
  pose proof (subs_ok_wf _ Hsu) as Hwf. pose proof (subs_ok_wf _ Hsu') as Hwf'.
  destruct o as [id cid mp lwt clk|id clk|p clk|sid pat qos clk|sid pat clk|p clk|sid clk|pb clk|topic clk]; cbn [dapply op_valid clock_fresh] in *.
  - (* sess_create *)
    destruct Hval as [Hid Hclk]. unfold sess_create.
    set (m := SMeta id cid mp (d_peer d) lwt clk 0).
    assert (Hgo : let res := (with_sess d (aset id m (d_sess d)), Some (BEvent [m] [] [])) in
                  dok res.1 ∧ ev_valid (BEvent [m] [] []) ∧ same_abs res.1 (merge_event r (BEvent [m] [] []))).
    { cbn zeta. cbn [fst]. split; [|split].
      - split; cbn; [|done|by split]. apply (fold_aset_sess_ok [m]); [by repeat constructor|by split].
      - repeat split; cbn; by repeat constructor.
      - split; [|split]; cbn [with_sess d_sess d_subs d_ret merge_event b_sess b_subs b_ret merge_subs_l merge_ret_l]; [|done|done].
        intros k. apply (sess_write d r [m]); [by split|done|by repeat constructor|apply NoDup_singleton|].
        constructor; [|constructor]. cbn. intros old Ho. specialize (Hfresh old Ho).
        unfold sess_ts at 2. cbn. rewrite last_update_max. lia. }
    assert (Hdok : dok d) by (split; [by split|done|by split]).
    destruct (alookup id (d_sess d)) as [old|]; [destruct (sess_added old)|];
      (destruct (utf8_ok id && utf8_ok cid && utf8_ok mp); cbn [fst snd]; [first [done|exact Hgo]|done]).
  - (* sess_delete *)
    unfold sess_delete. destruct (alookup id (d_sess d)) as [old|] eqn:Ho; [|by split].
    destruct (is_removed (m_la old) (m_ld old)); [by split|]. cbn [fst snd].
    set (m := sess_mark_deleted old clk).
    assert (Hkey : m_sid old = id).
    { destruct Hsf as [_ Hk]. by apply (alookup_values2 (λ k v, m_sid v = k) _ _ _ Hk Ho). }
    assert (Hvalid : sess_valid m). { unfold m, sess_valid. cbn. by apply (alookup_values sess_valid _ _ _ Hsv Ho). }
    assert (Hmid : m_sid m = id) by exact Hkey.
    split; [|split].
    + split; cbn; [|done|by split]. rewrite <- Hmid. apply (fold_aset_sess_ok [m]); [by repeat constructor|by split].
    + repeat split; cbn; by repeat constructor.
    + split; [|split]; cbn [with_sess d_sess d_subs d_ret merge_event b_sess b_subs b_ret merge_subs_l merge_ret_l]; [|done|done].
      intros k. rewrite <- Hmid. apply (sess_write d r [m]); [by split|done|by repeat constructor|apply NoDup_singleton|].
      constructor; [|constructor]. rewrite Hmid. intros old' Ho'. rewrite Ho in Ho'. injection Ho' as <-.
      specialize (Hfresh old eq_refl). unfold m, sess_ts, sess_mark_deleted in *. cbn. rewrite !last_update_max in *. lia.
  - (* sess_delete_peer *)
    unfold sess_delete_peer. cbn [fst snd].
    set (us := map (λ m, sess_mark_deleted m clk) (sess_by_peer p d)).
    assert (Hv : Forall sess_valid us).
    { unfold us. rewrite Forall_forall. intros m' (m & -> & Hm)%elem_of_list_fmap. unfold sess_valid. cbn.
      apply sess_by_peer_in in Hm. apply elem_of_list_fmap in Hm as ([k v] & -> & Hin). rewrite Forall_forall in Hsv. by apply (Hsv _ Hin). }
    assert (Hnd : NoDup (map m_sid us)).
    { unfold us. rewrite map_map. cbn. unfold sess_by_peer, sess_filter. apply NoDup_map_filter. by apply flat_values_nodup. }
    split; [|split].
    + split; cbn; [|done|by split]. apply fold_aset_sess_ok; [done|by split].
    + repeat split; cbn; by repeat constructor.
    + split; [|split]; cbn [with_sess d_sess d_subs d_ret merge_event b_sess b_subs b_ret merge_subs_l merge_ret_l]; [|done|done].
      intros k. apply (sess_write d r us); [by split|done|done|done|].
      unfold us. rewrite Forall_forall. intros m' (m & -> & Hm)%elem_of_list_fmap. cbn. intros old Ho.
      rewrite (flat_values_key m_sid _ m Hsf (sess_by_peer_in _ _ _ Hm)) in Ho. injection Ho as <-.
      specialize (Hfresh m Hm). unfold sess_ts in *. cbn. rewrite !last_update_max in *. lia.
  - (* sub_create *)
    destruct Hval as [H1 H2]. unfold sub_create. cbn [fst snd]. set (u := Sub sid pat (d_peer d) qos clk 0).
    assert (Hu : sub_valid u) by done. split; [|split].
    + split; cbn; [done|by apply sub_set_ok|done].
    + repeat split; cbn; by repeat constructor.
    + split; [|split]; cbn [with_subs d_sess d_subs d_ret merge_event b_sess b_subs b_ret merge_sessions_l merge_ret_l]; [done| |done].
      intros k. destruct (merge_subs_abs [u] ltac:(by repeat constructor) _ Hwf') as [_ Ha]. rewrite Ha.
      destruct (sub_set_abs (d_subs d) u Hwf) as [_ Hb]. rewrite Hb. cbn. unfold amerge1. by rewrite E2.
  - (* sub_delete *)
    destruct Hval as [H1 H2]. unfold sub_delete. cbn [fst snd]. set (u := Sub sid pat (d_peer d) 0 0 clk).
    assert (Hu : sub_valid u) by done. split; [|split].
    + split; cbn; [done|by apply sub_set_ok|done].
    + repeat split; cbn; by repeat constructor.
    + split; [|split]; cbn [with_subs d_sess d_subs d_ret merge_event b_sess b_subs b_ret merge_sessions_l merge_ret_l]; [done| |done].
      intros k. destruct (merge_subs_abs [u] ltac:(by repeat constructor) _ Hwf') as [_ Ha]. rewrite Ha.
      destruct (sub_set_abs (d_subs d) u Hwf) as [_ Hb]. rewrite Hb. cbn. unfold amerge1. by rewrite E2.
  - (* sub_delete_peer *)
    unfold sub_delete_peer, sub_bulk_delete. cbn [fst snd].
    set (us := map _ (sub_by_peer p d)).
    assert (Hv : Forall sub_valid us).
    { unfold us. rewrite Forall_forall. intros u' (s & -> & Hs)%elem_of_list_fmap. unfold sub_valid. cbn.
      unfold sub_by_peer, sub_filter in Hs. apply elem_of_list_In, filter_In in Hs as [Hs _].
      unfold sub_entries in Hs. apply in_concat in Hs as (l & Hl & Hs). apply in_map_iff in Hl as ([k l'] & <- & Hkl).
      destruct Hsu as [_ Hall]. rewrite Forall_forall in Hall. destruct (Hall _ (proj2 (elem_of_list_In _ _) Hkl)) as [_ He].
      rewrite Forall_forall in He. by apply (He _ (proj2 (elem_of_list_In _ _) Hs)). }
    split; [|split].
    + split; cbn; [done|by apply fold_sub_set_ok|done].
    + repeat split; cbn; by repeat constructor.
    + split; [|split]; cbn [with_subs d_sess d_subs d_ret merge_event b_sess b_subs b_ret merge_sessions_l merge_ret_l]; [done| |done].
      intros k. destruct (merge_subs_abs us Hv _ Hwf') as [_ Ha]. rewrite Ha.
      destruct (fold_sub_set_abs us _ Hwf) as [_ Hb]. rewrite Hb. by apply amerge_ext.
  - (* sub_delete_session *)
    unfold sub_delete_session, sub_bulk_delete. cbn [fst snd].
    set (us := map _ (sub_filter _ d)).
    assert (Hv : Forall sub_valid us).
    { unfold us. rewrite Forall_forall. intros u' (s & -> & Hs)%elem_of_list_fmap. unfold sub_valid. cbn.
      unfold sub_filter in Hs. apply elem_of_list_In, filter_In in Hs as [Hs _].
      unfold sub_entries in Hs. apply in_concat in Hs as (l & Hl & Hs). apply in_map_iff in Hl as ([k l'] & <- & Hkl).
      destruct Hsu as [_ Hall]. rewrite Forall_forall in Hall. destruct (Hall _ (proj2 (elem_of_list_In _ _) Hkl)) as [_ He].
      rewrite Forall_forall in He. by apply (He _ (proj2 (elem_of_list_In _ _) Hs)). }
    split; [|split].
    + split; cbn; [done|by apply fold_sub_set_ok|done].
    + repeat split; cbn; by repeat constructor.
    + split; [|split]; cbn [with_subs d_sess d_subs d_ret merge_event b_sess b_subs b_ret merge_sessions_l merge_ret_l]; [done| |done].
      intros k. destruct (merge_subs_abs us Hv _ Hwf') as [_ Ha]. rewrite Ha.
      destruct (fold_sub_set_abs us _ Hwf) as [_ Hb]. rewrite Hb. by apply amerge_ext.
  - (* ret_set *)
    destruct Hval as [Ht Hclk]. cbn [ret_set fst snd].
    set (st := ret_stamp d (p_topic pb) clk). set (rm := RMsg pb st 0).
    assert (Hpos : 0 < st).
    { unfold st, ret_stamp. destruct (alookup (p_topic pb) (d_ret d)) as [old|]; [destruct (Z.leb_spec clk (ret_ts old))|]; lia. }
    assert (Heff : ret_eff rm = true).
    { unfold ret_eff, ret_added, is_added. cbn. by rewrite (proj2 (Z.ltb_lt 0 st)). }
    split; [|split].
    + split; cbn; [done|done|]. split; [apply (flat_ok_aset ret_key _ rm); exact Hrf|].
      apply (aset_values (λ v, ret_eff v = true ∧ ret_valid v)); [by split|done].
    + repeat split; cbn; by repeat constructor.
    + split; [|split]; cbn [with_ret d_sess d_subs d_ret merge_event b_sess b_subs b_ret merge_sessions_l merge_subs_l]; [done|done|].
      intros k. destruct (ret_set_is_merge d pb clk k Hclk Ht) as (e & He & Hk). cbn [ret_set fst snd] in He, Hk.
      injection He as <-. cbn [with_ret d_ret merge_event b_ret] in Hk. fold st in Hk. fold rm in Hk. rewrite Hk.
      rewrite !(merge_ret_abs [rm]) by (by repeat constructor). by apply amerge_ext.
  - (* ret_delete *)
    destruct Hval as [Ht Hclk]. cbn [ret_delete fst snd].
    set (st := ret_stamp d topic clk). set (rm := RMsg (Publish topic "" 0 false false) 0 st).
    assert (Hpos : 0 < st).
    { unfold st, ret_stamp. destruct (alookup topic (d_ret d)) as [old|]; [destruct (Z.leb_spec clk (ret_ts old))|]; lia. }
    assert (Heff : ret_eff rm = true).
    { unfold ret_eff, ret_added, is_added, is_removed. cbn. by rewrite (proj2 (Z.ltb_lt 0 st)). }
    split; [|split].
    + split; cbn; [done|done|]. split; [apply (flat_ok_aset ret_key _ rm); exact Hrf|].
      apply (aset_values (λ v, ret_eff v = true ∧ ret_valid v)); [by split|done].
    + repeat split; cbn; by repeat constructor.
    + split; [|split]; cbn [with_ret d_sess d_subs d_ret merge_event b_sess b_subs b_ret merge_sessions_l merge_subs_l]; [done|done|].
      intros k. destruct (ret_delete_is_merge d topic clk k Hclk Ht) as (e & He & Hk). cbn [ret_delete fst snd] in He, Hk.
      injection He as <-. cbn [with_ret d_ret merge_event b_ret] in Hk. fold st in Hk. fold rm in Hk. rewrite Hk.
      rewrite !(merge_ret_abs [rm]) by (by repeat constructor). by apply amerge_ext.
Qed.

(** a second node that receives the broadcasts queued by any sequence of changes made on the
    first ends up holding the same entry under every key *)
Fixpoint origin_run (d : dstate) (os : list dop) : dstate * list bevent :=
  match os with
  | [] => (d, [])
  | o :: os' => let r := dapply d o in let r' := origin_run r.1 os' in
                (r'.1, match r.2 with Some e => e :: r'.2 | None => r'.2 end)
  end.
Fixpoint ops_ok (d : dstate) (os : list dop) : Prop :=
  match os with
  | [] => True
  | o :: os' => op_valid o ∧ clock_fresh d o ∧ ops_ok (dapply d o).1 os'
  end.
Lemma merge_event_dok r e : dok r → ev_valid e → dok (merge_event r e).
Proof.
  intros Hr Hev.
  destruct Hr as [[Hsf Hsv] Hsu [Hrf Hre]]. destruct Hev as (V1 & V2 & V3). split; cbn.
      - clear -Hsf Hsv V1. revert Hsf Hsv. generalize (d_sess r). induction V1 as [|m ms Hm _ IHm]; intros l Hf Hv; cbn [merge_sessions_l]; [by split|].
        rewrite (proj2 (String.eqb_neq _ _) Hm). apply IHm.
        + unfold merge_session. destruct (alookup (m_sid m) l) as [old|]; [destruct (sess_ts old <? sess_ts m)|]; try done; by apply flat_ok_aset.
        + unfold merge_session. destruct (alookup (m_sid m) l) as [old|]; [destruct (sess_ts old <? sess_ts m)|]; try done; by apply (aset_values sess_valid).
      - clear -Hsu V2. revert Hsu. generalize (d_subs r). induction V2 as [|u us Hu _ IHu]; intros t Ht; cbn [merge_subs_l]; [done|].
        destruct Hu as [H1 H2]. rewrite (proj2 (String.eqb_neq _ _) H1), (proj2 (String.eqb_neq _ _) H2). cbn [orb].
        apply IHu. by apply sub_set_ok.
      - clear -Hrf Hre V3. revert Hrf Hre. generalize (d_ret r). induction V3 as [|x xs Hx _ IHx]; intros t Hf He; cbn [merge_ret_l]; [by split|].
        pose proof Hx as Hx'. unfold ret_valid, ret_key in Hx'. rewrite (proj2 (String.eqb_neq _ _) Hx').
        assert (Hst : flat_ok ret_key (if ret_added x || is_removed (r_la x) (r_ld x) then aset (p_topic (r_pub x)) x t else t) ∧
                      Forall (λ kv, ret_eff kv.2 = true ∧ ret_valid kv.2) (if ret_added x || is_removed (r_la x) (r_ld x) then aset (p_topic (r_pub x)) x t else t)).
        { destruct (ret_added x || is_removed (r_la x) (r_ld x)) eqn:E; [|by split].
          split; [by apply (flat_ok_aset ret_key _ x)|]. by apply (aset_values (λ v, ret_eff v = true ∧ ret_valid v)). }
        destruct Hst as [S1 S2]. unfold merge_ret1.
        destruct (alookup (p_topic (r_pub x)) t) as [old|]; [destruct (ret_ts old <? ret_ts x)|]; by apply IHx.
Qed.
Lemma merge_events_dok es : ∀ r, dok r → Forall ev_valid es → dok (fold_left merge_event es r).
Proof.
  induction es as [|e es IH]; intros r Hr Hv; cbn [fold_left]; [done|]. apply Forall_cons in Hv as [He Hv].
  apply IH; [by apply merge_event_dok|done].
Qed.
Theorem receiver_equals_origin os : ∀ d r, dok d → dok r → same_abs d r → ops_ok d os →
  let res := origin_run d os in
  dok res.1 ∧ Forall ev_valid res.2 ∧ same_abs res.1 (fold_left merge_event res.2 r).
Proof.
  induction os as [|o os IH]; intros d r Hd Hr Hs Hok; cbn [origin_run fst snd fold_left]; [split; [done|]; split; [constructor|done]|].
  destruct Hok as (Hv & Hf & Hok).
  destruct (broadcast_complete d r o Hd Hr Hs Hv Hf) as [Hd' He].
  destruct (dapply d o) as [d' [e|]] eqn:Hap; cbn [fst snd] in *.
  - destruct He as [Hev Hs']. 
    assert (Hr' : dok (merge_event r e)) by (by apply merge_event_dok).
    destruct (IH d' (merge_event r e) Hd' Hr' Hs' Hok) as (I1 & I2 & I3). split; [done|]. split; [by constructor|done].
  - subst d'. by apply IH.
Qed.

(** ** C10: full-state exchange *)
Lemma find_app {A} (P : A → bool) l1 l2 : List.find P (l1 ++ l2) = match List.find P l1 with Some x => Some x | None => List.find P l2 end.
Proof. induction l1 as [|x l1 IH]; cbn; [done|]. by destruct (P x). Qed.

Lemma subs_dump_find t p sid : subs_ok t →
  List.find (λ u, bool_decide (sub_key u = (p, sid))) (concat (map snd t)) = abs_subs t (p, sid).
Proof.
  intros [Hn Hall]. unfold abs_subs. cbn [fst snd]. induction t as [|[k0 l0] t IH]; [done|].
  cbn [map fst] in Hn. apply NoDup_cons in Hn as [Hnot Hn]. apply Forall_cons in Hall as [[Hl0 He0] Hall].
  cbn [map snd concat alookup fst] in *. rewrite find_app.
  assert (Hfind0 : List.find (λ u, bool_decide (sub_key u = (p, sid))) l0 = if decide (k0 = p) then find_sid sid l0 else None).
  { clear -He0. induction l0 as [|s l0 IHl]; [by destruct (decide _)|]. apply Forall_cons in He0 as [[Hp _] He0].
    cbn [List.find find_sid]. fold (find_sid sid l0). rewrite IHl by done. unfold sub_key. rewrite Hp.
    destruct (decide (k0 = p)) as [->|Hne].
    - rewrite eqb_decide. destruct (decide (s_sid s = sid)) as [->|Hs]; [by rewrite !bool_decide_true|].
      rewrite !bool_decide_false; [done|done|congruence].
    - rewrite bool_decide_false; [done|congruence]. }
  rewrite Hfind0. destruct (decide (k0 = p)) as [->|Hne].
  - rewrite String.eqb_refl. cbn [odflt]. destruct (find_sid sid l0) eqn:Hf; [done|].
    rewrite IH by done. rewrite alookup_None by done. done.
  - rewrite eqb_ne by congruence. by apply IH.
Qed.
Lemma subs_dump_nodup t : subs_ok t → NoDup (map sub_key (concat (map snd t))).
Proof.
  intros [Hn Hall]. induction t as [|[k0 l0] t IH]; [apply NoDup_nil_2|].
  cbn [map fst] in Hn. apply NoDup_cons in Hn as [Hnot Hn]. apply Forall_cons in Hall as [[Hl0 He0] Hall].
  cbn [map snd concat fst] in *. rewrite map_app. apply NoDup_app. split; [|split; [|by apply IH]].
  - assert (map sub_key l0 = map (pair k0) (sids l0)) as ->.
    { clear -He0. unfold sids. induction l0 as [|s l0 IHl]; [done|]. apply Forall_cons in He0 as [[Hp _] He0].
      cbn. unfold sub_key at 1. rewrite Hp. by rewrite IHl. }
    by apply (NoDup_fmap_2 (pair k0)).
  - intros [p sid] (s & Hs & Hin)%elem_of_list_fmap (s' & Hs' & Hin')%elem_of_list_fmap.
    rewrite Forall_forall in He0. destruct (He0 _ Hin) as [Hp _]. unfold sub_key in Hs, Hs'. injection Hs as Hs1 _. injection Hs' as Hs2 _.
    apply elem_of_list_In, in_concat in Hin' as (l & Hl & Hin'). apply in_map_iff in Hl as ([k l'] & <- & Hkl). cbn in *.
    rewrite Forall_forall in Hall. destruct (Hall _ (proj2 (elem_of_list_In _ _) Hkl)) as [_ He]. rewrite Forall_forall in He.
    destruct (He _ (proj2 (elem_of_list_In _ _) Hin')) as [Hp' _]. cbn in Hp'.
    apply Hnot. assert (k0 = k) as -> by congruence. apply elem_of_list_fmap. exists (k, l'). split; [done|]. by apply elem_of_list_In.
Qed.
Lemma dump_valid A : dok A → ev_valid (dump A).
Proof.
  intros [[_ Hsv] [_ Hsu] [_ Hre]]. unfold dump, ev_valid. cbn. split; [|split].
  - clear -Hsv. induction Hsv as [|[k v] l Hv _ IH]; cbn; constructor; auto.
  - unfold sub_entries. clear -Hsu. induction Hsu as [|[k l0] t [_ He] _ IH]; cbn; [constructor|]. apply Forall_app. split; [|done].
    eapply Forall_impl; [exact He|]. cbn. intros s [_ Hv]. exact Hv.
  - clear -Hre. induction Hre as [|[k v] l [_ Hv] _ IH]; cbn; constructor; auto.
Qed.

Definition joined {V} (ts : V → Z) (a b : option V) : option V :=
  match a with Some x => ajoin ts b x | None => b end.     (* what B holds after merging A's entry *)

Theorem snapshot_merge A B : dok A → dok B →
  let B' := merge_event B (dump A) in
  (∀ k, abs_sess (d_sess B') k = joined sess_ts (abs_sess (d_sess A) k) (abs_sess (d_sess B) k)) ∧
  (∀ k, abs_subs (d_subs B') k = joined sub_ts (abs_subs (d_subs A) k) (abs_subs (d_subs B) k)) ∧
  (∀ k, abs_ret (d_ret B') k = joined ret_ts (abs_ret (d_ret A) k) (abs_ret (d_ret B) k)).
Proof.
  intros HA HB B'. pose proof (dump_valid A HA) as Hv.
  destruct (merge_event_abs B (dump A) (subs_ok_wf _ (ok_subs _ HB)) Hv) as (_ & M1 & M2 & M3).
  destruct HA as [[Hsf Hsv] Hsu [Hrf Hre]]. split; [|split]; intros k; unfold joined.
  - rewrite M1. cbn [dump b_sess]. rewrite (amerge_unique m_sid sess_ts) by (by apply flat_values_nodup).
    rewrite (flat_find m_sid _ k Hsf). done.
  - rewrite M2. cbn [dump b_subs]. unfold sub_entries. rewrite (amerge_unique sub_key sub_ts) by (by apply subs_dump_nodup).
    destruct k as [p sid]. rewrite subs_dump_find by done. done.
  - rewrite M3. cbn [dump b_ret].
    assert (List.filter ret_eff (map snd (d_ret A)) = map snd (d_ret A)) as ->.
    { clear -Hre. induction Hre as [|[k0 v] l [He _] _ IH]; cbn; [done|]. cbn in He. by rewrite He, IH. }
    rewrite (amerge_unique ret_key ret_ts) by (by apply flat_values_nodup). rewrite (flat_find ret_key _ k Hrf). done.
Qed.

Lemma joined_newer {V} (ts : V → Z) (a : V) (ob : option V) :
  (ob = None ∨ ∃ b, ob = Some b ∧ ts b < ts a) → joined ts (Some a) ob = Some a.
Proof. intros [->|(b & -> & Hlt)]; cbn; [done|]. by rewrite (proj2 (Z.ltb_lt _ _) Hlt). Qed.
Lemma joined_comm {V} (ts : V → Z) (oa ob : option V) :
  (∀ a b, oa = Some a → ob = Some b → ts a = ts b → a = b) → joined ts oa ob = joined ts ob oa.
Proof.
  intros Htie. destruct oa as [a|], ob as [b|]; cbn; try done.
  destruct (Z.ltb_spec (ts b) (ts a)), (Z.ltb_spec (ts a) (ts b)); try done; try lia.
  f_equal. symmetry. apply Htie; [done|done|lia].
Qed.

Definition cross_tie_free (A B : dstate) : Prop :=
  (∀ k a b, abs_sess (d_sess A) k = Some a → abs_sess (d_sess B) k = Some b → sess_ts a = sess_ts b → a = b) ∧
  (∀ k a b, abs_subs (d_subs A) k = Some a → abs_subs (d_subs B) k = Some b → sub_ts a = sub_ts b → a = b) ∧
  (∀ k a b, abs_ret (d_ret A) k = Some a → abs_ret (d_ret B) k = Some b → ret_ts a = ret_ts b → a = b).

Theorem exchange_converges A B : dok A → dok B → cross_tie_free A B →
  same_abs (merge_event A (dump B)) (merge_event B (dump A)).
Proof.
  intros HA HB (T1 & T2 & T3).
  destruct (snapshot_merge A B HA HB) as (P1 & P2 & P3). destruct (snapshot_merge B A HB HA) as (Q1 & Q2 & Q3).
  split; [|split]; intros k.
  - rewrite P1, Q1. symmetry. apply joined_comm. apply T1.
  - rewrite P2, Q2. symmetry. apply joined_comm. apply T2.
  - rewrite P3, Q3. symmetry. apply joined_comm. apply T3.
Qed.
Theorem fresh_equals_source A p : dok A → same_abs (merge_event (dnew p) (dump A)) A.
Proof.
  intros HA. destruct (snapshot_merge A (dnew p) HA (dok_new p)) as (P1 & P2 & P3).
  split; [|split]; intros k.
  - rewrite P1. unfold joined. by destruct (abs_sess (d_sess A) k).
  - rewrite P2. unfold joined. by destruct (abs_subs (d_subs A) k).
  - rewrite P3. unfold joined. by destruct (abs_ret (d_ret A) k).
Qed.
