(** Stable insertion into a list sorted by an integer measure: the shape shared by
    bucket.put (append + sort.SliceStable) and by the specification's order inside a sweep. *)
From stdpp Require Import list sorting.
From Coq Require Import ZArith Lia.
Open Scope Z_scope.

Section Ins.
  Context {A : Type} (m : A → Z).
  Fixpoint ins (e : A) (l : list A) : list A :=
    match l with
    | [] => [e]
    | x :: l' => if m x <=? m e then x :: ins e l' else e :: x :: l'
    end.
  Definition isort (l : list A) : list A := fold_left (λ acc e, ins e acc) l [].
  Definition srt (l : list A) : Prop := StronglySorted (λ a b, m a ≤ m b) l.

  Lemma isort_snoc l e : isort (l ++ [e]) = ins e (isort l).
  Proof. unfold isort. by rewrite fold_left_app. Qed.

  Lemma ins_perm e l : ins e l ≡ₚ e :: l.
  Proof.
    induction l as [|x l IH]; cbn [ins]; [done|]. destruct (m x <=? m e); [|done].
    rewrite IH. apply Permutation_swap.
  Qed.
  Lemma isort_perm l : isort l ≡ₚ l.
  Proof.
    induction l as [|x l IH] using rev_ind; [done|]. rewrite isort_snoc, ins_perm, IH.
    by rewrite Permutation_app_comm.
  Qed.

  Lemma ins_srt e l : srt l → srt (ins e l).
  Proof.
    induction l as [|x l IH]; cbn [ins]; intros Hs.
    { repeat constructor. }
    apply StronglySorted_inv in Hs as [Hs Hall].
    destruct (Z.leb_spec (m x) (m e)).
    - constructor; [by apply IH|]. rewrite ins_perm. constructor; [done|done].
    - constructor; [by constructor|]. constructor; [lia|]. eapply Forall_impl; [exact Hall|]. cbn. intros; lia.
  Qed.
  Lemma isort_srt l : srt (isort l).
  Proof.
    induction l as [|x l IH] using rev_ind; [constructor|]. rewrite isort_snoc. by apply ins_srt.
  Qed.

  (** everything not above [e] is skipped *)
  Lemma ins_app_le e l1 l2 : Forall (λ x, m x ≤ m e) l1 → ins e (l1 ++ l2) = l1 ++ ins e l2.
  Proof.
    induction l1 as [|x l1 IH]; cbn [ins app]; [done|]. intros [Hx Hall]%Forall_cons.
    rewrite (proj2 (Z.leb_le _ _) Hx). by rewrite IH.
  Qed.
  (** [e] lands before a tail that is entirely above it *)
  Lemma ins_gt e l : Forall (λ x, m e < m x) l → ins e l = e :: l.
  Proof.
    destruct l as [|x l]; cbn [ins]; [done|]. intros [Hx _]%Forall_cons.
    by rewrite (proj2 (Z.leb_gt _ _) Hx).
  Qed.
  Lemma ins_app_gt e l1 l2 : Forall (λ x, m e < m x) l2 → ins e (l1 ++ l2) = ins e l1 ++ l2.
  Proof.
    intros Hgt. induction l1 as [|x l1 IH]; cbn [ins app]; [by apply ins_gt|].
    destruct (m x <=? m e); [by rewrite IH|done].
  Qed.

  Lemma Forall_filter_list (Q : A → Prop) (P : A → bool) l : Forall Q l → Forall Q (List.filter P l).
  Proof.
    induction 1 as [|y l' Hy Hin IHl]; cbn [List.filter]; [constructor|].
    destruct (P y); [by constructor|done].
  Qed.
  (** a filter commutes with insertion into a sorted list *)
  Lemma filter_ins (P : A → bool) e l : srt l →
    List.filter P (ins e l) = if P e then ins e (List.filter P l) else List.filter P l.
  Proof.
    induction l as [|x l IH]; intros Hs.
    { cbn. by destruct (P e). }
    apply StronglySorted_inv in Hs as [Hs Hall].
    cbn [ins]. destruct (Z.leb_spec (m x) (m e)) as [Hle|Hgt].
    - cbn [List.filter]. rewrite IH by done.
      destruct (P x), (P e); cbn [ins]; rewrite ?(proj2 (Z.leb_le _ _) Hle); done.
    - assert (Hin : Forall (λ y, m e < m y) (x :: l)).
      { constructor; [done|]. eapply Forall_impl; [exact Hall|]. cbn. intros; lia. }
      change (List.filter P (e :: x :: l)) with (if P e then e :: List.filter P (x :: l) else List.filter P (x :: l)).
      destruct (P e); [|done]. symmetry. apply ins_gt. by apply Forall_filter_list.
  Qed.
  Lemma filter_isort (P : A → bool) l : List.filter P (isort l) = isort (List.filter P l).
  Proof.
    induction l as [|x l IH] using rev_ind; [done|].
    rewrite isort_snoc, filter_ins by apply isort_srt. rewrite IH.
    rewrite List.filter_app. cbn [List.filter]. destruct (P x); [by rewrite isort_snoc|by rewrite app_nil_r].
  Qed.
End Ins.

(** insertion commutes with a measure-preserving map *)
Lemma map_ins {A B} (ma : A → Z) (mb : B → Z) (f : A → B) e l :
  (∀ x, mb (f x) = ma x) → map f (ins ma e l) = ins mb (f e) (map f l).
Proof.
  intros Hm. induction l as [|x l IH]; cbn [ins map]; [done|].
  rewrite !Hm. destruct (ma x <=? ma e); cbn [map]; [by rewrite IH|done].
Qed.
Lemma map_isort {A B} (ma : A → Z) (mb : B → Z) (f : A → B) l :
  (∀ x, mb (f x) = ma x) → map f (isort ma l) = isort mb (map f l).
Proof.
  intros Hm. induction l as [|x l IH] using rev_ind; [done|].
  rewrite map_app. cbn [map]. rewrite !isort_snoc, <- IH. by apply map_ins.
Qed.
