(** C15 — Message-log consumption survives crashes without skipping messages.
    Statements about the consumer model (Model/Consumer.v): [crun cinit es] is the state after ANY
    sequence of appends, process starts, micro-steps (callback / store offset / maybe truncate)
    and crashes at any point between two micro-steps, repeated over any number of rounds. *)
From Wasp Require Import Model.Base Model.Consumer Proofs.ConsumerFacts.
From stdpp Require Import list.
Open Scope N_scope.

Theorem consumer_invariant : ∀ es, cinv (crun cinit es).
Proof. intros es. apply cinv_run, cinv_init. Qed.
Print Assumptions consumer_invariant.

(** at least once, nothing skipped: every offset below the stored one has been handed to the
    callback, and so has the stored one (unless nothing was ever handled) - a restart resumes AT
    the stored offset, so nothing between runs is skipped either *)
Theorem at_least_once : ∀ es, let s := crun cinit es in
  (∀ o, o < c_stored s → o ∈ c_ever s) ∧ (c_stored s ∈ c_ever s ∨ c_stored s = 0).
Proof. intros es s. destruct (consumer_invariant es). done. Qed.
Print Assumptions at_least_once.

(** bounded replay: nothing beyond stored + 1 has been handed over, so a restart (which resumes
    at the stored offset) hands over again at most the entry whose handling was recorded last and
    the one that was in progress.  (The stored value is "last completed" and offset 0 must be
    deliverable from the all-zero initial file, so the entry at the stored offset is always
    replayed: the property's "at most the message that was being processed" is read as this
    bound.) *)
Theorem bounded_replay : ∀ es o, o ∈ c_ever (crun cinit es) → o ≤ c_stored (crun cinit es) + 1.
Proof. intros es. by destruct (consumer_invariant es). Qed.
Print Assumptions bounded_replay.

(** in log order within each run *)
Theorem in_order_per_run : ∀ es, consecutive_desc (c_run (crun cinit es)).
Proof. intros es. assert (H : rinv cinit) by done. by destruct (rinv_run es cinit H). Qed.
Print Assumptions in_order_per_run.

(** truncation never removes an entry that has not been handed over - and stays at least 300
    entries below the stored offset, which is what lets the writer, at most 26 entries behind the
    consumer, read by offset (C02) *)
Theorem truncate_safe : ∀ es, let s := crun cinit es in
  c_base s ≤ c_stored s ∧ (c_base s = 0 ∨ c_base s + 300 ≤ c_stored s).
Proof. intros es s. by destruct (consumer_invariant es). Qed.
Print Assumptions truncate_safe.

(** non-vacuity: kill inside the callback of 2003 after a truncation at 2000, restart *)
Example c15_history :
  let s1 := crun cinit (CAppend 2100 :: run_events 0 2003 true) in
  let s2 := crun s1 (run_events (c_stored s1) 2099 false) in
  (c_stored s1, c_base s1, hd 0 (c_run s1)) = (2002, 1500, 2003) ∧ (c_stored s2, List.last (c_run s2) 0, length (c_run s2)) = (2099, 2002, 98%nat).
Proof. vm_compute. done. Qed.
