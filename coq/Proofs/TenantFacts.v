(** C17: client identifiers are scoped by mount point — resolution, and the record a CONNECT
    removes, never involve a session of another mount point. *)
From Wasp Require Import Model.Base Spec.MatchSpec Model.DState Model.IdPool Model.Mount Model.Node
  Proofs.BaseFacts Proofs.Lww Proofs.DStateFacts Proofs.NodeFacts Proofs.TakeoverFacts.
From stdpp Require Import list strings.
From Coq Require Import ZArith Lia.
Open Scope Z_scope.

Theorem resolution_scoped d mp cid m : m ∈ sess_by_client mp cid d → m_mp m = mp ∧ m_cid m = cid ∧ sess_added m = true.
Proof.
  unfold sess_by_client, sess_filter. intros H. apply elem_of_list_In, filter_In in H as [_ H].
  apply andb_true_iff in H as [Ha H]. apply andb_true_iff in H as [H1 H2].
  apply String.eqb_eq in H1. apply String.eqb_eq in H2. done.
Qed.

(* a CONNECT in mount point [mp] leaves every record of another mount point as it was *)
Theorem connect_spares_other_tenants d id cid mp lwt clk k m :
  sess_ok (d_sess d) → alookup k (d_sess d) = Some m → m_mp m ≠ mp → k ≠ id →
  alookup k (d_sess (takeover d id cid mp lwt clk)) = Some m.
Proof.
  intros Hok Hl Hmp Hk. unfold takeover.
  set (d1 := match hd_error (sess_by_client mp cid d) with Some x => (sess_delete d (m_sid x) clk).1 | None => d end).
  assert (H1 : alookup k (d_sess d1) = Some m).
  { unfold d1. destruct (hd_error (sess_by_client mp cid d)) as [x|] eqn:Hhd; [|done].
    assert (Hx : x ∈ sess_by_client mp cid d). { destruct (sess_by_client mp cid d); [done|]. injection Hhd as ->. apply elem_of_cons. by left. }
    destruct (resolution_scoped _ _ _ _ Hx) as (Hxmp & _ & _).
    unfold sess_by_client in Hx. apply sess_filter_spec in Hx as (Hlx & _); [|done].
    unfold sess_delete. rewrite Hlx. destruct (is_removed (m_la x) (m_ld x)); [done|]. cbn [fst d_sess with_sess].
    rewrite alookup_aset_ne; [done|]. intros ->. rewrite Hlx in Hl. injection Hl as <-. by rewrite Hxmp in Hmp. }
  unfold sess_create. destruct (alookup id (d_sess d1)) as [old|]; [destruct (sess_added old); [done|]|];
    (destruct (utf8_ok id && utf8_ok cid && utf8_ok mp); cbn [fst d_sess with_sess]; [by rewrite alookup_aset_ne|done]).
Qed.
