(** Last-writer-wins maps, abstractly: a replica is a function from keys to the stored update;
    merging an update keeps, per key, the update with the greatest timestamp (strictly greater
    replaces).  Order, duplication and batching of a set of updates are irrelevant as soon as
    updates of one key with equal timestamps are equal ([tie_free]). *)
From stdpp Require Import list.
From Coq Require Import ZArith Lia.
Open Scope Z_scope.

Section LWW.
  Context {K V : Type} `{EqDecision K} (key : V → K) (ts : V → Z).

  Definition amap := K → option V.
  Definition aempty : amap := λ _, None.
  Definition ajoin (o : option V) (u : V) : option V :=
    match o with None => Some u | Some old => if ts old <? ts u then Some u else Some old end.
  Definition amerge1 (m : amap) (u : V) : amap := λ k, if decide (k = key u) then ajoin (m k) u else m k.
  Definition amerge (m : amap) (us : list V) : amap := fold_left amerge1 us m.

  Definition tie_free (us : list V) : Prop :=
    ∀ u1 u2, u1 ∈ us → u2 ∈ us → key u1 = key u2 → ts u1 = ts u2 → u1 = u2.
  Definition winner (us : list V) (k : K) (v : V) : Prop :=
    v ∈ us ∧ key v = k ∧ ∀ v', v' ∈ us → key v' = k → ts v' ≤ ts v.

  Lemma amerge_snoc m us u k : amerge m (us ++ [u]) k = amerge1 (amerge m us) u k.
  Proof. unfold amerge. by rewrite fold_left_app. Qed.

  (** pointwise extensionality of the merge *)
  Lemma amerge_ext m1 m2 us : (∀ k, m1 k = m2 k) → ∀ k, amerge m1 us k = amerge m2 us k.
  Proof.
    revert m1 m2. induction us as [|u us IH]; intros m1 m2 H k; cbn; [apply H|].
    apply IH. intros k'. unfold amerge1. destruct (decide (k' = key u)); by rewrite ?H.
  Qed.

  Lemma amerge_spec us : tie_free us →
    ∀ k, match amerge aempty us k with
         | Some v => winner us k v
         | None => ∀ v, v ∈ us → key v ≠ k
         end.
  Proof.
    induction us as [|u us IH] using rev_ind; intros Htf k.
    { cbn. intros v Hv. by apply elem_of_nil in Hv. }
    assert (Htf' : tie_free us).
    { intros u1 u2 H1 H2. apply Htf; apply elem_of_app; by left. }
    specialize (IH Htf' k). rewrite amerge_snoc. unfold amerge1.
    destruct (decide (k = key u)) as [->|Hne].
    - destruct (amerge aempty us (key u)) as [old|] eqn:Hold; cbn [ajoin].
      + destruct IH as (Hin & Hk & Hmax). destruct (Z.ltb_spec (ts old) (ts u)) as [Hlt|Hge].
        * split; [apply elem_of_app; right; by apply elem_of_list_singleton|]. split; [done|].
          intros v' [Hv'|Hv']%elem_of_app Hk'; [specialize (Hmax v' Hv' Hk'); lia|].
          apply elem_of_list_singleton in Hv'. subst. lia.
        * split; [apply elem_of_app; by left|]. split; [done|].
          intros v' [Hv'|Hv']%elem_of_app Hk'; [by apply Hmax|].
          apply elem_of_list_singleton in Hv'. subst. lia.
      + split; [apply elem_of_app; right; by apply elem_of_list_singleton|]. split; [done|].
        intros v' [Hv'|Hv']%elem_of_app Hk'; [by apply IH in Hv'|].
        apply elem_of_list_singleton in Hv'. subst. lia.
    - destruct (amerge aempty us k) as [v|].
      + destruct IH as (Hin & Hk & Hmax). split; [apply elem_of_app; by left|]. split; [done|].
        intros v' [Hv'|Hv']%elem_of_app Hk'; [by apply Hmax|].
        apply elem_of_list_singleton in Hv'. subst. done.
      + intros v [Hv|Hv]%elem_of_app; [by apply IH|]. apply elem_of_list_singleton in Hv. subst. congruence.
  Qed.

  Lemma winner_unique us k v1 v2 : tie_free us → winner us k v1 → winner us k v2 → v1 = v2.
  Proof.
    intros Htf (H1 & K1 & M1) (H2 & K2 & M2). apply Htf; [done|done|congruence|].
    specialize (M1 _ H2 K2). specialize (M2 _ H1 K1). lia.
  Qed.

  (** order / duplication / batching independence *)
  Theorem amerge_order_irrelevant us1 us2 :
    (∀ u, u ∈ us1 ↔ u ∈ us2) → tie_free us1 → ∀ k, amerge aempty us1 k = amerge aempty us2 k.
  Proof.
    intros Heq Htf1 k.
    assert (Htf2 : tie_free us2).
    { intros u1 u2 H1 H2. apply Htf1; by apply Heq. }
    pose proof (amerge_spec us1 Htf1 k) as S1. pose proof (amerge_spec us2 Htf2 k) as S2.
    destruct (amerge aempty us1 k) as [v1|] eqn:E1, (amerge aempty us2 k) as [v2|] eqn:E2; auto.
    - f_equal. apply (winner_unique us1 k); auto.
      destruct S2 as (Hin & Hk & Hmax). split; [by apply Heq|]. split; [done|]. intros v' Hv'. apply Hmax. by apply Heq.
    - destruct S1 as (Hin & Hk & _). apply Heq in Hin. by apply S2 in Hin.
    - destruct S2 as (Hin & Hk & _). apply Heq in Hin. by apply S1 in Hin.
  Qed.

  (** an update that is not newer changes nothing; in particular it cannot resurrect *)
  Theorem amerge1_no_regression m u old : m (key u) = Some old → ts u ≤ ts old → ∀ k, amerge1 m u k = m k.
  Proof.
    intros Hold Hle k. unfold amerge1. destruct (decide (k = key u)) as [->|]; [|done].
    rewrite Hold. cbn. by rewrite (proj2 (Z.ltb_ge _ _) Hle).
  Qed.
  Theorem amerge1_other m u k : k ≠ key u → amerge1 m u k = m k.
  Proof. intros. unfold amerge1. by rewrite decide_False. Qed.

  (** merging a full state (one entry per key) is the pointwise join *)
  Lemma amerge_unique m us : NoDup (map key us) →
    ∀ k, amerge m us k = match List.find (λ u, bool_decide (key u = k)) us with
                         | Some a => ajoin (m k) a
                         | None => m k
                         end.
  Proof.
    revert m. induction us as [|u us IH]; intros m Hnd k; cbn [amerge fold_left List.find map] in *; [done|].
    apply NoDup_cons in Hnd as [Hn Hnd]. fold (amerge (amerge1 m u) us). rewrite IH by done.
    case_bool_decide as Hk.
    - subst k. assert (List.find (λ u0, bool_decide (key u0 = key u)) us = None) as ->.
      { clear -Hn. induction us as [|x us IHus]; cbn [List.find]; [done|]. cbn [map] in Hn.
        apply not_elem_of_cons in Hn as [Hne Hn]. rewrite bool_decide_false by congruence. by apply IHus. }
      unfold amerge1. by rewrite decide_True.
    - unfold amerge1 at 1 2. rewrite decide_False by congruence. done.
  Qed.
  Lemma ajoin_ts_max o u v : ajoin o u = Some v → ts u ≤ ts v ∧ (∀ b, o = Some b → ts b ≤ ts v) ∧ (v = u ∨ o = Some v).
  Proof.
    destruct o as [b|]; cbn.
    - destruct (Z.ltb_spec (ts b) (ts u)); intros [= <-]; (split; [lia|]); (split; [intros ? [= <-]; lia|]); auto.
    - intros [= <-]. split; [lia|]. split; [done|auto].
  Qed.
End LWW.
