(** C04 — Every in-flight entry is resolved exactly once and independently of the others. *)
From Wasp Require Import Model.Base Spec.AckSpec Model.AckQueue Proofs.AckSpecFacts.
From stdpp Require Import list.
Open Scope Z_scope.

(** "deadlines are honoured to the second": an entry is due at the first sweep strictly after
    its deadline rounded to the nearest second, which is within half a second of the deadline. *)
Theorem expiry_window : ∀ d, round_s d - sec / 2 ≤ d ∧ d < round_s d + sec / 2.
Proof. exact round_window. Qed.
Print Assumptions expiry_window.
