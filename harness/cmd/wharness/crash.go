package main

// Family "crash" (C15): the real messages.Log on a real directory, consumed by child processes
// (this binary re-executed as "wharness crashchild ...") that are killed with SIGKILL inside
// the callback of a chosen offset, or stopped after reaching the end of the log. The parent
// appends between runs and reports, per run: the offsets the callback was handed (one write(2)
// per call), the 8-byte state file, and the lowest 500-entry segment that is still readable.

import (
	"sync/atomic"
	"context"
	"encoding/binary"
	"encoding/json"
	"fmt"
	"math/rand"
	"os"
	"os/exec"
	"path/filepath"
	"strconv"
	"strings"
	"syscall"
	"time"

	"github.com/vx-labs/mqtt-protocol/packet"
	"github.com/vx-labs/wasp/v4/wasp/messages"
)

type crashRun struct {
	Append int  `json:"append"`
	Upto   int  `json:"upto"`
	Kill   bool `json:"kill"`
}
type crashInput struct {
	Runs []crashRun `json:"runs"`
}
type crashFamily struct{}

func init() { register("crash", crashFamily{}) }

const crashConsumer = "publish_distributor"

// child: wharness crashchild <dir> <outfile> <upto> <kill 0|1>
func crashChild(args []string) {
	dir, outf := args[0], args[1]
	upto, _ := strconv.ParseUint(args[2], 10, 64)
	kill := args[3] == "1"
	store, err := messages.New(dir)
	if err != nil {
		fmt.Fprintln(os.Stderr, "open:", err)
		os.Exit(3)
	}
	f, err := os.OpenFile(outf, os.O_WRONLY|os.O_CREATE|os.O_APPEND, 0600)
	if err != nil {
		os.Exit(3)
	}
	ctx, cancel := context.WithCancel(context.Background())
	var stopping int32
	last := make(chan uint64, 4096)
	go func() {
		// clean stop at the end of the log: the context is cancelled while the callback of <upto> runs;
		// Consume returns once the batch function has returned, i.e. after the offset has been stored
		// and the truncation it may trigger has finished (a fixed delay instead lets the process exit in
		// the middle of a truncation on a loaded machine: fewer segments removed than the model says)
		for o := range last {
			if o == upto && !kill {
				atomic.StoreInt32(&stopping, 1)
				cancel()
				time.Sleep(10 * time.Second) // Consume did not return: give up waiting
				os.Exit(0)
			}
		}
	}()
	go func() {
		time.Sleep(20 * time.Second)
		os.Exit(4) // never reached <upto>
	}()
	err = store.Consume(ctx, crashConsumer, func(offset uint64, p *packet.Publish) error {
		f.Write([]byte(fmt.Sprintf("%d %s\n", offset, p.Payload)))
		if offset == upto && kill {
			syscall.Kill(os.Getpid(), syscall.SIGKILL)
			select {}
		}
		last <- offset
		return nil
	})
	if atomic.LoadInt32(&stopping) == 1 {
		os.Exit(0)
	}
	fmt.Fprintln(os.Stderr, "consume returned:", err)
	os.Exit(5)
}

func (crashFamily) Gen(n int, seed int64, mode, tier string) []interface{} {
	rng := rand.New(rand.NewSource(seed))
	var out []interface{}
	for i := 0; i < n; i++ {
		var in crashInput
		total, stored := 0, 0
		rounds := 2 + rng.Intn(3)
		for r := 0; r < rounds; r++ {
			var add int
			switch {
			case mode == "edges": // C02: stop right after a truncation point
				add = []int{1995, 1000, 1000, 1000, 1000}[r%5] + rng.Intn(12)
			case i%3 == 0: // small logs: batch edges (10)
				add = 1 + rng.Intn(35)
			case i%3 == 1: // around the segment roll (500)
				add = []int{470, 30, 20, 15, 40}[r%5] + rng.Intn(25)
			default: // around the truncation points (2000, 3000)
				add = []int{1985, 30, 990, 25, 20}[r%5] + rng.Intn(25)
			}
			total += add
			run := crashRun{Append: add}
			if mode == "edges" {
				// a clean stop is only deterministic at the end of the log: kill otherwise
				run.Upto, run.Kill = (total/1000)*1000+rng.Intn(4), true
				if run.Upto >= total-1 {
					run.Upto, run.Kill = total-1, false
				}
			} else if r == rounds-1 || rng.Intn(3) == 0 {
				run.Upto, run.Kill = total-1, false
			} else {
				lo := stored
				run.Upto, run.Kill = lo+rng.Intn(total-lo), true
				if rng.Intn(3) == 0 { // close to an edge
					for _, edge := range []int{10, 20, 500, 1000, 1500, 2000, 3000} {
						if edge > lo && edge+2 < total && rng.Intn(2) == 0 {
							run.Upto = edge - 1 + rng.Intn(3)
							break
						}
					}
				}
			}
			if run.Kill {
				if run.Upto > stored {
					stored = run.Upto - 1
				}
			} else {
				stored = run.Upto
			}
			in.Runs = append(in.Runs, run)
		}
		out = append(out, in)
	}
	return out
}

func (crashFamily) Exec(id int, raw json.RawMessage) Case {
	var in crashInput
	if err := json.Unmarshal(raw, &in); err != nil {
		panic(err)
	}
	c := Case{ID: id}
	dir, err := os.MkdirTemp("", "waspcrash")
	if err != nil {
		panic(err)
	}
	defer os.RemoveAll(dir)
	self, _ := os.Executable()
	var terms []string
	var obs []interface{}
	appended := 0
	for ri, r := range in.Runs {
		ok := true
		note := ""
		store, err := messages.New(dir)
		if err != nil {
			panic(err)
		}
		for k := 0; k < r.Append; k++ {
			if err := store.Append(&packet.Publish{Header: &packet.Header{}, Topic: []byte("t"), Payload: []byte(strconv.Itoa(appended))}); err != nil {
				ok, note = false, "append: "+err.Error()
			}
			appended++
		}
		store.Close()
		outf := filepath.Join(dir, fmt.Sprintf("delivered.%d", ri))
		kill := "0"
		if r.Kill {
			kill = "1"
		}
		cmd := exec.Command(self, "crashchild", dir, outf, strconv.Itoa(r.Upto), kill)
		cmd.Stderr = nil
		runErr := cmd.Run()
		if ee, isExit := runErr.(*exec.ExitError); isExit && !r.Kill && ee.ExitCode() != 0 {
			ok, note = false, fmt.Sprintf("child exit %d", ee.ExitCode())
		}
		// what was handed over
		first, count, consec := uint64(0), uint64(0), true
		if buf, err := os.ReadFile(outf); err == nil {
			prev := uint64(0)
			for li, line := range strings.Split(strings.TrimSpace(string(buf)), "\n") {
				if line == "" {
					continue
				}
				f := strings.Fields(line)
				o, _ := strconv.ParseUint(f[0], 10, 64)
				if len(f) < 2 || f[1] != f[0] {
					ok, note = false, "entry "+f[0]+" carried payload of another entry"
				}
				if li == 0 {
					first = o
				} else if o != prev+1 {
					consec = false
				}
				prev = o
				count++
			}
		}
		stored := uint64(0)
		if buf, err := os.ReadFile(filepath.Join(dir, crashConsumer+".state")); err == nil && len(buf) >= 8 {
			stored = binary.BigEndian.Uint64(buf)
		}
		// lowest readable segment
		base := uint64(0)
		func() {
			defer func() {
				if rec := recover(); rec != nil {
					ok, note = false, fmt.Sprintf("probe panicked: %v", rec)
				}
			}()
			st, err := messages.New(dir)
			if err != nil {
				ok, note = false, "reopen: "+err.Error()
				return
			}
			defer st.Close()
			for o := uint64(0); o < uint64(appended); o += 500 {
				p, err := st.Get(o)
				if err == nil && string(p.Payload) == strconv.FormatUint(o, 10) {
					base = o
					return
				}
			}
			base = uint64(appended)
		}()
		terms = append(terms, fmt.Sprintf("CRObs %s %s %s %s %s %s %s %s %s", cqN(int64(r.Append)), cqN(int64(r.Upto)), cqBool(r.Kill),
			cqN(int64(first)), cqN(int64(count)), cqBool(consec), cqN(int64(stored)), cqN(int64(base)), cqBool(ok)))
		obs = append(obs, map[string]interface{}{"handed": fmt.Sprintf("%d..+%d", first, count), "consecutive": consec, "stored": stored, "base": base, "note": note})
	}
	c.Obs = obs
	c.Coq = fmt.Sprintf("(%s, %s)", cqN(int64(id)), cqList(terms))
	c.Nontrivial = len(in.Runs) >= 2
	c.Sig = string(raw)
	if appended > 1999 {
		c.Tags = append(c.Tags, "truncation")
	} else if appended > 499 {
		c.Tags = append(c.Tags, "segment-roll")
	}
	return c
}
