(** C09 — statements; see Proofs/ *)
From Wasp Require Import Model.Base Model.DState.
From stdpp Require Import list.
Open Scope Z_scope.
Theorem C09_placeholder_ts_max : ∀ la ld, la ≤ last_update la ld ∧ ld ≤ last_update la ld.
Proof. intros la ld. unfold last_update. destruct (Z.ltb_spec ld la); lia. Qed.
Print Assumptions C09_placeholder_ts_max.
