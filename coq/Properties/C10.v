(** C10 — A full-state exchange brings a lagging node up to date.  Statements only. *)
From Wasp Require Import Model.Base Spec.MatchSpec Model.DState Proofs.BaseFacts Proofs.Lww Proofs.DStateFacts.
From stdpp Require Import list strings.
Open Scope Z_scope.

(** [dump A] is A's full-state snapshot (LocalState): every entry of every store, tombstones
    included.  After B merges it, B holds under every key the newer of its own entry and A's
    ([joined]: A's entry replaces B's iff its timestamp is strictly greater) - for ARBITRARY
    states A and B satisfying the representation invariant, in particular any pair reachable
    by any histories with any subset of the gossip between them lost. *)
Theorem snapshot_merge_is_join : ∀ A B, dok A → dok B →
  let B' := merge_event B (dump A) in
  (∀ k, abs_sess (d_sess B') k = joined sess_ts (abs_sess (d_sess A) k) (abs_sess (d_sess B) k)) ∧
  (∀ k, abs_subs (d_subs B') k = joined sub_ts (abs_subs (d_subs A) k) (abs_subs (d_subs B) k)) ∧
  (∀ k, abs_ret (d_ret B') k = joined ret_ts (abs_ret (d_ret A) k) (abs_ret (d_ret B) k)).
Proof. exact snapshot_merge. Qed.
Print Assumptions snapshot_merge_is_join.

(** every entry of A that is newer than B's copy - addition or removal - is reflected on B *)
Theorem snapshot_brings_newer : ∀ {V} (ts : V → Z) (a : V) (ob : option V),
  (ob = None ∨ ∃ b, ob = Some b ∧ ts b < ts a) → joined ts (Some a) ob = Some a.
Proof. exact @joined_newer. Qed.
Print Assumptions snapshot_brings_newer.

(** a fresh B then holds exactly what A holds *)
Theorem fresh_equals_source : ∀ A p, dok A → same_abs (merge_event (dnew p) (dump A)) A.
Proof. exact fresh_equals_source. Qed.
Print Assumptions fresh_equals_source.

(** after snapshots in both directions the two nodes hold identical entries *)
Theorem exchange_converges : ∀ A B, dok A → dok B → cross_tie_free A B →
  same_abs (merge_event A (dump B)) (merge_event B (dump A)).
Proof. exact exchange_converges. Qed.
Print Assumptions exchange_converges.

(** the invariant holds initially and is preserved by every operation and every merge
    (see C09's theorems for [dapply]; merges: inside [receiver_equals_origin]) *)
Theorem invariant_initially : ∀ p, dok (dnew p).
Proof. exact dok_new. Qed.
Print Assumptions invariant_initially.

(** non-vacuity: B missed a removal; the snapshot carries the tombstone *)
Example c10_history :
  let A := (sess_delete (sess_create (dnew 1) "s" "c" "mp" None 10).1 "s" 20).1 in
  let B := merge_event (dnew 2) (BEvent [SMeta "s" "c" "mp" 1 None 10 0] [] []) in
  map m_sid (sess_all B) = ["s"] ∧ sess_all (merge_event B (dump A)) = [] ∧ length (b_sess (dump A)) = 1%nat.
Proof. vm_compute. done. Qed.
