(** C14 — A publish reaches matching subscribers on other nodes exactly once. *)
From Wasp Require Import Model.Base Spec.MatchSpec Model.DState Model.IdPool Model.Mount Model.Node Proofs.BaseFacts Proofs.MountFacts Proofs.NodeFacts.
From stdpp Require Import list strings.
Open Scope Z_scope.

(** Distribute appends the message at most once to the log of each node in the destination
    set (the nodes hosting a matching subscription known to the publishing node), exactly once
    when it reports success, and to no other node's log; unreachable or failing destinations
    do not stop the others (the fold visits every destination) and make it report failure,
    which withholds the acknowledgement (C05 [ack_after_store]). *)
Theorem append_exactly_once : ∀ cl i m, let r := distribute cl i m in
  quiet (λ x, negb (is_store x)) r.1.2 ∧
  r.2 = existsb bad_store r.1.2 ∧
  (r.2 = false → ∀ dst, dst ∈ dests_of cl i m → existsb (stored_at (Z.to_nat (dst - 1)) m) r.1.2 = true) ∧
  (Forall (λ d : Z, (1 ≤ d)%Z) (dests_of cl i m) → ∀ j, (napp j r.1.2 ≤ 1)%nat) ∧
  (∀ j, (∀ dst, dst ∈ dests_of cl i m → Z.to_nat (dst - 1) ≠ j) → napp j r.1.2 = 0%nat).
Proof. exact distribute_spec. Qed.
Print Assumptions append_exactly_once.

(** each hosting node writes a log entry only to sessions in its own registry that the entry's
    recipient list names (the recipient list is the matching subscriptions whose peer is this node) *)
Theorem remote_delivers_local_only : ∀ bad recips n m o, o ∈ (send bad n recips m).2 →
  ∃ r q s mid, (r, q) ∈ recips ∧ alookup r (n_reg n) = Some s ∧
    o = Out (ss_conn s) (OPublish (trim_mp (ss_mp s) (l_topic m)) (l_payload m) q (l_retain m) (l_dup m) mid).
Proof. exact send_only_recipients. Qed.
Print Assumptions remote_delivers_local_only.

From Wasp Require Import Proofs.Qos2Facts Proofs.StepFacts.
(** The step as a whole, over the cluster (Proofs/StepFacts.v): from every state in which the log
    consumers have caught up and nothing is failing, a PUBLISH makes every node [j] that is one of
    the publisher's destinations — the publisher's own node or ANY OTHER — write exactly one
    PUBLISH per matching added subscription hosted there whose session is registered there
    ([local_recips] maps ByPattern's entries one to one, and ByPattern lists none twice: C01
    [by_pattern_once]), and makes no other node write anything: once, not twice, not zero times. *)
Theorem other_nodes_deliver_exactly_once : ∀ seen cl c k s p dup mid clk,
  find_conn cl c = Some k → c_closed k = false → c_sid k = Some (ss_id s) →
  alookup (ss_id s) (n_reg (getn cl (c_node k))) = Some s →
  quiescent cl → healthy cl → p_retain p = false → (p_qos p = 0 ∨ p_qos p = 1) →
  let i := c_node k in
  let m := LMsg (prefix_mp (ss_mp s) (p_topic p)) (p_payload p) (p_qos p) false dup in
  Forall (λ d, 1 ≤ d) (dests_of cl i m) →
  (∀ j u, (j < nlen cl)%nat → u ∈ sub_by_pattern (n_d (getn cl j)) (l_topic m) → s_qos u = 0) →
  ∃ stores, quiet (λ x, negb (is_store x)) stores ∧
    (step seen cl (EPublish c p dup mid clk)).2 =
      (stores ++ (if p_qos p =? 1 then wout (cl_bad cl) c (OPubAck mid) else []) ++ dl s ++
       flat_map (λ j, if dest_here cl i m j
                      then flat_map (q0_out (cl_bad cl) (getn cl j) m) (local_recips (getn cl j) (l_topic m)) else [])
                (seq 0 (nlen cl)))%list.
Proof. exact publish_step_q0_exact. Qed.
Print Assumptions other_nodes_deliver_exactly_once.

Theorem subscriber_on_any_destination_is_reached : ∀ seen cl c k s p dup mid clk j u s',
  find_conn cl c = Some k → c_closed k = false → c_sid k = Some (ss_id s) →
  alookup (ss_id s) (n_reg (getn cl (c_node k))) = Some s →
  quiescent cl → healthy cl → p_retain p = false → (p_qos p = 0 ∨ p_qos p = 1) →
  let i := c_node k in
  let m := LMsg (prefix_mp (ss_mp s) (p_topic p)) (p_payload p) (p_qos p) false dup in
  Forall (λ d, 1 ≤ d) (dests_of cl i m) →
  (∀ j u, (j < nlen cl)%nat → u ∈ sub_by_pattern (n_d (getn cl j)) (l_topic m) → s_qos u = 0) →
  (j < nlen cl)%nat → dest_here cl i m j = true →
  u ∈ sub_by_pattern (n_d (getn cl j)) (l_topic m) → s_peer u = n_id (getn cl j) →
  alookup (s_sid u) (n_reg (getn cl j)) = Some s' → existsb (String.eqb (ss_conn s')) (cl_bad cl) = false →
  Out (ss_conn s') (OPublish (trim_mp (ss_mp s') (l_topic m)) (p_payload p) 0 false dup 0) ∈ (step seen cl (EPublish c p dup mid clk)).2.
Proof. exact publish_step_reaches. Qed.
Print Assumptions subscriber_on_any_destination_is_reached.

Example c14_history :
  let run := fold_left (λ st o, let r := step [] st.1 o in (r.1, (st.2 ++ [r.2])%list)) in
  let ops := [EConnect 1%nat "s1" "c1" "" "" 60 None 10; ESubscribe "s1" 1 [("t/#", 0)] 20;
              EConnect 2%nat "s2" "c2" "" "" 60 None 30; ESubscribe "s2" 1 [("t/+", 0)] 40;
              EGossip 1%nat 0%nat; EGossip 2%nat 0%nat; EConnect 0%nat "pub" "cp" "" "" 60 None 50; EUnreachable [2%nat];
              EPublish "pub" (Publish "t/a" "x" 1 false false) false 7 60] in
  nth 8%nat (run ops (cnew 3%nat, [])).2 [] = [Appended 1%nat "_default/t/a" "x" 1 false; Call 0%nat 1%nat true; Call 0%nat 2%nat false; Deadline "pub" 120000;
                                        Out "s1" (OPublish "t/a" "x" 0 false false 0)].
Proof. vm_compute. done. Qed.
