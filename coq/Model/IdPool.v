(** Model of wasp/idpool.go (simpleMidPool, as repaired by F7).  The free list is a list of
    half-open intervals (from, to] sorted by from.  [put_l] follows Put's case analysis
    (sort.Search for the first interval whose from >= mid, then the three branches idx == len,
    0 < idx < len, idx == 0) as one structural recursion over the list; the interval lists the
    two produce are compared after every operation by the correspondence check. *)
From Wasp Require Export Model.Base.
Open Scope Z_scope.

Record pool := Pool { pmin : Z; pmax : Z; ivs : list (Z * Z) }.

(* newMIDPool *)
Definition pnew (mn mx : Z) : pool := Pool mn mx [(mn - 1, mx)].

(* Get: -1 when the list is empty or the first interval starts at max *)
Definition pget (p : pool) : Z * pool :=
  match ivs p with
  | [] => (-1, p)
  | (f, t) :: r =>
    if f =? pmax p then (-1, p)
    else let f' := f + 1 in
         (f', Pool (pmin p) (pmax p) (if t <=? f' then r else (f', t) :: r))
  end.

Fixpoint put_l (mid : Z) (l : list (Z * Z)) : list (Z * Z) :=
  match l with
  | [] => [(mid - 1, mid)]                               (* empty list (F7) *)
  | (f, t) :: r =>
    if mid <=? f then                                   (* idx = this position, nothing before contains mid *)
      (if f =? mid then (f - 1, t) :: r                 (* intervals[idx].from == mid: from-- *)
       else (mid - 1, mid) :: (f, t) :: r)              (* insert before idx *)
    else (* f < mid *)
      if mid <=? t then (f, t) :: r                     (* already free *)
      else match r with
           | [] => if t =? mid - 1 then [(f, t + 1)] else [(f, t); (mid - 1, mid)]   (* idx == len *)
           | (f2, t2) :: r2 =>
             if mid <=? f2 then                         (* idx = position of (f2,t2) *)
               if t =? mid - 1 then
                 (if t + 1 =? f2 then (f, t2) :: r2 else (f, t + 1) :: r)            (* extend, maybe merge *)
               else (f, t) :: (mid - 1, mid) :: r               (* insert at idx (adjacent intervals are not merged here) *)
             else (f, t) :: put_l mid r
           end
  end.
Definition pput (mid : Z) (p : pool) : pool :=
  if (mid <? pmin p) || (pmax p <? mid) then p else Pool (pmin p) (pmax p) (put_l mid (ivs p)).

(** histories *)
Inductive pop := PGet | PPut (x : Z).
(* state: the pool and the identifiers handed out and not yet returned *)
Definition pstep (st : pool * list Z) (o : pop) : pool * list Z :=
  let '(p, out) := st in
  match o with
  | PGet => let r := pget p in (snd r, if fst r =? -1 then out else fst r :: out)
  | PPut x => (pput x p, filter (fun y => negb (y =? x)) out)
  end.
Definition prun (mn mx : Z) (ops : list pop) : pool * list Z := fold_left pstep ops (pnew mn mx, []).
