(** C03 — Unacknowledged QoS 1/2 deliveries are retransmitted until completed. *)
From Wasp Require Import Model.Base Spec.MatchSpec Model.DState Model.IdPool Model.Mount Model.Node Proofs.BaseFacts Proofs.MountFacts Proofs.NodeFacts Proofs.IdsFacts Proofs.RetransmitFacts Proofs.AckFacts.
From stdpp Require Import list strings.
Open Scope Z_scope.

(** What the in-flight callbacks of the writer do.  A sweep runs them with expired = true for
    every pending entry; an acknowledgement of the expected type runs the entry's callback with
    expired = false (C04 proves that nothing else ever runs them, and each at most once per
    registration).  [rearmed]: the same exchange is pending again with the SAME identifier;
    [released]: the identifier went back to the pool and nothing is pending. *)
Theorem qos1_retransmit : ∀ bad n sid p s, alookup sid (n_reg n) = Some s → ss_id s = sid →
  opkt_mid p ≠ 0 → ack_find (n_acks n) sid (opkt_mid p) = None →
  let r := on_outcome bad n (AEntry sid (opkt_mid p) PUBACK (TQ1 sid p)) true in
  r.1.2 = wout bad (ss_conn s) p ∧ rearmed n r.1.1 (AEntry sid (opkt_mid p) PUBACK (TQ1 sid p)) ∧ r.2 = None.
Proof. exact expired_q1_retransmits. Qed.
Print Assumptions qos1_retransmit.
Theorem qos2_publish_phase : ∀ bad n sid p s, alookup sid (n_reg n) = Some s → ss_id s = sid →
  opkt_mid p ≠ 0 → ack_find (n_acks n) sid (opkt_mid p) = None →
  let r := on_outcome bad n (AEntry sid (opkt_mid p) PUBREC (TQ2Pub sid p)) true in
  r.1.2 = wout bad (ss_conn s) p ∧ rearmed n r.1.1 (AEntry sid (opkt_mid p) PUBREC (TQ2Pub sid p)) ∧ r.2 = None.
Proof. exact expired_q2_retransmits. Qed.
Print Assumptions qos2_publish_phase.
Theorem qos2_pubrec_then_pubrel : ∀ bad n sid p s, alookup sid (n_reg n) = Some s → ss_id s = sid →
  opkt_mid p ≠ 0 → ack_find (n_acks n) sid (opkt_mid p) = None →
  let r := on_outcome bad n (AEntry sid (opkt_mid p) PUBREC (TQ2Pub sid p)) false in
  r.1.2 = wout bad (ss_conn s) (OPubRel (opkt_mid p)) ∧ rearmed n r.1.1 (AEntry sid (opkt_mid p) PUBCOMP (TQ2Rel sid (opkt_mid p))) ∧ r.2 = None.
Proof. exact pubrec_starts_pubrel. Qed.
Print Assumptions qos2_pubrec_then_pubrel.
Theorem qos2_pubrel_phase : ∀ bad n sid mid s, alookup sid (n_reg n) = Some s → ss_id s = sid →
  mid ≠ 0 → ack_find (n_acks n) sid mid = None →
  let r := on_outcome bad n (AEntry sid mid PUBCOMP (TQ2Rel sid mid)) true in
  r.1.2 = wout bad (ss_conn s) (OPubRel mid) ∧ rearmed n r.1.1 (AEntry sid mid PUBCOMP (TQ2Rel sid mid)) ∧ r.2 = None.
Proof. exact expired_pubrel_retransmits. Qed.
Print Assumptions qos2_pubrel_phase.

(** After the completing acknowledgement, or at the first sweep after the session ended,
    nothing is sent and the identifier is reusable. *)
Theorem completion_frees : ∀ bad n e expired,
  match a_tag e with
  | TQ1 sid p => (expired = false ∨ alookup sid (n_reg n) = None) → (on_outcome bad n e expired).1.2 = [] ∧ released n (on_outcome bad n e expired).1.1 (opkt_mid p)
  | TQ2Pub sid p => alookup sid (n_reg n) = None → (on_outcome bad n e expired).1.2 = [] ∧ released n (on_outcome bad n e expired).1.1 (opkt_mid p)
  | TQ2Rel sid mid => (expired = false ∨ alookup sid (n_reg n) = None) → (on_outcome bad n e expired).1.2 = [] ∧ released n (on_outcome bad n e expired).1.1 mid
  | TIn _ _ _ _ => True
  end.
Proof. exact completion_frees. Qed.
Print Assumptions completion_frees.

(** Over histories.  In EVERY state a history can reach ([reachable]), an expiry sweep on node i
    re-sends every pending outbound delivery [e] whose session is still registered: the same
    packet ([resend_pkt e]: the PUBLISH as first sent, or the PUBREL) is written to that
    session's connection, and the entry stays pending under the same key and tag — so the next
    sweep finds it again: "sent again every time its deadline passes, until" the expected
    acknowledgement removes it ([completion_frees]) "or the session ends": *)
Theorem retransmitted_every_sweep : ∀ cl k i e s, reachable k cl →
  e ∈ n_acks (getn cl i) → outbound e = true → alookup (tag_sid (a_tag e)) (n_reg (getn cl i)) = Some s →
  (i < length (cl_nodes cl))%nat →
  let r := sweep cl i in
  rearm e ∈ n_acks (getn r.1 i) ∧ akey (rearm e) = akey e ∧ a_tag (rearm e) = a_tag e ∧
  (¬ ss_conn s ∈ cl_bad cl → Out (ss_conn s) (resend_pkt e) ∈ r.2).
Proof. exact sweep_resends_pending. Qed.
Print Assumptions retransmitted_every_sweep.

(** ... and after the session has ended the sweep sends nothing for the entry, nothing holds its
    identifier any more, and the pool has it back ("its identifier becomes reusable"). *)
Theorem ended_session_frees_identifier : ∀ cl k i e, reachable k cl → (i < length (cl_nodes cl))%nat →
  e ∈ n_acks (getn cl i) → outbound e = true → alookup (tag_sid (a_tag e)) (n_reg (getn cl i)) = None →
  let n' := getn (sweep cl i).1 i in
  a_mid e ∉ out_mids (n_acks n') ∧ IdPoolFacts.infree (ivs (n_pool n')) (a_mid e).
Proof. exact sweep_frees_dead. Qed.
Print Assumptions ended_session_frees_identifier.

(** ... until the expected acknowledgement arrives: in every cluster state satisfying the
    identifier invariant (every reachable one: [reachable_ok]), a PUBACK for a pending QoS 1
    delivery, or a PUBCOMP for a pending PUBREL, sends nothing, takes the entry out of the
    in-flight table, and leaves its identifier free in the pool and held by nothing — "after
    completion nothing further is sent for it and its identifier becomes reusable" (a later sweep
    finds no entry to re-send: [retransmitted_every_sweep] has nothing to apply to). *)
Theorem acknowledgement_completes : ∀ cl c ty mid clk k s e,
  cl_ok cl → (c_node k < length (cl_nodes cl))%nat →
  find_conn cl c = Some k → c_closed k = false → c_sid k = Some (ss_id s) →
  alookup (ss_id s) (n_reg (getn cl (c_node k))) = Some s →
  ty ≠ PUBREL → ack_find (n_acks (getn cl (c_node k))) (ss_id s) mid = Some e → a_expect e = ty → completing e ty →
  let r := do_ack cl c ty mid clk in
  let n' := getn r.1 (c_node k) in
  r.2 = dl s ∧
  ack_find (n_acks n') (ss_id s) mid = None ∧ mid ∉ out_mids (n_acks n') ∧ IdPoolFacts.infree (ivs (n_pool n')) mid ∧ node_ok n'.
Proof. exact ack_completes. Qed.
Print Assumptions acknowledgement_completes.

(** An acknowledgement of the wrong type, or for an identifier that is not in flight, changes nothing. *)
Theorem wrong_ack_harmless : ∀ cl c ty mid clk k i n s,
  find_conn cl c = Some k → c_closed k = false → c_sid k = Some (ss_id s) → i = c_node k → n = getn cl i →
  alookup (ss_id s) (n_reg n) = Some s →
  let prefix := if ty =? PUBREL then (ss_id s ++ "/in")%string else ss_id s in
  (ack_find (n_acks n) prefix mid = None ∨ ∃ e, ack_find (n_acks n) prefix mid = Some e ∧ a_expect e ≠ ty) →
  do_ack cl c ty mid clk = (cl, dl s).
Proof. exact wrong_ack_harmless. Qed.
Print Assumptions wrong_ack_harmless.

Example c03_history :
  let run := fold_left (λ st o, let r := step [] st.1 o in (r.1, (st.2 ++ [r.2])%list)) in
  let ops := [EConnect 0%nat "sub" "c-sub" "" "" 60 None 10; ESubscribe "sub" 1 [("t/#", 1)] 20;
              EConnect 0%nat "pub" "c-pub" "" "" 60 None 30; EPublish "pub" (Publish "t/a" "x" 0 false false) false 0 40;
              ESweep 0%nat; EAck "sub" PUBREC (RefRaw 1) 50; ESweep 0%nat; EAck "sub" PUBACK (RefRaw 1) 60; ESweep 0%nat] in
  let o := (run ops (cnew 1%nat, [])).2 in
  nth 4%nat o [] = [Out "sub" (OPublish "t/a" "x" 1 false false 1)] ∧ nth 5%nat o [] = [Deadline "sub" 120000]
  ∧ nth 6%nat o [] = [Out "sub" (OPublish "t/a" "x" 1 false false 1)] ∧ nth 8%nat o [] = [].
Proof. vm_compute. done. Qed.
