(** Model of the message-log consumer of wasp/messages/store.go (Consume, maybeTruncate) over
    vx-labs/commitlog: the log is its length and its truncation base (entries below the base are
    gone; TruncateBefore x removes the whole 500-entry segments below the segment of x), the
    8-byte state file is [c_stored].  A run starts at the stored offset and, per entry, calls the
    callback, then stores the offset, then maybe truncates; the process may die between any two
    of these micro-steps. *)
From Wasp Require Export Model.Base.
Open Scope N_scope.

Inductive phase := Stopped | AtEntry (p : N) | AfterCallback (p : N) | AfterPersist (p : N).
Record cstate := CState { c_len : N; c_base : N; c_stored : N; c_phase : phase;
                          c_ever : list N;      (* every offset ever handed to the callback, newest first *)
                          c_run : list N }.     (* offsets handed over in the current run, newest first *)
Definition cinit : cstate := CState 0 0 0 Stopped [] [].

Definition seg : N := 500.
(* maybeTruncate(cur): if cur > 1500 && cur % 1000 == 0 { TruncateBefore(cur - 300) } *)
Definition truncate (base cur : N) : N :=
  if (1500 <? cur) && (cur mod 1000 =? 0) then N.max base (((cur - 300) / seg) * seg) else base.

Inductive cev :=
| CAppend (k : N)        (* k more entries are appended *)
| CStart                 (* a (re)started process: read the state file, maybeTruncate, seek *)
| CDeliver               (* the callback is called with the next entry *)
| CPersist               (* the offset of the entry just handled is written to the state file *)
| CTruncate              (* maybeTruncate for it; the loop moves on *)
| CCrash.                (* SIGKILL, or a clean stop *)

Definition cstep (s : cstate) (e : cev) : cstate :=
  match e, c_phase s with
  | CAppend k, _ => CState (c_len s + k) (c_base s) (c_stored s) (c_phase s) (c_ever s) (c_run s)
  | CStart, Stopped => CState (c_len s) (truncate (c_base s) (c_stored s)) (c_stored s) (AtEntry (c_stored s)) (c_ever s) []
  | CDeliver, AtEntry p =>
    if (p <? c_len s) && (c_base s <=? p) then CState (c_len s) (c_base s) (c_stored s) (AfterCallback p) (p :: c_ever s) (p :: c_run s)
    else s                                               (* nothing to read yet (the consumer polls) *)
  | CPersist, AfterCallback p => CState (c_len s) (c_base s) p (AfterPersist p) (c_ever s) (c_run s)
  | CTruncate, AfterPersist p => CState (c_len s) (truncate (c_base s) p) (c_stored s) (AtEntry (p + 1)) (c_ever s) (c_run s)
  | CCrash, _ => CState (c_len s) (c_base s) (c_stored s) Stopped (c_ever s) (c_run s)
  | _, _ => s                                            (* event not enabled in this phase *)
  end.
Definition crun (s : cstate) (es : list cev) : cstate := fold_left cstep es s.

(** the harness's runs, as micro-event lists: deliver entries up to and including [upto];
    [kill] = the process dies inside the callback of that entry, otherwise it is stopped after
    the entry has been fully handled *)
Fixpoint handle (n : nat) : list cev := match n with O => [] | S n' => CDeliver :: CPersist :: CTruncate :: handle n' end.
Definition run_events (stored upto : N) (kill : bool) : list cev :=
  if upto <? stored then [CStart; CCrash]
  else if kill then (CStart :: handle (N.to_nat (upto - stored)) ++ [CDeliver; CCrash])%list
  else (CStart :: handle (N.to_nat (upto - stored + 1)) ++ [CCrash])%list.
