package main

// Family "stress" (C20): randomized concurrent use of the shared broker state on all cores, meant to
// be run from a binary built with -race (GORACE=halt_on_error=1 makes a data race kill the
// process, which the driver reports with the running input and the race report). After each
// stress the invariants that must survive any interleaving are checked: operations on distinct
// keys all took effect, identifiers handed out concurrently are distinct while outstanding,
// every in-flight registration resolved exactly once.

import (
	"context"
	"encoding/json"
	"fmt"
	"math/rand"
	"sort"
	"sync"
	"sync/atomic"
	"time"

	"github.com/hashicorp/memberlist"
	"github.com/vx-labs/commitlog/stream"
	"github.com/vx-labs/mqtt-protocol/packet"
	"github.com/vx-labs/wasp/v4/subscriptions"
	"github.com/vx-labs/wasp/v4/topics"
	"github.com/vx-labs/wasp/v4/wasp"
	"github.com/vx-labs/wasp/v4/wasp/ack"
	"github.com/vx-labs/wasp/v4/wasp/audit"
	"github.com/vx-labs/wasp/v4/wasp/distributed"
	"github.com/vx-labs/wasp/v4/wasp/expiration"
	"github.com/vx-labs/wasp/v4/wasp/sessions"
	"github.com/vx-labs/wasp/v4/wasp/transport"
	"go.uber.org/zap"
)

type stressInput struct {
	What    string `json:"what"`
	Workers int    `json:"workers"`
	Rounds  int    `json:"rounds"`
	Seed    int64  `json:"seed"`
}
type stressFamily struct{}

func init() { register("stress", stressFamily{}) }

func (stressFamily) Gen(n int, seed int64, mode, tier string) []interface{} {
	var out []interface{}
	rounds := 300
	if tier == "thorough" {
		rounds = 2000
	}
	whats := []string{"registry", "pool", "ackqueue", "ackrace", "explist", "tries", "dstate", "session", "broker"}
	for i := 0; i < n; i++ {
		for _, w := range whats {
			r := rounds
			if w == "broker" {
				r = rounds / 100
			}
			if w == "dstate" && r > 450 {
				// merging ever larger states under the race detector grows faster than quadratically
				// (41 s at 300 rounds, 375 s at 800): more rounds add time, not interleavings
				r = 450
			}
			out = append(out, stressInput{What: w, Workers: 16, Rounds: r, Seed: seed*1000 + int64(i)})
		}
	}
	return out
}

// memLog: a mutex-protected in-memory message log. vx-labs/commitlog itself races between
// cursor.Read and WriteEntry (a dependency outside /repo), and the message log is not among the
// shared state C20 names, so the whole-broker stress runs on this one.
type memLog struct {
	mu   sync.Mutex
	recs []*packet.Publish
}

func (m *memLog) Close() error { return nil }
func (m *memLog) Append(p *packet.Publish) error {
	m.mu.Lock()
	defer m.mu.Unlock()
	cp := *p
	h := *p.Header
	cp.Header = &h
	m.recs = append(m.recs, &cp)
	return nil
}
func (m *memLog) Get(o uint64) (*packet.Publish, error) {
	m.mu.Lock()
	defer m.mu.Unlock()
	if int(o) >= len(m.recs) {
		return nil, fmt.Errorf("eof")
	}
	cp := *m.recs[o]
	return &cp, nil
}
func (m *memLog) Consume(ctx context.Context, name string, f func(uint64, *packet.Publish) error) error {
	next := 0
	for {
		m.mu.Lock()
		var p *packet.Publish
		if next < len(m.recs) {
			p = m.recs[next]
		}
		m.mu.Unlock()
		if p == nil {
			select {
			case <-ctx.Done():
				return nil
			case <-time.After(time.Millisecond):
				continue
			}
		}
		if err := f(uint64(next), p); err != nil {
			return err
		}
		next++
	}
}
func (m *memLog) Stream(ctx context.Context, c stream.Consumer, f func(*packet.Publish) error) error {
	return nil
}

func (stressFamily) Exec(id int, raw json.RawMessage) Case {
	var in stressInput
	if err := json.Unmarshal(raw, &in); err != nil {
		panic(err)
	}
	c := Case{ID: id}
	var problems []string
	var mu sync.Mutex
	fail := func(format string, a ...interface{}) {
		mu.Lock()
		if len(problems) < 5 {
			problems = append(problems, fmt.Sprintf(format, a...))
		}
		mu.Unlock()
	}
	func() {
		defer func() {
			if r := recover(); r != nil {
				fail("panic: %v", r)
			}
		}()
		W, R := in.Workers, in.Rounds
		var wg sync.WaitGroup
		par := func(f func(w int, rng *rand.Rand)) {
			for w := 0; w < W; w++ {
				wg.Add(1)
				go func(w int) {
					defer wg.Done()
					defer func() {
						if r := recover(); r != nil {
							fail("worker panic: %v", r)
						}
					}()
					f(w, rand.New(rand.NewSource(in.Seed*100+int64(w))))
				}(w)
			}
			wg.Wait()
		}
		switch in.What {
		case "registry":
			st := wasp.NewState(1)
			par(func(w int, rng *rand.Rand) {
				for i := 0; i < R; i++ {
					id := fmt.Sprintf("s%d-%d", w, i)
					s, _ := sessions.NewSession(id, "mp", "tcp", nil, &packet.Connect{ClientId: []byte(id)})
					st.Create(id, s)
					if st.Get(id) != s {
						fail("registry: %s not visible right after Create", id)
					}
					st.ListSessions()
					if i%2 == 0 {
						st.Delete(id)
					}
				}
			})
			for w := 0; w < W; w++ {
				for i := 0; i < R; i++ {
					id := fmt.Sprintf("s%d-%d", w, i)
					if (st.Get(id) != nil) != (i%2 == 1) {
						fail("registry: %s present=%v", id, st.Get(id) != nil)
					}
				}
			}
		case "pool":
			p := wasp.NewMIDPoolForVerif(0, 200)
			var held sync.Map
			par(func(w int, rng *rand.Rand) {
				var mine []int32
				for i := 0; i < R*4; i++ {
					if rng.Intn(2) == 0 || len(mine) == 0 {
						v := p.Get()
						if v >= 0 {
							if _, dup := held.LoadOrStore(v, w); dup {
								fail("pool: identifier %d handed out twice", v)
							}
							mine = append(mine, v)
						}
					} else {
						k := rng.Intn(len(mine))
						v := mine[k]
						mine = append(mine[:k], mine[k+1:]...)
						held.Delete(v)
						p.Put(v)
						if rng.Intn(8) == 0 {
							p.Put(500) // out of range: must be ignored
						}
					}
				}
				for _, v := range mine {
					held.Delete(v)
					p.Put(v)
				}
			})
			// everything is free again: the intervals (adjacent ones need not be merged) tile (-1,200]
			iv := p.Intervals()
			okTile := len(iv) > 0 && iv[0][0] == -1 && iv[len(iv)-1][1] == 200
			for i := 1; i < len(iv) && okTile; i++ {
				okTile = iv[i][0] == iv[i-1][1] && iv[i][0] < iv[i][1]
			}
			if !okTile {
				fail("pool: after returning everything the free list is %v", iv)
			}
		case "ackqueue":
			q := ack.NewQueue()
			var fired sync.Map
			var regs int64
			stop := make(chan struct{})
			go func() { // expiry sweeps at "now": deadlines are armed 3 s ahead, as the broker does
				for {
					select {
					case <-stop:
						return
					default:
						q.Expire(time.Now())
						time.Sleep(200 * time.Microsecond)
					}
				}
			}()
			par(func(w int, rng *rand.Rand) {
				for i := 0; i < R; i++ {
					mid := int32(1 + i%60000)
					reg := atomic.AddInt64(&regs, 1)
					pfx := fmt.Sprintf("s%d", w)
					err := q.Insert(pfx, &packet.Publish{Header: &packet.Header{Qos: 1}, MessageId: mid}, time.Now().Add(3*time.Second+time.Duration(rng.Intn(2000))*time.Millisecond), func(expired bool, stored, received packet.Packet) {
						if _, dup := fired.LoadOrStore(reg, expired); dup {
							fail("ackqueue: registration %d resolved twice", reg)
						}
					})
					if err != nil {
						fail("ackqueue: insert of a fresh key failed: %v", err)
					}
					if i%3 != 0 {
						if err := q.Ack(pfx, &packet.PubAck{Header: &packet.Header{}, MessageId: mid}); err != nil {
							fail("ackqueue: ack of a pending key failed: %v", err)
						}
						if _, ok := fired.Load(reg); !ok {
							fail("ackqueue: registration %d not resolved by its ack", reg)
						}
					} else if err := q.Ack(pfx, &packet.PubRec{Header: &packet.Header{}, MessageId: mid}); err == nil {
						fail("ackqueue: wrong-type ack accepted")
					}
				}
			})
			close(stop)
			q.Expire(time.Now().Add(time.Hour))
			total := atomic.LoadInt64(&regs)
			n := int64(0)
			fired.Range(func(k, v interface{}) bool { n++; return true })
			if n != total {
				fail("ackqueue: %d registrations, %d resolved after the final sweep", total, n)
			}
		case "ackrace":
			// the same in-flight key is resolved by several goroutines at once (duplicate acknowledgements,
			// an acknowledgement racing the sweep that expires the entry): exactly one of them wins
			q := ack.NewQueue()
			// (cheap rounds, narrow window between Ack's lookup and its delete: many of them)
			for i := 0; i < R*40; i++ {
				var calls, acked int64
				mid := int32(1 + i%1000)
				past := i%2 == 0 // the entry is already due: the sweep competes too
				dl := time.Now().Add(3 * time.Second)
				if past {
					dl = time.Now().Add(-2 * time.Second)
				}
				if err := q.Insert("s", &packet.Publish{Header: &packet.Header{Qos: 1}, MessageId: mid}, dl, func(bool, packet.Packet, packet.Packet) {
					atomic.AddInt64(&calls, 1)
				}); err != nil {
					fail("ackrace: insert failed: %v", err)
				}
				var wg2 sync.WaitGroup
				start := make(chan struct{})
				for g := 0; g < 4; g++ {
					wg2.Add(1)
					go func(g int) {
						defer wg2.Done()
						<-start
						if g == 3 {
							q.Expire(time.Now())
						} else if q.Ack("s", &packet.PubAck{Header: &packet.Header{}, MessageId: mid}) == nil {
							atomic.AddInt64(&acked, 1)
						}
					}(g)
				}
				close(start)
				wg2.Wait()
				q.Expire(time.Now().Add(time.Hour))
				if c := atomic.LoadInt64(&calls); c != 1 {
					fail("ackrace: the entry was resolved %d times (accepted acknowledgements: %d)", c, acked)
				}
				if acked > 1 {
					fail("ackrace: %d acknowledgements accepted for one entry", acked)
				}
			}
		case "explist":
			// many goroutines register distinct items due in the same (not yet existing) second and
			// delete them again: afterwards nothing is left to expire
			for round := 0; round < R/10+1; round++ {
				l := expiration.NewList()
				base := time.Now().Add(time.Duration(5+round) * time.Second)
				par(func(w int, rng *rand.Rand) {
					for i := 0; i < 20; i++ {
						d := base.Add(time.Duration(rng.Intn(400)) * time.Millisecond)
						id := fmt.Sprintf("w%d-%d", w, i)
						l.Insert(id, d)
						if i%2 == 0 {
							l.Delete(id, d)
						}
					}
				})
				left := l.Expire(base.Add(time.Hour))
				if len(left) != W*10 {
					fail("explist: %d items expire, %d were registered and not deleted", len(left), W*10)
				}
				seen := map[interface{}]bool{}
				for _, x := range left {
					if seen[x] {
						fail("explist: item %v expires twice", x)
					}
					seen[x] = true
				}
			}
		case "tries":
			st := subscriptions.NewTree()
			tt := topics.NewTree()
			par(func(w int, rng *rand.Rand) {
				for i := 0; i < R; i++ {
					k := fmt.Sprintf("w%d/k%d/x", w, i%50)
					v := fmt.Sprintf("v%d-%d", w, i)
					st.Upsert([]byte(k), func([]byte) []byte { return []byte(v) })
					tt.Insert([]byte(k), []byte(v))
					st.Walk([]byte(fmt.Sprintf("w%d/k%d/x", rng.Intn(W), rng.Intn(50))), func([]byte) {})
					var ms [][]byte
					tt.Match([]byte(fmt.Sprintf("w%d/+/x", rng.Intn(W))), &ms)
					if i%10 == 9 {
						st.Upsert([]byte(fmt.Sprintf("w%d/tmp", w)), func([]byte) []byte { return nil })
						tt.Remove([]byte(fmt.Sprintf("w%d/tmp", w)))
						tt.Count()
					}
				}
			})
			for w := 0; w < W; w++ {
				for k := 0; k < 50 && k < R; k++ {
					last := k + ((R-1-k)/50)*50
					want := fmt.Sprintf("v%d-%d", w, last)
					got := ""
					st.Walk([]byte(fmt.Sprintf("w%d/k%d/x", w, k)), func(b []byte) {
						if len(b) > 0 {
							got = string(b)
						}
					})
					if got != want {
						fail("subscription trie: key w%d/k%d/x holds %q, want %q", w, k, got, want)
					}
					var ms [][]byte
					tt.Match([]byte(fmt.Sprintf("w%d/k%d/x", w, k)), &ms)
					if len(ms) != 1 || string(ms[0]) != want {
						fail("retained trie: key w%d/k%d/x holds %q, want %q", w, k, ms, want)
					}
				}
			}
		case "dstate":
			bq := &memberlist.TransmitLimitedQueue{RetransmitMult: 1, NumNodes: func() int { return 1 }}
			ds := distributed.NewState(1, bq, audit.NoneRecorder())
			other := distributed.NewState(2, &memberlist.TransmitLimitedQueue{RetransmitMult: 1, NumNodes: func() int { return 1 }}, audit.NoneRecorder())
			stressClock()
			stop := make(chan struct{})
			go func() {
				for {
					select {
					case <-stop:
						return
					default:
						other.Distributor().MergeRemoteState(ds.Distributor().LocalState(false), false)
						for _, m := range bq.GetBroadcasts(0, 1<<20) {
							other.Distributor().NotifyMsg(m)
						}
						ds.Distributor().MergeRemoteState(other.Distributor().LocalState(false), false)
					}
				}
			}()
			par(func(w int, rng *rand.Rand) {
				for i := 0; i < R/4+1; i++ {
					sid := fmt.Sprintf("s%d-%d", w, i)
					ds.SessionMetadatas().Create(sid, "c"+sid, 0, nil, "mp")
					ds.Subscriptions().Create(sid, []byte(fmt.Sprintf("mp/w%d/%d", w, i%7)), 1)
					ds.Subscriptions().Create(sid, []byte("mp/shared"), 0)
					ds.Topics().Set(&packet.Publish{Header: &packet.Header{Retain: true}, Topic: []byte(fmt.Sprintf("mp/r%d/%d", w, i%7)), Payload: []byte(sid)})
					ds.Subscriptions().ByPattern([]byte("mp/shared"))
					ds.SessionMetadatas().All()
					if i%2 == 0 {
						ds.Subscriptions().DeleteSession(sid)
						ds.SessionMetadatas().Delete(sid)
					}
				}
			})
			close(stop)
			time.Sleep(2 * time.Millisecond)
			for w := 0; w < W; w++ {
				for i := 0; i < R/4+1; i++ {
					sid := fmt.Sprintf("s%d-%d", w, i)
					_, err := ds.SessionMetadatas().Get(sid)
					if (err == nil) != (i%2 == 1) {
						fail("dstate: session %s listed=%v", sid, err == nil)
					}
				}
			}
			cnt := map[string]int{}
			for _, s := range ds.Subscriptions().All() {
				cnt[s.SessionID]++
			}
			for w := 0; w < W; w++ {
				for i := 0; i < R/4+1; i++ {
					sid := fmt.Sprintf("s%d-%d", w, i)
					want := 0
					if i%2 == 1 {
						want = 2
					}
					if cnt[sid] != want {
						fail("dstate: session %s has %d subscriptions listed, want %d", sid, cnt[sid], want)
					}
				}
			}
		case "session":
			s, _ := sessions.NewSession("s", "mp", "tcp", nil, &packet.Connect{ClientId: []byte("c")})
			par(func(w int, rng *rand.Rand) {
				for i := 0; i < R; i++ {
					t := []byte(fmt.Sprintf("mp/w%d/%d", w, i%20))
					s.AddTopic(t)
					s.GetTopics()
					if i%20 >= 10 {
						s.RemoveTopic(t)
					}
				}
			})
			got := map[string]bool{}
			for _, t := range s.GetTopics() {
				if got[string(t)] {
					fail("session: filter %s listed twice", t)
				}
				got[string(t)] = true
			}
			for w := 0; w < W; w++ {
				for k := 0; k < 20 && k < R; k++ {
					if got[fmt.Sprintf("mp/w%d/%d", w, k)] != (k < 10) {
						fail("session: filter mp/w%d/%d present=%v", w, k, got[fmt.Sprintf("mp/w%d/%d", w, k)])
					}
				}
			}
		case "broker":
			stressBroker(in, fail)
		default:
			fail("unknown stress %s", in.What)
		}
	}()
	sort.Strings(problems)
	ok := len(problems) == 0
	var ps []string
	for _, p := range problems {
		ps = append(ps, cqStr(p))
	}
	c.Obs = problems
	c.Coq = fmt.Sprintf("(%s, %s, %s, %s)", cqN(int64(id)), cqStr(in.What), cqBool(ok), cqList(ps))
	c.Nontrivial = true
	c.Sig = string(raw)
	c.Tags = []string{in.What}
	return c
}

// whole broker: 16 concurrent clients connect / subscribe / publish / acknowledge / disconnect
// while expiry sweeps and full-state merges run
func stressBroker(in stressInput, fail func(string, ...interface{})) {
	// the context is never cancelled: writer.Run closes its queue on cancellation while
	// SchedulePublishes may still be sending on it (a shutdown-only race, outside the state C20 names)
	ctx, cancel := context.WithCancel(wasp.StoreLogger(context.Background(), zap.NewNop()))
	_ = cancel
	log := &memLog{}
	bq := &memberlist.TransmitLimitedQueue{RetransmitMult: 1, NumNodes: func() int { return 1 }}
	local := wasp.NewState(1)
	ds := distributed.NewState(1, bq, audit.NoneRecorder())
	stressClock()
	dist := &wasp.PublishDistributor{ID: 1, State: ds.Subscriptions(), Storage: log, Logger: zap.NewNop()}
	q := ack.NewQueue()
	w := wasp.NewWriter(1, ds.Subscriptions(), local, q)
	go wasp.SchedulePublishes(1, w, log)(ctx)
	go w.Run(ctx, log)
	pp := wasp.NewPacketProcessor(local, ds, w, &countingTaps{}, dist, q)
	go pp.Run(ctx)
	var n int64
	mgr := wasp.NewConnectionManager(scriptAuth{&n}, local, ds, w, pp, q)
	go mgr.Run(ctx)
	stop := make(chan struct{})
	go func() {
		for {
			select {
			case <-stop:
				return
			default:
				q.Expire(time.Now())
				ds.Distributor().MergeRemoteState(ds.Distributor().LocalState(false), false)
				bq.GetBroadcasts(0, 1<<20)
				time.Sleep(time.Millisecond)
			}
		}
	}()
	var wg sync.WaitGroup
	for c := 0; c < in.Workers; c++ {
		wg.Add(1)
		go func(c int) {
			defer wg.Done()
			for round := 0; round < in.Rounds; round++ {
				conn := newScriptConn()
				go mgr.Setup(ctx, transport.Metadata{Name: "script", Channel: conn})
				conn.Feed(encConnect(fmt.Sprintf("c%d", c), "", "", 60, &jPub{T: "will", P: "w"}, true))
				if !conn.WaitOutCount(1, 30*time.Second) {
					fail("broker: no CONNACK for client %d", c)
					return
				}
				conn.Feed(encSubscribe(1, []string{fmt.Sprintf("t/%d/#", c%4), "all/+"}, []int{1, 2}))
				conn.WaitIdle(30 * time.Second)
				for i := 0; i < 20; i++ {
					conn.Feed(encPublish(fmt.Sprintf("t/%d/x", i%4), "p", i%3, i%7 == 0, false, 100+i))
					if i%3 == 2 {
						conn.Feed(encAck(6, 100+i))
					}
					pkts, _, _, _, _ := conn.Snapshot()
					for _, p := range pkts {
						if pub, ok := p.(*packet.Publish); ok && pub.Header.Qos == 1 {
							conn.Feed(encAck(4, int(pub.MessageId)))
						}
					}
				}
				conn.WaitIdle(30 * time.Second)
				if round%2 == 0 {
					conn.Feed([]byte{0xe0, 0})
				} else {
					conn.ClientEOF()
				}
				if !conn.WaitClosed(30 * time.Second) {
					fail("broker: connection of client %d not closed after its session ended", c)
				}
			}
		}(c)
	}
	wg.Wait()
	close(stop)
	time.Sleep(20 * time.Millisecond)
	if l := local.ListSessions(); len(l) != 0 {
		fail("broker: %d sessions left in the registry", len(l))
	}
	if l := ds.SessionMetadatas().All(); len(l) != 0 {
		fail("broker: %d session records left", len(l))
	}
	if l := ds.Subscriptions().All(); len(l) != 0 {
		fail("broker: %d subscriptions left", len(l))
	}
}

// stressClock: one strictly increasing clock for the whole process, installed once. The brokers of
// earlier stress cases are never cancelled (see the remark on writer.Run), so their goroutines may
// still read the clock variable: installing a new one per case would be a race of the harness's own.
var (
	stressClockOnce sync.Once
	stressClk       int64 = 1000
)

func stressClock() {
	stressClockOnce.Do(func() {
		distributed.SetClockForVerif(func() int64 { return atomic.AddInt64(&stressClk, 1) })
	})
}
