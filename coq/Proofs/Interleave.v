(** Interleavings of per-goroutine operation lists, and the per-key independence that makes
    "operations on distinct keys all take effect" a corollary of the history theorems (C20). *)
From Wasp Require Import Model.Base Model.Trie Proofs.BaseFacts Proofs.TrieFacts Proofs.StoreRefine.
From stdpp Require Import list sets strings.

Inductive is_sched {A} : list A → list A → list A → Prop :=
| sched_nil : is_sched [] [] []
| sched_l x l1 l2 l : is_sched l1 l2 l → is_sched (x :: l1) l2 (x :: l)
| sched_r x l1 l2 l : is_sched l1 l2 l → is_sched l1 (x :: l2) (x :: l).

Lemma sched_filter {A} (P : A → bool) l1 l2 l : is_sched l1 l2 l → Forall (λ x, P x = false) l2 →
  List.filter P l = List.filter P l1.
Proof.
  induction 1 as [|x l1 l2 l _ IH|x l1 l2 l _ IH]; intros Hall; [done| |].
  - cbn. by rewrite IH.
  - apply Forall_cons in Hall as [Hx Hall]. cbn. rewrite Hx. by apply IH.
Qed.
Lemma sched_elem {A} (l1 l2 l : list A) x : is_sched l1 l2 l → x ∈ l ↔ x ∈ l1 ∨ x ∈ l2.
Proof.
  induction 1 as [|y l1 l2 l _ IH|y l1 l2 l _ IH]; [set_solver| |]; rewrite !elem_of_cons, IH; tauto.
Qed.

(** the value a history leaves at key k depends only on the operations on k *)
Definition on_key (k : string) (o : sop) : bool := String.eqb (op_key o) k.
Lemma spec_from_filter k ops : ∀ m m', m k = m' k → spec_from m ops k = spec_from m' (List.filter (on_key k) ops) k.
Proof.
  induction ops as [|o ops IH]; intros m m' Hk; cbn [spec_from fold_left List.filter]; [done|].
  unfold on_key at 1. destruct (String.eqb_spec (op_key o) k) as [He|Hne].
  - cbn [fold_left]. apply IH. destruct o as [k0 f|k0 v|k0]; cbn [spec_apply op_key] in *; subst k0; rewrite !sm_set_eq; by rewrite ?Hk.
  - apply IH. destruct o as [k0 f|k0 v|k0]; cbn [spec_apply op_key] in *; rewrite sm_set_ne by congruence; done.
Qed.
Theorem spec_run_own_ops k ops : spec_run ops k = spec_run (List.filter (on_key k) ops) k.
Proof. by apply spec_from_filter. Qed.

(** two goroutines, the second never touching key k: after ANY interleaving the store holds at k
    what the first goroutine's operations on k alone produce *)
Theorem distinct_keys_effect t1 t2 sched k : is_sched t1 t2 sched → Forall (λ o, op_key o ≠ k) t2 →
  tget (levels k) (run sched) = tget (levels k) (run (List.filter (on_key k) t1)).
Proof.
  intros Hm Hk. rewrite !run_refines. rewrite (spec_run_own_ops k sched).
  assert (Hf : List.filter (on_key k) sched = List.filter (on_key k) t1).
  { apply (sched_filter (on_key k) t1 t2 sched Hm). eapply Forall_impl; [exact Hk|]. cbn. intros o Ho. unfold on_key. by apply String.eqb_neq. }
  by rewrite Hf.
Qed.
