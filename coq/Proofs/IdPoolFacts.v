(** The identifier pool meets its specification (C06): the free set is exactly the
    complement of the outstanding identifiers inside [min,max], Get hands out a free
    identifier or reports exhaustion, Put frees exactly the given identifier (if in range). *)
From Wasp Require Import Model.Base Model.IdPool.
From stdpp Require Import list sets.
From Coq Require Import ZArith Lia.
Open Scope Z_scope.

Definition infree (l : list (Z * Z)) (x : Z) : Prop := ∃ f t, (f, t) ∈ l ∧ f < x ≤ t.

Fixpoint sorted (lo : Z) (l : list (Z * Z)) : Prop :=
  match l with [] => True | (f, t) :: r => lo ≤ f ∧ f < t ∧ sorted t r end.
Definition Inv (p : pool) := sorted (pmin p - 1) (ivs p) ∧ Forall (λ ft, ft.2 ≤ pmax p) (ivs p).

Ltac ss := simpl; repeat split; try lia; try done.
Lemma sorted_weaken lo lo' l : lo' ≤ lo → sorted lo l → sorted lo' l.
Proof. destruct l as [|[f t] r]; simpl; [done|]. intros ? (?&?&?). split; [lia|done]. Qed.

Lemma sorted_infree_gt lo l x : sorted lo l → infree l x → lo < x.
Proof.
  revert lo. induction l as [|[f t] r IH]; intros lo Hs (f0 & t0 & Hin & Hx).
  { by apply elem_of_nil in Hin. }
  simpl in Hs. destruct Hs as (H1 & H2 & H3).
  apply elem_of_cons in Hin as [[= -> ->]|Hin]; [lia|].
  assert (t < x) by (apply (IH t); [done|by exists f0, t0]). lia.
Qed.

Lemma infree_cons f t r x : infree ((f, t) :: r) x ↔ (f < x ≤ t) ∨ infree r x.
Proof.
  split.
  - intros (f0 & t0 & Hin & Hx). apply elem_of_cons in Hin as [[= -> ->]|Hin]; [by left|right; by exists f0, t0].
  - intros [Hx|(f0 & t0 & Hin & Hx)]; [exists f, t; split; [left|done]|exists f0, t0; split; [by right|done]].
Qed.
Lemma infree_nil x : ¬ infree [] x.
Proof. intros (f & t & Hin & _). by apply elem_of_nil in Hin. Qed.

Theorem get_spec p v p' :
  Inv p → pget p = (v, p') →
  (v = -1 ∧ p' = p ∧ ∀ x, ¬ infree (ivs p) x) ∨
  (pmin p ≤ v ≤ pmax p ∧ infree (ivs p) v ∧ Inv p' ∧ pmin p' = pmin p ∧ pmax p' = pmax p ∧
   ∀ x, infree (ivs p') x ↔ (infree (ivs p) x ∧ x ≠ v)).
Proof.
  intros [Hs Hmax]. unfold pget. destruct p as [mn mx l]; simpl in *.
  destruct l as [|[f t] r].
  { intros [= <- <-]. left. split; [done|]. split; [done|]. intros x. apply infree_nil. }
  simpl in Hs. destruct Hs as (H1 & H2 & H3). inversion Hmax as [|? ? Ht Hmax']; subst. simpl in Ht.
  destruct (Z.eqb_spec f mx) as [->|Hne]; [lia|].
  intros [= <- <-]. right. simpl.
  split; [lia|]. split; [apply infree_cons; left; lia|].
  destruct (Z.leb_spec t (f + 1)) as [Hle|Hgt].
  - assert (t = f + 1) by lia. subst t. unfold Inv; cbn [pmin pmax ivs].
    split; [split; [apply (sorted_weaken (f + 1)); [lia|done]|done]|].
    split; [done|]. split; [done|]. intros x. rewrite infree_cons. split.
    + intros Hx. split; [by right|]. apply (sorted_infree_gt _ _ _ H3) in Hx. lia.
    + intros [[Hx|Hx] Hn]; [lia|done].
  - unfold Inv; cbn [pmin pmax ivs]. split; [split; [ss|constructor; [ss|done]]|].
    split; [done|]. split; [done|]. intros x. rewrite !infree_cons. split.
    + intros [Hx|Hx]; [split; [left; lia|lia]|]. split; [by right|].
      apply (sorted_infree_gt _ _ _ H3) in Hx. lia.
    + intros [[Hx|Hx] Hn]; [left; lia|by right].
Qed.

Lemma put_l_spec mid : ∀ l lo, sorted lo l → lo < mid →
  sorted lo (put_l mid l) ∧ (∀ x, infree (put_l mid l) x ↔ infree l x ∨ x = mid) ∧
  (∀ mx, mid ≤ mx → Forall (λ ft : Z * Z, ft.2 ≤ mx) l → Forall (λ ft : Z * Z, ft.2 ≤ mx) (put_l mid l)).
Proof.
  induction l as [|[f t] r IH]; intros lo Hs Hlo.
  { simpl. split; [lia|]. split.
    - intros x. rewrite infree_cons. split; [intros [?|Hx]; [right; lia|by apply infree_nil in Hx]|].
      intros [Hx| ->]; [by apply infree_nil in Hx|left; lia].
    - intros mx Hmx _. constructor; [ss|done]. }
  simpl in Hs. destruct Hs as (H1 & H2 & H3). cbn [put_l].
  destruct (Z.leb_spec mid f) as [Hmf|Hmf].
  - destruct (Z.eqb_spec f mid) as [->|Hne].
    + split; [ss|]. split.
      * intros x. rewrite !infree_cons. split; [intros [?|?]; [destruct (decide (x = mid)); [by right|left; left; lia]|left; by right]|].
        intros [[?|?]| ->]; [left; lia|by right|left; lia].
      * intros mx Hmx Hall. inversion Hall; subst. constructor; [done|done].
    + split; [ss|]. split.
      * intros x. rewrite !infree_cons. split; [intros [?|[?|?]]; [right; lia|left; by left|left; by right]|].
        intros [[?|?]| ->]; [right; by left|right; by right|left; lia].
      * intros mx Hmx Hall. constructor; [ss|done].
  - destruct (Z.leb_spec mid t) as [Hmt|Hmt].
    + split; [ss|]. split.
      * intros x. rewrite !infree_cons. split; [tauto|]. intros [?| ->]; [done|left; lia].
      * intros mx _ Hall. done.
    + destruct r as [|[f2 t2] r2].
      * destruct (Z.eqb_spec t (mid - 1)) as [Ht|Ht].
        -- split; [ss|]. split.
           ++ intros x. rewrite !infree_cons. split; [intros [?|Hx]; [destruct (decide (x = mid)); [by right|left; left; lia]|by apply infree_nil in Hx]|].
              intros [[?|Hx]| ->]; [left; lia|by apply infree_nil in Hx|left; lia].
           ++ intros mx Hmx Hall. constructor; [ss|done].
        -- split; [ss|]. split.
           ++ intros x. rewrite !infree_cons. split; [intros [?|[?|Hx]]; [left; by left|right; lia|by apply infree_nil in Hx]|].
              intros [[?|Hx]| ->]; [by left|by apply infree_nil in Hx|right; left; lia].
           ++ intros mx Hmx Hall. inversion Hall; subst. constructor; [done|]. constructor; [ss|done].
      * simpl in H3. destruct H3 as (H4 & H5 & H6).
        destruct (Z.leb_spec mid f2) as [Hm2|Hm2].
        -- destruct (Z.eqb_spec t (mid - 1)) as [Ht|Ht].
           ++ destruct (Z.eqb_spec (t + 1) f2) as [Hadj|Hadj].
              ** split; [ss|]. split.
                 --- intros x. rewrite !infree_cons. split.
                     +++ intros [?|?]; [|left; right; by right].
                         destruct (decide (x = mid)); [by right|]. left.
                         destruct (decide (x ≤ t)); [left; lia|right; left; lia].
                     +++ intros [[?|[?|?]]| ->]; [left; lia|left; lia|by right|left; lia].
                 --- intros mx Hmx Hall. inversion Hall as [|? ? ? Hall2]; subst. inversion Hall2; subst.
                     constructor; [done|done].
              ** split; [ss|]. split.
                 --- intros x. rewrite !infree_cons. split.
                     +++ intros [?|[?|?]]; [destruct (decide (x = mid)); [by right|left; left; lia]|left; right; by left|left; right; by right].
                     +++ intros [[?|[?|?]]| ->]; [left; lia|right; by left|right; by right|left; lia].
                 --- intros mx Hmx Hall. inversion Hall as [|? ? ? Hall2]; subst. constructor; [simpl in *; lia|done].
           ++ split; [ss|]. split.
              ** intros x. rewrite !infree_cons. split.
                 --- intros [?|[?|[?|?]]]; [left; by left|right; lia|left; right; by left|left; right; by right].
                 --- intros [[?|[?|?]]| ->]; [by left|right; right; by left|right; right; by right|right; left; lia].
              ** intros mx Hmx Hall. inversion Hall as [|? ? ? Hall2]; subst. constructor; [done|]. constructor; [ss|done].
        -- destruct (IH t) as (IS & IF & IM); [ss|lia|].
           split; [ss|]. split.
           ++ intros x. rewrite (infree_cons f t), IF. rewrite (infree_cons f t ((f2, t2) :: r2)). tauto.
           ++ intros mx Hmx Hall. inversion Hall; subst. constructor; [done|by apply IM].
Qed.

Theorem put_spec mid p :
  Inv p → Inv (pput mid p) ∧ pmin (pput mid p) = pmin p ∧ pmax (pput mid p) = pmax p ∧
  ∀ x, infree (ivs (pput mid p)) x ↔ infree (ivs p) x ∨ (x = mid ∧ pmin p ≤ mid ≤ pmax p).
Proof.
  intros [Hs Hmax]. unfold pput. destruct p as [mn mx l]; simpl in *.
  destruct (Z.ltb_spec mid mn) as [?|?]; simpl.
  { split; [done|]. split; [done|]. split; [done|]. intros x. split; [by left|]. intros [?|[? ?]]; [done|lia]. }
  destruct (Z.ltb_spec mx mid) as [?|?]; simpl.
  { split; [done|]. split; [done|]. split; [done|]. intros x. split; [by left|]. intros [?|[? ?]]; [done|lia]. }
  destruct (put_l_spec mid l (mn - 1) Hs) as (IS & IF & IM); [lia|].
  split; [split; [done|by apply IM]|]. split; [done|]. split; [done|].
  intros x. rewrite IF. split; [intros [?| ->]; [by left|right; lia]|intros [?|[-> _]]; [by left|by right]].
Qed.

Theorem new_inv mn mx : mn ≤ mx → Inv (pnew mn mx) ∧ ∀ x, infree (ivs (pnew mn mx)) x ↔ mn ≤ x ≤ mx.
Proof.
  intros H. split; [split; [ss|constructor; [ss|done]]|].
  intros x. simpl. rewrite infree_cons. split; [intros [?|Hx]; [lia|by apply infree_nil in Hx]|intros; left; lia].
Qed.

(** ** histories: the free set is always the range minus the outstanding identifiers *)
Definition J (mn mx : Z) (st : pool * list Z) : Prop :=
  0 ≤ mn ∧ Inv st.1 ∧ pmin st.1 = mn ∧ pmax st.1 = mx ∧ NoDup st.2 ∧
  ∀ x, infree (ivs st.1) x ↔ (mn ≤ x ≤ mx ∧ x ∉ st.2).

Lemma J_init mn mx : 0 ≤ mn ≤ mx → J mn mx (pnew mn mx, []).
Proof.
  intros [H0 H]. destruct (new_inv mn mx H) as [Hi Hf]. split; [done|]. split; [done|]. split; [done|]. split; [done|].
  split; [apply NoDup_nil_2|]. intros x. rewrite Hf. cbn. set_solver.
Qed.

Lemma elem_of_filter_neq (x y : Z) (l : list Z) : y ∈ List.filter (λ z, negb (z =? x)) l ↔ y ∈ l ∧ y ≠ x.
Proof.
  rewrite elem_of_list_In, filter_In, <- elem_of_list_In. rewrite negb_true_iff, Z.eqb_neq. done.
Qed.
Lemma NoDup_filter_list {A} (f : A → bool) (l : list A) : NoDup l → NoDup (List.filter f l).
Proof.
  induction l as [|a l IH]; cbn; [done|]. intros [Hn Hnd]%NoDup_cons.
  destruct (f a); [|by apply IH]. apply NoDup_cons. split; [|by apply IH].
  rewrite elem_of_list_In, filter_In, <- elem_of_list_In. tauto.
Qed.

Theorem J_step mn mx st o : J mn mx st → J mn mx (pstep st o).
Proof.
  destruct st as [p out]. intros (H0 & Hi & Hmn & Hmx & Hnd & Hf). cbn [fst snd] in *. destruct o as [|x]; cbn [pstep].
  - destruct (pget p) as [v p'] eqn:Hg. cbn [fst snd].
    destruct (get_spec p v p' Hi Hg) as [(-> & -> & Hnone)|(Hr & Hfree & Hi' & Hmn' & Hmx' & Hf')].
    + cbn. done.
    + assert (v ≠ -1) by lia.
      rewrite (proj2 (Z.eqb_neq v (-1))) by done.
      unfold J. cbn [fst snd].
      split; [done|]. split; [done|]. split; [congruence|]. split; [congruence|].
      split. { apply NoDup_cons. split; [|done]. apply Hf in Hfree. tauto. }
      intros y. rewrite Hf', Hf. set_solver.
  - destruct (put_spec x p Hi) as (Hi' & Hmn' & Hmx' & Hf'). unfold J. cbn [fst snd].
    split; [done|]. split; [done|]. split; [congruence|]. split; [congruence|]. split; [by apply NoDup_filter_list|].
    intros y. rewrite Hf', Hf, elem_of_filter_neq. subst mn mx.
    destruct (decide (y = x)) as [->|Hne]; [|tauto]. split; [intros [[? ?]|[_ ?]]; tauto|].
    intros [? ?]. right. done.
Qed.

Theorem J_run mn mx ops : 0 ≤ mn ≤ mx → J mn mx (prun mn mx ops).
Proof.
  intros H. unfold prun. generalize (J_init mn mx H). generalize (pnew mn mx, @nil Z).
  induction ops as [|o ops IH]; intros st HJ; cbn [fold_left]; [done|]. apply IH. by apply J_step.
Qed.

(** what a Get returns in a reachable state *)
Theorem get_fresh mn mx ops : 0 ≤ mn ≤ mx →
  let st := prun mn mx ops in
  let v := (pget st.1).1 in
  (v = -1 ∧ (pget st.1).2 = st.1 ∧ ∀ x, mn ≤ x ≤ mx → x ∈ st.2) ∨
  (mn ≤ v ≤ mx ∧ v ∉ st.2).
Proof.
  intros H st v. destruct (J_run mn mx ops H) as (_ & Hi & Hmn & Hmx & Hnd & Hf). fold st in Hi, Hmn, Hmx, Hnd, Hf.
  destruct (pget st.1) as [v' p'] eqn:Hg. subst v. cbn [fst snd].
  destruct (get_spec _ _ _ Hi Hg) as [(-> & -> & Hnone)|(Hr & Hfree & _)].
  - left. split; [done|]. split; [done|]. intros x Hx. destruct (decide (x ∈ st.2)); [done|].
    exfalso. apply (Hnone x). apply Hf. done.
  - right. apply Hf in Hfree. split; [lia|tauto].
Qed.
