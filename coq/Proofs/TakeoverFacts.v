(** C12: a CONNECT whose client identifier is in use.  conn.go setup deletes the record the
    identifier currently resolves to and creates the new one; the lemmas here show what the
    identifier resolves to afterwards, on the node that served the CONNECT and on every node
    that merges the two broadcasts. *)
From Wasp Require Import Model.Base Spec.MatchSpec Model.DState Model.IdPool Model.Mount Model.Node
  Proofs.BaseFacts Proofs.Lww Proofs.DStateFacts Proofs.NodeFacts.
From stdpp Require Import list strings.
From Coq Require Import ZArith Lia.
Open Scope Z_scope.

(** resolution is a function of the abstract session map *)
Lemma sess_filter_spec f d m : sess_ok (d_sess d) →
  m ∈ sess_filter f d ↔ alookup (m_sid m) (d_sess d) = Some m ∧ sess_added m = true ∧ f m = true.
Proof.
  intros [Hflat _]. unfold sess_filter. rewrite elem_of_list_In, filter_In, <- elem_of_list_In, andb_true_iff. split.
  - intros [Hin [Ha Hf]]. split; [|done]. by apply (flat_values_key m_sid).
  - intros (Hl & Ha & Hf). split; [|done]. apply alookup_Some_in in Hl. apply elem_of_list_fmap. by exists (m_sid m, m).
Qed.

Lemma resolves_same d r mp cid m : sess_ok (d_sess d) → sess_ok (d_sess r) → same_abs d r →
  m ∈ sess_by_client mp cid d ↔ m ∈ sess_by_client mp cid r.
Proof.
  intros Hd Hr (Hs & _ & _). unfold sess_by_client. rewrite !sess_filter_spec by done.
  specialize (Hs (m_sid m)). unfold abs_sess in Hs. by rewrite Hs.
Qed.

(** what setup does to the replicated session map *)
Definition takeover (d : dstate) (id cid mp : string) (lwt : option publish) (clk : Z) : dstate :=
  let d1 := match hd_error (sess_by_client mp cid d) with
            | Some m => (sess_delete d (m_sid m) clk).1
            | None => d end in
  (sess_create d1 id cid mp lwt clk).1.

Lemma marked_not_added old clk : sess_ts old < clk → sess_added (sess_mark_deleted old clk) = false.
Proof.
  unfold sess_added, sess_ts, sess_mark_deleted, is_added. cbn. rewrite last_update_max. intros H.
  apply andb_false_iff. right. apply Z.ltb_ge. lia.
Qed.

Lemma sess_delete_lookup d id clk k : (∀ old, alookup id (d_sess d) = Some old → sess_ts old < clk) →
  alookup k (d_sess (sess_delete d id clk).1) =
  if String.eqb k id then match alookup id (d_sess d) with
                          | Some old => if is_removed (m_la old) (m_ld old) then Some old else Some (sess_mark_deleted old clk)
                          | None => None end
  else alookup k (d_sess d).
Proof.
  intros Hfresh. unfold sess_delete. destruct (String.eqb_spec k id) as [->|Hne].
  - destruct (alookup id (d_sess d)) as [old|] eqn:Ho; [|exact Ho].
    destruct (is_removed (m_la old) (m_ld old)); [exact Ho|]. cbn. by rewrite alookup_aset_eq.
  - destruct (alookup id (d_sess d)) as [old|] eqn:Ho; [|done].
    destruct (is_removed (m_la old) (m_ld old)); [done|]. cbn. by rewrite alookup_aset_ne.
Qed.

Lemma sess_delete_ok d id clk : sess_ok (d_sess d) → sess_ok (d_sess (sess_delete d id clk).1).
Proof.
  intros Hok. unfold sess_delete. destruct (alookup id (d_sess d)) as [old|] eqn:Ho; [|done].
  destruct (is_removed (m_la old) (m_ld old)); [done|]. cbn.
  destruct Hok as [Hflat Hval].
  assert (Hkey : m_sid old = id). { destruct Hflat as [_ Hk]. by apply (alookup_values2 (λ k v, m_sid v = k) _ _ _ Hk Ho). }
  assert (Hv : sess_valid (sess_mark_deleted old clk)). { unfold sess_valid. cbn. by apply (alookup_values sess_valid _ _ _ Hval Ho). }
  rewrite <- Hkey. change (m_sid old) with (m_sid (sess_mark_deleted old clk)).
  apply (fold_aset_sess_ok [sess_mark_deleted old clk]); [by repeat constructor|by split].
Qed.

Theorem takeover_resolves d id cid mp lwt clk :
  sess_ok (d_sess d) → alookup id (d_sess d) = None → id ≠ "" →
  utf8_ok id = true → utf8_ok cid = true → utf8_ok mp = true → 0 < clk →
  (∀ m, m ∈ sess_by_client mp cid d → sess_ts m < clk) →
  (∀ m m', m ∈ sess_by_client mp cid d → m' ∈ sess_by_client mp cid d → m = m') →
  let new := SMeta id cid mp (d_peer d) lwt clk 0 in
  let d' := takeover d id cid mp lwt clk in
  sess_ok (d_sess d') ∧ ∀ m, m ∈ sess_by_client mp cid d' ↔ m = new.
Proof.
  intros Hok Hfreshid Hid U1 U2 U3 Hclk Hnewer Huniq new d'.
  set (d1 := match hd_error (sess_by_client mp cid d) with Some m => (sess_delete d (m_sid m) clk).1 | None => d end).
  assert (Hok1 : sess_ok (d_sess d1)). { unfold d1. destruct (hd_error _); [by apply sess_delete_ok|done]. }
  assert (Hpeer : d_peer d1 = d_peer d).
  { unfold d1. destruct (hd_error (sess_by_client mp cid d)) as [m|]; [|reflexivity]. unfold sess_delete.
    destruct (alookup (m_sid m) (d_sess d)) as [old|]; [|reflexivity]. destruct (is_removed (m_la old) (m_ld old)); reflexivity. }
  (* d1 below: every candidate of d is gone, nothing else changed *)
  assert (Hd1 : ∀ k, alookup k (d_sess d1) =
                     match hd_error (sess_by_client mp cid d) with
                     | Some m => if String.eqb k (m_sid m) then Some (sess_mark_deleted m clk) else alookup k (d_sess d)
                     | None => alookup k (d_sess d) end).
  { intros k. unfold d1. destruct (hd_error (sess_by_client mp cid d)) as [m|] eqn:Hhd; [|done].
    assert (Hm : m ∈ sess_by_client mp cid d). { destruct (sess_by_client mp cid d); [done|]. injection Hhd as ->. apply elem_of_cons. by left. }
    pose proof Hm as Hm'. unfold sess_by_client in Hm'. apply sess_filter_spec in Hm' as (Hl & Ha & _); [|done].
    rewrite sess_delete_lookup.
    - rewrite Hl. destruct (String.eqb k (m_sid m)); [|done].
      assert (is_removed (m_la m) (m_ld m) = false) as ->; [|done].
      unfold sess_added, is_added, is_removed in *. apply andb_true_iff in Ha as [_ Ha]. apply Z.ltb_lt in Ha.
      apply andb_false_iff. right. apply Z.ltb_ge. lia.
    - intros old Ho. rewrite Hl in Ho. injection Ho as <-. by apply Hnewer. }
  assert (Hid1 : alookup id (d_sess d1) = None).
  { rewrite Hd1. destruct (hd_error (sess_by_client mp cid d)) as [m|] eqn:Hhd; [|done].
    destruct (String.eqb_spec id (m_sid m)) as [Heq|]; [|done]. exfalso.
    assert (Hm : m ∈ sess_by_client mp cid d). { destruct (sess_by_client mp cid d); [done|]. injection Hhd as ->. apply elem_of_cons. by left. }
    unfold sess_by_client in Hm. apply sess_filter_spec in Hm as (Hl & _); [|done]. rewrite <- Heq in Hl. congruence. }
  assert (Hd' : d_sess d' = aset id new (d_sess d1)).
  { unfold d', takeover. fold d1. unfold sess_create. rewrite Hid1, U1, U2, U3. cbn. by rewrite Hpeer. }
  split.
  { rewrite Hd'. change id with (m_sid new) at 1. apply (fold_aset_sess_ok [new]); [by repeat constructor|done]. }
  assert (Hok' : sess_ok (d_sess d')).
  { rewrite Hd'. change id with (m_sid new) at 1. apply (fold_aset_sess_ok [new]); [by repeat constructor|done]. }
  intros m. unfold sess_by_client at 1. rewrite sess_filter_spec by done. rewrite Hd'. split.
  - intros (Hl & Ha & Hf). destruct (decide (m_sid m = id)) as [Heq|Hne].
    + rewrite Heq, alookup_aset_eq in Hl. by injection Hl.
    + exfalso. rewrite alookup_aset_ne in Hl by done. rewrite Hd1 in Hl.
      assert (Hcand : alookup (m_sid m) (d_sess d) = Some m → m ∈ sess_by_client mp cid d).
      { intros Hl0. unfold sess_by_client. by apply sess_filter_spec. }
      destruct (hd_error (sess_by_client mp cid d)) as [h|] eqn:Hhd.
      * assert (Hh : h ∈ sess_by_client mp cid d). { destruct (sess_by_client mp cid d); [done|]. injection Hhd as ->. apply elem_of_cons. by left. }
        destruct (String.eqb_spec (m_sid m) (m_sid h)) as [Heq|Hne'].
        -- injection Hl as <-. rewrite marked_not_added in Ha; [done|by apply Hnewer].
        -- specialize (Hcand Hl). rewrite (Huniq _ _ Hcand Hh) in Hne'. done.
      * specialize (Hcand Hl). destruct (sess_by_client mp cid d); [by apply elem_of_nil in Hcand|done].
  - intros ->. cbn [m_sid new]. rewrite alookup_aset_eq. split; [done|]. split.
    + unfold sess_added, is_added. cbn. apply andb_true_iff. split; apply Z.ltb_lt; lia.
    + cbn. by rewrite !String.eqb_refl.
Qed.

(** the node that served the CONNECT resolves the identifier to the new session *)
Lemma n_d_mutate n r : n_d (mutate n r) = r.1.
Proof. by destruct r as [d [e|]]. Qed.

Theorem takeover_established cl i c cid user pass ka will clk :
  (i < length (cl_nodes cl))%nat →
  String.eqb pass "bad" || String.eqb pass "bad-static" = false →
  let mp := if String.eqb user "" then "_default" else user in
  let id := session_id (cl_next cl) in
  let d := n_d (getn cl i) in
  sess_ok (d_sess d) → alookup id (d_sess d) = None → id ≠ "" →
  utf8_ok id = true → utf8_ok cid = true → utf8_ok mp = true → 0 < clk →
  (∀ m, m ∈ sess_by_client mp cid d → sess_ts m < clk) →
  (∀ m m', m ∈ sess_by_client mp cid d → m' ∈ sess_by_client mp cid d → m = m') →
  let r := setup cl i c cid user pass ka will clk in
  let new := SMeta id cid mp (d_peer d) will clk 0 in
  n_d (getn r.1 i) = takeover d id cid mp will clk ∧
  owner (getn r.1 i) mp cid = Some new ∧
  alookup id (n_reg (getn r.1 i)) = Some (Sess id cid mp will ka [] c) ∧
  Out c (OConnAck 0) ∈ r.2.
Proof.
  intros Hi Hpass mp id d Hok Hfresh Hid U1 U2 U3 Hclk Hnewer Huniq r new.
  pose proof (takeover_resolves d id cid mp will clk Hok Hfresh Hid U1 U2 U3 Hclk Hnewer Huniq) as [Hok' Hres].
  unfold r, setup. rewrite Hpass. cbn zeta.
  set (cl0 := Cluster (cl_nodes cl) (cl_conns cl ++ [Conn c i None false]) (cl_bad cl) (cl_down cl) (cl_deliv cl) (cl_next cl)).
  set (cl1 := Cluster (cl_nodes cl0) (cl_conns cl0) (cl_bad cl0) (cl_down cl0) (cl_deliv cl0) (S (cl_next cl0))).
  assert (Hn : getn cl1 i = getn cl i) by done.
  rewrite Hn. fold mp. change (session_id (cl_next cl0)) with id.
  set (n := getn cl i). fold d in Hok.
  set (n1 := match owner n mp cid with Some m => mutate n (sess_delete (n_d n) (m_sid m) clk) | None => n end).
  assert (Hn1 : n_d n1 = match hd_error (sess_by_client mp cid d) with Some m => (sess_delete d (m_sid m) clk).1 | None => d end).
  { unfold n1, owner. change (n_d n) with d. destruct (hd_error (sess_by_client mp cid d)) as [m|]; [apply n_d_mutate|reflexivity]. }
  assert (Htk : (sess_create (n_d n1) id cid mp will clk).1 = takeover d id cid mp will clk).
  { unfold takeover. by rewrite Hn1. }
  destruct (sess_create (n_d n1) id cid mp will clk) as [d2 [e|]] eqn:Hcr.
  - cbn [snd fst] in *. cbn [fst]. 
    assert (Hlen : (i < length (cl_nodes cl1))%nat) by done.
    assert (Hg : ∀ n2 k, getn (upd_conn (setn cl1 i n2) k) i = n2).
    { intros n2 k. unfold upd_conn, getn. cbn. apply (getn_setn cl1 i n2 Hlen). }
    rewrite Hg. cbn [n_d set_reg n_reg]. rewrite n_d_mutate. cbn [fst]. split; [done|]. split; [|split].
    + unfold owner. cbn [n_d set_reg]. rewrite n_d_mutate. cbn [fst]. rewrite Htk.
      destruct (sess_by_client mp cid (takeover d id cid mp will clk)) as [|x l] eqn:Hl.
      * exfalso. apply (elem_of_nil new). by apply Hres.
      * cbn. f_equal. apply Hres. apply elem_of_cons. by left.
    + by rewrite alookup_aset_eq.
    + apply elem_of_cons. by left.
  - (* Create cannot fail here *)
    exfalso. unfold sess_create in Hcr.
    assert (Hid1 : alookup id (d_sess (n_d n1)) = None).
    { rewrite Hn1. destruct (hd_error (sess_by_client mp cid d)) as [m|] eqn:Hhd; [|done].
      assert (Hm : m ∈ sess_by_client mp cid d). { destruct (sess_by_client mp cid d); [done|]. injection Hhd as ->. apply elem_of_cons. by left. }
      unfold sess_by_client in Hm. apply sess_filter_spec in Hm as (Hl & _); [|done].
      rewrite sess_delete_lookup; [|intros old Ho; rewrite Hl in Ho; injection Ho as <-; apply Hnewer; unfold sess_by_client; apply sess_filter_spec; [done|]].
      - destruct (String.eqb_spec id (m_sid m)) as [Heq|]; [|done]. rewrite <- Heq in Hl. congruence.
      - assert (Hm2 : m ∈ sess_by_client mp cid d). { destruct (sess_by_client mp cid d); [done|]. injection Hhd as ->. apply elem_of_cons. by left. }
        unfold sess_by_client in Hm2. by apply sess_filter_spec in Hm2. }
    rewrite Hid1, U1, U2, U3 in Hcr. done.
Qed.

(** every node that merges the two broadcasts resolves it the same way *)
Theorem takeover_everywhere d r id cid mp lwt clk :
  dok d → dok r → same_abs d r → alookup id (d_sess d) = None → id ≠ "" →
  utf8_ok id = true → utf8_ok cid = true → utf8_ok mp = true → 0 < clk →
  (∀ m, m ∈ sess_by_client mp cid d → sess_ts m < clk) →
  (∀ m m', m ∈ sess_by_client mp cid d → m' ∈ sess_by_client mp cid d → m = m') →
  let ops := match hd_error (sess_by_client mp cid d) with
             | Some m => [DSessDelete (m_sid m) clk; DSessCreate id cid mp lwt clk]
             | None => [DSessCreate id cid mp lwt clk] end in
  let run := origin_run d ops in
  run.1 = takeover d id cid mp lwt clk ∧
  ∀ m, m ∈ sess_by_client mp cid (fold_left merge_event run.2 r) ↔ m = SMeta id cid mp (d_peer d) lwt clk 0.
Proof.
  intros Hd Hr Hsame Hfresh Hid U1 U2 U3 Hclk Hnewer Huniq ops run.
  pose proof (takeover_resolves d id cid mp lwt clk (ok_sess _ Hd) Hfresh Hid U1 U2 U3 Hclk Hnewer Huniq) as [Hok' Hres].
  assert (Hrun : run.1 = takeover d id cid mp lwt clk).
  { unfold run, ops, takeover. destruct (hd_error (sess_by_client mp cid d)) as [m|]; cbn [origin_run dapply fst snd].
    - destruct (sess_delete d (m_sid m) clk) as [d1 [e1|]]; cbn [fst snd]; destruct (sess_create d1 id cid mp lwt clk) as [d2 [e2|]]; done.
    - destruct (sess_create d id cid mp lwt clk) as [d2 [e2|]]; done. }
  split; [done|].
  assert (Hopsok : ops_ok d ops).
  { unfold ops. destruct (hd_error (sess_by_client mp cid d)) as [m|] eqn:Hhd; cbn [ops_ok op_valid clock_fresh dapply].
    - assert (Hm : m ∈ sess_by_client mp cid d). { destruct (sess_by_client mp cid d); [done|]. injection Hhd as ->. apply elem_of_cons. by left. }
      pose proof Hm as Hm'. unfold sess_by_client in Hm'. apply sess_filter_spec in Hm' as (Hl & Ha & _); [|apply Hd].
      repeat split; try done.
      + intros old Ho. rewrite Hl in Ho. injection Ho as <-. by apply Hnewer.
      + intros old. rewrite sess_delete_lookup; [|intros o Ho; rewrite Hl in Ho; injection Ho as <-; by apply Hnewer].
        destruct (String.eqb_spec id (m_sid m)) as [Heq|]; [rewrite <- Heq in Hl; congruence|]. by rewrite Hfresh.
    - repeat split; try done. intros old. by rewrite Hfresh. }
  pose proof (receiver_equals_origin ops d r Hd Hr Hsame Hopsok) as (Hdok1 & Hdok2 & Hsame').
  fold run in Hdok1, Hdok2, Hsame'.
  intros m. rewrite <- (resolves_same _ _ mp cid m (ok_sess _ Hdok1) (ok_sess _ (merge_events_dok _ _ Hr Hdok2)) Hsame'). rewrite Hrun. apply Hres.
Qed.

(** the displaced session stops being served at its next keep-alive exchange; the live one is answered *)
Theorem displaced_not_served cl c clk k sid s :
  find_conn cl c = Some k → c_closed k = false → c_sid k = Some sid →
  alookup sid (n_reg (getn cl (c_node k))) = Some s →
  (∀ m, owner (getn cl (c_node k)) (ss_mp s) (ss_cid s) = Some m → m_sid m ≠ ss_id s) →
  (do_ping cl c clk).2 = [Closed (ss_conn s)].
Proof.
  intros Hk Hc Hs Hreg Hown. unfold do_ping, with_session. rewrite Hk, Hc, Hs, Hreg.
  assert (Hend : (end_session cl k true clk).2 = [Closed (ss_conn s)]).
  { unfold end_session. rewrite Hs, Hreg. apply no_will_after_disconnect. }
  destruct (owner (getn cl (c_node k)) (ss_mp s) (ss_cid s)) as [m|] eqn:Ho; [|exact Hend].
  destruct (String.eqb_spec (m_sid m) (ss_id s)) as [Heq|]; [|exact Hend]. by destruct (Hown m eq_refl).
Qed.
Theorem live_session_answered cl c clk k sid s m :
  find_conn cl c = Some k → c_closed k = false → c_sid k = Some sid →
  alookup sid (n_reg (getn cl (c_node k))) = Some s →
  owner (getn cl (c_node k)) (ss_mp s) (ss_cid s) = Some m → m_sid m = ss_id s →
  do_ping cl c clk = (cl, wout (cl_bad cl) c OPingResp ++ dl s).
Proof.
  intros Hk Hc Hs Hreg Ho Hm. unfold do_ping, with_session. rewrite Hk, Hc, Hs, Hreg, Ho, Hm. by rewrite String.eqb_refl.
Qed.
