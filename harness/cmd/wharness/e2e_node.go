package main

// In-process wiring of 1-3 real wasp nodes from exported constructors, with the harness's own
// implementations of the interfaces wasp takes as parameters (scripted connections, logging
// wrappers around the real message log / writer / in-flight queue / local registry, in-process
// gRPC over bufconn between nodes) and the condition waits that make a step "complete".

import (
	"io"
	"context"
	"errors"
	"fmt"
	"net"
	"os"
	"strings"
	"sync"
	"sync/atomic"
	"time"

	"github.com/hashicorp/memberlist"
	dto "github.com/prometheus/client_model/go"
	"github.com/vx-labs/mqtt-protocol/packet"
	"github.com/vx-labs/wasp/v4/wasp"
	"github.com/vx-labs/wasp/v4/wasp/ack"
	"github.com/vx-labs/wasp/v4/wasp/api"
	"github.com/vx-labs/wasp/v4/wasp/audit"
	"github.com/vx-labs/wasp/v4/wasp/auth"
	"github.com/vx-labs/wasp/v4/wasp/distributed"
	"github.com/vx-labs/wasp/v4/wasp/messages"
	"github.com/vx-labs/wasp/v4/wasp/sessions"
	"github.com/vx-labs/wasp/v4/wasp/stats"
	"github.com/vx-labs/wasp/v4/wasp/transport"
	"go.uber.org/zap"
	"google.golang.org/grpc"
	"google.golang.org/grpc/test/bufconn"
)

type countingTaps struct{ started int64 }

func (t *countingTaps) Run(ctx context.Context) {}
func (t *countingTaps) Dispatch(context.Context, string, *packet.Publish) error {
	atomic.AddInt64(&t.started, 1)
	return nil
}

// logWrap: the real message log, counting successful appends, recording them, failing on request.
type logWrap struct {
	messages.Log
	mu       sync.Mutex
	appended int64
	failNext int // fail the next k appends
	failed   int64 // appends that failed, ever
	events   []logEvent
}

type logEvent struct {
	ok             bool
	topic, payload string
	qos            int32
	retain         bool
}

func (l *logWrap) Append(p *packet.Publish) error {
	l.mu.Lock()
	if l.failNext > 0 {
		l.failNext--
		l.failed++
		l.events = append(l.events, logEvent{})
		l.mu.Unlock()
		return errors.New("injected append failure")
	}
	l.mu.Unlock()
	err := l.Log.Append(p)
	l.mu.Lock()
	if err == nil {
		l.appended++
		r := false
		q := int32(0)
		if p.Header != nil {
			r, q = p.Header.Retain, p.Header.Qos
		}
		l.events = append(l.events, logEvent{true, string(p.Topic), string(p.Payload), q, r})
	} else {
		l.failed++
		l.events = append(l.events, logEvent{})
	}
	l.mu.Unlock()
	return err
}
func (l *logWrap) takeEvents() []logEvent {
	l.mu.Lock()
	defer l.mu.Unlock()
	ev := l.events
	l.events = nil
	return ev
}
func (l *logWrap) appendedCount() int64 { l.mu.Lock(); defer l.mu.Unlock(); return l.appended }
func (l *logWrap) failedCount() int64   { l.mu.Lock(); defer l.mu.Unlock(); return l.failed }

type writerWrap struct {
	wasp.Writer
	scheduled int64
}

func (w *writerWrap) Schedule(ctx context.Context, offset uint64) {
	w.Writer.Schedule(ctx, offset)
	atomic.AddInt64(&w.scheduled, 1)
}

// queueWrap: the writer's wall-clock ticker calls Expire; only the harness sweeps (Force).
type queueWrap struct {
	ack.Queue
	queued *int64 // publishes handed to a worker (shared with ppWrap)
	relJob int64  // of those, the ones a PUBREL released
	pend   int64  // entries awaiting an acknowledgement right now
}

func (q *queueWrap) Ack(prefix string, pkt packet.Packet) error {
	err := q.Queue.Ack(prefix, pkt)
	if err == nil {
		atomic.AddInt64(&q.pend, -1)
	}
	return err
}

func (q *queueWrap) Expire(now time.Time) {}
func (q *queueWrap) Force(now time.Time)  { q.Queue.Expire(now) }

// Insert: the callback of an inbound QoS 2 entry hands the stored publish to a worker when the
// PUBREL arrives; that hand-off happens inside the callback, so it is counted when it returns.
func (q *queueWrap) Insert(prefix string, pkt packet.Packet, deadline time.Time, cb ack.Callback) error {
	inbound := strings.HasSuffix(prefix, "/in")
	inner := cb
	cb = func(expired bool, stored, received packet.Packet) {
		if expired {
			atomic.AddInt64(&q.pend, -1) // Expire has taken the entry out before calling back
		}
		inner(expired, stored, received)
		if inbound && !expired {
			atomic.AddInt64(q.queued, 1)
			atomic.AddInt64(&q.relJob, 1)
		}
	}
	err := q.Queue.Insert(prefix, pkt, deadline, cb)
	if err == nil {
		atomic.AddInt64(&q.pend, 1)
	}
	return err
}

// ppWrap: the real packet processor; counts the publishes it hands to its workers (PUBLISH at QoS 0/1
// and wills: Process returns once the job is in a worker's channel, not when a worker has started it).
type ppWrap struct {
	wasp.PacketProcessor
	queued *int64
}

func (p *ppWrap) Process(ctx context.Context, session *sessions.Session, c io.Writer, pkt packet.Packet) error {
	job := false
	if pub, ok := pkt.(*packet.Publish); ok && pub.Header != nil {
		job = c == nil || pub.Header.Qos == 0 || pub.Header.Qos == 1
	}
	err := p.PacketProcessor.Process(ctx, session, c, pkt)
	if job && err == nil {
		atomic.AddInt64(p.queued, 1)
	}
	return err
}

// localWrap: the real registry; a Get of a sentinel id signals that the writer reached it.
type localWrap struct {
	wasp.LocalState
	mu   sync.Mutex
	seen map[string]bool
}

func (l *localWrap) Get(id string) *sessions.Session {
	if strings.HasPrefix(id, "\x00barrier") {
		l.mu.Lock()
		l.seen[id] = true
		l.mu.Unlock()
		return nil
	}
	return l.LocalState.Get(id)
}
func (l *localWrap) saw(id string) bool { l.mu.Lock(); defer l.mu.Unlock(); return l.seen[id] }

// scriptAuth: session ids s001, s002, ... in connect order; the username is the mount point
// ("" = default); password "bad" is refused the way the file handler refuses (zero Principal + error),
// password "bad-static" the way the static handler does (failed mount point + error).
type scriptAuth struct{ n *int64 }

func (a scriptAuth) Authenticate(ctx context.Context, m auth.ApplicationContext, t auth.TransportContext) (auth.Principal, error) {
	switch string(m.Password) {
	case "bad":
		return auth.Principal{}, auth.ErrAuthenticationFailed
	case "bad-static":
		return auth.Principal{ID: "refused", MountPoint: auth.AuthenticationFailedMountPoint}, auth.ErrAuthenticationFailed
	}
	mp := string(m.Username)
	if mp == "" {
		mp = auth.DefaultMountPoint
	}
	return auth.Principal{ID: fmt.Sprintf("s%03d", atomic.AddInt64(a.n, 1)), MountPoint: mp}, nil
}

type e2eNode struct {
	idx    int
	id     uint64
	ctx    context.Context
	dir    string
	mgr    wasp.Manager
	dstate distributed.State
	bcast  *memberlist.TransmitLimitedQueue
	local  *localWrap
	log    *logWrap
	ww     *writerWrap
	rawW   wasp.Writer
	taps   *countingTaps
	q      *queueWrap
	mm     wasp.NodeMemberManager
	queued int64 // publishes handed to the publish workers of this node
	out    [][]byte // broadcasts drained so far
	bseq   int
	race   *raceState // what the connection manager sees of the replicated state
}

// raceState hands the connection manager the node's replicated state with one addition: a one-shot
// hook that runs right after the next ByClientID lookup has returned - the point in setup between
// "which session owns this client identifier" and "remove it, create mine". A script uses it to
// let the owning session end (its DISCONNECT processed to completion) exactly there. Nothing is
// altered: every call goes to the real state.
type raceState struct {
	distributed.State
	mu   sync.Mutex
	hook func()
}

func (r *raceState) arm(f func()) { r.mu.Lock(); r.hook = f; r.mu.Unlock() }
func (r *raceState) take() func() {
	r.mu.Lock()
	defer r.mu.Unlock()
	f := r.hook
	r.hook = nil
	return f
}
func (r *raceState) SessionMetadatas() distributed.SessionMetadatasState {
	return raceSessions{SessionMetadatasState: r.State.SessionMetadatas(), r: r}
}

type raceSessions struct {
	distributed.SessionMetadatasState
	r *raceState
}

func (s raceSessions) ByClientID(mountPoint, id string) (api.SessionMetadatas, error) {
	m, err := s.SessionMetadatasState.ByClientID(mountPoint, id)
	if f := s.r.take(); f != nil {
		f()
	}
	return m, err
}

type e2eCluster struct {
	ctx      context.Context
	cancel   context.CancelFunc
	nodes    []*e2eNode
	byID     map[uint64]*e2eNode
	conns    map[uint64]*grpc.ClientConn
	down     map[uint64]bool
	mu       sync.Mutex
	calls    []string // "src dst ok"
	badCalls int64    // inter-node calls that failed, ever
	sessN    int64
	baseDist uint64
	curClock int64
	stalled  bool // a wait timed out once: the rest of the case runs with short waits
	srvs     []*grpc.Server
}

func (c *e2eCluster) transportFor(src uint64) *e2eTransport { return &e2eTransport{c: c, src: src} }

type e2eTransport struct {
	c   *e2eCluster
	src uint64
}

func (t *e2eTransport) Call(id uint64, f func(*grpc.ClientConn) error) error {
	t.c.mu.Lock()
	down := t.c.down[id]
	cc := t.c.conns[id]
	t.c.mu.Unlock()
	var err error
	if down || cc == nil {
		err = errors.New("unreachable")
	} else {
		err = f(cc)
	}
	t.c.mu.Lock()
	if err != nil {
		t.c.badCalls++
	}
	t.c.calls = append(t.c.calls, fmt.Sprintf("%d %d %v", t.src, id, err == nil))
	t.c.mu.Unlock()
	return err
}

func histCount(h interface{ Write(*dto.Metric) error }) uint64 {
	m := &dto.Metric{}
	h.Write(m)
	return m.GetHistogram().GetSampleCount()
}

func newE2ECluster(ids []uint64) *e2eCluster {
	ctx, cancel := context.WithCancel(context.Background())
	ctx = wasp.StoreLogger(ctx, zap.NewNop())
	c := &e2eCluster{ctx: ctx, cancel: cancel, byID: map[uint64]*e2eNode{}, conns: map[uint64]*grpc.ClientConn{}, down: map[uint64]bool{}}
	c.baseDist = histCount(stats.PublishDistributionTime)
	distributed.SetClockForVerif(func() int64 { return atomic.LoadInt64(&c.curClock) })
	for i, id := range ids {
		dir, err := os.MkdirTemp("", "waspe2e")
		if err != nil {
			panic(err)
		}
		l, err := messages.New(dir)
		if err != nil {
			panic(err)
		}
		n := &e2eNode{idx: i, id: id, ctx: ctx, dir: dir}
		n.log = &logWrap{Log: l}
		n.bcast = &memberlist.TransmitLimitedQueue{RetransmitMult: 1, NumNodes: func() int { return 1 }}
		n.local = &localWrap{LocalState: wasp.NewState(id), seen: map[string]bool{}}
		n.dstate = distributed.NewState(id, n.bcast, audit.NoneRecorder())
		dist := &wasp.PublishDistributor{ID: id, State: n.dstate.Subscriptions(), Storage: n.log, Logger: zap.NewNop(), Transport: c.transportFor(id)}
		n.q = &queueWrap{Queue: ack.NewQueue(), queued: &n.queued}
		w := wasp.NewWriter(id, n.dstate.Subscriptions(), n.local, n.q)
		n.rawW = w
		n.ww = &writerWrap{Writer: w}
		n.taps = &countingTaps{}
		go wasp.SchedulePublishes(id, n.ww, n.log)(ctx)
		go w.Run(ctx, n.log)
		pp := &ppWrap{PacketProcessor: wasp.NewPacketProcessor(n.local, n.dstate, n.ww, n.taps, dist, n.q), queued: &n.queued}
		go pp.Run(ctx)
		n.race = &raceState{State: n.dstate}
		n.mgr = wasp.NewConnectionManager(scriptAuth{&c.sessN}, n.local, n.race, n.ww, pp, n.q)
		go n.mgr.Run(ctx)
		n.mm = wasp.NewNodeMemberManager(id, n.log, n.dstate)
		lis := bufconn.Listen(1 << 20)
		srv := grpc.NewServer()
		wasp.NewMQTTServer(n.dstate, n.local, n.log, dist, nil).Serve(srv)
		go srv.Serve(lis)
		c.srvs = append(c.srvs, srv)
		cc, err := grpc.DialContext(ctx, "bufnet", grpc.WithContextDialer(func(context.Context, string) (net.Conn, error) { return lis.Dial() }), grpc.WithInsecure())
		if err != nil {
			panic(err)
		}
		c.conns[id] = cc
		c.nodes = append(c.nodes, n)
		c.byID[id] = n
	}
	return c
}

func (c *e2eCluster) stop() {
	c.cancel()
	for _, s := range c.srvs {
		s.Stop()
	}
	time.Sleep(5 * time.Millisecond)
	for _, n := range c.nodes {
		n.log.Close()
		os.RemoveAll(n.dir)
	}
}

func (n *e2eNode) drain() {
	for {
		msgs := n.bcast.GetBroadcasts(0, 1<<30)
		if len(msgs) == 0 {
			return
		}
		n.out = append(n.out, msgs...)
	}
}

// sync: every publish handed to a worker has been distributed, every appended entry scheduled,
// every writer queue drained. Returns "" or a description of what timed out.
func (c *e2eCluster) wait() time.Duration {
	if c.stalled {
		return 150 * time.Millisecond
	}
	return 12 * time.Second
}

func (c *e2eCluster) sync(faultHit bool) string {
	deadline := time.Now().Add(c.wait())
	for {
		var started, queued uint64
		ok := true
		for _, n := range c.nodes {
			started += uint64(atomic.LoadInt64(&n.taps.started))
			queued += uint64(atomic.LoadInt64(&n.queued))
		}
		done := histCount(stats.PublishDistributionTime) - c.baseDist
		if started != done || started < queued {
			ok = false
		}
		for _, n := range c.nodes {
			if n.log.appendedCount() != atomic.LoadInt64(&n.ww.scheduled) {
				ok = false
			}
		}
		if ok {
			break
		}
		if time.Now().After(deadline) {
			c.stalled = true
			return fmt.Sprintf("sync timeout: queued=%d started=%d distributed=%d", queued, started, done)
		}
		time.Sleep(200 * time.Microsecond)
	}
	for _, n := range c.nodes {
		n.bseq++
		id := fmt.Sprintf("\x00barrier%d", n.bseq)
		n.rawW.Send(c.ctx, []string{id}, []int32{0}, &packet.Publish{Header: &packet.Header{}, Topic: []byte("_/barrier")})
		dl := time.Now().Add(c.wait())
		for !n.local.saw(id) {
			if time.Now().After(dl) {
				c.stalled = true
				return "writer queue not drained"
			}
			time.Sleep(100 * time.Microsecond)
		}
	}
	// the barrier is the last item: everything queued before it has been written. A second round
	// covers items enqueued by what the first round wrote (none in this code base, but cheap).
	return ""
}

var _ = transport.Metadata{}

// storeFailures: failed appends and failed inter-node calls so far (an acknowledgement is withheld exactly when one happened)
func (c *e2eCluster) storeFailures() int64 {
	c.mu.Lock()
	n := c.badCalls
	c.mu.Unlock()
	for _, nd := range c.nodes {
		n += nd.log.failedCount()
	}
	return n
}
