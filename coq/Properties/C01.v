(** C01 — A publish reaches exactly the sessions whose filters match its topic.
    Statements only; proofs are [exact]s of lemmas under Proofs/. *)
From Wasp Require Import Model.Base Model.Trie Spec.MatchSpec Proofs.BaseFacts Proofs.TrieFacts Proofs.StoreRefine.
From stdpp Require Import list sets strings.

(** For every well-formed subscription trie (in particular every trie reachable by any
    history of Upserts: [run_wf]) and every topic without a '#' level, Walk reports exactly
    the data stored at the paths that MQTT-match the topic, each once. *)
Theorem walk_matches : ∀ ls, topic_ok ls = true → ∀ n, wf n → walk ls n = sel ls (entries n).
Proof. exact walk_sel. Qed.
Print Assumptions walk_matches.

Theorem reachable_tries_wf : ∀ ops, wf (run ops).
Proof. exact run_wf. Qed.
Print Assumptions reachable_tries_wf.

(** In terms of the history: after ANY list of Upserts (subscribe, unsubscribe, re-subscribe in
    any order), the non-empty data a Walk for topic [t] reports are, up to order, the values
    currently stored under exactly those filter strings [f] with [mmatch (levels f) (levels t)].
    Since [spec_run] is a plain map, two histories leading to the same active set give the
    same result. *)
Theorem walk_history_spec : ∀ ops ks t, NoDup ks → touched ops ⊆ ks → topic_ok (levels t) = true →
  filter (λ v, nonempty v = true) (walk (levels t) (run ops)) ≡ₚ
  filter (λ v, nonempty v = true) (map (spec_run ops) (filter (λ f, mmatch (levels f) (levels t) = true) ks)).
Proof. exact walk_spec. Qed.
Print Assumptions walk_history_spec.

(** Whether the entry stored for filter [f] is reported depends on [f] and the topic alone. *)
Theorem match_independent : ∀ ops t f, topic_ok (levels t) = true →
  spec_run ops f ≠ "" → (∀ f', spec_run ops f' = spec_run ops f → f' = f) →
  (spec_run ops f ∈ walk (levels t) (run ops) ↔ mmatch (levels f) (levels t) = true).
Proof. exact walk_member. Qed.
Print Assumptions match_independent.

From Wasp Require Import Model.DState Model.IdPool Model.Mount Model.Node Proofs.NodeFacts.
(** In the node: a log entry is written once per recipient entry (one per matching added
    subscription whose peer is this node) whose session is in the local registry, with the
    subscription's QoS and the mount point trimmed, and to no other connection. *)
Theorem deliver_exact : ∀ bad recips n m, Forall (λ rq : string * Z, rq.2 = 0%Z) recips →
  send bad n recips m = (n, flat_map (q0_out bad n m) recips).
Proof. exact send_q0_exact. Qed.
Print Assumptions deliver_exact.
Theorem deliver_to_no_other : ∀ bad recips n m o, o ∈ (send bad n recips m).2 →
  ∃ r q s mid, (r, q) ∈ recips ∧ alookup r (n_reg n) = Some s ∧
    o = Out (ss_conn s) (OPublish (trim_mp (ss_mp s) (l_topic m)) (l_payload m) q (l_retain m) (l_dup m) mid).
Proof. exact send_only_recipients. Qed.
Print Assumptions deliver_to_no_other.

From Wasp Require Import Proofs.DStateFacts Proofs.RouteFacts.
(** The replicated subscription store (what Distribute and the writer consult): ByPattern(topic)
    returns exactly the entries that are stored, currently added, and whose OWN filter matches the
    topic under MQTT rules — membership of an entry depends on that entry and the topic and on
    nothing else in the store — and returns none of them twice.  [subs_ok] is the store's
    invariant (kept by every operation and merge: C09's [dok]). *)
Theorem by_pattern_exact : ∀ d topic u, subs_ok (d_subs d) →
  (u ∈ sub_by_pattern d topic ↔
   abs_subs (d_subs d) (sub_key u) = Some u ∧ sub_added u = true ∧ mmatch (levels (s_pattern u)) (levels topic) = true).
Proof. exact by_pattern_spec. Qed.
Print Assumptions by_pattern_exact.
Theorem by_pattern_once : ∀ d topic, subs_ok (d_subs d) → base.NoDup (map sub_key (sub_by_pattern d topic)).
Proof. exact by_pattern_nodup. Qed.
Print Assumptions by_pattern_once.

(** non-vacuity and the MQTT 3.1.1 examples (section 4.7.1.2 / 4.7.1.3) *)
Example mmatch_examples :
  map (λ ft, mmatch (levels ft.1) (levels ft.2))
    [("sport/tennis/player1/#", "sport/tennis/player1"); ("sport/tennis/player1/#", "sport/tennis/player1/ranking");
     ("sport/#", "sport"); ("#", "a/b"); ("sport/tennis/+", "sport/tennis/player1"); ("sport/tennis/+", "sport/tennis/player1/ranking");
     ("sport/+", "sport"); ("sport/+", "sport/"); ("+/+", "/finance"); ("/+", "/finance"); ("+", "/finance");
     ("a/#/b", "a/x/b"); ("a/", "a"); ("a", "a/")]
  = [true; true; true; true; true; false; false; true; true; true; false; false; false; false].
Proof. vm_compute. done. Qed.
Example c01_history :
  let ops := [Up "a/#" (λ _, "s1"); Up "a/+" (λ _, "s2"); Up "b" (λ _, "s3"); Up "a/+" (λ _, ""); Up "/+" (λ _, "s4")] in
  ssort (filter nonempty (walk (levels "a") (run ops))) = ["s1"]
  ∧ ssort (filter nonempty (walk (levels "a/x") (run ops))) = ["s1"]
  ∧ ssort (filter nonempty (walk (levels "/x") (run ops))) = ["s4"].
Proof. vm_compute. done. Qed.

From Wasp Require Import Proofs.Qos2Facts Proofs.StepFacts.
(** The step as a whole.  From every cluster state in which the log consumers have caught up
    ([quiescent]) and nothing is failing ([healthy]), a QoS 0/1 PUBLISH from a live session makes
    the cluster produce: Distribute's appends and calls, the acknowledgement, the keep-alive
    re-arm, and then, node by node, exactly what that node's writer sends for this one log entry
    to the recipients ByPattern names there — for the nodes that are among the publisher's
    destinations, and nothing for any other node.  Which entries ByPattern names is
    [by_pattern_exact]; what [send] writes per recipient is [deliver_exact] /
    [deliver_to_no_other] (and C02's [qos_recipient_is_written]).  The second statement spells the
    composition out for QoS 0 subscriptions: one PUBLISH per matching added subscription hosted on
    that node whose session is registered there, on that session's connection, and nothing else. *)
Theorem publish_step_writes_exactly : ∀ seen cl c k s p dup mid clk,
  find_conn cl c = Some k → c_closed k = false → c_sid k = Some (ss_id s) →
  alookup (ss_id s) (n_reg (getn cl (c_node k))) = Some s →
  quiescent cl → healthy cl → p_retain p = false → (p_qos p = 0 ∨ p_qos p = 1)%Z →
  let i := c_node k in
  let m := LMsg (prefix_mp (ss_mp s) (p_topic p)) (p_payload p) (p_qos p) false dup in
  Forall (λ d, 1 ≤ d)%Z (dests_of cl i m) →
  ∃ stores, quiet (λ x, negb (is_store x)) stores ∧
    (step seen cl (EPublish c p dup mid clk)).2 =
      (stores ++ (if (p_qos p =? 1)%Z then wout (cl_bad cl) c (OPubAck mid) else []) ++ dl s ++
       flat_map (λ j, if dest_here cl i m j then deliveries (cl_bad cl) (app_node (getn cl j) m) m else []) (seq 0 (nlen cl)))%list.
Proof. exact publish_step_spec. Qed.
Print Assumptions publish_step_writes_exactly.

Theorem publish_step_writes_exactly_q0 : ∀ seen cl c k s p dup mid clk,
  find_conn cl c = Some k → c_closed k = false → c_sid k = Some (ss_id s) →
  alookup (ss_id s) (n_reg (getn cl (c_node k))) = Some s →
  quiescent cl → healthy cl → p_retain p = false → (p_qos p = 0 ∨ p_qos p = 1)%Z →
  let i := c_node k in
  let m := LMsg (prefix_mp (ss_mp s) (p_topic p)) (p_payload p) (p_qos p) false dup in
  Forall (λ d, 1 ≤ d)%Z (dests_of cl i m) →
  (∀ j u, (j < nlen cl)%nat → u ∈ sub_by_pattern (n_d (getn cl j)) (l_topic m) → s_qos u = 0%Z) →
  ∃ stores, quiet (λ x, negb (is_store x)) stores ∧
    (step seen cl (EPublish c p dup mid clk)).2 =
      (stores ++ (if (p_qos p =? 1)%Z then wout (cl_bad cl) c (OPubAck mid) else []) ++ dl s ++
       flat_map (λ j, if dest_here cl i m j
                      then flat_map (q0_out (cl_bad cl) (getn cl j) m) (local_recips (getn cl j) (l_topic m)) else [])
                (seq 0 (nlen cl)))%list.
Proof. exact publish_step_q0_exact. Qed.
Print Assumptions publish_step_writes_exactly_q0.

(** the premises are met by a reachable two-node state, and the step then writes what it should:
    one copy per matching filter of the subscriber on the other node, none for "b" *)
Example publish_step_premises_hold :
  let ops := [EConnect 1%nat "sub" "c-sub" "" "" 60%Z None 10%Z; ESubscribe "sub" 1%Z [("a/#", 0%Z); ("a/+", 0%Z); ("b", 0%Z)] 20%Z;
              EGossip 1%nat 0%nat; EConnect 0%nat "pub" "c-pub" "" "" 60%Z None 30%Z] in
  let cl := fold_left (λ st o, (step [] st o).1) ops (cnew 2%nat) in
  quiescent cl ∧ healthy cl ∧
  (∃ k s, find_conn cl "pub" = Some k ∧ c_closed k = false ∧ alookup "s002" (n_reg (getn cl (c_node k))) = Some s ∧ c_sid k = Some (ss_id s) ∧
          dests_of cl (c_node k) (LMsg (prefix_mp (ss_mp s) "a/x") "hello" 1%Z false false) = [2%Z]) ∧
  (step [] cl (EPublish "pub" (Publish "a/x" "hello" 1%Z false false) false 7%Z 40%Z)).2 =
    [Appended 1%nat "_default/a/x" "hello" 1%Z false; Call 0%nat 1%nat true; Out "pub" (OPubAck 7%Z); Deadline "pub" 120000%Z;
     Out "sub" (OPublish "a/x" "hello" 0%Z false false 0%Z); Out "sub" (OPublish "a/x" "hello" 0%Z false false 0%Z)].
Proof.
  cbv zeta. split; [|split; [|split]].
  - intros [|[|j]] Hj; [vm_compute; done..|]. vm_compute in Hj. lia.
  - split; [vm_compute; done|]. intros [|[|[|j]]]; vm_compute; done.
  - eexists _, _. vm_compute. repeat split; reflexivity.
  - vm_compute. done.
Qed.
