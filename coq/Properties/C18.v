(** C18 — No client input can crash the broker or stall other clients.
    PARTIAL (see DESIGN.md): the MQTT decoder is a dependency outside the repository; here it is a
    parameter with three outcomes (packet / error / panic).  What is proved is about wasp's own
    code as modelled: whatever the decoder makes of a client's bytes, the per-connection step
    either continues or ends that one session, and ending a session - the only effect a hostile
    or failing connection can have - touches nothing that belongs to another session.  Memory
    and latency stalls (a 256 MiB remaining length is allocated before any read; 20 set-up
    workers can each be held for the 3 s CONNECT deadline) are runtime behaviour the model cannot
    exhibit; the harness bounds lengths and does not measure them. *)
From Wasp Require Import Model.Base Spec.MatchSpec Model.DState Model.IdPool Model.Mount Model.Node Proofs.BaseFacts Proofs.Lww Proofs.DStateFacts Proofs.NodeFacts.
From stdpp Require Import list strings.
Open Scope Z_scope.

Section Containment.
  (** the decoder: any function from a client's bytes to packet / error / panic *)
  Inductive dres := DPacket (o : eop) | DError | DPanic.
  Variable decode : list N → dres.
  (* processSession with its recover (F19): a decoded packet is processed; an error and a panic
     both end the session uncleanly; nothing else can happen *)
  Definition conn_step (seen : seen_t) (cl : cluster) (c : string) (bytes : list N) (clk : Z) : cluster * list eobs :=
    match decode bytes with
    | DPacket o => step seen cl o
    | DError | DPanic => step seen cl (EProtoError c clk)
    end.
  (** the broker's per-connection step is total and its result is a step of the model: there is
      no outcome "broker crashed" *)
  Theorem conn_contains_failures : ∀ seen cl c bytes clk,
    ∃ o, conn_step seen cl c bytes clk = step seen cl o.
  Proof. intros. unfold conn_step. destruct (decode bytes); eexists; reflexivity. Qed.
End Containment.
Print Assumptions conn_contains_failures.

(** ending a session - for whatever cause - leaves every other session's registry entry, the
    node's in-flight table, identifier pool, message log, retained store and ALL session
    records as they were, and tombstones only subscriptions keyed by its own session id *)
Theorem hostile_noninterference_registry : ∀ cl i s clk r, r ≠ ss_id s →
  alookup r (n_reg (after_unsub cl i s clk)) = alookup r (n_reg (getn cl i)).
Proof. exact end_spares_other_sessions. Qed.
Print Assumptions hostile_noninterference_registry.
Theorem hostile_noninterference_state : ∀ cl i s clk, let n' := after_unsub cl i s clk in let n := getn cl i in
  n_acks n' = n_acks n ∧ n_pool n' = n_pool n ∧ n_log n' = n_log n ∧ n_coff n' = n_coff n ∧ d_ret (n_d n') = d_ret (n_d n)
  ∧ d_sess (n_d n') = d_sess (n_d n).
Proof. exact end_spares_node_state. Qed.
Print Assumptions hostile_noninterference_state.
Theorem hostile_noninterference_subscriptions : ∀ cl i s clk pat sid, subs_wf (d_subs (n_d (getn cl i))) → sid ≠ ss_id s →
  abs_subs (d_subs (n_d (after_unsub cl i s clk))) (pat, sid) = abs_subs (d_subs (n_d (getn cl i))) (pat, sid).
Proof. exact end_spares_other_subscriptions. Qed.
Print Assumptions hostile_noninterference_subscriptions.
(** and only a cause closes a connection (C11's theorem): a hostile client cannot make the broker drop anyone else *)
Theorem only_the_offender_is_dropped : ∀ seen cl o c, Closed c ∈ (step seen cl o).2 → may_close o = true.
Proof. exact closed_needs_cause. Qed.
Print Assumptions only_the_offender_is_dropped.

Example c18_history :
  let run := fold_left (λ st o, let r := step [] st.1 o in (r.1, (st.2 ++ [r.2])%list)) in
  let ops := [EConnect 0%nat "w" "cw" "" "" 60 None 10; ESubscribe "w" 1 [("#", 0)] 20;
              EConnect 0%nat "v" "cv" "" "" 60 (Some (Publish "will" "dead" 0 false false)) 30;
              EBadConnect 0%nat "h"; EProtoError "v" 40; EPublish "w" (Publish "x" "alive" 0 false false) false 0 50] in
  let o := (run ops (cnew 1%nat, [])).2 in
  nth 3%nat o [] = [Closed "h"]
  ∧ nth 4%nat o [] = [Closed "v"; Appended 0%nat "_default/will" "dead" 0 false; Out "w" (OPublish "will" "dead" 0 false false 0)]
  ∧ nth 5%nat o [] = [Appended 0%nat "_default/x" "alive" 0 false; Deadline "w" 120000; Out "w" (OPublish "x" "alive" 0 false false 0)].
Proof. vm_compute. done. Qed.
