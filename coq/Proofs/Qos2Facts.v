(** C05: a PUBREL for a pending inbound QoS 2 PUBLISH hands exactly that stored publish to the
    publish path once, with PUBCOMP as its acknowledgement, and takes the handshake out of the
    in-flight table — so a repeated PUBREL finds nothing ([stray_pubrel_forwards_nothing]). *)
From Wasp Require Import Model.Base Spec.MatchSpec Model.DState Model.IdPool Model.Mount Model.Node
  Proofs.BaseFacts Proofs.NodeFacts.
From stdpp Require Import list strings.
From Coq Require Import ZArith Lia.
Open Scope Z_scope.

(* the publish path never touches any node's in-flight table *)
Lemma set_nth_nth {A} (i j : nat) (x d : A) l : nth j (set_nth i x l) d = if Nat.eqb i j && Nat.ltb i (length l) then x else nth j l d.
Proof.
  revert i j. induction l as [|y l IH]; intros i j; cbn.
  - destruct i, j; cbn; try done; by rewrite andb_false_r.
  - destruct i, j; cbn; try done. apply IH.
Qed.
Lemma acks_setn cl i n j : n_acks n = n_acks (getn cl i) → n_acks (getn (setn cl i n) j) = n_acks (getn cl j).
Proof.
  intros H. unfold getn, setn. cbn. rewrite set_nth_nth. destruct (Nat.eqb_spec i j) as [->|]; [|done].
  destruct (Nat.ltb j (length (cl_nodes cl))); cbn; [exact H|done].
Qed.
Lemma append_at_acks cl i m j : n_acks (getn (append_at cl i m).1.1 j) = n_acks (getn cl j).
Proof. unfold append_at. destruct (n_fail (getn cl i)); cbn [fst]; by apply acks_setn. Qed.
Lemma distribute_acks cl i m j : n_acks (getn (distribute cl i m).1.1 j) = n_acks (getn cl j).
Proof.
  unfold distribute. generalize (dedup (map s_peer (sub_by_pattern (n_d (getn cl i)) (l_topic m)))). intros dests.
  assert (Hf : ∀ (acc : cluster * list eobs * bool),
    n_acks (getn (fold_left (λ acc dst, let '(c, o, failed) := acc in
      let jj := node_index c dst in
      if Nat.eqb jj i then let '(c', o', ok) := append_at c i m in (c', (o ++ o')%list, failed || negb ok)
      else if is_down c jj then (c, (o ++ [Call i jj false])%list, true)
      else let '(c', o', ok) := append_at c jj m in (c', (o ++ o' ++ [Call i jj ok])%list, failed || negb ok)) dests acc).1.1 j)
    = n_acks (getn acc.1.1 j)).
  { induction dests as [|d ds IH]; intros [[c o] f]; cbn [fold_left]; [done|]. rewrite IH. cbn [fst].
    destruct (Nat.eqb (node_index c d) i).
    - pose proof (append_at_acks c i m j). by destruct (append_at c i m) as [[c' o'] ok].
    - destruct (is_down c (node_index c d)); [done|].
      pose proof (append_at_acks c (node_index c d) m j). by destruct (append_at c (node_index c d) m) as [[c' o'] ok]. }
  apply (Hf (cl, [], false)).
Qed.
Lemma worker_acks cl i m retain clk ackp j : n_acks (getn (worker cl i m retain clk ackp).1 j) = n_acks (getn cl j).
Proof.
  unfold worker. set (n1 := if retain then _ else _).
  assert (H1 : n_acks n1 = n_acks (getn cl i)). { unfold n1. destruct retain; [|done]. by destruct (String.eqb _ _). }
  pose proof (distribute_acks (setn cl i n1) i m j) as H2. destruct (distribute (setn cl i n1) i m) as [[c2 o] failed]. cbn [fst] in *.
  rewrite H2. by apply acks_setn.
Qed.

Lemma find_filter_none {A} (P : A → bool) l : List.find P (List.filter (λ x, negb (P x)) l) = None.
Proof. induction l as [|a l IH]; cbn; [done|]. destruct (P a) eqn:E; cbn; [done|]. by rewrite E. Qed.

Theorem pubrel_forwards_once cl c mid clk k s e c' m retain :
  (c_node k < length (cl_nodes cl))%nat →
  find_conn cl c = Some k → c_closed k = false → c_sid k = Some (ss_id s) →
  alookup (ss_id s) (n_reg (getn cl (c_node k))) = Some s →
  ack_find (n_acks (getn cl (c_node k))) (ss_id s ++ "/in") mid = Some e →
  a_expect e = PUBREL → a_tag e = TIn (ss_id s) c' m retain → a_mid e = mid →
  let n := getn cl (c_node k) in
  let cl' := setn cl (c_node k) (set_acks n (ack_remove (n_acks n) (ss_id s ++ "/in") mid)) in
  let w := worker cl' (c_node k) m retain clk (wout (cl_bad cl) c' (OPubComp mid)) in
  do_ack cl c PUBREL mid clk = (w.1, w.2 ++ dl s) ∧
  ack_find (n_acks (getn w.1 (c_node k))) (ss_id s ++ "/in") mid = None.
Proof.
  intros Hlen Hk Hc Hs Hreg Hfind Hexp Htag Hmid n cl' w. split.
  - unfold do_ack, with_session. rewrite Hk, Hc, Hs, Hreg. cbn [Z.eqb PUBREL Pos.eqb]. rewrite Hfind, Hexp. cbn [Z.eqb PUBREL Pos.eqb].
    unfold on_outcome. cbn [a_tag set_acks]. rewrite Htag, Hmid. cbn [app]. done.
  - unfold w. rewrite worker_acks. unfold cl'. rewrite getn_setn by done. cbn [n_acks set_acks].
    unfold ack_find, ack_remove. apply (find_filter_none (λ e0, akey_eq e0 (ss_id s ++ "/in") mid)).
Qed.
