"""Per-property configuration of bin/check: which theorems must be present in
coq/Properties/<id>.v, which harness families are run (name, Corr module, (mode, n_quick,
n_thorough) runs), and the texts that go into the evidence file."""

ALLOWED_AXIOMS = []   # the development is closed under the global context

TRUSTED_BASE = [
    'Coq 8.16.1 kernel, coqc, vm_compute (no native_compute); coqchk in the thorough tier',
    'no axioms: every theorem prints "Closed under the global context"',
    'the hand-written Gallina model under coq/Model is tied to /repo by the correspondence check only: '
    'Go harness /verif/harness (rebuilt from /repo with -tags verif on every run), its Gallina emitter, '
    'the evaluators under coq/Corr, canonicalisation (sorting of map-ordered output)',
]

PROPS = {}

PROPS['C19'] = dict(
    level_text='Theorems (Coq, closed under the global context) state that after ANY history of Upsert/Insert/Remove both tries hold at every topic string exactly what a plain map holds, that Iterate/Count report exactly the non-empty values and that an exact query returns that value; the model is tied to the Go code by exhaustive small-scope and seeded random operation histories with Dump/Load at every position, evaluated by model, oracle and implementation.',
    level_note='Trusted: Coq kernel + vm_compute; harness/emitter/evaluator; protobuf round trip assumed for load_dump_id (real Dump/Load exercised by the harness).',
    theorems=['store_refines_map', 'other_keys_untouched', 'topic_strings_are_distinct_paths', 'insert_reports_old',
              'remove_fails_only_on_absent', 'iterate_reports_nonempty', 'count_reports_nonempty', 'match_spec',
              'load_dump_id'],
    families=[dict(name='tries', corr='Tries', runs=[('x19', 1, 1), ('r19', 400, 6000)])],
    rule='x19: every sequence of <=3 (quick) / <=4 (thorough) insert/remove/upsert operations over the keys '
         'a, a/b, a/b/c, a/c, b with a Dump/Load inserted at every position, followed by exact queries on all five '
         'keys, Count and Iterate; random: 1-14 operations over 1-4 (every fifth case 1-8) levels drawn from '
         '{a,b,c,dev,"",+,#} with revisits of earlier keys, removals, Dump/Load, then 5 queries. A case is non-trivial '
         'when it has at least one mutation and one query; distinct = distinct input.',
    trusted=['protobuf Marshal/Unmarshal of the node tree is assumed to round-trip (section hypothesis of load_dump_id); '
             'the real Dump/Load is exercised by the harness at every position'],
    assumptions=['[]byte nil and empty are identified (the Go code only tests len)'],
)

PROPS['C01'] = dict(
    level_text='Theorems state that on every trie reachable by any subscribe/unsubscribe history a Walk reports exactly the data stored under the filters that MQTT-match the topic (mmatch), independent of the other filters; the Go trie is tied to the model exhaustively for <=3/4 levels over {a,b,c,+,#,""} and by seeded histories. Over the whole step (Proofs/StepFacts.v): from every quiescent, fault-free cluster state a QoS 0/1 PUBLISH yields Distribute\'s appends, the acknowledgement, the keep-alive re-arm and then, node by node, exactly the writer\'s sends for that log entry to the local ByPattern recipients of the publisher\'s destination nodes, and nothing else.',
    level_note='Trusted: Coq kernel + vm_compute; harness/emitter/evaluator. Topics with a # level are outside the theorem (MQTT forbids them in PUBLISH).',
    theorems=['walk_matches', 'reachable_tries_wf', 'walk_history_spec', 'match_independent', 'deliver_exact', 'deliver_to_no_other', 'by_pattern_exact', 'by_pattern_once', 'publish_step_writes_exactly', 'publish_step_writes_exactly_q0'],
    families=[dict(name='tries', corr='Tries', runs=[('x01', 1, 1), ('rsub', 300, 5000)]),
              dict(name='crdt', corr='DState', runs=[('subs', 200, 3000)]),
              dict(name='broker', corr='Broker', runs=[('route', 40, 500), ('pipeline', 24, 300)], par=8)],
    rule='x01: every filter of <=3 (quick) / <=4 (thorough) levels over {a,b,c,+,#,""} against every topic of the same '
         'depth over {a,b,c,""}, once with all filters in one tree and once with each filter alone in a fresh tree; '
         'random: subscribe/unsubscribe/re-subscribe histories as for C19. Non-trivial: >=1 mutation and >=1 query.',
    assumptions=['PUBLISH topics carry no "#" level (topic_ok); for such topics the oracle is skipped'],
)

NOT_APPLICABLE = {}

PROPS['C06'] = dict(
    theorems=['pool_invariant', 'get_unique_or_exhausted', 'get_removes_exactly_v', 'put_frees_exactly_x', 'inflight_identifiers_unique_and_never_leak'],
    families=[dict(name='idpool', corr='IdPool', runs=[('bfs', 1, 1), ('random', 120, 2000)]),
              dict(name='broker', corr='Broker', runs=[('acks', 32, 400)], par=8)],
    level_text='Theorems: in every state reachable by any Get/Put history the free-interval list is sorted, disjoint, in range and denotes exactly the range minus the outstanding identifiers; Get returns a free in-range identifier or reports exhaustion iff none is free; Put frees exactly the given in-range identifier and is a no-op otherwise. At node level (Proofs/IdsFacts.v): in every cluster state reachable by any history of client packets, connection events, sweeps, gossip and peer failures, the identifiers of the outbound in-flight entries of each node are pairwise distinct, lie in 1..65535, and an identifier of that range is free in the pool exactly when no entry holds it; the identifier the writer picks next differs from all of them. The model is compared with the Go pool on every transition of every reachable state of small ranges and on seeded histories of the production range, including the interval list after every call and panics.',
    level_note='Trusted: Coq kernel + vm_compute; harness (verif hook exposing the unexported pool), emitter, evaluator. The model follows Put\'s case analysis as a structural recursion, not statement by statement: absence of panics in the Go code is observed by the harness (recover), not proved. The exhaustion marker -1 requires min >= 0 (wasp uses 0).',
    rule='bfs: breadth-first enumeration of all reachable free-list states for ranges [0,3],[1,4],[0,4] (thorough: also [1,6],[0,6]); every Get and every Put x, x in [min-1,max+1], from every state is one case (the path to the state plus the transition); random: 150-400 calls on 0..65535 and on small ranges with 10% free/unknown and 10% out-of-range releases. Non-trivial: at least one Get and one Put.',
    assumptions=['int32 arithmetic does not overflow for ranges within 0..65535'],
)

PROPS['C04'] = dict(
    theorems=['ackqueue_refines_spec', 'at_most_one_outcome', 'outcome_fires', 'outcome_only', 'expiry_window', 'duplicate_rejected', 'isolation', 'entry_evolves_alone'],
    level_text='Theorems: the implementation model of ack.Queue over the bucketed timeout list refines, step for step and for every register/acknowledge/sweep history, a one-map specification (same return codes, same callbacks in the same order); on that specification every registration is reported at most once, exactly when a matching acknowledgement or a sweep past its rounded deadline occurs, duplicates are rejected without effect, and the fate of a key depends only on the operations on that key and the sweeps (isolation). The Go queue is compared with model and specification on exhaustive small histories and seeded random ones (return codes and callback order).',
    level_note='Trusted: Coq kernel + vm_compute; harness/emitter/evaluator. Modelled: heap+map of buckets as a sorted list, lock-free hash as an association list; time.Time as nanoseconds (one Location). Concurrent use is C20. expiration/skiplist.go (unwired) is not modelled.',
    families=[dict(name='ackqueue', corr='AckQueue', runs=[('exhaustive', 1, 1), ('random', 800, 12000)])],
    rule='exhaustive: every sequence of <=3 (quick) / <=4 (thorough) operations drawn from 13 register/acknowledge/sweep operations over a 2x2 key space with two deadlines in the same second and one in the next, closed by a final sweep; random: 1-40 operations over 3 sessions x 4 identifiers, deadlines on a 250 ms grid around a slowly advancing clock (equal, same-second, past and future deadlines, +-1 ns offsets), 15% wrong packet types, unknown identifiers, identifier 0, QoS 0, non-acknowledgement packets. Non-trivial: >=2 registrations and >=1 callback.',
)

_CRDT_RULE = ('perm: every set of <=3 (quick) / <=4 (thorough) updates from a pool of 12 per store (2 keys x 3 timestamps x {add, remove}) '
              'injected into three fresh replicas in order, in every other order with one element duplicated, and as one batch; '
              'bcast: one origin with an increasing clock performing 5-40 random mutators (bulk DeletePeer/DeleteSession included), replica 1 receives '
              'every broadcast in order, replica 2 a shuffled stream with duplicates; snapshot: two origins with clocks offset by up to +-20, '
              '0-100% of the gossip lost, then full-state exchange one way or both; random: three origins with clocks offset by up to +-10000, '
              'lossy/reordered/duplicated/batched gossip and snapshots. Every script ends with the visible lists and the full-state dump of every '
              'replica, ByPattern and Get queries. Non-trivial: >=2 updates and >=1 check; distinct by input.')
PROPS['C08'] = dict(
    theorems=['sessions_merge_is_lww','subscriptions_merge_is_lww','retained_merge_is_lww','merge_order_irrelevant','lww_value','no_regression','local_retained_write_is_merge','local_subscription_write_is_merge'],
    level_text='Theorems: each replicated store (session map, per-filter subscription lists, retained messages) is a last-writer-wins map; two replicas that received the same set of updates in any order, any number of times, one at a time or batched hold the same entry under every key, namely the update with the greatest timestamp; an older update never overrides or resurrects; local retained and subscription writes equal the merge of their broadcast. Tied to the Go code by scripts over three real replicas with scripted clocks and deliveries (all permutations/duplications/batchings of small update sets; seeded random histories with offset clocks).',
    level_note='Trusted: Coq kernel + vm_compute; harness (clock hook, hand-made and real broadcasts), emitter, evaluator. tie_free is a premise (ties between different updates are order-dependent in the code; the oracle skips tied keys). The tries under the subscription and retained stores are modelled as maps (C19 proves they are).',
    families=[dict(name='crdt', corr='DState', runs=[('perm', 1, 1), ('random', 300, 5000)])],
    rule=_CRDT_RULE,
)
PROPS['C09'] = dict(
    theorems=['broadcast_complete_step','receiver_equals_origin'],
    level_text='Theorems: for each of the nine mutators (bulk DeletePeer/DeleteSession included) merging the single broadcast it queues into a replica with the same entries yields the entries the node now holds, and nothing changes locally without a broadcast; by induction a second node merging the broadcasts of any operation sequence holds the same entries. Tied to the Go code by seeded operation sequences on a real replica whose decoded broadcasts, visible lists and those of two receivers (in order; shuffled with duplicates) are compared with the model and the LWW oracle. The harness also runs a shadow origin whose memberlist queue is drained only at the end of the script, so that broadcasts meet each other in the queue (Invalidates / names); its receiver must list what the origin lists.',
    level_note='Premise clock_fresh: the clock reading exceeds the timestamps of the session entries an operation replaces (sessions are written unconditionally by the code). Trusted: Coq kernel + vm_compute; harness, emitter, evaluator.',
    families=[dict(name='crdt', corr='DState', runs=[('bcast', 300, 5000)])],
    rule=_CRDT_RULE,
)
PROPS['C10'] = dict(
    theorems=['snapshot_merge_is_join','snapshot_brings_newer','fresh_equals_source','exchange_converges','invariant_initially'],
    level_text='Theorems: for arbitrary replica states A, B satisfying the representation invariant, after B merges A\'s full-state dump B holds under every key the newer of the two entries (additions and removals alike); a fresh B holds exactly what A holds; after exchanging snapshots both ways the two hold identical entries (given no cross ties). Tied to the Go code by pairs of seeded histories with 0-100% gossip loss followed by LocalState/MergeRemoteState one way or both; the decoded dump itself is compared with model and oracle.',
    level_note='Trusted: Coq kernel + vm_compute; harness, emitter, evaluator. cross_tie_free is a premise of exchange_converges.',
    families=[dict(name='crdt', corr='DState', runs=[('snapshot', 300, 5000)])],
    rule=_CRDT_RULE,
)

PROPS['C16'] = dict(
    theorems=['sort_search_contract', 'file_auth_first_match', 'file_auth_iff', 'static_auth_iff', 'refused_creates_nothing'],
    families=[dict(name='auth', corr='Auth', runs=[('exhaustive', 1, 1), ('random', 250, 4000)]),
              dict(name='broker', corr='Broker', runs=[('lifecycle', 32, 400)], par=8)],
    level_text='Theorems: Go\'s sort.Search (exact bisection) returns the least index of a monotone predicate; the file handler (parse, stable sort by user digest, bisection, scan) returns for every file and candidate the mount point of the first line with that user and password digest, and accepts iff some line is configured for the pair (SHA-256 injective as explicit premise); the static handler accepts iff both match. Tied to the Go code by every table of <=2/3 entries over 4 users x 2 passwords x 3 line shapes in every order, and seeded tables of up to 15 lines with repeated users, empty mount points, 1- and 4-field lines and garbage digests, against 35-48 candidates each, through auth.FileHandler / StaticHandler on real files.',
    level_note='Trusted: Coq kernel + vm_compute; harness (writes the file, own crypto/sha256 for the digest table), emitter, evaluator. Not modelled: CSV quoting (plain fields only). The refusal CONNACK and "creates no session" part of C16 is exercised end-to-end by the lifecycle family (C11) once the node model covers it.',
    rule='exhaustive: see level text; random: 1-6 (every 7th case 6-15) lines. Non-trivial: at least one candidate accepted.',
    assumptions=['SHA-256 is injective on the strings involved (premise of the iff theorems)'],
)

PROPS['C17'] = dict(
    theorems=['prefix_trim', 'no_cross_match', 'same_tenant_match', 'tenant_isolation', 'identifiers_resolve_within_the_mount_point', 'connect_leaves_other_tenants_alone'],
    families=[dict(name='mount', corr='Mount', runs=[('random', 150, 2000)]),
              dict(name='crdt', corr='DState', runs=[('tenants', 150, 2500)]),
              dict(name='broker', corr='Broker', runs=[('tenants', 32, 400), ('wills', 16, 200)], par=8)],
    level_text='Theorems (matching level): trimming undoes prefixing for every mount point and topic; for mount points that are single levels other than +/#, no filter of one mount point (bare #, +/... included) matches any topic of another, and inside one mount point matching is matching of what the clients wrote. Tied to the Go code through Session.PrefixMountPoint/TrimMountPoint on random strings and through ByPattern / retained Get on a real replica holding the same filters and topics under 2-3 mount points. The delivery-level statement (publishes, retained replays and wills on client connections; client identifiers scoped by mount point) is exercised end-to-end by the broker families.',
    level_note='Trusted: Coq kernel + vm_compute; harness, emitter, evaluator. Premise mp_ok: mount points are non-empty single levels other than + and # (operator input that wasp does not validate).',
    rule='mount: 21 (mount point, topic) pairs per case, topics of 1-5 levels over {a,b,"",+,#,dev,long-level-name,non-ASCII}, 10% odd mount points; tenants: 3-7 filters of <=3 levels over {a,+,#,"",b} plus # per mount point, 1-3 retained topics each, 12 queries. Non-trivial: more than one pair / >=2 updates and a check.',
)

PROPS['C07'] = dict(
    theorems=['match_spec', 'retained_last_write', 'get_exactly_matching', 'get_once_per_topic', 'retained_replicates', 'subscribe_replays_exactly', 'live_copy_is_not_flagged', 'retained_write_touches_no_subscription'],
    families=[dict(name='tries', corr='Tries', runs=[('x07', 1, 1), ('rtop', 300, 5000)]),
              dict(name='crdt', corr='DState', runs=[('retained', 250, 4000)]),
              dict(name='broker', corr='Broker', runs=[('retained', 32, 400)], par=8)],
    level_text='Theorems (store level): a Match on the retained trie returns exactly the non-empty values under the topics the filter matches after any insert/remove history; after any operation history the entry of a topic is decided by the last retained publish or clear on that topic alone (other topics, prefixes included, do not matter); Get(filter) lists exactly the added entries of matching topics, each topic once; the store replicates as an LWW map. Tied to the Go code by the exhaustive filter x topic scope on topics.Store, seeded trie histories, and seeded set/clear/Get histories through distributed Topics() on two replicas with shuffled, duplicated gossip. Over whole steps: a SUBSCRIBE writes the SUBACK and then exactly Get\'s messages per filter on the session\'s connection (also for a filter the session already holds); a retained PUBLISH writes the store without touching subscriptions and its live copies are unflagged.',
    level_note='Trusted: Coq kernel + vm_compute; harness, emitter, evaluator. The replay to a new subscriber after SUBACK, the retain flag on the replayed copy and the unflagged live copy are exercised end-to-end by the broker families; filters with a non-final # are excluded (MQTT calls them invalid; topics.match treats a # level as "everything below" wherever it stands).',
    rule='x07: every filter of <=3 levels over {a,b,+,#,""} against all 39 topics of <=3 levels over {a,b,""}; rtop: seeded insert/remove/match histories; retained: 2-29 set/clear operations over 8 topics with shared prefixes and empty levels, replicated shuffled with duplicates, 16+ Get queries with filters of <=3 levels over {a,b,c,+,#,""}.',
)

_E2E_NOTE = 'Trusted: Coq kernel + vm_compute; the end-to-end harness (scripted connections, logging wrappers around the real log/writer/in-flight queue/registry, in-process gRPC, condition waits), its Gallina emitter and the evaluator Corr/Broker.v. The node model runs each script step to quiescence: interleavings inside a step (publish workers, log consumer, writer) are not distinguished, overload behaviour (800 ms Process timeout, identifier retry) is not modelled; broker-chosen packet identifiers are masked in the model comparison (their assignment depends on Go map order) and checked by the specification oracle on the real values (range, uniqueness among those in flight, same identifier on retransmission and PUBREL, pending count). The theorems are about the building blocks of the step function (Distribute, publish worker, writer send, in-flight callbacks, shutdownSession, setup), not about whole histories, except where stated.'

def _broker(runs):
    return dict(name='broker', corr='Broker', runs=runs, par=8)

PROPS['C02'] = dict(theorems=['acked_implies_stored', 'nothing_skipped', 'stored_entry_delivered', 'delivered_only_to_recipients', 'qos_recipient_is_written', 'acknowledged_publish_reaches_subscribers', 'initial_state_has_caught_up', 'consumers_catch_up_in_every_step'],
    level_text="Theorems (node model): the acknowledgement is emitted only after every destination log accepted the message; the log consumer hands every stored entry, offset 0 included, to the writer; a stored entry is written with topic and payload intact to exactly the recipients in the registry. Tied to the Go code by end-to-end scripts on a real node with a real message log (publishers, subscribers, QoS mix, retained clears, a subscriber whose writes fail), compared step by step with the model. Segment rolls and truncation are covered by C15's consumer model and the thorough tier's 520-publish runs. Composed over the step: in the acknowledging step every registered session with a matching added subscription on a destination node is sent the message; the premise (every consumer at the end of its log) holds initially and is re-established by every step.",
    level_note=_E2E_NOTE,
    families=[_broker([('pipeline', 40, 400)]), dict(name='crash', corr='Consumer', runs=[('edges', 16, 160)], par=8)], rule='pipeline: 1-3 publishers and subscribers, 1-12 publishes (QoS mix) from the very first log entry on; thorough: every 41st case 520 publishes (segment roll).')
PROPS['C03'] = dict(theorems=['qos1_retransmit', 'qos2_publish_phase', 'qos2_pubrec_then_pubrel', 'qos2_pubrel_phase', 'completion_frees', 'wrong_ack_harmless', 'retransmitted_every_sweep', 'ended_session_frees_identifier', 'acknowledgement_completes'],
    level_text='Theorems (node model): an expired QoS 1 PUBLISH / QoS 2 PUBLISH / PUBREL of a live session is written again with the same identifier and re-armed; PUBREC moves a QoS 2 delivery to its PUBREL phase; the completing acknowledgement, or expiry after the session ended, sends nothing and returns the identifier to the pool; an acknowledgement of the wrong type or for an unknown identifier changes nothing. Over histories (Proofs/RetransmitFacts.v): in every reachable cluster state a sweep re-sends every pending delivery of a registered session with the same packet and leaves it pending under the same key and tag, and for an entry of a vanished session it leaves nothing holding the identifier and the pool has it back. Tied to the Go writer and in-flight queue by end-to-end scripts (acknowledge / stay silent for sweeps / wrong type / unknown identifier / session end, interleaved over 1-3 sessions) compared step by step (identifiers masked against the model, their discipline demanded by the oracle of the real values). The in-flight table itself (wasp/ack/queue.go) is compared with its model on random registration / acknowledgement / sweep histories with sub-second deadlines (family ackqueue, as for C04).',
    level_note=_E2E_NOTE,
    families=[_broker([('acks', 64, 800)]), dict(name='ackqueue', corr='AckQueue', runs=[('random', 300, 4000)])], rule='ackqueue random (the in-flight table itself, wasp/ack/queue.go, as for C04: registrations with deadlines on a 250 ms grid around a slowly advancing clock, sweeps at arbitrary instants - an entry whose deadline has passed by the table\'s rounding must fire at the sweep that takes its bucket, or it is never retransmitted); acks: 1-3 sessions subscribed at QoS 1/2, 1-4 messages, per in-flight message the client acknowledges / stays silent for sweeps / answers with the wrong type or an unknown identifier / ends its session, interleaved; then a fresh subscriber shows which identifiers are reusable.')
PROPS['C05'] = dict(theorems=['stored_iff_reported_ok', 'ack_after_store', 'qos2_never_on_publish_alone', 'qos2_not_again', 'pubrel_forwards_exactly_once'],
    level_text='Theorems (node model): Distribute reports success iff no local append and no remote write failed, and then the message is in the log of every destination; the worker writes PUBACK/PUBCOMP only then; a QoS 2 PUBLISH alone stores nothing; the PUBREL that finds the pending handshake hands exactly the stored publish to the publish path once (PUBCOMP being the acknowledgement of the worker) and removes the handshake; a PUBREL without a pending handshake (repeated, unknown, timed out) forwards nothing. Tied to the Go code by two-node scripts with injected log and network failures, repeated and unknown identifiers, a second session with the same client id.',
    level_note=_E2E_NOTE,
    families=[_broker([('inbound', 48, 600)])], rule='inbound: 2 nodes, PUBLISH QoS 0/1/2 with fresh and repeated identifiers, PUBREL (repeated, unknown), sweeps, injected local-log and remote-node failures.')
PROPS['C11'] = dict(theorems=['ends_only_for_cause', 'end_leaves_registry', 'end_closes_connection', 'end_removes_every_subscription', 'end_removes_the_record', 'end_is_conveyed_to_every_node'],
    level_text="Theorems (node model): a connection is closed only in a step whose event is a cause (CONNECT that cannot be set up, rejected packet, PINGREQ of a displaced session, DISCONNECT, loss, read deadline) - never by subscribes, acknowledgements, sweeps, gossip, peer failures, injected faults or the delivery pipeline; ending a session removes it from the registry and closes its connection; every subscription the session remembers is tombstoned on its host (no ByPattern result and no listing shows it any more) and, when the identifier still resolves to the session, so is its record (premise: node clock above the replaced stamps); what shutdownSession does to the replicated state is the operation sequence end_ops, its queued broadcasts are exactly those of that sequence, and a node that agreed before and merges them agrees afterwards (composition with C09). The armed 2 x keep-alive deadline and the views of every node after gossip are also validated end-to-end (listings of every node after gossip; deadline in force after CONNACK and after every packet) on 1-3 nodes, including peer failure.",
    level_note=_E2E_NOTE,
    families=[_broker([('lifecycle', 48, 600), ('takeover', 24, 300), ('peerfail', 8, 64)])], rule='lifecycle: 1-2 nodes, sessions with subscribe/unsubscribe/ping/publish ending by DISCONNECT, EOF, read deadline, protocol error or staying connected; refused CONNECTs; listings at the end.')
PROPS['C12'] = dict(theorems=['teardown_spares_new', 'teardown_keeps_records', 'new_session_established', 'every_node_resolves_new', 'displaced_stops_being_served', 'live_session_is_served'],
    level_text='Theorems (node model): tearing down a displaced session changes no session record, publishes no will and closes only its own connection. A CONNECT whose identifier is in use (fresh session id, well-formed strings, node clock above the replaced record stamp, identifier resolving to at most one session before) tombstones the old record, stores the new one, registers the session, writes CONNACK 0, and the identifier resolves to exactly the new session on the serving node and on every node that merges the two broadcasts from an agreeing view (composition with C09); a PINGREQ on a session whose identifier resolves elsewhere or to nothing is answered by closing and nothing else, the live one gets PINGRESP with the state unchanged. Validated end-to-end on 1-3 nodes (chains of connections, gossip orders incl. tombstone-before-creation, same identifier in another mount point). End to end also under the interleaving inside setup in which the owner of the identifier ends between setup\'s lookup and its removal (script operation raceconnect): the outcome must be that of DISCONNECT followed by CONNECT.',
    level_note=_E2E_NOTE,
    families=[_broker([('takeover', 40, 500), ('takeover3', 32, 240)])], rule='takeover: chains of 2-3 connections sharing a client identifier on 1-2 nodes, old sessions ping/subscribe/disconnect/lose the connection, gossip in between; a connection with the same identifier in another mount point.')
PROPS['C13'] = dict(theorems=['will_on_unclean_end', 'no_will_after_disconnect', 'no_will_without_lwt', 'will_stored_once_per_destination', 'host_failure_publishes_wills', 'host_failure_is_notice_then_reap', 'noticing_publishes_wills', 'noticing_removes_no_record'],
    level_text="Theorems (node model): an unclean end hands exactly the will, under the session's mount point, to the publish path once; after DISCONNECT, for a displaced session, and without a will nothing is published. The will is stored at most once per node, at every node hosting a matching subscription known to the publishing node when nothing fails, and at no other; on failure of the hosting node the survivor that notices appends exactly one copy of the will of every session of the failed peer it lists, under that session's mount point, and nothing else. Host failure is also validated end-to-end on 2-3 nodes with watchers on every node and in another mount point. Host failure is also modelled in the two steps of nodes.go (notice: subscriptions removed, wills published, no session record removed; delayed removal): a second survivor told of the first one's notice before it notices itself still publishes the wills.",
    level_note=_E2E_NOTE,
    families=[_broker([('wills', 24, 300)])], rule='wills: will QoS x retain x topic (empty levels, other tenant name) x ending (EOF, deadline, protocol error, DISCONNECT, host failure with and without prior DISCONNECT) x hosting node, watchers on every node and in another mount point.')
PROPS['C14'] = dict(theorems=['append_exactly_once', 'remote_delivers_local_only', 'other_nodes_deliver_exactly_once', 'subscriber_on_any_destination_is_reached'],
    level_text='Theorems (node model): Distribute appends the message at most once per node, exactly once per destination when it reports success, to no node outside the destination set, visiting every destination whatever fails; each node writes a log entry only to registered recipients. Tied to the Go code by 2-3 node scripts over in-process gRPC with every subset of other nodes unreachable. Over the whole step: every destination node - the publisher\'s own or another - writes exactly one PUBLISH per matching added subscription it hosts for a registered session, no other node writes anything.',
    level_note=_E2E_NOTE,
    families=[_broker([('cluster', 40, 500)])], rule='cluster: 2-3 nodes, 0-2 subscribers per node with filters t/#, t/+, u, publisher on any node, every subset of other nodes unreachable, topics t/a, u, v.')

PROPS['C15'] = dict(
    theorems=['consumer_invariant', 'at_least_once', 'bounded_replay', 'in_order_per_run', 'truncate_safe'],
    families=[dict(name='crash', corr='Consumer', runs=[('random', 36, 400)], par=8)],
    level_text='Theorems (consumer model): over every sequence of appends, process starts, micro-steps (callback / store offset / maybe truncate) and crashes between any two micro-steps, every offset up to the stored one has been handed to the callback, nothing beyond stored+1 ever has (so a restart replays at most the last recorded entry and the one in progress), offsets within a run are consecutive, and the truncation base never exceeds the stored offset (and stays 300 below it). Tied to the Go code by child processes running the real Consume on a real commit log, killed with SIGKILL inside the callback of chosen offsets (near batch, segment and truncation edges) or stopped at the end, over 2-4 rounds: offsets handed over, state file and lowest readable segment are compared with the model.',
    level_note='PARTIAL: the commit-log library and the kernel are assumed, not modelled: reads from a sought offset yield consecutive records, TruncateBefore removes only whole 500-entry segments below the segment of its argument, a completed 8-byte store into the shared mapping survives SIGKILL. The harness kills only inside the callback (the other crash points of the theorem are not exercised on the real code). Trusted: Coq kernel + vm_compute; harness, emitter, evaluator.',
    rule='random: 2-4 rounds; per round 1-35 / ~500 / ~2000 appended entries (by case index mod 3), then a child that is killed inside the callback of an offset chosen uniformly or next to an edge (10, 20, 500, 1000, 1500, 2000, 3000), or stopped after the last entry. Non-trivial: at least two rounds.',
    assumptions=['commit log: consecutive records from a sought offset; whole-segment truncation; mmap store survives SIGKILL'],
)

PROPS['C18'] = dict(
    theorems=['conn_contains_failures', 'hostile_noninterference_registry', 'hostile_noninterference_state', 'hostile_noninterference_subscriptions', 'only_the_offender_is_dropped'],
    families=[_broker([('bytes', 64, 800)])],
    level='proof',
    level_text='PARTIAL. Theorems (node model, the decoder being a parameter with outcomes packet/error/panic): the per-connection step has no outcome other than a model step (continue or end that session); ending a session leaves every other session\'s registry entry, all session records, the in-flight table, identifier pool, log and retained store untouched and tombstones only its own subscriptions; only a cause closes a connection. Tied to the Go code by structure-aware mutations of valid packets (truncation at every offset, type and flag nibbles incl. QoS 3, remaining-length corruption incl. a fifth length byte, inner length prefixes, identifier 0, empty topic lists) before and after CONNECT against a real node, with a witness publisher/subscriber that must keep working after every hostile step; what the decoder makes of each frame is found by running the same decoder on the same bytes. A process crash is reported with the input that was running.',
    level_note='Not covered: memory and latency stalls (256 MiB remaining length allocated before any read; 20 set-up workers held for 3 s each) - runtime behaviour the model cannot exhibit; lengths in the harness are bounded. The decoder (vx-labs/mqtt-protocol) is a dependency and is assumed, not modelled. ' + _E2E_NOTE,
    rule='bytes: a witness pair, a victim session with subscriptions and a will; 4-11 hostile frames (mutated from 17 valid packets) sent on the victim or as the first packet of a fresh connection, each followed by a witness publish; victims are replaced when they die.',
)

PROPS['C20'] = dict(
    theorems=['distinct_keys_all_effects', 'concurrent_ids_distinct', 'concurrent_exactly_once', 'concurrent_merges_converge'],
    level='other',
    families=[dict(name='locks', corr='Locks', runs=[('table', 1, 1)]),
              dict(name='stress', corr='Stress', runs=[('all', 1, 3)], par=9, race=True)],
    level_text='PARTIAL. (1) Coq: in the interleaving model whose atomic steps are the critical sections, concurrent operations on distinct keys all take effect, identifiers handed out under any interleaving are distinct while outstanding, every in-flight registration resolves at most once, replicas converge under any interleaving of merges - corollaries of history theorems that quantify over all operation lists. (2) The premise "each method of the shared objects is one atomic step" is re-extracted from the current sources by go/ast on every run (how each method takes its mutex, which fields it touches before that, which helpers it calls holding the lock) and must satisfy the policy Corr/Locks.v (all_atomic computes to true). (3) "No data race" cannot be a theorem about a Gallina model: it is sampled by randomized stress of the registry, identifier pool, in-flight table + timeout list, both tries, replicated state with concurrent merges, per-session filter list and a whole broker with 16 concurrent clients, on all cores under the Go race detector, with the post-stress invariants of (1) checked on the real objects.',
    level_note='The race detector only sees the schedules that occur; a data race makes the harness process exit and is reported with the race report as replay. pqList.insert (two steps) is an accepted exception of the lock table under the hypothesis that deadlines are armed ahead of sweeps. The whole-broker stress runs on a mutex-protected in-memory message log because vx-labs/commitlog itself races (dependency); the writer queue is closed on context cancellation while the scheduler may still send (shutdown-only, not exercised). Trusted: Coq kernel + vm_compute; the extractor (harness/cmd/wharness/locks.go), the stress scenarios, the race detector.',
    explanation='interleaving corollaries proved in Coq; lock table extracted from the current sources and checked against a policy in Coq; data-race freedom sampled by stress under -race on 16 cores',
    rule='locks: one table (12 types, ~95 methods) per run; stress: per scenario 16 goroutines x 300 (thorough 2000) rounds with a seeded PRNG per goroutine.',
)
