(** Correspondence evaluators for family "ackqueue" (C04): the implementation model
    (Model/AckQueue.v: hash + bucketed timeout list) and the specification (Spec/AckSpec.v: one
    map, sweeps report stable-by-deadline) are both run on the history the real ack.Queue
    executed and compared with its return codes and callback sequences. *)
From Wasp Require Export Model.Base Spec.AckSpec Model.AckQueue.
Open Scope Z_scope.

(* an observed step: the operation and what the implementation answered; panic = None *)
Definition ostep : Type := (qop * option qout)%type.
Definition case : Type := (N * list ostep)%type.

Definition rcode_eqb (a b : rcode) : bool :=
  match a, b with
  | ROk, ROk | RDup, RDup | RWrongMID, RWrongMID | RUnexpected, RUnexpected
  | RInvalidQos, RInvalidQos | RWrongPacket, RWrongPacket => true
  | _, _ => false
  end.
Definition fire_eqb (a b : N * bool) : bool := N.eqb (fst a) (fst b) && Bool.eqb (snd a) (snd b).
Definition qout_eqb (a b : qout) : bool := rcode_eqb (fst a) (fst b) && list_eqb fire_eqb (snd a) (snd b).

Definition model_step (st : queue * bool) (o : ostep) : queue * bool :=
  let '(q, ok) := st in
  let r := q_step q (fst o) in
  (fst r, ok && match snd o with Some got => qout_eqb (snd r) got | None => false end).
Definition model_ok (c : case) : bool := snd (fold_left model_step (snd c) (qempty, true)).

Definition oracle_step (st : sstate * bool) (o : ostep) : sstate * bool :=
  let '(s, ok) := st in
  let r := spec_step s (fst o) in
  (fst r, ok && match snd o with Some got => qout_eqb (snd r) got | None => false end).
Definition oracle_ok (c : case) : bool := snd (fold_left oracle_step (snd c) ([], true)).

Definition mismatches (cs : list case) : list N := map fst (filter (fun c => negb (model_ok c)) cs).
Definition oracle_failures (cs : list case) : list N := map fst (filter (fun c => negb (oracle_ok c)) cs).
