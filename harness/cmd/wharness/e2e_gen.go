package main

// Script generators of family "broker", one mode per property.

import (
	"encoding/hex"
	"fmt"
	"math/rand"
)

type scriptB struct {
	in    e2eInput
	rng   *rand.Rand
	nextM int
}

func newScript(rng *rand.Rand, nodes int) *scriptB {
	return &scriptB{in: e2eInput{Nodes: nodes}, rng: rng, nextM: 1}
}
func (s *scriptB) add(o e2eOp) { s.in.Ops = append(s.in.Ops, o) }
func (s *scriptB) mid() int    { s.nextM++; return s.nextM }
func (s *scriptB) connect(n int, c, cid, user string, ka int, will *jPub) {
	s.add(e2eOp{Op: "connect", N: n, C: c, CID: cid, User: user, KA: ka, Will: will})
}
func (s *scriptB) sub(c string, fs []string, qs []int) {
	s.add(e2eOp{Op: "send", C: c, P: "sub", Mid: s.mid(), Fs: fs, Qs: qs})
}
func (s *scriptB) unsub(c string, fs []string) {
	s.add(e2eOp{Op: "send", C: c, P: "unsub", Mid: s.mid(), Fs: fs})
}
func (s *scriptB) pub(c, t, pl string, q int, r bool) int {
	m := 0
	if q > 0 {
		m = s.mid()
	}
	s.add(e2eOp{Op: "send", C: c, P: "pub", T: t, Pl: pl, Q: q, R: r, Mid: m})
	return m
}
func (s *scriptB) ack(c, kind string, t, pl string, q, i int) {
	s.add(e2eOp{Op: "send", C: c, P: kind, Ref: &e2eRef{T: t, P: pl, Q: q, I: i}})
}
func (s *scriptB) ackRaw(c, kind string, mid int) { s.add(e2eOp{Op: "send", C: c, P: kind, Mid: mid}) }
func (s *scriptB) gossipAll() {
	for a := 0; a < s.in.Nodes; a++ {
		for b := 0; b < s.in.Nodes; b++ {
			if a != b {
				s.add(e2eOp{Op: "gossip", Src: a, N: b})
			}
		}
	}
}
func (s *scriptB) checks() {
	for n := 0; n < s.in.Nodes; n++ {
		s.add(e2eOp{Op: "check", N: n})
	}
}

func (e2eFamily) Gen(n int, seed int64, mode, tier string) []interface{} {
	rng := rand.New(rand.NewSource(seed))
	var out []interface{}
	fl := []string{"a", "b", "+", "#", "", "a"}
	tl := []string{"a", "b", "", "c"}
	for i := 0; i < n; i++ {
		if cs := corpusScript(mode, i); cs != nil {
			out = append(out, *cs)
			continue
		}
		switch mode {
		case "route":
			// C01 end to end: 2-4 subscriber sessions with 1-4 filters each (QoS 0 so that duplicate
			// deliveries through several matching filters are plain repeats), publishes on 6-10 topics,
			// unsubscribe / re-subscribe in between
			s := newScript(rng, 1)
			ns := 2 + rng.Intn(3)
			var subs []string
			for j := 0; j < ns; j++ {
				c := fmt.Sprintf("sub%d", j)
				subs = append(subs, c)
				s.connect(0, c, "c-"+c, "", 60, nil)
				var fs []string
				var qs []int
				for k := 0; k < 1+rng.Intn(4); k++ {
					fs = append(fs, randLevels(rng, fl, 3))
					qs = append(qs, rng.Intn(3))
				}
				s.sub(c, fs, qs)
			}
			s.connect(0, "pub", "c-pub", "", 60, nil)
			for k := 0; k < 6+rng.Intn(5); k++ {
				if rng.Intn(5) == 0 {
					c := subs[rng.Intn(len(subs))]
					if rng.Intn(2) == 0 {
						s.unsub(c, []string{randLevels(rng, fl, 3)})
					} else {
						s.sub(c, []string{randLevels(rng, fl, 3)}, []int{rng.Intn(3)})
					}
				}
				s.pub("pub", randLevels(rng, tl, 3), fmt.Sprintf("m%d", k), 0, false)
			}
			s.checks()
			out = append(out, s.in)
		case "acks":
			// C03 / C06: deliveries at QoS 1/2 to 1-3 sessions; per in-flight message the client
			// acknowledges, stays silent for k sweeps, answers with the wrong type or identifier, or
			// disconnects; afterwards more traffic shows which identifiers are reusable
			s := newScript(rng, 1)
			ns := 1 + rng.Intn(3)
			type infl struct {
				c, t, pl string
				q        int
				phase    int // 0: PUBLISH outstanding, 1: PUBREL outstanding (qos 2), 2: done
			}
			var subs []string
			subQ := map[string]int{}
			for j := 0; j < ns; j++ {
				c := fmt.Sprintf("sub%d", j)
				subs = append(subs, c)
				s.connect(0, c, "c-"+c, "", 60, nil)
				q := 1 + rng.Intn(2)
				subQ[c] = q
				s.sub(c, []string{"t/#"}, []int{q})
			}
			s.connect(0, "pub", "c-pub", "", 60, nil)
			var fl2 []*infl
			gone := map[string]bool{}
			nmsg := 1 + rng.Intn(4)
			for k := 0; k < nmsg; k++ {
				t, pl := fmt.Sprintf("t/%d", k), fmt.Sprintf("m%d", k)
				m := s.pub("pub", t, pl, 1, false)
				_ = m
				for _, c := range subs {
					if !gone[c] {
						fl2 = append(fl2, &infl{c, t, pl, subQ[c], 0})
					}
				}
				// some client reactions, interleaved
				for r := 0; r < 2+rng.Intn(5) && len(fl2) > 0; r++ {
					x := fl2[rng.Intn(len(fl2))]
					if gone[x.c] || x.phase == 2 {
						continue
					}
					switch a := rng.Intn(10); {
					case a < 4: // proper acknowledgement of the current phase
						if x.q == 1 {
							s.ack(x.c, "puback", x.t, x.pl, 1, 0)
							x.phase = 2
						} else if x.phase == 0 {
							s.ack(x.c, "pubrec", x.t, x.pl, 2, 0)
							x.phase = 1
						} else {
							s.ack(x.c, "pubcomp", x.t, x.pl, 2, 0)
							x.phase = 2
						}
					case a < 6: // silence for a deadline
						s.add(e2eOp{Op: "sweep", N: 0})
					case a < 7: // wrong packet type for the identifier
						wrong := []string{"pubrec", "pubcomp"}
						if x.q == 2 {
							wrong = []string{"puback", "pubcomp"}
							if x.phase == 1 {
								wrong = []string{"puback", "pubrec"}
							}
						}
						s.ack(x.c, wrong[rng.Intn(2)], x.t, x.pl, x.q, 0)
					case a < 8: // unknown identifier
						s.ackRaw(x.c, []string{"puback", "pubrec", "pubcomp"}[rng.Intn(3)], 40000+rng.Intn(1000))
					case a < 9: // the session ends
						if rng.Intn(2) == 0 {
							s.add(e2eOp{Op: "send", C: x.c, P: "disc"})
						} else {
							s.add(e2eOp{Op: "eof", C: x.c})
						}
						gone[x.c] = true
					default:
						s.add(e2eOp{Op: "sweep", N: 0})
						s.add(e2eOp{Op: "sweep", N: 0})
					}
				}
			}
			s.add(e2eOp{Op: "sweep", N: 0})
			s.add(e2eOp{Op: "sweep", N: 0})
			// a fresh subscriber: the identifiers it is given show what has been released
			s.connect(0, "late", "c-late", "", 60, nil)
			s.sub("late", []string{"t/#"}, []int{1})
			for k := 0; k < 3; k++ {
				s.pub("pub", "t/late", fmt.Sprintf("l%d", k), 1, false)
			}
			s.checks()
			out = append(out, s.in)
		case "inbound":
			// C05: PUBLISH QoS 0/1/2 with fresh and repeated identifiers, PUBREL (also repeated and
			// unknown), handshake timeouts, with local-log and remote-node write failures; 2 nodes
			s := newScript(rng, 2)
			s.connect(0, "subA", "c-subA", "", 60, nil)
			s.sub("subA", []string{"t/#"}, []int{0})
			s.connect(1, "subB", "c-subB", "", 60, nil)
			s.sub("subB", []string{"t/b/#"}, []int{0})
			if rng.Intn(2) == 0 {
				// a second subscriber on the publisher's node, subscribed after the remote one: the
				// matching subscriptions then alternate between the two nodes
				s.gossipAll()
				s.connect(0, "subC", "c-subC", "", 60, nil)
				s.sub("subC", []string{"t/b/+", "#"}[rng.Intn(2):][:1], []int{0})
			}
			s.gossipAll()
			s.connect(0, "pub", "c-pub", "", 60, nil)
			s.connect(0, "twin", "c-pub", "tw", 60, nil) // same client id, other mount point
			var q2 []int
			for k := 0; k < 3+rng.Intn(10); k++ {
				if rng.Intn(6) == 0 {
					m := 100 + rng.Intn(3)
					if len(q2) > 0 && rng.Intn(2) == 0 {
						m = q2[rng.Intn(len(q2))]
					}
					if rng.Intn(2) == 0 {
						s.add(e2eOp{Op: "send", C: "twin", P: "pub", T: "t/a", Pl: fmt.Sprintf("tw%d", k), Q: 2, Mid: m})
					} else {
						s.ackRaw("twin", "pubrel", m)
					}
				}
				topic := []string{"t/a", "t/b/x", "u"}[rng.Intn(3)]
				switch a := rng.Intn(12); {
				case a < 2:
					s.add(e2eOp{Op: "failappend", N: rng.Intn(2), K: 1})
				case a < 3:
					s.add(e2eOp{Op: "unreachable", Peers: []int{1}})
				case a < 4:
					s.add(e2eOp{Op: "unreachable"})
				case a < 6:
					s.pub("pub", topic, fmt.Sprintf("m%d", k), rng.Intn(2), false)
				case a < 9:
					m := 100 + rng.Intn(3)
					if rng.Intn(3) > 0 {
						m = s.mid()
					}
					s.add(e2eOp{Op: "send", C: "pub", P: "pub", T: topic, Pl: fmt.Sprintf("m%d", k), Q: 2, Mid: m, Dup: rng.Intn(4) == 0})
					q2 = append(q2, m)
				case a < 11:
					m := 999
					if len(q2) > 0 && rng.Intn(5) > 0 {
						m = q2[rng.Intn(len(q2))]
					}
					s.ackRaw("pub", "pubrel", m)
				default:
					s.add(e2eOp{Op: "sweep", N: 0})
				}
			}
			s.add(e2eOp{Op: "unreachable"})
			for _, m := range q2 {
				s.ackRaw("pub", "pubrel", m)
			}
			s.checks()
			out = append(out, s.in)
		case "pipeline":
			// C02: acknowledged publishes from the very first log entry on, 1-3 publishers and
			// subscribers, QoS mix; thorough: every 41st case a long run crossing the segment roll (500)
			s := newScript(rng, 1)
			np, nsub := 1+rng.Intn(3), 1+rng.Intn(3)
			// most runs with QoS 0 subscribers (what is written is the message itself); one in three with
			// QoS 1/2 subscribers on different filter sets that acknowledge most deliveries, late
			subQ := make([]int, nsub)
			subF := make([]string, nsub)
			ackers := rng.Intn(3) == 0
			for j := 0; j < nsub; j++ {
				c := fmt.Sprintf("sub%d", j)
				s.connect(0, c, "c-"+c, "", 60, nil)
				subF[j] = []string{"t/#", "t/+", "#"}[rng.Intn(3)]
				if ackers {
					subQ[j] = 1 + rng.Intn(2)
					subF[j] = []string{"t/#", "t/1", "t/2", "t/+"}[rng.Intn(4)]
				}
				s.sub(c, []string{subF[j]}, []int{subQ[j]})
			}
			for j := 0; j < np; j++ {
				s.connect(0, fmt.Sprintf("pub%d", j), fmt.Sprintf("c-pub%d", j), "", 60, nil)
			}
			cnt := 1 + rng.Intn(12)
			if i%41 == 7 && tier == "thorough" {
				// (spread over the shards: 41 is coprime to the shard count)
				cnt = 520
			}
			if rng.Intn(3) == 0 && nsub > 1 {
				// one subscriber's connection starts failing writes while its session stays registered
				s.add(e2eOp{Op: "failwrites", C: fmt.Sprintf("sub%d", rng.Intn(nsub))})
			}
			for k := 0; k < cnt; k++ {
				q := rng.Intn(3)
				c := fmt.Sprintf("pub%d", rng.Intn(np))
				pl, ret := fmt.Sprintf("m%d", k), false
				if cnt < 100 && rng.Intn(5) == 0 {
					ret = true
					if rng.Intn(2) == 0 {
						pl = ""
					}
				}
				topic := fmt.Sprintf("t/%d", k%7)
				m := s.pub(c, topic, pl, q, ret)
				if q == 2 {
					s.ackRaw(c, "pubrel", m)
				}
				if ackers && cnt < 100 {
					// the subscribers this message went to acknowledge it - not always, and in an order of their own
					for _, j := range rng.Perm(nsub) {
						hit := subF[j] == "t/#" || subF[j] == "t/+" || subF[j] == topic
						if !hit || rng.Intn(4) == 0 {
							continue
						}
						sc := fmt.Sprintf("sub%d", j)
						if subQ[j] == 1 {
							s.ack(sc, "puback", topic, pl, 1, 0)
						} else {
							s.ack(sc, "pubrec", topic, pl, 2, 0)
							s.ack(sc, "pubcomp", topic, pl, 2, 0)
						}
					}
				}
			}
			if ackers {
				s.add(e2eOp{Op: "check"})
			}
			out = append(out, s.in)
		case "retained":
			// C07 end to end: retained publishes and clears, then subscribers with wildcard filters
			s := newScript(rng, 1)
			s.connect(0, "pub", "c-pub", "", 60, nil)
			s.connect(0, "live", "c-live", "", 60, nil)
			s.sub("live", []string{"#"}, []int{0})
			rt := []string{"a", "a/b", "a/b/c", "a/c", "b", "b/a"}
			for k := 0; k < 2+rng.Intn(10); k++ {
				t := rt[rng.Intn(len(rt))]
				pl := fmt.Sprintf("r%d", k)
				if rng.Intn(4) == 0 {
					pl = ""
				}
				s.pub("pub", t, pl, rng.Intn(2), true)
				if rng.Intn(4) == 0 {
					c := fmt.Sprintf("late%d", k)
					s.connect(0, c, "c-"+c, "", 60, nil)
					s.sub(c, []string{randLevels(rng, []string{"a", "b", "+", "#", "c"}, 3), []string{"nothing/here", "a/#", "+"}[rng.Intn(3)]}, []int{rng.Intn(2), 0})
				}
			}
			s.connect(0, "late", "c-late", "", 60, nil)
			s.sub("late", []string{"nothing/here", "a/#", "+", "b/+"}, []int{0, 1, 0, 0})
			// a session that subscribes again with a filter it already holds (no UNSUBSCRIBE in between) is a
			// later subscription like any other: it is sent the current retained messages again
			// [MQTT-3.8.4-3]; "live" has so far only seen the unflagged live copies
			s.sub("live", []string{"#"}, []int{0})
			s.pub("pub", "a/b", "changed", 0, true)
			s.sub("late", []string{"+", "a/#"}, []int{0, 1})
			out = append(out, s.in)
		case "lifecycle":
			// C11 (and the refusal part of C16): sessions with subscriptions ending for one of the
			// causes at a random point; idle periods are pings / nothing; 1-2 nodes with gossip
			nodes := 1 + rng.Intn(3)
			s := newScript(rng, nodes)
			s.connect(0, "watch", "c-watch", "", 60, nil)
			s.sub("watch", []string{"#"}, []int{0})
			for j := 0; j < 1+rng.Intn(3); j++ {
				c := fmt.Sprintf("c%d", j)
				node := rng.Intn(nodes)
				ka := []int{10, 60, 300}[rng.Intn(3)]
				if rng.Intn(6) == 0 {
					s.add(e2eOp{Op: "connect", N: node, C: c, CID: "id-" + c, Pass: []string{"bad", "bad-static"}[rng.Intn(2)], KA: ka})
					continue
				}
				if rng.Intn(8) == 0 {
					// a client identifier that is not well-formed UTF-8 (with a will): refused by closing, no trace
					odd := []string{"id\xff", "\xc3\x28", "\xed\xa0\x80", "\xc0\xaf", "ab\xe2\x82"}[rng.Intn(5)]
					s.add(e2eOp{Op: "rawconnect", N: node, C: c, Hex: hex.EncodeToString(encConnect(odd, "", "", ka, &jPub{T: "x/y", P: "ghost", Q: 0}, true))})
					continue
				}
				s.connect(node, c, "id-"+c, "", ka, nil)
				for k := 0; k < rng.Intn(4); k++ {
					switch rng.Intn(4) {
					case 0:
						s.sub(c, []string{randLevels(rng, fl, 2), "x/y"}, []int{rng.Intn(3), 0})
					case 1:
						s.unsub(c, []string{[]string{"x/y", "never/subscribed", "a"}[rng.Intn(3)]})
					case 2:
						s.add(e2eOp{Op: "send", C: c, P: "ping"})
					default:
						s.pub(c, "x/y", "hello", rng.Intn(2), false)
					}
				}
				switch rng.Intn(7) {
				case 0:
					s.add(e2eOp{Op: "send", C: c, P: "disc"})
				case 1:
					s.add(e2eOp{Op: "eof", C: c})
				case 2:
					s.add(e2eOp{Op: "timeout", C: c})
				case 3:
					s.add(e2eOp{Op: "send", C: c, P: "connect"}) // protocol error: second CONNECT
				case 4:
					// protocol error of the malformed kind: acknowledgements without their identifier, a
					// SUBSCRIBE without filters (what the decoder makes of them is asked of the decoder)
					s.add(e2eOp{Op: "raw", C: c, Hex: []string{"4000", "6200", "8200", "a200"}[rng.Intn(4)]})
				default: // stays connected
					s.add(e2eOp{Op: "send", C: c, P: "ping"})
				}
				if nodes > 1 {
					s.gossipAll()
				}
			}
			s.pub("watch", "x/y", "after", 0, false)
			if nodes > 1 {
				s.gossipAll()
				if rng.Intn(2) == 0 {
					// node 1 fails; node 0 cleans up after it and tells the others
					s.add(e2eOp{Op: "peer_leave", N: 0, Src: 1})
					s.pub("watch", "x/y", "after-failure", 0, false)
					if nodes > 2 {
						s.add(e2eOp{Op: "gossip", Src: 0, N: 2})
					}
				}
			}
			s.checks()
			out = append(out, s.in)
		case "bytes":
			// C18: structure-aware mutations of valid packets, before and after CONNECT, with a
			// witness pair that must keep working
			s := newScript(rng, 1)
			s.connect(0, "wsub", "c-wsub", "", 60, nil)
			s.sub("wsub", []string{"w/#"}, []int{0})
			s.connect(0, "wpub", "c-wpub", "", 60, nil)
			victims := 0
			newVictim := func() string {
				victims++
				c := fmt.Sprintf("v%d", victims)
				s.connect(0, c, "c-"+c, "", 60, &jPub{T: "w/will", P: "dead-" + c, Q: int32(rng.Intn(3)), R: rng.Intn(4) == 0})
				s.sub(c, []string{"w/#", "v/+"}, []int{1 + rng.Intn(2), 0})
				return c
			}
			v := newVictim()
			// a CONNECT that is refused: the 3 s CONNECT deadline is what bounds a silent socket
			s.add(e2eOp{Op: "connect", N: 0, C: "refused", CID: "c-ref", Pass: "bad", KA: 60})
			for k := 0; k < 4+rng.Intn(8); k++ {
				valid := [][]byte{
					encPublish("v/a", "hello", 0, false, false, 0),
					encPublish("v/a", "hello", 1, false, false, 10+k),
					encPublish("v/a", "hello", 2, false, false, 30+k),
					encPublish("w/r", "kept", 0, true, false, 0),
					encSubscribe(50+k, []string{"x/y", "z"}, []int{0, 1}),
					encUnsubscribe(70+k, []string{"x/y"}),
					encAck(4, 1), encAck(5, 1), encAck(6, 30+k), encAck(7, 1),
					{0xc0, 0}, {0xe0, 0},
					encConnect("again", "", "", 60, nil, true),
					encConnect("willful", "u", "p", 30, &jPub{T: "w/t", P: "x", Q: 1, R: true}, true),
					{0x20, 2, 0, 0}, {0x90, 3, 0, 1, 0}, {0xd0, 0},
				}
				b := append([]byte{}, valid[rng.Intn(len(valid))]...)
				switch m := rng.Intn(10); {
				case m < 3 && len(b) > 2: // truncation at an offset
					b = b[:1+rng.Intn(len(b)-1)]
				case m < 4: // type nibble
					b[0] = byte(rng.Intn(16))<<4 | b[0]&0x0f
				case m < 5: // flag nibble (QoS 3, dup, retain)
					b[0] = b[0]&0xf0 | byte(rng.Intn(16))
				case m < 6 && len(b) > 1: // remaining length: smaller, larger (bounded), multi-byte, five bytes
					switch rng.Intn(4) {
					case 0:
						b[1] = byte(rng.Intn(int(b[1]) + 1))
					case 1:
						b[1] = byte(int(b[1]) + 1 + rng.Intn(20))
					case 2:
						b = append([]byte{b[0], 0x80 | b[1], 0x00}, b[2:]...)
					default:
						b = append([]byte{b[0], 0x80, 0x80, 0x80, 0x80, 0x01}, b[2:]...)
					}
				case m < 7 && len(b) > 4: // a length prefix inside the body
					i := 2 + rng.Intn(len(b)-3)
					b[i] = byte(rng.Intn(4))
					b[i+1] = byte(rng.Intn(256))
				case m < 8 && len(b) > 3: // identifier 0 / empty topic list
					if b[0]>>4 == 8 || b[0]>>4 == 10 {
						b = append([]byte{b[0], 2}, b[2:4]...)
					} else {
						b[len(b)-2], b[len(b)-1] = 0, 0
					}
				}
				if n := completePacketLen(b); n > 0 && n < len(b) {
					b = b[:n]
				}
				hexs := fmt.Sprintf("%x", b)
				if rng.Intn(4) == 0 {
					s.add(e2eOp{Op: "rawconnect", N: 0, C: fmt.Sprintf("h%d", k), Hex: hexs})
					if rng.Intn(6) == 0 {
						// a well-formed CONNECT whose client identifier is not well-formed UTF-8
						odd := []string{"id\xff", "\xc3\x28", "\xed\xa0\x80", "\xff\xfe"}[rng.Intn(4)]
						s.add(e2eOp{Op: "rawconnect", N: 0, C: fmt.Sprintf("u%d", k), Hex: hex.EncodeToString(encConnect(odd, "", "", 60, &jPub{T: "w/ghost", P: "ghost", Q: 0}, true))})
					}
				} else {
					s.add(e2eOp{Op: "raw", C: v, Hex: hexs})
				}
				// the witness pair keeps working
				wq := rng.Intn(2)
				s.pub("wpub", "w/x", fmt.Sprintf("alive%d", k), wq, false)
				if rng.Intn(3) == 0 {
					// the victim answers the delivery it got (QoS 2: PUBREC, so that a PUBREL is pending)
					s.ack(v, "pubrec", "w/x", fmt.Sprintf("alive%d", k), 2, 0)
				}
				if rng.Intn(4) == 0 {
					s.add(e2eOp{Op: "eof", C: v})
					s.add(e2eOp{Op: "sweep", N: 0})
					s.add(e2eOp{Op: "sweep", N: 0})
					v = newVictim()
				}
			}
			s.checks()
			out = append(out, s.in)
		case "peerfail":
			// C11: the node hosting several sessions and subscriptions fails; one survivor is told
			// by the membership layer, the other only by the survivor's broadcasts
			s := newScript(rng, 3)
			s.connect(0, "watch", "c-watch", "", 60, nil)
			s.sub("watch", []string{"#"}, []int{0})
			for j := 0; j < 1+rng.Intn(3); j++ {
				c := fmt.Sprintf("d%d", j)
				var will *jPub
				if rng.Intn(2) == 0 {
					will = &jPub{T: "will/" + c, P: "gone", Q: int32(rng.Intn(2))}
				}
				s.connect(1, c, "id-"+c, "", 60, will)
				var fs []string
				var qs []int
				for k := 0; k < 1+rng.Intn(3); k++ {
					fs = append(fs, fmt.Sprintf("f%d/%s", k, randLevels(rng, fl, 2)))
					qs = append(qs, rng.Intn(2))
				}
				s.sub(c, fs, qs)
			}
			s.connect(2, "other", "c-other", "", 60, nil)
			s.sub("other", []string{"will/#"}, []int{0})
			s.gossipAll()
			s.add(e2eOp{Op: "peer_leave", N: 0, Src: 1})
			s.add(e2eOp{Op: "gossip", Src: 0, N: 2})
			s.pub("watch", "f0/a", "after-failure", 0, false)
			s.checks()
			out = append(out, s.in)
		case "takeover3":
			// C12 with reordered gossip over three nodes: the tombstone of the displaced session
			// reaches a bystander before the (older) creation it removes
			s := newScript(rng, 3)
			s.connect(0, "old", "shared", "", 60, nil)
			s.sub("old", []string{"t/#"}, []int{0})
			s.add(e2eOp{Op: "gossip", Src: 0, N: 1})
			s.connect(1, "new", "shared", "", 60, nil)
			s.sub("new", []string{"t/#"}, []int{0})
			// the taking-over node queued the old record's tombstone, then the new record, then the new
			// subscription: the bystander and the old host may get them in either order
			rev2, rev0 := rng.Intn(2) == 0, rng.Intn(2) == 0
			if rng.Intn(2) == 0 {
				s.add(e2eOp{Op: "gossip", Src: 1, N: 2, Rev: rev2})
				s.add(e2eOp{Op: "gossip", Src: 0, N: 2})
			} else {
				s.add(e2eOp{Op: "gossip", Src: 0, N: 2})
				s.add(e2eOp{Op: "gossip", Src: 1, N: 2, Rev: rev2})
			}
			s.add(e2eOp{Op: "gossip", Src: 1, N: 0, Rev: rev0})
			if rng.Intn(2) == 0 {
				// a third generation, on the bystander, while it holds whatever the order above left it with
				s.connect(2, "third", "shared", "", 60, nil)
				s.add(e2eOp{Op: "gossip", Src: 2, N: 1, Rev: rng.Intn(2) == 0})
				s.add(e2eOp{Op: "gossip", Src: 2, N: 0, Rev: rng.Intn(2) == 0})
				s.add(e2eOp{Op: "send", C: "new", P: "ping"})
			}
			s.connect(2, "pub", "c-pub", "", 60, nil)
			s.pub("pub", "t/x", "hello", 0, false)
			s.add(e2eOp{Op: "send", C: "old", P: "ping"})
			s.gossipAll()
			s.pub("pub", "t/x", "again", 0, false)
			s.checks()
			out = append(out, s.in)
		case "takeover":
			// C12: chains of 2-3 connections sharing a client identifier, same or different node
			nodes := 1 + rng.Intn(2)
			s := newScript(rng, nodes)
			mp := []string{"", "ta"}[rng.Intn(2)]
			s.connect(0, "watch", "c-watch", mp, 60, nil)
			s.sub("watch", []string{"#"}, []int{0})
			var conns []string
			for j := 0; j < 2+rng.Intn(2); j++ {
				c := fmt.Sprintf("gen%d", j)
				node := rng.Intn(nodes)
				s.connect(node, c, "shared", mp, 60, nil)
				s.sub(c, []string{"t/#"}, []int{0})
				if nodes > 1 {
					s.gossipAll()
				}
				// the earlier generations react
				for _, old := range conns {
					switch rng.Intn(5) {
					case 0:
						s.add(e2eOp{Op: "send", C: old, P: "ping"})
					case 1:
						s.add(e2eOp{Op: "send", C: old, P: "disc"})
					case 2:
						s.sub(old, []string{"late/sub"}, []int{0})
					case 3:
						s.add(e2eOp{Op: "eof", C: old})
					}
				}
				if nodes > 1 {
					s.gossipAll()
				}
				conns = append(conns, c)
				s.pub("watch", "t/x", fmt.Sprintf("after-gen%d", j), 0, false)
			}
			if rng.Intn(3) == 0 {
				// the newest session goes away before the displaced ones ping
				last := conns[len(conns)-1]
				if rng.Intn(2) == 0 {
					s.add(e2eOp{Op: "send", C: last, P: "disc"})
				} else {
					s.add(e2eOp{Op: "eof", C: last})
				}
				if nodes > 1 {
					s.gossipAll()
				}
			}
			for _, old := range conns {
				s.add(e2eOp{Op: "send", C: old, P: "ping"})
			}
			if nodes > 1 {
				s.gossipAll()
			}
			s.add(e2eOp{Op: "connect", N: 0, C: "other-tenant", CID: "shared", User: "tz", KA: 60})
			s.add(e2eOp{Op: "send", C: conns[len(conns)-1], P: "ping"})
			s.pub("watch", "t/x", "final", 0, false)
			// the owner of an identifier ends (DISCONNECT) while its successor is being set up, between
			// the lookup of the owner and its removal: the new session is established all the same
			s.connect(0, "race-old", "racer", mp, 60, nil)
			s.sub("race-old", []string{"t/#"}, []int{0})
			s.add(e2eOp{Op: "raceconnect", N: 0, C: "race-new", CID: "racer", User: mp, KA: 60, RC: "race-old"})
			s.sub("race-new", []string{"t/#"}, []int{0})
			s.add(e2eOp{Op: "send", C: "race-new", P: "ping"})
			s.pub("watch", "t/x", "raced", 0, false)
			s.checks()
			out = append(out, s.in)
		case "wills":
			// C13: will QoS x retain x ending x hosting node x watchers with several filters
			nodes := 1 + rng.Intn(3)
			s := newScript(rng, nodes)
			mp := []string{"", "ta"}[rng.Intn(2)]
			for nn := 0; nn < nodes; nn++ {
				c := fmt.Sprintf("w%d", nn)
				s.connect(nn, c, "c-"+c, mp, 60, nil)
				s.sub(c, []string{[]string{"will/t", "will/+", "#", "other"}[rng.Intn(4)], "will/#"}, []int{0, 0})
			}
			s.connect(0, "foreign", "c-foreign", "tz", 60, nil)
			s.sub("foreign", []string{"#", "+/#"}, []int{0, 0})
			host := rng.Intn(nodes)
			wt := []string{"will/t", "will//door", "/will", "tz/alerts"}[rng.Intn(4)]
			if wt == "/will" || wt == "tz/alerts" || wt == "will//door" {
				s.sub("w0", []string{wt}, []int{0})
			}
			s.connect(host, "dying", "c-dying", mp, 60, &jPub{T: wt, P: "gone", Q: int32(rng.Intn(3)), R: rng.Intn(2) == 0})
			s.gossipAll()
			if rng.Intn(3) == 0 {
				s.connect(rng.Intn(nodes), "same-id-other-tenant", "c-dying", "tq", 60, nil)
				s.gossipAll()
			}
			switch e := rng.Intn(7); {
			case e == 0:
				s.add(e2eOp{Op: "eof", C: "dying"})
			case e == 1:
				s.add(e2eOp{Op: "timeout", C: "dying"})
			case e == 2:
				s.add(e2eOp{Op: "send", C: "dying", P: "connect"})
			case e == 3:
				s.add(e2eOp{Op: "send", C: "dying", P: "disc"})
			default:
				if nodes > 1 {
					if rng.Intn(3) == 0 {
						s.add(e2eOp{Op: "send", C: "dying", P: "disc"})
						s.gossipAll()
					}
					var surv []int
					for nn := 0; nn < nodes; nn++ {
						if nn != host {
							surv = append(surv, nn)
						}
					}
					if len(surv) == 2 && len(s.in.Ops)%2 == 0 {
						// two survivors, and the first one's broadcasts reach the second before it notices
						// the failure itself - within the three seconds for which the first keeps the session
						// records: the second still lists the sessions and publishes their wills too
						s.add(e2eOp{Op: "peer_notice", N: surv[0], Src: host})
						s.add(e2eOp{Op: "gossip", Src: surv[0], N: surv[1]})
						s.add(e2eOp{Op: "peer_notice", N: surv[1], Src: host})
						s.add(e2eOp{Op: "peer_reap", Src: host, Peers: surv})
					} else {
						for _, nn := range surv {
							s.add(e2eOp{Op: "peer_leave", N: nn, Src: host})
						}
					}
				} else {
					s.add(e2eOp{Op: "eof", C: "dying"})
				}
			}
			s.gossipAll()
			s.checks()
			out = append(out, s.in)
		case "cluster":
			// C14: placements of publisher and subscribers over 2-3 nodes, unreachable subsets
			nodes := 2 + rng.Intn(2)
			s := newScript(rng, nodes)
			// subscribers placed on the nodes in random order (so that the publisher's view of the
			// matching subscriptions is not grouped by node), gossip after each
			for k := 0; k < rng.Intn(3*nodes); k++ {
				c := fmt.Sprintf("s%d", k)
				s.connect(rng.Intn(nodes), c, "c-"+c, "", 60, nil)
				s.sub(c, []string{[]string{"t/#", "t/+", "u"}[rng.Intn(3)]}, []int{rng.Intn(2)})
				if rng.Intn(2) == 0 {
					s.gossipAll()
				}
			}
			s.gossipAll()
			pn := rng.Intn(nodes)
			s.connect(pn, "pub", "c-pub", "", 60, nil)
			for r := 0; r < 3+rng.Intn(4); r++ {
				var down []int
				for nn := 0; nn < nodes; nn++ {
					if nn != pn && rng.Intn(3) == 0 {
						down = append(down, nn)
					}
				}
				s.add(e2eOp{Op: "unreachable", Peers: down})
				if rng.Intn(3) == 0 {
					// a destination that can be reached but whose log refuses the message
					s.add(e2eOp{Op: "failappend", N: rng.Intn(nodes), K: 1})
				}
				s.pub("pub", []string{"t/a", "u", "v"}[rng.Intn(3)], fmt.Sprintf("m%d", r), rng.Intn(2), false)
				s.add(e2eOp{Op: "failappend", N: 0, K: 0})
				if nodes > 1 {
					s.add(e2eOp{Op: "failappend", N: 1, K: 0})
				}
				if nodes > 2 {
					s.add(e2eOp{Op: "failappend", N: 2, K: 0})
				}
			}
			out = append(out, s.in)
		case "tenants":
			// C17 end to end: 2-3 mount points, shared client identifiers, live publishes, retained
			// replays and wills
			s := newScript(rng, 1)
			mps := []string{"ta", "tb", ""}[:2+rng.Intn(2)]
			for _, mp := range mps {
				c := "sub-" + mp
				s.connect(0, c, "dev", mp, 60, nil)
				s.sub(c, []string{"#", randLevels(rng, []string{"a", "+", "#", ""}, 3)}, []int{0, 0})
			}
			for _, mp := range mps {
				c := "pub-" + mp
				s.connect(0, c, "pubdev", mp, 60, &jPub{T: "will", P: "w-" + mp, Q: 0})
				s.pub(c, randLevels(rng, []string{"a", ""}, 3), "live-"+mp, 0, false)
				s.pub(c, "kept", "ret-"+mp, 0, true)
			}
			for _, mp := range mps {
				c := "late-" + mp
				s.connect(0, c, "dev2", mp, 60, nil)
				s.sub(c, []string{[]string{"#", "+/#", "+", "kept"}[rng.Intn(4)]}, []int{0})
				s.add(e2eOp{Op: "send", C: "sub-" + mp, P: "ping"})
			}
			for _, mp := range mps {
				s.add(e2eOp{Op: "eof", C: "pub-" + mp})
			}
			if rng.Intn(2) == 0 {
				// two tenants whose names and client identifiers run into each other when written side by
				// side ("ta"+"1dev" = "ta1"+"dev"): neither connection may displace the other
				s.connect(0, "x-ta", "1dev", "ta", 60, nil)
				s.sub("x-ta", []string{"k/#"}, []int{0})
				s.connect(0, "x-ta1", "dev", "ta1", 60, nil)
				s.sub("x-ta1", []string{"k/#"}, []int{0})
				s.add(e2eOp{Op: "send", C: "x-ta", P: "ping"})
				s.pub("x-ta1", "k/1", "for-ta1", 0, false)
				s.pub("x-ta", "k/1", "for-ta", 0, false)
				s.add(e2eOp{Op: "send", C: "x-ta1", P: "ping"})
			}
			// the same client identifier in two mount points, with inbound QoS 2 handshakes that overlap
			// under the same packet identifier: each tenant's PUBREL releases its own publish only
			s.connect(0, "q-ta", "q2dev", "ta", 60, nil)
			s.connect(0, "q-tb", "q2dev", "tb", 60, nil)
			s.add(e2eOp{Op: "send", C: "q-ta", P: "pub", T: "q/1", Pl: "q2-ta", Q: 2, Mid: 1})
			s.add(e2eOp{Op: "send", C: "q-tb", P: "pub", T: "q/1", Pl: "q2-tb", Q: 2, Mid: 1})
			s.ackRaw("q-tb", "pubrel", 1)
			s.ackRaw("q-ta", "pubrel", 1)
			s.ackRaw("q-tb", "pubrel", 1)
			s.add(e2eOp{Op: "send", C: "q-ta", P: "ping"})
			s.checks()
			out = append(out, s.in)
		default:
			panic("unknown mode " + mode)
		}
	}
	return out
}

// corpusScript: hand-minimised scripts that run first in their mode — each is the shortest history
// found for a class of defect that random generation reaches only now and then (the session's own
// list of filters going out of step with the subscription store; an identifier that cannot be
// broadcast; a retained message set and cleared through the QoS 2 path).
func corpusScript(mode string, i int) *e2eInput {
	switch {
	case mode == "lifecycle" && i == 0:
		// unsubscribing a filter that was never subscribed must not disturb the remembered ones:
		// every subscription has to be gone after the session ends
		s := newScript(nil, 1)
		s.connect(0, "watch", "c-watch", "", 60, nil)
		s.sub("watch", []string{"#"}, []int{0})
		s.connect(0, "c0", "id-c0", "", 60, nil)
		s.sub("c0", []string{"x/a", "x/b", "x/c"}, []int{0, 1, 2})
		s.unsub("c0", []string{"never/subscribed"})
		s.unsub("c0", []string{"x/a"})
		s.unsub("c0", []string{"x/a"})
		s.add(e2eOp{Op: "check"})
		s.add(e2eOp{Op: "send", C: "c0", P: "disc"})
		s.pub("watch", "x/c", "after", 0, false)
		s.checks()
		return &s.in
	case (mode == "inbound" && i == 0) || (mode == "pipeline" && i == 0) || (mode == "lifecycle" && i == 2):
		// the client's own packet identifiers and the broker's are separate spaces: a session that has
		// an unacknowledged delivery under identifier 1 publishes at QoS 2 under identifier 1
		s := newScript(nil, 1)
		s.connect(0, "both", "c-both", "", 60, nil)
		s.sub("both", []string{"t/#"}, []int{1})
		s.connect(0, "other", "c-other", "", 60, nil)
		s.sub("other", []string{"t/#"}, []int{2})
		s.add(e2eOp{Op: "send", C: "both", P: "pub", T: "t/x", Pl: "first", Q: 1, Mid: 10})
		s.add(e2eOp{Op: "send", C: "both", P: "pub", T: "t/y", Pl: "second", Q: 2, Mid: 1})
		s.add(e2eOp{Op: "send", C: "both", P: "pub", T: "t/z", Pl: "third", Q: 2, Mid: 2})
		s.ackRaw("both", "pubrel", 1)
		s.ack("both", "puback", "t/x", "first", 1, 0)
		s.ackRaw("both", "pubrel", 2)
		s.add(e2eOp{Op: "send", C: "both", P: "ping"})
		s.add(e2eOp{Op: "sweep", N: 0})
		s.checks()
		return &s.in
	case mode == "wills" && i < 2:
		// a host with two will-bearing sessions fails; the first survivor's broadcasts reach the
		// second survivor before that one notices the failure itself (inside the three seconds for
		// which a survivor keeps the failed host's session records): both survivors publish the wills,
		// each to its own subscribers
		s := newScript(nil, 3)
		mp := []string{"", "ta"}[i]
		s.connect(0, "w0", "c-w0", mp, 60, nil)
		s.sub("w0", []string{"will/#"}, []int{0})
		s.connect(1, "w1", "c-w1", mp, 60, nil)
		s.sub("w1", []string{"will/+", "#"}, []int{0, 0})
		s.connect(2, "w2", "c-w2", mp, 60, nil)
		s.sub("w2", []string{"#"}, []int{0})
		s.connect(2, "dying", "c-dying", mp, 60, &jPub{T: "will/t", P: "gone", Q: 0})
		s.connect(2, "dying2", "c-dying2", mp, 60, &jPub{T: "will/u", P: "gone too", Q: int32(i), R: i == 1})
		s.gossipAll()
		s.add(e2eOp{Op: "peer_notice", N: 0, Src: 2})
		s.add(e2eOp{Op: "gossip", Src: 0, N: 1})
		s.add(e2eOp{Op: "peer_notice", N: 1, Src: 2})
		s.add(e2eOp{Op: "peer_reap", Src: 2, Peers: []int{0, 1}})
		s.add(e2eOp{Op: "gossip", Src: 0, N: 1})
		s.add(e2eOp{Op: "gossip", Src: 1, N: 0})
		s.add(e2eOp{Op: "check", N: 0})
		s.add(e2eOp{Op: "check", N: 1})
		return &s.in
	case mode == "lifecycle" && i == 1:
		// the same with the session lost instead of disconnected, and the last remembered filter removed first
		s := newScript(nil, 1)
		s.connect(0, "c0", "id-c0", "", 10, nil)
		s.sub("c0", []string{"x/a", "x/b"}, []int{1, 0})
		s.unsub("c0", []string{"x/b"})
		s.unsub("c0", []string{"x/zz"})
		s.add(e2eOp{Op: "eof", C: "c0"})
		s.connect(0, "c1", "id-c0", "", 10, nil)
		s.sub("c1", []string{"x/a"}, []int{0})
		s.pub("c1", "x/a", "self", 0, false)
		s.checks()
		return &s.in
	}
	return nil
}
