(** Base definitions shared by every model file: association lists standing for Go maps,
    the topic tokenizer of wasp/format/topic.go, canonical (bytewise) string order used to
    compare map-ordered output.  Executable definitions only; proofs live under Proofs/. *)
From Coq Require Export Ascii String List Bool ZArith NArith.
Export ListNotations.
Open Scope string_scope.
Arguments String.eqb : simpl never.

Definition is_nil {A} (l : list A) : bool := match l with [] => true | _ => false end.
Definition odflt {A} (d : A) (o : option A) : A := match o with Some x => x | None => d end.

(** Go map[string]V as an association list with unique keys; iteration order is the list
    order (Go's is unspecified, so observers sort). *)
Fixpoint alookup {A} (k : string) (l : list (string * A)) : option A :=
  match l with [] => None | (k', v) :: l' => if String.eqb k k' then Some v else alookup k l' end.
Fixpoint aset {A} (k : string) (v : A) (l : list (string * A)) : list (string * A) :=
  match l with [] => [(k, v)] | (k', v') :: l' => if String.eqb k k' then (k, v) :: l' else (k', v') :: aset k v l' end.
Fixpoint adel {A} (k : string) (l : list (string * A)) : list (string * A) :=
  match l with [] => [] | (k', v') :: l' => if String.eqb k k' then l' else (k', v') :: adel k l' end.

(** format.Topic: the chain of Next() calls until End().  [levels "" = [""]], [levels "a/" = ["a";""]]. *)
Fixpoint split_on (sep : ascii) (s : string) : list string :=
  match s with
  | EmptyString => [""]
  | String c s' => if Ascii.eqb c sep then "" :: split_on sep s'
                   else match split_on sep s' with x :: r => String c x :: r | [] => [String c ""] end
  end.
Definition levels (t : string) : list string := split_on "/"%char t.
Fixpoint join_with (sep : ascii) (ls : list string) : string :=
  match ls with
  | [] => ""
  | [x] => x
  | x :: r => x ++ String sep (join_with sep r)
  end.

(** canonical order: bytewise, as Go's sort.Strings *)
Fixpoint sinsert (x : string) (l : list string) : list string :=
  match l with [] => [x] | y :: l' => if String.leb x y then x :: l else y :: sinsert x l' end.
Definition ssort (l : list string) : list string := fold_right sinsert [] l.
Fixpoint list_eqb {A} (eqb : A -> A -> bool) (a b : list A) : bool :=
  match a, b with [] , [] => true | x :: a', y :: b' => eqb x y && list_eqb eqb a' b' | _, _ => false end.
Definition slist_eqb := list_eqb String.eqb.
Definition nonempty (s : string) : bool := negb (String.eqb s "").

(** strings with bytes that cannot be written in a literal: given as a list of byte values *)
Definition bytes_str (l : list N) : string := fold_right (fun b s => String (ascii_of_N b) s) "" l.

(** well-formed UTF-8, as Go's utf8.ValidString (what the protobuf encoder demands of a string
    field): shortest form only, no surrogates, nothing above U+10FFFF.  [need] = continuation
    bytes still owed; [lo],[hi] = bounds of the next continuation byte. *)
Fixpoint utf8_go (s : string) (need : nat) (lo hi : N) : bool :=
  match s with
  | EmptyString => match need with O => true | _ => false end
  | String c s' =>
    let b := N_of_ascii c in
    match need with
    | S k => ((lo <=? b) && (b <=? hi))%N && utf8_go s' k 128 191
    | O =>
      if (b <=? 127)%N then utf8_go s' 0 128 191
      else if ((194 <=? b) && (b <=? 223))%N then utf8_go s' 1 128 191
      else if (b =? 224)%N then utf8_go s' 2 160 191
      else if (b =? 237)%N then utf8_go s' 2 128 159
      else if ((225 <=? b) && (b <=? 239))%N then utf8_go s' 2 128 191
      else if (b =? 240)%N then utf8_go s' 3 144 191
      else if ((241 <=? b) && (b <=? 243))%N then utf8_go s' 3 128 191
      else if (b =? 244)%N then utf8_go s' 3 128 143
      else false
    end
  end.
Definition utf8_ok (s : string) : bool := utf8_go s 0 128 191.
