(** Model of wasp/distributed (sessions.go, subscriptions.go, topics.go, state.go) and
    crdt/entry.go, as repaired by F10, F11, F16, F21.  Each store is modelled at the level of
    the map it implements: the session map is a Go map; the subscription and retained tries
    are taken as maps from pattern / topic strings (that they are is C19's theorem, that a
    Walk / Match selects by MQTT matching is C01's / C07's), so ByPattern and Get are written
    with [mmatch] directly.  Clock readings are inputs of the operations. *)
From Wasp Require Export Model.Base Spec.MatchSpec.
Open Scope Z_scope.

(** * crdt/entry.go *)
Definition last_update (la ld : Z) : Z := if ld <? la then la else ld.         (* GetLastEntryUpdate *)
Definition is_added (la ld : Z) : bool := (0 <? la) && (ld <? la).             (* IsEntryAdded *)
Definition is_removed (la ld : Z) : bool := (0 <? ld) && (la <? ld).           (* IsEntryRemoved *)

Record publish := Publish { p_topic : string; p_payload : string; p_qos : Z; p_retain : bool; p_dup : bool }.
Record smeta := SMeta { m_sid : string; m_cid : string; m_mp : string; m_peer : Z; m_lwt : option publish;
                        m_la : Z; m_ld : Z }.
Record sub := Sub { s_sid : string; s_pattern : string; s_peer : Z; s_qos : Z; s_la : Z; s_ld : Z }.
Record rmsg := RMsg { r_pub : publish; r_la : Z; r_ld : Z }.
(* api.StateBroadcastEvent *)
Record bevent := BEvent { b_sess : list smeta; b_subs : list sub; b_ret : list rmsg }.
Definition ev_empty := BEvent [] [] [].

Record dstate := DState {
  d_peer : Z;
  d_sess : list (string * smeta);            (* sessions map[string]SessionMetadatas *)
  d_subs : list (string * list sub);         (* subscription trie: pattern -> SubscriptionList *)
  d_ret : list (string * rmsg)               (* retained trie: topic -> RetainedMessage *)
}.
Definition dnew (peer : Z) : dstate := DState peer [] [] [].
Definition with_sess d s := DState (d_peer d) s (d_subs d) (d_ret d).
Definition with_subs d s := DState (d_peer d) (d_sess d) s (d_ret d).
Definition with_ret d r := DState (d_peer d) (d_sess d) (d_subs d) r.

(** * sessions.go *)
Definition sess_added (m : smeta) := is_added (m_la m) (m_ld m).
Definition sess_ts (m : smeta) := last_update (m_la m) (m_ld m).
(* mergeSessions, one entry: outdated := !ok || IsEntryOutdated(local, remote) *)
Definition merge_session (l : list (string * smeta)) (m : smeta) : list (string * smeta) :=
  match alookup (m_sid m) l with
  | None => aset (m_sid m) m l
  | Some old => if sess_ts old <? sess_ts m then aset (m_sid m) m l else l
  end.
(* the loop returns ErrInvalidPayload at the first entry with an empty id: the rest is dropped *)
Fixpoint merge_sessions_l (l : list (string * smeta)) (ms : list smeta) : list (string * smeta) :=
  match ms with
  | [] => l
  | m :: ms' => if String.eqb (m_sid m) "" then l else merge_sessions_l (merge_session l m) ms'
  end.
Definition sess_filter (f : smeta -> bool) (d : dstate) : list smeta :=
  filter (fun m => sess_added m && f m) (map snd (d_sess d)).
Definition sess_all := sess_filter (fun _ => true).
Definition sess_by_client (mp cid : string) := sess_filter (fun m => String.eqb (m_mp m) mp && String.eqb (m_cid m) cid).
Definition sess_by_peer (p : Z) := sess_filter (fun m => m_peer m =? p).
Definition sess_get (d : dstate) (id : string) : option smeta :=
  match alookup id (d_sess d) with Some m => if sess_added m then Some m else None | None => None end.
(* Create: ErrSessionMetadatasExists when present and added; an error and no change when the record
   cannot be encoded for broadcast (its string fields must be well-formed UTF-8; the client
   identifier is client-chosen bytes); else store (unconditionally) and broadcast *)
Definition sess_create (d : dstate) (id cid mp : string) (lwt : option publish) (clk : Z) : dstate * option bevent :=
  let fresh := let m := SMeta id cid mp (d_peer d) lwt clk 0 in
               if utf8_ok id && utf8_ok cid && utf8_ok mp then (with_sess d (aset id m (d_sess d)), Some (BEvent [m] [] []))
               else (d, None) in
  match alookup id (d_sess d) with
  | Some old => if sess_added old then (d, None) else fresh
  | None => fresh
  end.
Definition sess_mark_deleted (m : smeta) (clk : Z) : smeta :=
  SMeta (m_sid m) (m_cid m) (m_mp m) (m_peer m) (m_lwt m) (m_la m) clk.
(* Delete: nothing when absent or already removed *)
Definition sess_delete (d : dstate) (id : string) (clk : Z) : dstate * option bevent :=
  match alookup id (d_sess d) with
  | None => (d, None)
  | Some old => if is_removed (m_la old) (m_ld old) then (d, None) else
      let m := sess_mark_deleted old clk in
      (with_sess d (aset id m (d_sess d)), Some (BEvent [m] [] []))
  end.
(* DeletePeer (F10): every added session of the peer is stamped, stored and put in ONE event *)
Definition sess_delete_peer (d : dstate) (p clk : Z) : dstate * option bevent :=
  let ev := map (fun m => sess_mark_deleted m clk) (sess_by_peer p d) in
  (with_sess d (fold_left (fun l m => aset (m_sid m) m l) ev (d_sess d)), Some (BEvent ev [] [])).

(** * subscriptions.go *)
Definition sub_added (s : sub) := is_added (s_la s) (s_ld s).
Definition sub_ts (s : sub) := last_update (s_la s) (s_ld s).
(* the loop of set(): found / replace-when-outdated+break / append-when-not-found *)
Fixpoint set_aux (found : bool) (l : list sub) (u : sub) : list sub :=
  match l with
  | [] => if found then [] else [u]
  | s :: l' =>
    if String.eqb (s_sid s) (s_sid u)
    then (if sub_ts s <? sub_ts u then u :: l' else s :: set_aux true l' u)
    else s :: set_aux found l' u
  end.
Definition sub_set (t : list (string * list sub)) (u : sub) : list (string * list sub) :=
  aset (s_pattern u) (set_aux false (odflt [] (alookup (s_pattern u) t)) u) t.
Fixpoint merge_subs_l (t : list (string * list sub)) (us : list sub) : list (string * list sub) :=
  match us with
  | [] => t
  | u :: us' => if String.eqb (s_sid u) "" || String.eqb (s_pattern u) "" then t else merge_subs_l (sub_set t u) us'
  end.
Definition sub_entries (d : dstate) : list sub := concat (map snd (d_subs d)).
Definition sub_filter (f : sub -> bool) (d : dstate) : list sub := filter (fun s => sub_added s && f s) (sub_entries d).
Definition sub_all := sub_filter (fun _ => true).
Definition sub_by_peer (p : Z) := sub_filter (fun s => s_peer s =? p).
(* ByPattern(topic): the lists stored under the patterns that match the topic *)
Definition sub_by_pattern (d : dstate) (topic : string) : list sub :=
  filter sub_added (concat (map snd (filter (fun kv => mmatch (levels (fst kv)) (levels topic)) (d_subs d)))).
Definition sub_create (d : dstate) (sid pattern : string) (qos clk : Z) : dstate * option bevent :=
  let u := Sub sid pattern (d_peer d) qos clk 0 in
  (with_subs d (sub_set (d_subs d) u), Some (BEvent [] [u] [])).
Definition sub_delete (d : dstate) (sid pattern : string) (clk : Z) : dstate * option bevent :=
  let u := Sub sid pattern (d_peer d) 0 0 clk in
  (with_subs d (sub_set (d_subs d) u), Some (BEvent [] [u] [])).
(* DeletePeer / DeleteSession (F10): one clock reading, every matching added entry *)
Definition sub_bulk_delete (d : dstate) (victims : list sub) (clk : Z) : dstate * option bevent :=
  let us := map (fun s => Sub (s_sid s) (s_pattern s) (s_peer s) (s_qos s) (s_la s) clk) victims in
  (with_subs d (fold_left sub_set us (d_subs d)), Some (BEvent [] us [])).
Definition sub_delete_peer (d : dstate) (p clk : Z) := sub_bulk_delete d (sub_by_peer p d) clk.
Definition sub_delete_session (d : dstate) (sid : string) (clk : Z) :=
  sub_bulk_delete d (sub_filter (fun s => String.eqb (s_sid s) sid) d) clk.

(** * topics.go *)
Definition ret_added (r : rmsg) := is_added (r_la r) (r_ld r).
Definition ret_ts (r : rmsg) := last_update (r_la r) (r_ld r).
Definition merge_ret1 (t : list (string * rmsg)) (r : rmsg) : list (string * rmsg) :=
  let topic := p_topic (r_pub r) in
  let store := if ret_added r || is_removed (r_la r) (r_ld r) then aset topic r t else t in
  match alookup topic t with
  | Some old => if ret_ts old <? ret_ts r then store else t
  | None => store
  end.
Fixpoint merge_ret_l (t : list (string * rmsg)) (rs : list rmsg) : list (string * rmsg) :=
  match rs with
  | [] => t
  | r :: rs' => if String.eqb (p_topic (r_pub r)) "" then t else merge_ret_l (merge_ret1 t r) rs'
  end.
(* stamp (F21): the clock, or just after the entry being replaced when that is not older *)
Definition ret_stamp (d : dstate) (topic : string) (clk : Z) : Z :=
  match alookup topic (d_ret d) with Some old => if clk <=? ret_ts old then ret_ts old + 1 else clk | None => clk end.
Definition ret_set (d : dstate) (p : publish) (clk : Z) : dstate * option bevent :=
  let r := RMsg p (ret_stamp d (p_topic p) clk) 0 in
  (with_ret d (aset (p_topic p) r (d_ret d)), Some (BEvent [] [] [r])).
Definition ret_delete (d : dstate) (topic : string) (clk : Z) : dstate * option bevent :=
  let r := RMsg (Publish topic "" 0 false false) 0 (ret_stamp d topic clk) in
  (with_ret d (aset topic r (d_ret d)), Some (BEvent [] [] [r])).
(* topics/node.go match: like MQTT matching, except that a '#' level stands for "everything
   below" wherever it occurs in the filter (MQTT only allows it last; for such filters the two agree) *)
Fixpoint gmatch (f t : list string) : bool :=
  match f with
  | [] => is_nil t
  | x :: f' =>
    if String.eqb x "#" then true
    else match t with
         | [] => false
         | y :: t' => ((String.eqb x "+") || (String.eqb x y)) && gmatch f' t'
         end
  end.
(* Get(pattern): the added messages stored under the topics the filter matches *)
Definition ret_get (d : dstate) (pattern : string) : list rmsg :=
  filter ret_added (map snd (filter (fun kv => gmatch (levels pattern) (levels (fst kv))) (d_ret d))).

(** * state.go *)
Definition merge_event (d : dstate) (e : bevent) : dstate :=
  DState (d_peer d) (merge_sessions_l (d_sess d) (b_sess e)) (merge_subs_l (d_subs d) (b_subs e))
         (merge_ret_l (d_ret d) (b_ret e)).
(* LocalState (F11): every entry of every store, tombstones included *)
Definition dump (d : dstate) : bevent := BEvent (map snd (d_sess d)) (sub_entries d) (map snd (d_ret d)).

(** * operations of one node, as the harness scripts them *)
Inductive dop :=
| DSessCreate (id cid mp : string) (lwt : option publish) (clk : Z)
| DSessDelete (id : string) (clk : Z)
| DSessDeletePeer (p clk : Z)
| DSubCreate (sid pattern : string) (qos clk : Z)
| DSubDelete (sid pattern : string) (clk : Z)
| DSubDeletePeer (p clk : Z)
| DSubDeleteSession (sid : string) (clk : Z)
| DRetSet (p : publish) (clk : Z)
| DRetDelete (topic : string) (clk : Z).
Definition dapply (d : dstate) (o : dop) : dstate * option bevent :=
  match o with
  | DSessCreate id cid mp lwt clk => sess_create d id cid mp lwt clk
  | DSessDelete id clk => sess_delete d id clk
  | DSessDeletePeer p clk => sess_delete_peer d p clk
  | DSubCreate sid pat qos clk => sub_create d sid pat qos clk
  | DSubDelete sid pat clk => sub_delete d sid pat clk
  | DSubDeletePeer p clk => sub_delete_peer d p clk
  | DSubDeleteSession sid clk => sub_delete_session d sid clk
  | DRetSet p clk => ret_set d p clk
  | DRetDelete t clk => ret_delete d t clk
  end.
