(** C11 — Sessions end only for cause, and ending one removes every trace of it. *)
From Wasp Require Import Model.Base Spec.MatchSpec Model.DState Model.IdPool Model.Mount Model.Node Proofs.BaseFacts Proofs.MountFacts Proofs.NodeFacts Proofs.DStateFacts Proofs.TakeoverFacts Proofs.TraceFacts.
From stdpp Require Import list strings.
Open Scope Z_scope.

(** A connection is closed only in a step whose event is a cause: a CONNECT that cannot be set
    up, a packet from that client that Process rejects (second CONNECT; a QoS 2 PUBLISH whose
    identifier is 0 or already pending), a PINGREQ (when the session has been displaced),
    DISCONNECT, connection loss or read-deadline expiry.  Subscribes, unsubscribes,
    acknowledgements of any kind, expiry sweeps, gossip, snapshots, peer failures, faults
    injected into the log or the network, and everything the pipeline does while draining
    (deliveries, retransmissions) never close anything - however long the client idles. *)
Theorem ends_only_for_cause : ∀ seen cl o c, Closed c ∈ (step seen cl o).2 → may_close o = true.
Proof. exact closed_needs_cause. Qed.
Print Assumptions ends_only_for_cause.

(** ending a session removes it from its host's registry, whatever the cause ... *)
Theorem end_leaves_registry : ∀ cl i s clk, n_reg (after_unsub cl i s clk) = adel (ss_id s) (n_reg (getn cl i)).
Proof. exact end_leaves_registry. Qed.
Print Assumptions end_leaves_registry.
(** ... and closes its connection, will or no will, displaced or not *)
Theorem end_closes_connection : ∀ cl i s clk, (shutdown cl i s true clk).2 = [Closed (ss_conn s)].
Proof. exact no_will_after_disconnect. Qed.
Print Assumptions end_closes_connection.

(** "... its session record and all of its subscriptions disappear".  Every subscription the
    session remembers ([ss_topics]: what SUBSCRIBE added and UNSUBSCRIBE did not remove) is
    tombstoned on its host: the stored entry is the tombstone, and neither ByPattern for any topic
    nor the listing shows an entry of that session under that filter any more.  Premise: the
    node's clock reading is above the stamp of the entry it replaces (LWW, C08). *)
Theorem end_removes_every_subscription : ∀ cl i s clk pat,
  subs_ok (d_subs (n_d (getn cl i))) → ss_id s ≠ "" → Forall (λ t, t ≠ "") (ss_topics s) → pat ∈ ss_topics s →
  (∀ old, abs_subs (d_subs (n_d (getn cl i))) (pat, ss_id s) = Some old → sub_ts old < clk) → 0 < clk →
  let d' := n_d (after_unsub cl i s clk) in
  abs_subs (d_subs d') (pat, ss_id s) = Some (tomb (ss_id s) (d_peer (n_d (getn cl i))) clk pat) ∧
  (∀ topic u, u ∈ sub_by_pattern d' topic → ¬ (s_sid u = ss_id s ∧ s_pattern u = pat)) ∧
  (∀ u, u ∈ sub_all d' → ¬ (s_sid u = ss_id s ∧ s_pattern u = pat)).
Proof. exact end_removes_subscriptions. Qed.
Print Assumptions end_removes_every_subscription.

(** ... and when the identifier still resolves to the session, its record is gone too *)
Theorem end_removes_the_record : ∀ cl i s clk m,
  let n2 := after_unsub cl i s clk in
  sess_ok (d_sess (n_d n2)) → alookup (ss_id s) (d_sess (n_d n2)) = Some m → sess_added m = true → sess_ts m < clk →
  let d' := (sess_delete (n_d n2) (ss_id s) clk).1 in
  sess_get d' (ss_id s) = None ∧ (∀ x, x ∈ sess_all d' → m_sid x ≠ ss_id s).
Proof. exact end_removes_record. Qed.
Print Assumptions end_removes_the_record.

(** "... from every node's view once the resulting broadcasts are delivered": what shutdownSession
    does to the replicated state is the operation sequence [end_ops] (one tombstone per remembered
    filter, then the record), the broadcasts it queues are exactly those of that sequence, and
    a node whose view agreed before and that merges them agrees afterwards (C09) — so the two
    theorems above hold of its view as well. *)
Theorem end_is_conveyed_to_every_node : ∀ cl i s clk r,
  let n0 := getn cl i in
  let n2 := after_unsub cl i s clk in
  let n3 := mutate n2 (sess_delete (n_d n2) (ss_id s) clk) in
  dok (n_d n0) → dok r → same_abs (n_d n0) r →
  ss_id s ≠ "" → Forall (λ t, t ≠ "") (ss_topics s) →
  (∀ old, alookup (ss_id s) (d_sess (n_d n0)) = Some old → sess_ts old < clk) →
  let run := origin_run (n_d n0) (end_ops (ss_id s) (ss_topics s) clk true) in
  n_d n3 = run.1 ∧ n_out n3 = n_out n0 ++ run.2 ∧
  dok run.1 ∧ same_abs run.1 (fold_left merge_event run.2 r).
Proof. exact end_is_conveyed. Qed.
Print Assumptions end_is_conveyed_to_every_node.

(** the keep-alive allowance is armed when CONNACK is written and re-armed by every packet:
    2 x keep-alive (non-vacuity / regression examples: idle right after CONNECT, then a ping) *)
Example c11_history :
  let run := fold_left (λ st o, let r := step [] st.1 o in (r.1, (st.2 ++ [r.2])%list)) in
  let ops := [EConnect 0%nat "a" "ca" "" "" 60 None 10; ESubscribe "a" 1 [("x/y", 0); ("z", 1)] 20; EPing "a" 30;
              EConnect 0%nat "b" "cb" "" "bad" 60 None 40; EDisconnect "a" 50; ECheck 0%nat] in
  let o := (run ops (cnew 1%nat, [])).2 in
  nth 0%nat o [] = [Out "a" (OConnAck 0); Deadline "a" 120000]
  ∧ nth 2%nat o [] = [Out "a" OPingResp; Deadline "a" 120000]
  ∧ nth 3%nat o [] = [Out "b" (OConnAck 4); Deadline "b" 3000]
  ∧ nth 4%nat o [] = [Closed "a"]
  ∧ nth 5%nat o [] = [Listed 0%nat [] [] [] 0%nat].
Proof. vm_compute. done. Qed.
