package main

// Scripted connection (the broker side implements transport.TimeoutReadWriteCloser), the
// client side of the MQTT wire protocol written by hand (the library's EncodeConnect loses the
// will and clean-session flags), and decoding of what the broker writes.

import (
	"bytes"
	"io"
	"sync"
	"time"

	"github.com/vx-labs/mqtt-protocol/decoder"
	"github.com/vx-labs/mqtt-protocol/packet"
)

type timeoutErr struct{}

func (timeoutErr) Error() string   { return "scripted i/o timeout" }
func (timeoutErr) Timeout() bool   { return true }
func (timeoutErr) Temporary() bool { return true }

type scriptConn struct {
	mu       sync.Mutex
	cond     *sync.Cond
	in       bytes.Buffer // bytes the client sent, not yet read by the broker
	out      bytes.Buffer // bytes written by the broker, not yet parsed
	blocked  bool         // broker is blocked in Read on an empty buffer
	eof      bool
	timeout  bool
	closed   bool
	closes   int
	failW    bool // writes fail (client end gone while the session is still registered)
	lastKind string
	lastDur  time.Duration // deadline in force (relative to the call), 0 = none armed yet
	nDead    int
	outPkts  []packet.Packet
	garbage  int // bytes the broker wrote that did not parse as packets
}

func newScriptConn() *scriptConn {
	c := &scriptConn{}
	c.cond = sync.NewCond(&c.mu)
	return c
}

func (c *scriptConn) Read(p []byte) (int, error) {
	c.mu.Lock()
	defer c.mu.Unlock()
	for {
		if c.closed {
			return 0, io.ErrClosedPipe
		}
		if c.in.Len() > 0 {
			return c.in.Read(p)
		}
		if c.timeout {
			c.timeout = false
			return 0, timeoutErr{}
		}
		if c.eof {
			return 0, io.EOF
		}
		if !c.blocked {
			c.blocked = true
			c.cond.Broadcast()
		}
		c.cond.Wait()
		c.blocked = false
	}
}
func (c *scriptConn) Write(p []byte) (int, error) {
	c.mu.Lock()
	defer c.mu.Unlock()
	if c.closed {
		return 0, io.ErrClosedPipe
	}
	if c.failW {
		return 0, io.ErrClosedPipe
	}
	c.out.Write(p)
	for {
		b := c.out.Bytes()
		n := completePacketLen(b)
		if n == 0 {
			break
		}
		pkt, err := safeDecode(b[:n])
		if b[0]>>4 == 11 && n == 4 { // the library's decoder does not know UNSUBACK
			pkt, err = &packet.UnsubAck{Header: &packet.Header{}, MessageId: int32(b[2])<<8 | int32(b[3])}, nil
		}
		c.out.Next(n)
		if err == nil && pkt != nil {
			c.outPkts = append(c.outPkts, pkt)
		} else {
			c.garbage += n
		}
	}
	c.cond.Broadcast()
	return len(p), nil
}
func safeDecode(b []byte) (pkt packet.Packet, err error) {
	defer func() {
		if r := recover(); r != nil {
			pkt, err = nil, io.ErrUnexpectedEOF
		}
	}()
	return decoder.New().Decode(bytes.NewReader(b))
}
func completePacketLen(b []byte) int {
	if len(b) < 2 {
		return 0
	}
	rem, mult, i := 0, 1, 1
	for {
		if i >= len(b) {
			return 0
		}
		rem += int(b[i]&0x7f) * mult
		mult *= 128
		if b[i]&0x80 == 0 {
			break
		}
		i++
		if i > 4 {
			return len(b)
		}
	}
	total := i + 1 + rem
	if len(b) < total {
		return 0
	}
	return total
}
func (c *scriptConn) Close() error {
	c.mu.Lock()
	defer c.mu.Unlock()
	c.closed = true
	c.closes++
	c.cond.Broadcast()
	return nil
}
func (c *scriptConn) rec(kind string, t time.Time) {
	c.mu.Lock()
	defer c.mu.Unlock()
	c.lastKind = kind
	c.lastDur = time.Until(t).Round(100 * time.Millisecond)
	c.nDead++
}
func (c *scriptConn) SetDeadline(t time.Time) error      { c.rec("rw", t); return nil }
func (c *scriptConn) SetReadDeadline(t time.Time) error  { c.rec("r", t); return nil }
func (c *scriptConn) SetWriteDeadline(t time.Time) error { c.rec("w", t); return nil }

// ---- harness side

func (c *scriptConn) Feed(b []byte) {
	c.mu.Lock()
	c.in.Write(b)
	c.cond.Broadcast()
	c.mu.Unlock()
}

// WaitIdle: every fed byte consumed and the broker blocked in Read again, or the connection closed.
func (c *scriptConn) WaitIdle(d time.Duration) bool {
	deadline := time.Now().Add(d)
	c.mu.Lock()
	defer c.mu.Unlock()
	for !(c.closed || (c.blocked && c.in.Len() == 0)) {
		if time.Now().After(deadline) {
			return false
		}
		c.mu.Unlock()
		time.Sleep(100 * time.Microsecond)
		c.mu.Lock()
	}
	return true
}
func (c *scriptConn) WaitClosed(d time.Duration) bool {
	deadline := time.Now().Add(d)
	c.mu.Lock()
	defer c.mu.Unlock()
	for !c.closed {
		if time.Now().After(deadline) {
			return false
		}
		c.mu.Unlock()
		time.Sleep(100 * time.Microsecond)
		c.mu.Lock()
	}
	return true
}
func (c *scriptConn) WaitOutCount(n int, d time.Duration) bool {
	deadline := time.Now().Add(d)
	c.mu.Lock()
	defer c.mu.Unlock()
	for len(c.outPkts) < n && !c.closed {
		if time.Now().After(deadline) {
			return false
		}
		c.mu.Unlock()
		time.Sleep(100 * time.Microsecond)
		c.mu.Lock()
	}
	return len(c.outPkts) >= n
}
func (c *scriptConn) Snapshot() (pkts []packet.Packet, closed bool, dl time.Duration, kind string, garbage int) {
	c.mu.Lock()
	defer c.mu.Unlock()
	g := c.garbage
	c.garbage = 0
	return append([]packet.Packet(nil), c.outPkts...), c.closed, c.lastDur, c.lastKind, g
}
func (c *scriptConn) outCount() int { c.mu.Lock(); defer c.mu.Unlock(); return len(c.outPkts) }

// WaitAckFrom: a PUBACK (4) / PUBCOMP (7) with this identifier among the packets written since index from
func (c *scriptConn) WaitAckFrom(from int, typ byte, mid int32, d time.Duration) bool {
	deadline := time.Now().Add(d)
	c.mu.Lock()
	defer c.mu.Unlock()
	for {
		for i := from; i < len(c.outPkts); i++ {
			switch p := c.outPkts[i].(type) {
			case *packet.PubAck:
				if typ == 4 && p.MessageId == mid {
					return true
				}
			case *packet.PubComp:
				if typ == 7 && p.MessageId == mid {
					return true
				}
			}
		}
		if c.closed || c.failW || time.Now().After(deadline) {
			return false
		}
		c.mu.Unlock()
		time.Sleep(100 * time.Microsecond)
		c.mu.Lock()
	}
}
func (c *scriptConn) FireTimeout()  { c.mu.Lock(); c.timeout = true; c.cond.Broadcast(); c.mu.Unlock() }
func (c *scriptConn) ClientEOF()    { c.mu.Lock(); c.eof = true; c.cond.Broadcast(); c.mu.Unlock() }
func (c *scriptConn) FailWrites()   { c.mu.Lock(); c.failW = true; c.mu.Unlock() }

// ---- client-side encoding

func lp(s string) []byte { return append([]byte{byte(len(s) >> 8), byte(len(s))}, s...) }
func remLen(n int) []byte {
	var out []byte
	for {
		d := byte(n % 128)
		n /= 128
		if n > 0 {
			d |= 0x80
		}
		out = append(out, d)
		if n == 0 {
			return out
		}
	}
}
func frame(first byte, body []byte) []byte {
	return append(append([]byte{first}, remLen(len(body))...), body...)
}
func encConnect(cid, user, pass string, keepalive int, will *jPub, clean bool) []byte {
	flags := byte(0)
	if clean {
		flags |= 0x02
	}
	body := append(lp("MQTT"), 4)
	if will != nil {
		flags |= 0x04 | byte(will.Q&3)<<3
		if will.R {
			flags |= 0x20
		}
	}
	if user != "" {
		flags |= 0x80
	}
	if pass != "" {
		flags |= 0x40
	}
	body = append(body, flags, byte(keepalive>>8), byte(keepalive))
	body = append(body, lp(cid)...)
	if will != nil {
		body = append(body, lp(will.T)...)
		body = append(body, lp(will.P)...)
	}
	if user != "" {
		body = append(body, lp(user)...)
	}
	if pass != "" {
		body = append(body, lp(pass)...)
	}
	return frame(0x10, body)
}
func encPublish(t, p string, q int, r, dup bool, mid int) []byte {
	first := byte(0x30) | byte(q&3)<<1
	if r {
		first |= 1
	}
	if dup {
		first |= 8
	}
	body := lp(t)
	if q > 0 {
		body = append(body, byte(mid>>8), byte(mid))
	}
	body = append(body, p...)
	return frame(first, body)
}
func encAck(typ byte, mid int) []byte {
	first := typ << 4
	if typ == 6 {
		first |= 2
	}
	return frame(first, []byte{byte(mid >> 8), byte(mid)})
}
func encSubscribe(mid int, fs []string, qs []int) []byte {
	body := []byte{byte(mid >> 8), byte(mid)}
	for i, f := range fs {
		body = append(body, lp(f)...)
		q := 0
		if i < len(qs) {
			q = qs[i]
		}
		body = append(body, byte(q))
	}
	return frame(0x82, body)
}
func encUnsubscribe(mid int, fs []string) []byte {
	body := []byte{byte(mid >> 8), byte(mid)}
	for _, f := range fs {
		body = append(body, lp(f)...)
	}
	return frame(0xa2, body)
}
