(** C02 — An acknowledged publish is never lost before reaching connected subscribers.
    Statements about the node model; the chain is: acknowledged ==> stored at every destination
    (C05 [ack_after_store]) ==> consumed by that node's log consumer ([nothing_skipped]) ==>
    written to every recipient in the registry ([stored_entry_delivered]).  Log segment rolls and
    truncation are below this model (the log is a list); they are C15's consumer model. *)
From Wasp Require Import Model.Base Spec.MatchSpec Model.DState Model.IdPool Model.Mount Model.Node Proofs.BaseFacts Proofs.MountFacts Proofs.NodeFacts.
From stdpp Require Import list strings.
Open Scope Z_scope.

(** the acknowledgement is emitted only when every destination log accepted the message *)
Theorem acked_implies_stored : ∀ cl i m retain clk ackp, ∃ cl1 o,
  (worker cl i m retain clk ackp).2 = o ++ (if existsb bad_store o then [] else ackp) ∧
  quiet (λ x, negb (is_store x)) o ∧
  (existsb bad_store o = false → ∀ dst, dst ∈ dests_of cl1 i m → existsb (stored_at (Z.to_nat (dst - 1)) m) o = true) ∧
  (∀ j, (∀ dst, dst ∈ dests_of cl1 i m → Z.to_nat (dst - 1) ≠ j) → napp j o = 0%nat).
Proof. exact worker_spec. Qed.
Print Assumptions acked_implies_stored.

(** the log consumer hands EVERY stored entry to the writer, from the very first one (offset 0)
    on: after draining, the consumer offset equals the length of the log and the log is intact *)
Theorem nothing_skipped : ∀ fuel cl i, (i < length (cl_nodes cl))%nat →
  (length (n_log (getn cl i)) - n_coff (getn cl i) ≤ fuel)%nat →
  let n' := getn (drain_node fuel cl i).1 i in
  n_log n' = n_log (getn cl i) ∧ (n_coff n' = Nat.max (n_coff (getn cl i)) (length (n_log (getn cl i))))%nat.
Proof. exact drain_consumes_everything. Qed.
Print Assumptions nothing_skipped.

(** a stored entry is written, with topic (mount point trimmed) and payload intact, to every
    recipient that is in the registry, and to nobody else (QoS 0 recipients: exact list; at
    QoS 1/2 the same packets carry identifiers, see C03/C06) *)
Theorem stored_entry_delivered : ∀ bad recips n m, Forall (λ rq : string * Z, rq.2 = 0) recips →
  send bad n recips m = (n, flat_map (q0_out bad n m) recips).
Proof. exact send_q0_exact. Qed.
Print Assumptions stored_entry_delivered.
Theorem delivered_only_to_recipients : ∀ bad recips n m o, o ∈ (send bad n recips m).2 →
  ∃ r q s mid, (r, q) ∈ recips ∧ alookup r (n_reg n) = Some s ∧
    o = Out (ss_conn s) (OPublish (trim_mp (ss_mp s) (l_topic m)) (l_payload m) q (l_retain m) (l_dup m) mid).
Proof. exact send_only_recipients. Qed.
Print Assumptions delivered_only_to_recipients.

From Wasp Require Import Proofs.IdPoolFacts Proofs.IdsFacts Proofs.DeliverFacts.
(** ... and at QoS 1/2: the entry is written to a registered recipient under an identifier taken
    from the pool — one that is in range and not in flight — whenever the pool has one left, and
    the delivery is then pending in the in-flight table, so that C03's retransmission applies to
    it until it is acknowledged.  ([GN n []] is the identifier invariant, which holds in every
    reachable state: C06's [inflight_identifiers_unique_and_never_leak]; the last premise says that
    the in-flight entries filed under this session's id are its outbound ones, which holds as
    long as no session id ends in "/in".) *)
Theorem qos_recipient_is_written : ∀ bad n r q s m,
  GN n [] → alookup r (n_reg n) = Some s → (q = 1 ∨ q = 2) →
  (∃ x, 1 ≤ x ≤ 65535 ∧ infree (ivs (n_pool n)) x) →
  (∀ e, e ∈ n_acks n → a_prefix e = ss_id s → outbound e = true) →
  ∃ mid, 1 ≤ mid ≤ 65535 ∧ mid ∉ out_mids (n_acks n) ∧
    let pk := OPublish (trim_mp (ss_mp s) (l_topic m)) (l_payload m) q (l_retain m) (l_dup m) mid in
    (send bad n [(r, q)] m).2 = wout bad (ss_conn s) pk ∧
    ∃ e, e ∈ n_acks (send bad n [(r, q)] m).1 ∧ a_prefix e = ss_id s ∧ a_mid e = mid ∧ outbound e = true ∧
         (a_tag e = TQ1 (ss_id s) pk ∨ a_tag e = TQ2Pub (ss_id s) pk).
Proof. exact qos_recipient_written. Qed.
Print Assumptions qos_recipient_is_written.

From Wasp Require Import Proofs.Qos2Facts Proofs.StepFacts.
(** The chain composed over one step of the cluster (Proofs/StepFacts.v): in the very step in
    which the broker acknowledges a QoS 0/1 publish — from any state in which the consumers have
    caught up and nothing is failing — every registered session with a matching added subscription
    on a destination node, whose connection accepts writes, is sent the message: topic as
    published (mount point trimmed), payload intact. *)
Theorem acknowledged_publish_reaches_subscribers : ∀ seen cl c k s p dup mid clk j u s',
  find_conn cl c = Some k → c_closed k = false → c_sid k = Some (ss_id s) →
  alookup (ss_id s) (n_reg (getn cl (c_node k))) = Some s →
  quiescent cl → healthy cl → p_retain p = false → (p_qos p = 0 ∨ p_qos p = 1) →
  let i := c_node k in
  let m := LMsg (prefix_mp (ss_mp s) (p_topic p)) (p_payload p) (p_qos p) false dup in
  Forall (λ d, 1 ≤ d) (dests_of cl i m) →
  (∀ j u, (j < nlen cl)%nat → u ∈ sub_by_pattern (n_d (getn cl j)) (l_topic m) → s_qos u = 0) →
  (j < nlen cl)%nat → dest_here cl i m j = true →
  u ∈ sub_by_pattern (n_d (getn cl j)) (l_topic m) → s_peer u = n_id (getn cl j) →
  alookup (s_sid u) (n_reg (getn cl j)) = Some s' → existsb (String.eqb (ss_conn s')) (cl_bad cl) = false →
  Out (ss_conn s') (OPublish (trim_mp (ss_mp s') (l_topic m)) (p_payload p) 0 false dup 0) ∈ (step seen cl (EPublish c p dup mid clk)).2.
Proof. exact publish_step_reaches. Qed.
Print Assumptions acknowledged_publish_reaches_subscribers.

(** [quiescent] — the premise of the step theorems of C01, C02, C07 and C14 — is what every step
    re-establishes: the initial state has it, and after the consumers have run at the end of a
    step every node's offset is at the end of its log, provided the step's own part left no node
    with more than [drain_fuel] (4000) unconsumed entries (the bound of the model's consumer loop;
    the harness never comes near it, a step appends at most one entry per will or publish). *)
Theorem initial_state_has_caught_up : ∀ k, quiescent (cnew k).
Proof. exact cnew_quiescent. Qed.
Print Assumptions initial_state_has_caught_up.
Theorem consumers_catch_up_in_every_step : ∀ seen cl o, backlog_ok (step_raw seen cl o).1 → quiescent (step seen cl o).1.
Proof. exact step_reestablishes_quiescence. Qed.
Print Assumptions consumers_catch_up_in_every_step.

(** the very first message a node ever stores is delivered *)
Example first_message_delivered :
  let run := fold_left (λ st o, let r := step [] st.1 o in (r.1, (st.2 ++ [r.2])%list)) in
  let ops := [EConnect 0%nat "sub" "c-sub" "" "" 60 None 10; ESubscribe "sub" 1 [("#", 0)] 20;
              EConnect 0%nat "pub" "c-pub" "" "" 60 None 30; EPublish "pub" (Publish "a" "first" 1 false false) false 5 40] in
  nth 3%nat (run ops (cnew 1%nat, [])).2 [] =
    [Appended 0%nat "_default/a" "first" 1 false; Out "pub" (OPubAck 5); Deadline "pub" 120000; Out "sub" (OPublish "a" "first" 0 false false 0)].
Proof. vm_compute. done. Qed.
