(** C13: what the publication of a will consists of.  An unclean end of a session that owns its
    record hands the will — under the session's mount point — to the publish path once; the
    distributor stores it at most once per node, at every node hosting a matching subscription
    known here when nothing fails, and at no other node.  (Each hosting node then writes it once
    per matching subscription entry: C01's [by_pattern_once] and [deliver_exact].) *)
From Wasp Require Import Model.Base Spec.MatchSpec Model.DState Model.IdPool Model.Mount Model.Node
  Proofs.BaseFacts Proofs.NodeFacts Proofs.Qos2Facts.
From stdpp Require Import list strings.
From Coq Require Import ZArith Lia.
Open Scope Z_scope.

Definition will_msg (s : sess) (w : publish) : lmsg := LMsg (prefix_mp (ss_mp s) (p_topic w)) (p_payload w) (p_qos w) false false.

Theorem will_distributed cl i s w clk : ss_lwt s = Some w → mine_of (after_unsub cl i s clk) s ≠ Some false →
  ∃ cl1 o, (shutdown cl i s false clk).2 = Closed (ss_conn s) :: o ∧
    quiet (λ x, negb (is_store x)) o ∧
    (existsb bad_store o = false → ∀ dst, dst ∈ dests_of cl1 i (will_msg s w) → existsb (stored_at (Z.to_nat (dst - 1)) (will_msg s w)) o = true) ∧
    (Forall (λ d : Z, 1 ≤ d) (dests_of cl1 i (will_msg s w)) → ∀ j, (napp j o ≤ 1)%nat) ∧
    (∀ j, (∀ dst, dst ∈ dests_of cl1 i (will_msg s w) → Z.to_nat (dst - 1) ≠ j) → napp j o = 0%nat).
Proof.
  intros Hw Hm. destruct (will_on_unclean_end cl i s w clk Hw Hm) as [cl3 Hout]. fold (will_msg s w) in Hout.
  unfold worker in Hout. set (cl1 := setn cl3 i _) in Hout.
  destruct (distribute_spec cl1 i (will_msg s w)) as (Q & F & S & O1 & N).
  destruct (distribute cl1 i (will_msg s w)) as [[c2 o] failed]. cbn [fst snd] in *.
  exists cl1, o. rewrite Hout. subst failed. split.
  - f_equal. destruct (existsb bad_store o); by rewrite app_nil_r.
  - done.
Qed.

(** host failure (nodes.go NotifyGossipLeave): the survivor appends to its own log exactly one
    copy of the will of every session of the failed peer that it lists, under that session's
    mount point, in listing order — and nothing else *)
Definition peer_wills (n1 : node) (pid : Z) : list lmsg :=
  flat_map (λ m, match m_lwt m with
                 | Some w => [LMsg (prefix_mp (m_mp m) (p_topic w)) (p_payload w) (p_qos w) (p_retain w) false]
                 | None => [] end) (sess_by_peer pid (n_d n1)).

Lemma append_fold_ok o wills : ∀ c ob, (o < length (cl_nodes c))%nat → n_fail (getn c o) = 0%nat →
  (fold_left (λ acc w, let '(c, ob, _) := append_at acc.1 o w in (c, (acc.2 ++ ob)%list)) wills (c, ob)).2 =
  ob ++ map (λ w, Appended o (l_topic w) (l_payload w) (l_qos w) (l_retain w)) wills.
Proof.
  induction wills as [|w wills IH]; intros c ob Hlen Hf; cbn [fold_left map]; [by rewrite app_nil_r|].
  cbn [fst snd]. unfold append_at. rewrite Hf.
  rewrite IH.
  - cbn [map]. by rewrite <- app_assoc.
  - by rewrite setn_length.
  - by rewrite getn_setn.
Qed.

Theorem host_failure_wills cl o d clk : (o < length (cl_nodes cl))%nat → n_fail (getn cl o) = 0%nat →
  let pid := Z.of_nat (S d) in
  let n1 := mutate (getn cl o) (sub_delete_peer (n_d (getn cl o)) pid clk) in
  (peer_leave cl o d clk).2 = map (λ w, Appended o (l_topic w) (l_payload w) (l_qos w) (l_retain w)) (peer_wills n1 pid).
Proof.
  intros Hlen Hf pid n1. unfold peer_leave. cbn [snd].
  set (cl0 := Cluster (cl_nodes cl) (cl_conns cl) (cl_bad cl) (d :: cl_down cl) (cl_deliv cl) (cl_next cl)).
  change (getn cl0 o) with (getn cl o). fold pid. fold n1.
  assert (Hlen1 : (o < length (cl_nodes (setn cl0 o n1)))%nat) by (by rewrite setn_length).
  assert (Hf1 : n_fail (getn (setn cl0 o n1) o) = 0%nat) by (rewrite getn_setn by done; exact Hf).
  pose proof (append_fold_ok o (peer_wills n1 pid) (setn cl0 o n1) [] Hlen1 Hf1) as H. cbn [app] in H.
  exact H.
Qed.

(** host failure in two steps (nodes.go: NotifyGossipLeave returns after the wills; the session
    records of the failed peer are removed by a goroutine three seconds later) *)
Lemma append_at_sess cl j m i : d_sess (n_d (getn (append_at cl j m).1.1 i)) = d_sess (n_d (getn cl i)).
Proof.
  unfold append_at. destruct (n_fail (getn cl j)); cbn [fst]; unfold getn, setn; cbn [cl_nodes]; rewrite Qos2Facts.set_nth_nth;
    destruct (Nat.eqb j i && Nat.ltb j (length (cl_nodes cl))) eqn:E; try done;
    apply andb_true_iff in E as [->%Nat.eqb_eq _]; done.
Qed.
Lemma append_fold_sess o wills i : ∀ c ob,
  d_sess (n_d (getn (fold_left (λ acc w, let '(c, ob, _) := append_at acc.1 o w in (c, (acc.2 ++ ob)%list)) wills (c, ob)).1 i)) = d_sess (n_d (getn c i)).
Proof.
  induction wills as [|w wills IH]; intros c ob; cbn [fold_left]; [done|]. cbn [fst snd].
  pose proof (append_at_sess c o w i) as Ha. destruct (append_at c o w) as [[c' ob'] ok]. cbn [fst] in Ha. rewrite IH. exact Ha.
Qed.
Theorem notice_publishes_wills cl o d clk : (o < length (cl_nodes cl))%nat → n_fail (getn cl o) = 0%nat →
  let pid := Z.of_nat (S d) in
  let n1 := mutate (getn cl o) (sub_delete_peer (n_d (getn cl o)) pid clk) in
  (peer_notice cl o d clk).2 = map (λ w, Appended o (l_topic w) (l_payload w) (l_qos w) (l_retain w)) (peer_wills n1 pid).
Proof. intros Hlen Hf. pose proof (host_failure_wills cl o d clk Hlen Hf) as H. exact H. Qed.
(* ... and until its own delayed removal the survivor keeps every session record as it was: what
   another survivor does in the meantime is LWW-merged, but nothing is removed by noticing *)
Theorem notice_keeps_records cl o d clk i : (o < length (cl_nodes cl))%nat →
  d_sess (n_d (getn (peer_notice cl o d clk).1 i)) = d_sess (n_d (getn cl i)).
Proof.
  intros Hlen. unfold peer_notice. rewrite append_fold_sess.
  set (cl0 := Cluster _ _ _ _ _ _). unfold getn, setn. cbn [cl_nodes cl0]. rewrite Qos2Facts.set_nth_nth.
  destruct (Nat.eqb o i && Nat.ltb o (length (cl_nodes cl))) eqn:E; [|done].
  apply andb_true_iff in E as [->%Nat.eqb_eq _]. unfold mutate, sub_delete_peer, sub_bulk_delete. cbn. done.
Qed.
