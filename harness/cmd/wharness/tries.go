package main

// Family "tries": operation histories on subscriptions.Tree and topics.Store (C01 unit level,
// C07 unit level, C19), with Dump/Load round trips at arbitrary positions.

import (
	"encoding/json"
	"fmt"
	"math/rand"
	"strings"

	"github.com/vx-labs/wasp/v4/subscriptions"
	"github.com/vx-labs/wasp/v4/topics"
)

type trieOp struct {
	Op string `json:"op"` // sub: up app walk iter dl ; top: ins rm match count iter dl
	K  string `json:"k,omitempty"`
	V  string `json:"v,omitempty"`
}
type trieInput struct {
	Kind string   `json:"kind"` // sub | top
	Ops  []trieOp `json:"ops"`
}
type triesFamily struct{}

func init() { register("tries", triesFamily{}) }

func randLevels(rng *rand.Rand, alpha []string, max int) string {
	n := 1 + rng.Intn(max)
	ls := make([]string, n)
	for i := range ls {
		ls[i] = alpha[rng.Intn(len(alpha))]
	}
	return strings.Join(ls, "/")
}

// all strings of 1..max levels over alpha
func allLevels(alpha []string, max int) []string {
	var out []string
	var rec func(prefix []string)
	rec = func(prefix []string) {
		if len(prefix) > 0 {
			out = append(out, strings.Join(prefix, "/"))
		}
		if len(prefix) == max {
			return
		}
		for _, a := range alpha {
			rec(append(append([]string{}, prefix...), a))
		}
	}
	rec(nil)
	return out
}

var c19Keys = []string{"a", "a/b", "a/b/c", "a/c", "b"}

func (triesFamily) Gen(n int, seed int64, mode, tier string) []interface{} {
	var out []interface{}
	if strings.HasPrefix(mode, "x") {
		// (1) C01: every filter of <=L levels over {a,b,c,+,#,""} against every topic of <=L
		// levels over {a,b,c,""}: once all filters in one tree (value = filter), and each
		// filter alone in a fresh tree. L = 3 quick, 4 thorough.
		L := 3
		if tier == "thorough" {
			L = 4
		}
		if mode != "x01" && mode != "exhaustive" {
			L = 0
		}
		filters := allLevels([]string{"a", "b", "c", "+", "#", ""}, L)
		tpcs := allLevels([]string{"a", "b", "c", ""}, L)
		chunk := 40
		var all []trieOp
		for _, f := range filters {
			all = append(all, trieOp{Op: "up", K: f, V: f})
		}
		for i := 0; i < len(tpcs) && L > 0; i += chunk {
			j := i + chunk
			if j > len(tpcs) {
				j = len(tpcs)
			}
			ops := append([]trieOp{}, all...)
			for _, t := range tpcs[i:j] {
				ops = append(ops, trieOp{Op: "walk", K: t})
			}
			out = append(out, trieInput{Kind: "sub", Ops: ops})
		}
		for _, f := range filters {
			if L == 0 {
				break
			}
			ops := []trieOp{{Op: "up", K: f, V: f}}
			for _, t := range tpcs {
				ops = append(ops, trieOp{Op: "walk", K: t})
			}
			out = append(out, trieInput{Kind: "sub", Ops: ops})
		}
		// (2) C07: every filter of <=3 levels over {a,b,+,#,""} against the retained topics
		tf := allLevels([]string{"a", "b", "+", "#", ""}, 3)
		tt := allLevels([]string{"a", "b", ""}, 3)
		var tall []trieOp
		for _, t := range tt {
			tall = append(tall, trieOp{Op: "ins", K: t, V: t})
		}
		for i := 0; i < len(tf) && (mode == "x07" || mode == "exhaustive"); i += chunk {
			j := i + chunk
			if j > len(tf) {
				j = len(tf)
			}
			ops := append([]trieOp{}, tall...)
			for _, f := range tf[i:j] {
				ops = append(ops, trieOp{Op: "match", K: f})
			}
			out = append(out, trieInput{Kind: "top", Ops: ops})
		}
		// (3) C19: every sequence of <=D operations over the five shared-prefix keys with a
		// dump/load at every position, followed by all queries. D = 3 quick, 4 thorough
		// (longer ones are covered by the random stream).
		D := 3
		if tier == "thorough" {
			D = 4
		}
		for _, kind := range []string{"sub", "top"} {
			if mode != "x19" && mode != "exhaustive" {
				break
			}
			var basic []trieOp
			for _, k := range c19Keys {
				if kind == "sub" {
					basic = append(basic, trieOp{Op: "up", K: k, V: "v" + k}, trieOp{Op: "up", K: k, V: ""})
				} else {
					basic = append(basic, trieOp{Op: "ins", K: k, V: "v" + k}, trieOp{Op: "rm", K: k})
				}
			}
			var seqs [][]trieOp
			var rec func(prefix []trieOp)
			rec = func(prefix []trieOp) {
				if len(prefix) > 0 {
					seqs = append(seqs, append([]trieOp{}, prefix...))
				}
				if len(prefix) == D {
					return
				}
				for _, b := range basic {
					rec(append(append([]trieOp{}, prefix...), b))
				}
			}
			rec(nil)
			for _, s := range seqs {
				for pos := 0; pos <= len(s); pos++ {
					if pos > 0 && pos < len(s) && len(s) == D && tier != "thorough" {
						// quick: dump/load only at the ends of the longest sequences
						continue
					}
					ops := append([]trieOp{}, s[:pos]...)
					ops = append(ops, trieOp{Op: "dl"})
					ops = append(ops, s[pos:]...)
					ops = append(ops, queriesFor(kind)...)
					out = append(out, trieInput{Kind: kind, Ops: ops})
				}
			}
		}
		return out
	}
	rng := rand.New(rand.NewSource(seed))
	// rsub (C01): subscription trie, wildcard filters, no dump/load; rtop (C07): retained trie,
	// wildcard filters in Match, no dump/load; r19 (C19): both tries, wildcard-free keys and exact
	// queries, dump/load at random positions; random: everything.
	fa := []string{"a", "b", "c", "+", "#", "", "dev", "a"}
	ta := []string{"a", "b", "c", "", "dev", "a"}
	if mode == "r19" {
		fa = ta
	}
	nodl := mode == "rsub" || mode == "rtop"
	for i := 0; i < n; i++ {
		in := trieInput{}
		deep := 4
		if i%5 == 4 {
			deep = 8
		}
		if ((mode == "random" || mode == "r19") && i%2 == 0) || mode == "rsub" {
			in.Kind = "sub"
			for j, m := 0, 1+rng.Intn(14); j < m; j++ {
				f := randLevels(rng, fa, deep)
				if rng.Intn(3) == 0 && len(in.Ops) > 0 {
					// revisit an earlier key
					f = in.Ops[rng.Intn(len(in.Ops))].K
					if f == "" && rng.Intn(2) == 0 {
						f = randLevels(rng, fa, deep)
					}
				}
				switch r := rng.Intn(12); {
				case r < 2:
					in.Ops = append(in.Ops, trieOp{Op: "up", K: f, V: ""})
				case r < 3:
					in.Ops = append(in.Ops, trieOp{Op: "app", K: f, V: fmt.Sprintf("+%d", j)})
				case r < 4 && !nodl:
					in.Ops = append(in.Ops, trieOp{Op: "dl"})
				case r < 5:
					in.Ops = append(in.Ops, trieOp{Op: "walk", K: randLevels(rng, ta, deep)})
				default:
					in.Ops = append(in.Ops, trieOp{Op: "up", K: f, V: fmt.Sprintf("v%d", j)})
				}
			}
			for j := 0; j < 5; j++ {
				in.Ops = append(in.Ops, trieOp{Op: "walk", K: randLevels(rng, ta, deep)})
			}
			in.Ops = append(in.Ops, trieOp{Op: "iter"})
		} else {
			in.Kind = "top"
			for j, m := 0, 1+rng.Intn(14); j < m; j++ {
				k := randLevels(rng, ta, deep)
				if rng.Intn(3) == 0 && len(in.Ops) > 0 {
					k = in.Ops[rng.Intn(len(in.Ops))].K
					if k == "" && rng.Intn(2) == 0 {
						k = randLevels(rng, ta, deep)
					}
				}
				switch r := rng.Intn(12); {
				case r < 3:
					in.Ops = append(in.Ops, trieOp{Op: "rm", K: k})
				case r < 4 && !nodl:
					in.Ops = append(in.Ops, trieOp{Op: "dl"})
				case r < 5:
					in.Ops = append(in.Ops, trieOp{Op: "match", K: randLevels(rng, fa, deep)})
				case r < 6:
					in.Ops = append(in.Ops, trieOp{Op: "count"})
				default:
					in.Ops = append(in.Ops, trieOp{Op: "ins", K: k, V: fmt.Sprintf("v%d", j)})
				}
			}
			for j := 0; j < 5; j++ {
				in.Ops = append(in.Ops, trieOp{Op: "match", K: randLevels(rng, fa, deep)})
			}
			in.Ops = append(in.Ops, trieOp{Op: "count"}, trieOp{Op: "iter"})
		}
		out = append(out, in)
	}
	return out
}

func queriesFor(kind string) []trieOp {
	var ops []trieOp
	for _, k := range c19Keys {
		if kind == "sub" {
			ops = append(ops, trieOp{Op: "walk", K: k})
		} else {
			ops = append(ops, trieOp{Op: "match", K: k})
		}
	}
	if kind == "top" {
		ops = append(ops, trieOp{Op: "count"})
	}
	ops = append(ops, trieOp{Op: "iter"})
	return ops
}

func (triesFamily) Exec(id int, raw json.RawMessage) Case {
	var in trieInput
	if err := json.Unmarshal(raw, &in); err != nil {
		panic(err)
	}
	c := Case{ID: id}
	var terms []string
	var obs []interface{}
	st := subscriptions.NewTree()
	tt := topics.NewTree()
	muts, qs := 0, 0
	for _, op := range in.Ops {
		term, o := execTrieOp(in.Kind, st, tt, op)
		terms = append(terms, term)
		obs = append(obs, o)
		switch op.Op {
		case "up", "app", "ins", "rm":
			muts++
		case "walk", "match":
			qs++
		}
	}
	c.Obs = obs
	c.Coq = fmt.Sprintf("(%s, %s)", cqN(int64(id)), cqList(terms))
	c.Nontrivial = muts >= 1 && qs >= 1
	c.Sig = string(raw)
	return c
}

func execTrieOp(kind string, st subscriptions.Tree, tt topics.Store, op trieOp) (term string, obs interface{}) {
	defer func() {
		if r := recover(); r != nil {
			term = "OPanic"
			obs = fmt.Sprintf("panic: %v", r)
		}
	}()
	if kind == "sub" {
		switch op.Op {
		case "up":
			st.Upsert([]byte(op.K), func([]byte) []byte { return []byte(op.V) })
			return fmt.Sprintf("OSUp %s %s", cqStr(op.K), cqStr(op.V)), nil
		case "app":
			st.Upsert([]byte(op.K), func(old []byte) []byte { return append(append([]byte{}, old...), op.V...) })
			return fmt.Sprintf("OSApp %s %s", cqStr(op.K), cqStr(op.V)), nil
		case "walk":
			got := []string{}
			st.Walk([]byte(op.K), func(b []byte) { got = append(got, string(b)) })
			got = sortedCopy(got)
			return fmt.Sprintf("OSWalk %s %s", cqStr(op.K), cqStrs(got)), got
		case "iter":
			got := []string{}
			st.Iterate(func(b []byte) { got = append(got, string(b)) })
			got = sortedCopy(got)
			return fmt.Sprintf("OSIter %s", cqStrs(got)), got
		case "dl":
			buf, err := st.Dump()
			if err == nil {
				err = st.Load(buf)
			}
			return fmt.Sprintf("ODumpLoad %s", cqBool(err == nil)), err == nil
		}
	} else {
		switch op.Op {
		case "ins":
			old, err := tt.Insert([]byte(op.K), []byte(op.V))
			if err != nil {
				return "OErr", err.Error()
			}
			return fmt.Sprintf("OTIns %s %s %s", cqStr(op.K), cqStr(op.V), cqBool(old)), old
		case "rm":
			err := tt.Remove([]byte(op.K))
			return fmt.Sprintf("OTRm %s %s", cqStr(op.K), cqBool(err == nil)), err == nil
		case "match":
			var msgs [][]byte
			if err := tt.Match([]byte(op.K), &msgs); err != nil {
				return "OErr", err.Error()
			}
			got := []string{}
			for _, m := range msgs {
				got = append(got, string(m))
			}
			got = sortedCopy(got)
			return fmt.Sprintf("OTMatch %s %s", cqStr(op.K), cqStrs(got)), got
		case "count":
			n := tt.Count()
			return fmt.Sprintf("OTCount %s", cqN(int64(n))), n
		case "iter":
			got := []string{}
			tt.Iterate(func(b []byte) { got = append(got, string(b)) })
			got = sortedCopy(got)
			return fmt.Sprintf("OTIter %s", cqStrs(got)), got
		case "dl":
			buf, err := tt.Dump()
			if err == nil {
				err = tt.Load(buf)
			}
			return fmt.Sprintf("ODumpLoad %s", cqBool(err == nil)), err == nil
		}
	}
	panic("unknown op " + kind + "/" + op.Op)
}
