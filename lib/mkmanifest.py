#!/usr/bin/env python3
"""Regenerates MANIFEST.json from lib/props.py (claimed properties) and properties.jsonl."""
import json, os, sys
V = os.path.dirname(os.path.dirname(os.path.abspath(__file__)))
sys.path.insert(0, os.path.join(V, 'lib'))
import props
allp = [json.loads(l)['id'] for l in open(os.path.join(V, 'properties.jsonl'))]
hooks_commits = [l.strip() for l in open(os.path.join(V, 'MANIFEST.hooks')) if l.strip() and not l.startswith('#')] \
    if os.path.exists(os.path.join(V, 'MANIFEST.hooks')) else []
checks = []
for pid in allp:
    if pid not in props.PROPS:
        continue
    P = props.PROPS[pid]
    checks.append(dict(
        property_id=pid,
        quick_cmd='bin/check %s --tier quick' % pid,
        thorough_cmd='bin/check %s --tier thorough' % pid,
        evidence_file='/verif/evidence/%s.json' % pid,
        replay_cmd_template='bin/check %s --replay {path}' % pid,
        engine='coq-proof+correspondence',
        level_claimed=dict(category=P.get('level', 'proof'), text=P.get('level_text', ''), design_ref='DESIGN.md section 6, ' + pid),
        level_note=P.get('level_note', ''),
        technique=P.get('technique', 'machine-checked proof in Coq 8.16 about a hand-written Gallina model; model tied to /repo by a differential correspondence check (Go harness vs vm_compute)'),
    ))
na = [dict(property_id=p, reason=props.NOT_APPLICABLE.get(p, 'not yet covered by a check in this development (work in progress); see DESIGN.md')) for p in allp if p not in props.PROPS]
m = dict(
    version=1,
    setup_cmd='cd /verif/coq && coq_makefile -f _CoqProject -o Makefile && make -j16 && cd /verif/harness && cp /repo/go.sum . && GOFLAGS=-mod=mod GOPROXY=off GOSUMDB=off GOTOOLCHAIN=local go build -tags verif -o bin/wharness ./cmd/wharness && CGO_ENABLED=1 GOFLAGS=-mod=mod GOPROXY=off GOSUMDB=off GOTOOLCHAIN=local go build -race -tags verif -o bin/wharness_race ./cmd/wharness',
    hooks=dict(guard='verif', enable='go build -tags verif (the harness is built with it on every check)',
               baseline_off_cmd='cd /repo && GOFLAGS=-mod=mod GOPROXY=off GOSUMDB=off go test -vet=off -count=1 ./...',
               source_commits=hooks_commits, add_only=True),
    engines=[dict(name='coq-proof+correspondence', path='/verif/bin/check',
                  serves_properties=[c['property_id'] for c in checks],
                  kind_free_text='Coq 8.16.1 theorems over a hand-written executable Gallina model (coq/), plus a Go harness that runs the real code and Coq evaluators (vm_compute) that compare model, specification oracle and implementation on the same histories')],
    checks=checks,
    notes='bin/check <id> [--tier quick|thorough] [--replay file]; VERIF_SEED / VERIF_TIER honoured. known_findings.txt lists fixed: and finding: entries. See DESIGN.md.',
    not_applicable=na,
)
json.dump(m, open(os.path.join(V, 'MANIFEST.json'), 'w'), indent=1)
print('MANIFEST.json:', len(checks), 'checks,', len(na), 'not claimed')
