(** C01 / C02 composed over one whole step of the cluster model: what a PUBLISH from a client
    makes the cluster write.  From every cluster state in which the log consumers have caught up
    and nothing is failing, the observations of the step are: the appends and inter-node calls of
    Distribute (one per destination node, C14), the acknowledgement, the keep-alive re-arm, and
    then — for every node in index order — exactly what that node's writer sends for this one
    message to the recipients [ByPattern] names there (filtered by peer), if and only if the node
    is one of the publisher's destinations.  Nothing else is written to anybody.  Together with
    [by_pattern_exact] (which entries ByPattern returns), [send_q0_exact], [send_only_recipients]
    and [qos_recipient_written] (what [send] writes per recipient) this is the property's
    "exactly the sessions whose filters match" for the step as a whole. *)
From Wasp Require Import Model.Base Spec.MatchSpec Model.DState Model.IdPool Model.Mount Model.Node
  Proofs.BaseFacts Proofs.DStateFacts Proofs.NodeFacts Proofs.Qos2Facts.
From stdpp Require Import list strings.
From Coq Require Import ZArith Lia.
Open Scope Z_scope.

Definition nlen (cl : cluster) : nat := length (cl_nodes cl).
Definition quiescent (cl : cluster) : Prop := ∀ j, (j < nlen cl)%nat → n_coff (getn cl j) = length (n_log (getn cl j)).
Definition healthy (cl : cluster) : Prop := cl_down cl = [] ∧ ∀ j, n_fail (getn cl j) = 0%nat.
Definition local_recips (n : node) (topic : string) : list (string * Z) :=
  map (λ s, (s_sid s, s_qos s)) (List.filter (λ s, s_peer s =? n_id n) (sub_by_pattern (n_d n) topic)).
(* what the writer of node [n] sends for log entry [m] *)
Definition deliveries (bad : list string) (n : node) (m : lmsg) : list eobs :=
  (send bad (set_coff n (S (n_coff n))) (local_recips n (l_topic m)) m).2.
Definition app_node (n : node) (m : lmsg) : node := set_log n (n_log n ++ [m]).
Definition idx (dst : Z) : nat := Z.to_nat (dst - 1).

Lemma getn_setn_gen cl i n j : getn (setn cl i n) j = if Nat.eqb i j && Nat.ltb i (nlen cl) then n else getn cl j.
Proof. unfold getn, setn, nlen. cbn. apply set_nth_nth. Qed.
Lemma getn_setn_ne cl i n j : i ≠ j → getn (setn cl i n) j = getn cl j.
Proof. intros H. rewrite getn_setn_gen. by rewrite (proj2 (Nat.eqb_neq i j) H). Qed.
Lemma getn_out_of_range cl j : (nlen cl ≤ j)%nat → getn cl j = nnew 0.
Proof. intros H. unfold getn. by apply nth_overflow. Qed.

(** ** the log consumer of one node *)
Lemma drain_node_quiet fuel cl i : n_coff (getn cl i) = length (n_log (getn cl i)) → drain_node fuel cl i = (cl, []).
Proof.
  intros H. destruct fuel as [|f]; [done|]. cbn [drain_node].
  by rewrite (proj2 (nth_error_None (n_log (getn cl i)) (n_coff (getn cl i)))) by lia.
Qed.
Lemma drain_node_one f cl i old m : (i < nlen cl)%nat →
  n_log (getn cl i) = old ++ [m] → n_coff (getn cl i) = length old →
  drain_node (S f) cl i =
    (setn cl i (send (cl_bad cl) (set_coff (getn cl i) (S (n_coff (getn cl i)))) (local_recips (getn cl i) (l_topic m)) m).1,
     deliveries (cl_bad cl) (getn cl i) m).
Proof.
  intros Hi Hlog Hoff. cbn [drain_node]. rewrite Hlog, Hoff, nth_error_app2, Nat.sub_diag by lia. cbn [nth_error].
  unfold deliveries, local_recips. rewrite Hoff. cbn [n_d set_coff].
  set (sr := send _ _ _ m).
  rewrite drain_node_quiet; [by rewrite app_nil_r|].
  rewrite getn_setn by exact Hi. destruct (send_keeps_log (cl_bad cl) (map (λ s, (s_sid s, s_qos s)) (List.filter (λ s, s_peer s =? n_id (getn cl i)) (sub_by_pattern (n_d (getn cl i)) (l_topic m))))
    (set_coff (getn cl i) (S (length old))) m) as [L1 L2].
  fold sr in L1, L2. rewrite L1, L2. cbn [n_log n_coff set_coff]. rewrite Hlog, app_length. cbn. lia.
Qed.

Lemma drain_fuel_S : ∃ f, drain_fuel = S f.
Proof. with_strategy transparent [drain_fuel] (exists (Nat.pred drain_fuel); reflexivity). Qed.

(** ** all consumers, when each node is either caught up or has exactly [m] to consume *)
Definition pending (cl : cluster) (m : lmsg) (j : nat) : Prop :=
  ∃ old, n_log (getn cl j) = old ++ [m] ∧ n_coff (getn cl j) = length old.
Definition out_of (bad : list string) (cl : cluster) (m : lmsg) (P : nat → bool) (j : nat) : list eobs :=
  if P j then deliveries bad (getn cl j) m else [].
Definition drain_f := λ (acc : cluster * list eobs) (i : nat), let r := drain_node drain_fuel acc.1 i in (r.1, (acc.2 ++ r.2)%list).

Lemma drain_fold m (P : nat → bool) cl0 : ∀ (l : list nat) cl acc, NoDup l → (∀ j, j ∈ l → (j < nlen cl0)%nat) →
  nlen cl = nlen cl0 → cl_bad cl = cl_bad cl0 → (∀ j, j ∈ l → getn cl j = getn cl0 j) →
  (∀ j, j ∈ l → if P j then pending cl0 m j else n_coff (getn cl0 j) = length (n_log (getn cl0 j))) →
  (fold_left drain_f l (cl, acc)).2 = acc ++ flat_map (out_of (cl_bad cl0) cl0 m P) l.
Proof.
  induction l as [|i l IH]; intros cl acc Hnd Hlt Hlen Hbad Hsame Hst; cbn [fold_left flat_map]; [by rewrite app_nil_r|].
  apply NoDup_cons in Hnd as [Hni Hnd].
  assert (Hi : (i < nlen cl0)%nat) by (apply Hlt; left).
  assert (Hgi : getn cl i = getn cl0 i) by (apply Hsame; left).
  pose proof (Hst i ltac:(left)) as Hsi. unfold drain_f at 2. cbn [fst snd]. unfold out_of at 1.
  assert (Hrest : ∀ cl', nlen cl' = nlen cl0 → cl_bad cl' = cl_bad cl0 → (∀ j, j ≠ i → getn cl' j = getn cl j) → ∀ acc',
            (fold_left drain_f l (cl', acc')).2 = acc' ++ flat_map (out_of (cl_bad cl0) cl0 m P) l).
  { intros cl' Hl' Hb' Hg' acc'. apply IH; try done.
    - intros j Hj. apply Hlt. by right.
    - intros j Hj. rewrite Hg'; [apply Hsame; by right|]. intros ->. done.
    - intros j Hj. apply Hst. by right. }
  destruct (P i).
  - destruct Hsi as (old & Hlog & Hoff). destruct drain_fuel_S as [f0 ->].
    rewrite (drain_node_one _ cl i old m); rewrite ?Hlen, ?Hgi; try done. cbn [fst snd].
    rewrite Hrest; [by rewrite Hbad, <- app_assoc| | |].
    + unfold nlen. by rewrite setn_length.
    + done.
    + intros j Hj. apply getn_setn_ne. congruence.
  - rewrite drain_node_quiet by (by rewrite Hgi). cbn [fst snd]. rewrite app_nil_r. by apply Hrest.
Qed.

Lemma drain_all_spec m (P : nat → bool) cl :
  (∀ j, (j < nlen cl)%nat → if P j then pending cl m j else n_coff (getn cl j) = length (n_log (getn cl j))) →
  (drain_all cl).2 = flat_map (out_of (cl_bad cl) cl m P) (seq 0 (nlen cl)).
Proof.
  intros H. unfold drain_all. change (fold_left _ (seq 0 (length (cl_nodes cl))) (cl, [])) with (fold_left drain_f (seq 0 (nlen cl)) (cl, [])).
  rewrite (drain_fold m P cl); try done.
  - apply NoDup_ListNoDup, seq_NoDup.
  - intros j Hj%elem_of_list_In%in_seq. lia.
  - intros j Hj%elem_of_list_In%in_seq. apply H. lia.
Qed.

(** ** Distribute, when nothing fails: one append at each destination node, no other change *)
Lemma append_at_healthy cl j m : n_fail (getn cl j) = 0%nat →
  append_at cl j m = (setn cl j (app_node (getn cl j) m), [Appended j (l_topic m) (l_payload m) (l_qos m) (l_retain m)], true).
Proof. intros H. unfold append_at. by rewrite H. Qed.

Lemma healthy_setn cl j m : healthy cl → healthy (setn cl j (app_node (getn cl j) m)).
Proof.
  intros [Hd Hf]. split; [done|]. intros j'. rewrite getn_setn_gen. destruct (_ && _); [|done]. cbn. apply Hf.
Qed.

Lemma dist_step_healthy i m c o f dst : healthy c →
  ∃ o', dist_step i m (c, o, f) dst = (setn c (idx dst) (app_node (getn c (idx dst)) m), o ++ o', f) ∧ quiet (λ x, negb (is_store x)) o'.
Proof.
  intros [Hd Hf]. unfold dist_step, node_index. fold (idx dst). destruct (Nat.eqb_spec (idx dst) i) as [->|Hne].
  - rewrite append_at_healthy by done. exists [Appended i (l_topic m) (l_payload m) (l_qos m) (l_retain m)].
    cbn [negb]. rewrite orb_false_r. split; [done|]. by repeat constructor.
  - unfold is_down. rewrite Hd. cbn [existsb]. rewrite append_at_healthy by done.
    exists ([Appended (idx dst) (l_topic m) (l_payload m) (l_qos m) (l_retain m)] ++ [Call i (idx dst) true]).
    cbn [negb]. rewrite orb_false_r. split; [done|]. by repeat constructor.
Qed.

Lemma dist_fold_healthy i m : ∀ dests c o f, healthy c → NoDup (map idx dests) →
  ∃ c' o', fold_left (dist_step i m) dests (c, o, f) = (c', o ++ o', f) ∧ quiet (λ x, negb (is_store x)) o' ∧
    nlen c' = nlen c ∧ cl_bad c' = cl_bad c ∧ cl_conns c' = cl_conns c ∧
    ∀ j, getn c' j = if bool_decide (j ∈ map idx dests) && Nat.ltb j (nlen c) then app_node (getn c j) m else getn c j.
Proof.
  induction dests as [|dst dests IH]; intros c o f Hh Hnd; cbn [fold_left]; [|change (map idx (dst :: dests)) with (idx dst :: map idx dests) in *].
  { exists c, []. rewrite app_nil_r. repeat split; try done. constructor. }
  apply NoDup_cons in Hnd as [Hni Hnd].
  destruct (dist_step_healthy i m c o f dst Hh) as (o1 & -> & Q1).
  destruct (IH (setn c (idx dst) (app_node (getn c (idx dst)) m)) (o ++ o1) f (healthy_setn _ _ _ Hh) Hnd) as (c' & o2 & -> & Q2 & Hl & Hb & Hc & Hg).
  exists c', (o1 ++ o2). rewrite app_assoc. split; [done|]. split; [apply quiet_app; by split|].
  assert (Hl0 : nlen (setn c (idx dst) (app_node (getn c (idx dst)) m)) = nlen c) by (unfold nlen; by rewrite setn_length).
  rewrite Hl0 in Hg, Hl. repeat split; try done.
  intros j. rewrite Hg, getn_setn_gen. destruct (Nat.eqb_spec (idx dst) j) as [Heq|Hne].
  - subst j. rewrite (bool_decide_eq_false_2 _ Hni). rewrite (bool_decide_eq_true_2 (idx dst ∈ idx dst :: map idx dests)) by (by left). cbn [andb].
    by destruct (Nat.ltb (idx dst) (nlen c)).
  - cbn [andb]. destruct (decide (j ∈ map idx dests)) as [Hin|Hnin].
    + rewrite (bool_decide_eq_true_2 _ Hin), (bool_decide_eq_true_2 (j ∈ idx dst :: map idx dests)) by (by right). done.
    + rewrite (bool_decide_eq_false_2 _ Hnin). rewrite (bool_decide_eq_false_2 (j ∈ idx dst :: map idx dests)); [done|].
      intros [?|?]%elem_of_cons; congruence.
Qed.

Lemma idx_nodup (l : list Z) : NoDup l → Forall (λ d, 1 ≤ d) l → NoDup (map idx l).
Proof.
  induction l as [|d l IH]; cbn; [intros; apply NoDup_nil_2|]. intros [Hn Hnd]%NoDup_cons [Hd Hall]%Forall_cons.
  apply NoDup_cons. split; [|by apply IH].
  intros (d' & Heq & Hin)%elem_of_list_fmap. rewrite Forall_forall in Hall. specialize (Hall d' Hin).
  unfold idx in Heq. assert (d = d') as -> by lia. done.
Qed.

(** ** the whole step *)
Definition dest_here (cl : cluster) (i : nat) (m : lmsg) (j : nat) : bool :=
  bool_decide (j ∈ map idx (dests_of cl i m)) && Nat.ltb j (nlen cl).

Theorem publish_step_spec seen cl c k s p dup mid clk :
  find_conn cl c = Some k → c_closed k = false → c_sid k = Some (ss_id s) →
  alookup (ss_id s) (n_reg (getn cl (c_node k))) = Some s →
  quiescent cl → healthy cl → p_retain p = false → (p_qos p = 0 ∨ p_qos p = 1) →
  let i := c_node k in
  let m := LMsg (prefix_mp (ss_mp s) (p_topic p)) (p_payload p) (p_qos p) false dup in
  Forall (λ d, 1 ≤ d) (dests_of cl i m) →
  ∃ stores, quiet (λ x, negb (is_store x)) stores ∧
    (step seen cl (EPublish c p dup mid clk)).2 =
      stores ++ (if p_qos p =? 1 then wout (cl_bad cl) c (OPubAck mid) else []) ++ dl s ++
      flat_map (λ j, if dest_here cl i m j then deliveries (cl_bad cl) (app_node (getn cl j) m) m else []) (seq 0 (nlen cl)).
Proof.
  intros Hk Hcl Hsid Hs Hq Hh Hret Hqos i m Hpos.
  unfold step. cbn [step_raw]. unfold do_publish, with_session. rewrite Hk, Hcl, Hsid, Hs. fold i.
  assert ((p_qos p =? 0) || (p_qos p =? 1) = true) as -> by (destruct Hqos as [-> | ->]; done).
  fold m. rewrite Hret. unfold worker. cbn [fst snd].
  set (cl1 := setn cl i (getn cl i)).
  assert (Hg1 : ∀ j, getn cl1 j = getn cl j).
  { intros j. unfold cl1. rewrite getn_setn_gen. destruct (Nat.eqb_spec i j) as [Heq|Hne]; [|done]. rewrite Heq. by destruct (j <? nlen cl)%nat. }
  assert (Hl1 : nlen cl1 = nlen cl) by (unfold cl1, nlen; by rewrite setn_length).
  assert (Hh1 : healthy cl1) by (destruct Hh as [Hd Hf]; split; [done|]; intros j; rewrite Hg1; apply Hf).
  rewrite distribute_fold. rewrite Hg1. fold (dests_of cl i m).
  destruct (dist_fold_healthy i m (dests_of cl i m) cl1 [] false Hh1 (idx_nodup _ (dedup_nodup _) Hpos)) as (c' & stores & -> & Q & Hl & Hb & Hc & Hg).
  cbn [fst snd app]. exists stores. split; [done|].
  set (P := dest_here cl i m).
  rewrite (drain_all_spec m P c').
  - rewrite <- !app_assoc. f_equal. f_equal. f_equal. rewrite Hl, Hl1, Hb.
    apply flat_map_ext. intros j. unfold out_of, P, dest_here. rewrite Hg, Hl1, Hg1.
    destruct (bool_decide _ && _) eqn:E; done.
  - intros j Hj. rewrite Hl, Hl1 in Hj. unfold P, dest_here, pending. rewrite Hg, Hl1, Hg1.
    destruct (bool_decide _ && _) eqn:E.
    + exists (n_log (getn cl j)). split; [reflexivity|]. unfold app_node. cbn [n_coff set_log]. by apply Hq.
    + by apply Hq.
Qed.

Lemma flat_map_ext_In' {A B} (f g : A → list B) l : (∀ x, In x l → f x = g x) → flat_map f l = flat_map g l.
Proof. induction l as [|x l IH]; intros H; cbn; [done|]. rewrite H by (by left). f_equal. apply IH. intros y Hy. apply H. by right. Qed.

(** the same with the one-node, QoS 0 case made explicit: one PUBLISH per ByPattern entry hosted
    here whose session is in the registry, with that session's connection and trimmed topic *)
Corollary publish_step_q0_exact seen cl c k s p dup mid clk :
  find_conn cl c = Some k → c_closed k = false → c_sid k = Some (ss_id s) →
  alookup (ss_id s) (n_reg (getn cl (c_node k))) = Some s →
  quiescent cl → healthy cl → p_retain p = false → (p_qos p = 0 ∨ p_qos p = 1) →
  let i := c_node k in
  let m := LMsg (prefix_mp (ss_mp s) (p_topic p)) (p_payload p) (p_qos p) false dup in
  Forall (λ d, 1 ≤ d) (dests_of cl i m) →
  (∀ j u, (j < nlen cl)%nat → u ∈ sub_by_pattern (n_d (getn cl j)) (l_topic m) → s_qos u = 0) →
  ∃ stores, quiet (λ x, negb (is_store x)) stores ∧
    (step seen cl (EPublish c p dup mid clk)).2 =
      stores ++ (if p_qos p =? 1 then wout (cl_bad cl) c (OPubAck mid) else []) ++ dl s ++
      flat_map (λ j, if dest_here cl i m j
                     then flat_map (q0_out (cl_bad cl) (getn cl j) m) (local_recips (getn cl j) (l_topic m)) else [])
               (seq 0 (nlen cl)).
Proof.
  intros Hk Hcl Hsid Hs Hq Hh Hret Hqos i m Hpos Hq0.
  destruct (publish_step_spec seen cl c k s p dup mid clk Hk Hcl Hsid Hs Hq Hh Hret Hqos Hpos) as (stores & Q & E).
  exists stores. split; [done|]. rewrite E. f_equal. f_equal. f_equal.
  apply flat_map_ext_In'. intros j Hj%in_seq. destruct (dest_here _ _ _ j); [|reflexivity].
  unfold deliveries. rewrite send_q0_exact.
  - cbn [snd]. apply flat_map_ext. intros rq. unfold q0_out. done.
  - unfold local_recips. apply Forall_forall. intros rq (u & -> & Hu)%elem_of_list_fmap. cbn.
    apply elem_of_list_In, filter_In in Hu as [Hu _]. apply (Hq0 j u); [lia|by apply elem_of_list_In].
Qed.
