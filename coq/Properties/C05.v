(** C05 — Inbound publishes: stored before acknowledged; QoS 2 forwarded exactly once.
    Statements about the node model (Model/Node.v); proofs under Proofs/NodeFacts.v. *)
From Wasp Require Import Model.Base Spec.MatchSpec Model.DState Model.IdPool Model.Mount Model.Node Proofs.BaseFacts Proofs.MountFacts Proofs.NodeFacts.
From stdpp Require Import list strings.
Open Scope Z_scope.

(** Distribute: the destination set is the set of nodes named by the matching subscriptions
    known to the publishing node.  Every observation it produces is a log append, an append
    failure or an inter-node call; it reports failure iff some local append or some remote
    write failed ([bad_store]); when it reports success the message has been appended at every
    destination - whatever the failure oracle (next appends failing, peers unreachable) is. *)
Theorem stored_iff_reported_ok : ∀ cl i m, let r := distribute cl i m in
  quiet (λ x, negb (is_store x)) r.1.2 ∧
  r.2 = existsb bad_store r.1.2 ∧
  (r.2 = false → ∀ dst, dst ∈ dests_of cl i m → existsb (stored_at (Z.to_nat (dst - 1)) m) r.1.2 = true) ∧
  (Forall (λ d : Z, (1 ≤ d)%Z) (dests_of cl i m) → ∀ j, (napp j r.1.2 ≤ 1)%nat) ∧
  (∀ j, (∀ dst, dst ∈ dests_of cl i m → Z.to_nat (dst - 1) ≠ j) → napp j r.1.2 = 0%nat).
Proof. exact distribute_spec. Qed.
Print Assumptions stored_iff_reported_ok.

(** The publish worker: the acknowledgement packets [ackp] (PUBACK for QoS 1, PUBCOMP for a
    completed QoS 2 handshake) are written after the store observations, and only when no
    store failed; then every destination node has the message in its log. *)
Theorem ack_after_store : ∀ cl i m retain clk ackp, ∃ cl1 o,
  (worker cl i m retain clk ackp).2 = o ++ (if existsb bad_store o then [] else ackp) ∧
  quiet (λ x, negb (is_store x)) o ∧
  (existsb bad_store o = false → ∀ dst, dst ∈ dests_of cl1 i m → existsb (stored_at (Z.to_nat (dst - 1)) m) o = true) ∧
  (∀ j, (∀ dst, dst ∈ dests_of cl1 i m → Z.to_nat (dst - 1) ≠ j) → napp j o = 0%nat).
Proof. exact worker_spec. Qed.
Print Assumptions ack_after_store.

(** QoS 2: a PUBLISH alone stores nothing anywhere (it only arms the handshake and answers
    PUBREC), unless its identifier is 0 or already pending, in which case the session ends;
    a PUBREL for an identifier with no pending handshake - never published, already completed
    by an earlier PUBREL, or timed out - changes nothing and forwards nothing. *)
Theorem qos2_never_on_publish_alone : ∀ cl c p dup mid clk, p_qos p = 2 →
  quiet is_store (do_publish cl c p dup mid clk).2 ∨ ∃ k, find_conn cl c = Some k ∧ (do_publish cl c p dup mid clk) = end_session cl k false clk.
Proof. exact qos2_publish_stores_nothing. Qed.
Print Assumptions qos2_never_on_publish_alone.
Theorem qos2_not_again : ∀ cl c mid clk k n s,
  find_conn cl c = Some k → c_closed k = false → c_sid k = Some (ss_id s) → n = getn cl (c_node k) →
  alookup (ss_id s) (n_reg n) = Some s → ack_find (n_acks n) (ss_id s ++ "/in") mid = None →
  do_ack cl c PUBREL mid clk = (cl, dl s).
Proof. exact stray_pubrel_forwards_nothing. Qed.
Print Assumptions qos2_not_again.

From Wasp Require Import Proofs.Qos2Facts.
(** "... forwarded exactly once per PUBLISH/PUBREL handshake": the PUBREL that finds the pending
    handshake hands exactly the stored publish to the publish path, once, with PUBCOMP as the
    acknowledgement the worker writes only when every store succeeded ([ack_after_store]), and
    the handshake is out of the in-flight table afterwards — so the next PUBREL with that
    identifier is the case of [qos2_not_again]. *)
Theorem pubrel_forwards_exactly_once : ∀ cl c mid clk k s e c' m retain,
  (c_node k < length (cl_nodes cl))%nat →
  find_conn cl c = Some k → c_closed k = false → c_sid k = Some (ss_id s) →
  alookup (ss_id s) (n_reg (getn cl (c_node k))) = Some s →
  ack_find (n_acks (getn cl (c_node k))) (ss_id s ++ "/in") mid = Some e →
  a_expect e = PUBREL → a_tag e = TIn (ss_id s) c' m retain → a_mid e = mid →
  let n := getn cl (c_node k) in
  let cl' := setn cl (c_node k) (set_acks n (ack_remove (n_acks n) (ss_id s ++ "/in") mid)) in
  let w := worker cl' (c_node k) m retain clk (wout (cl_bad cl) c' (OPubComp mid)) in
  do_ack cl c PUBREL mid clk = (w.1, w.2 ++ dl s) ∧
  ack_find (n_acks (getn w.1 (c_node k))) (ss_id s ++ "/in") mid = None.
Proof. exact pubrel_forwards_once. Qed.
Print Assumptions pubrel_forwards_exactly_once.

(** non-vacuity: a QoS 1 publish with the local append failing is not acknowledged; the retry is *)
Example c05_history :
  let run := fold_left (λ st o, let r := step [] st.1 o in (r.1, (st.2 ++ [r.2])%list)) in
  let ops := [EConnect 0%nat "sub" "c-sub" "" "" 60 None 10; ESubscribe "sub" 1 [("t/#", 0)] 20;
              EConnect 0%nat "pub" "c-pub" "" "" 60 None 30; EFailAppend 0%nat 1%nat;
              EPublish "pub" (Publish "t/a" "x" 1 false false) false 7 40; EPublish "pub" (Publish "t/a" "y" 1 false false) false 8 50] in
  nth 4%nat (run ops (cnew 1%nat, [])).2 [] = [AppendFailed 0%nat; Deadline "pub" 120000]
  ∧ nth 5%nat (run ops (cnew 1%nat, [])).2 [] = [Appended 0%nat "_default/t/a" "y" 1 false; Out "pub" (OPubAck 8); Deadline "pub" 120000;
                                          Out "sub" (OPublish "t/a" "y" 0 false false 0)].
Proof. vm_compute. done. Qed.
