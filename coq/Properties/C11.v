(** C11 — Sessions end only for cause, and ending one removes every trace of it. *)
From Wasp Require Import Model.Base Spec.MatchSpec Model.DState Model.IdPool Model.Mount Model.Node Proofs.BaseFacts Proofs.MountFacts Proofs.NodeFacts.
From stdpp Require Import list strings.
Open Scope Z_scope.

(** A connection is closed only in a step whose event is a cause: a CONNECT that cannot be set
    up, a packet from that client that Process rejects (second CONNECT; a QoS 2 PUBLISH whose
    identifier is 0 or already pending), a PINGREQ (when the session has been displaced),
    DISCONNECT, connection loss or read-deadline expiry.  Subscribes, unsubscribes,
    acknowledgements of any kind, expiry sweeps, gossip, snapshots, peer failures, faults
    injected into the log or the network, and everything the pipeline does while draining
    (deliveries, retransmissions) never close anything - however long the client idles. *)
Theorem ends_only_for_cause : ∀ seen cl o c, Closed c ∈ (step seen cl o).2 → may_close o = true.
Proof. exact closed_needs_cause. Qed.
Print Assumptions ends_only_for_cause.

(** ending a session removes it from its host's registry, whatever the cause ... *)
Theorem end_leaves_registry : ∀ cl i s clk, n_reg (after_unsub cl i s clk) = adel (ss_id s) (n_reg (getn cl i)).
Proof. exact end_leaves_registry. Qed.
Print Assumptions end_leaves_registry.
(** ... and closes its connection, will or no will, displaced or not *)
Theorem end_closes_connection : ∀ cl i s clk, (shutdown cl i s true clk).2 = [Closed (ss_conn s)].
Proof. exact no_will_after_disconnect. Qed.
Print Assumptions end_closes_connection.

(** the keep-alive allowance is armed when CONNACK is written and re-armed by every packet:
    2 x keep-alive (non-vacuity / regression examples: idle right after CONNECT, then a ping) *)
Example c11_history :
  let run := fold_left (λ st o, let r := step [] st.1 o in (r.1, (st.2 ++ [r.2])%list)) in
  let ops := [EConnect 0%nat "a" "ca" "" "" 60 None 10; ESubscribe "a" 1 [("x/y", 0); ("z", 1)] 20; EPing "a" 30;
              EConnect 0%nat "b" "cb" "" "bad" 60 None 40; EDisconnect "a" 50; ECheck 0%nat] in
  let o := (run ops (cnew 1%nat, [])).2 in
  nth 0%nat o [] = [Out "a" (OConnAck 0); Deadline "a" 120000]
  ∧ nth 2%nat o [] = [Out "a" OPingResp; Deadline "a" 120000]
  ∧ nth 3%nat o [] = [Out "b" (OConnAck 4); Deadline "b" 3000]
  ∧ nth 4%nat o [] = [Closed "a"]
  ∧ nth 5%nat o [] = [Listed 0%nat [] [] []].
Proof. vm_compute. done. Qed.
