#!/usr/bin/env python3
"""Driver of every check:  bin/check <Cnn> [--tier quick|thorough] [--replay FILE] [--seed N]

For one property it
  1. re-checks the Coq development (make; Properties/<Cnn>.v is recompiled on every run and its
     Print Assumptions output is parsed) and greps it for forbidden constructs,
  2. rebuilds the Go harness from /repo's working tree with -tags verif,
  3. runs the corpus and the generated case families of the property on the implementation,
  4. evaluates the Coq model and the specification-level oracle on everything observed
     (vm_compute inside coqc, sharded over all cores),
  5. decides (see DESIGN.md section 5) and writes evidence/<Cnn>.json.
Exit 0: property held on everything explored.  Exit 1 + "VIOLATION property=<id> replay=<path>".
Exit 2: the machinery itself could not run (e.g. /repo does not compile)."""
import sys, os, re, json, time, subprocess, hashlib, fcntl, shutil, argparse, glob
from concurrent.futures import ThreadPoolExecutor

VERIF = os.path.dirname(os.path.dirname(os.path.abspath(__file__)))
REPO = os.environ.get('VERIF_REPO', '/repo')
COQ = os.path.join(VERIF, 'coq')
BUILD = COQ   # where the compiled development lives for this run (a private clean copy in the thorough tier)
sys.path.insert(0, os.path.join(VERIF, 'lib'))
import props  # noqa: E402

GOENV = dict(os.environ, GOFLAGS='-mod=mod', GOPROXY='off', GOSUMDB='off', GOTOOLCHAIN='local', GORACE='halt_on_error=1 exitcode=66',
             CGO_ENABLED=os.environ.get('CGO_ENABLED', '0'))
FORBIDDEN = re.compile(r'\b(Admitted|admit|Axiom|Axioms|Parameter|Parameters|Conjecture|Conjectures|'
                       r'Unset\s+Guard|bypass_check|Admit\s+Obligations|type-in-type|impredicative-set|'
                       r'Unset\s+Universe\s+Checking|Unset\s+Positivity)\b')
SHARD = 200


def log(*a):
    print(*a, flush=True)


def run(cmd, **kw):
    return subprocess.run(cmd, stdout=subprocess.PIPE, stderr=subprocess.STDOUT, text=True, **kw)


# ------------------------------------------------------------------ Coq side

def strip_comments(src):
    out, depth, i = [], 0, 0
    while i < len(src):
        if src.startswith('(*', i):
            depth += 1; i += 2
        elif src.startswith('*)', i) and depth > 0:
            depth -= 1; i += 2
        else:
            if depth == 0:
                out.append(src[i])
            i += 1
    return ''.join(out)


def gate():
    """grep gate over the whole development (comments stripped)"""
    bad = []
    for f in sorted(glob.glob(os.path.join(COQ, '**', '*.v'), recursive=True)):
        src = strip_comments(open(f).read())
        # string literals may legitimately contain anything: blank them
        src = re.sub(r'"(?:[^"]|"")*"', '""', src)
        for m in FORBIDDEN.finditer(src):
            bad.append('%s: %s' % (os.path.relpath(f, COQ), m.group(0)))
    proj = open(os.path.join(COQ, '_CoqProject')).read()
    for w in ('type-in-type', 'impredicative-set', '-vos', '-vok', 'native'):
        if w in proj:
            bad.append('_CoqProject: ' + w)
    return bad


def make_coq(clean=False):
    """full .vo build of the development under a lock (checks may run concurrently)"""
    lock = open(os.path.join(COQ, '.build.lock'), 'w')
    fcntl.flock(lock, fcntl.LOCK_EX)
    try:
        if clean and os.path.exists(os.path.join(COQ, 'Makefile')):
            run(['make', '-C', COQ, 'clean'])
        if not os.path.exists(os.path.join(COQ, 'Makefile')) or \
                os.path.getmtime(os.path.join(COQ, 'Makefile')) < os.path.getmtime(os.path.join(COQ, '_CoqProject')):
            r = run(['coq_makefile', '-f', '_CoqProject', '-o', 'Makefile'], cwd=COQ)
            if r.returncode != 0:
                return False, r.stdout
        r = run(['timeout', '3000', 'make', '-C', COQ, '-j16'])
        return r.returncode == 0, r.stdout
    finally:
        fcntl.flock(lock, fcntl.LOCK_UN)
        lock.close()


def private_clean_build(work):
    """thorough tier: compile the development from clean in a private copy, so that a clean
    rebuild never pulls compiled files from under a check that runs at the same time"""
    global BUILD
    dst = os.path.join(work, 'coqbuild')
    shutil.rmtree(dst, ignore_errors=True)
    for f in glob.glob(os.path.join(COQ, '**', '*.v'), recursive=True):
        rel = os.path.relpath(f, COQ)
        os.makedirs(os.path.dirname(os.path.join(dst, rel)), exist_ok=True)
        shutil.copy(f, os.path.join(dst, rel))
    shutil.copy(os.path.join(COQ, '_CoqProject'), os.path.join(dst, '_CoqProject'))
    r = run(['coq_makefile', '-f', '_CoqProject', '-o', 'Makefile'], cwd=dst)
    if r.returncode != 0:
        return False, r.stdout
    r = run(['timeout', '3000', 'make', '-C', dst, '-j16'])
    if r.returncode == 0:
        BUILD = dst
    return r.returncode == 0, r.stdout


def property_obligations(pid, work):
    """Recompile Properties/<pid>.v (only `exact`-style proofs, fast) and account for every
    Theorem in it: name, whether it was accepted, and what Print Assumptions says."""
    src_path = os.path.join(COQ, 'Properties', pid + '.v')
    src = strip_comments(open(src_path).read())
    names = re.findall(r'^\s*(?:Theorem|Corollary)\s+([A-Za-z0-9_\']+)', src, re.M)
    examples = re.findall(r'^\s*Example\s+([A-Za-z0-9_\']+)', src, re.M)
    n_qed = len(re.findall(r'\bQed\.', src))
    tmp = os.path.join(work, 'prop')
    os.makedirs(tmp, exist_ok=True)
    shutil.copy(src_path, os.path.join(tmp, pid + '_recheck.v'))
    r = run(['timeout', '900', 'coqc', '-Q', BUILD, 'Wasp', '-w', '-all', pid + '_recheck.v'], cwd=tmp)
    ok = r.returncode == 0
    closed = len(re.findall(r'Closed under the global context', r.stdout))
    axioms = sorted(set(re.findall(r'^([A-Za-z0-9_.\']+)\s*:', r.stdout.split('Axioms:', 1)[1], re.M))) \
        if 'Axioms:' in r.stdout else []
    printed = len(re.findall(r'^\s*Print Assumptions', src, re.M))
    return dict(ok=ok, theorems=names, examples=examples, qed=n_qed, closed=closed, printed=printed,
                axioms=axioms, output=r.stdout[-4000:])


def eval_shard(args):
    work, corr, idx, terms = args
    name = 'cases_%s_%d' % (corr.lower(), idx)
    path = os.path.join(work, name + '.v')
    with open(path, 'w') as f:
        f.write('From Wasp Require Import Model.Base Corr.%s.\n' % corr)
        f.write('Open Scope string_scope.\n')
        f.write('Definition cases : list case := [\n')
        f.write(';\n'.join(terms))
        f.write('\n].\n')
        f.write('Definition M := Eval vm_compute in mismatches cases.\n')
        f.write('Definition O := Eval vm_compute in oracle_failures cases.\n')
        f.write('Print M.\nPrint O.\n')
    r = run(['timeout', '1500', 'coqc', '-Q', BUILD, 'Wasp', '-w', '-all', name + '.v'], cwd=work)
    if r.returncode != 0:
        return None, None, r.stdout[-3000:]
    m = re.search(r'M\s*=\s*(.*?)\n\s*:\s*list N', r.stdout, re.S)
    o = re.search(r'O\s*=\s*(.*?)\n\s*:\s*list N', r.stdout, re.S)
    if not m or not o:
        return None, None, r.stdout[-3000:]
    ids = lambda s: [int(x) for x in re.findall(r'(\d+)%N', s)] + \
        [int(x) for x in re.findall(r'(?<![\d%])(\d+)(?![\d%])', re.sub(r'\d+%N', '', s))]
    for ext in ('.vo', '.vok', '.vos', '.glob'):
        try:
            os.remove(os.path.join(work, name + ext))
        except OSError:
            pass
    return ids(m.group(1)), ids(o.group(1)), None


def evaluate(work, corr, cases):
    """returns (mismatch ids, oracle failure ids); ids are positions in `cases`"""
    for i, c in enumerate(cases):
        # re-number so that ids are unique across runs/modes of one family
        c['_term'] = re.sub(r'^\(\d+%N', '(%d%%N' % i, c['coq'], 1)
    sz = max(8, min(SHARD, -(-len(cases) // 16)))
    shards = [(work, corr, k // sz, [c['_term'] for c in cases[k:k + sz]])
              for k in range(0, len(cases), sz)]
    M, O = [], []
    with ThreadPoolExecutor(max_workers=16) as ex:
        for (mm, oo, err), sh in zip(ex.map(eval_shard, shards), shards):
            if err is not None:
                raise RuntimeError('coqc failed on generated cases (%s shard %d):\n%s' % (corr, sh[2], err))
            M += mm
            O += oo
    return sorted(set(M)), sorted(set(O))


# ------------------------------------------------------------------ Go side

def build_harness(work, race=False):
    hdir = os.path.join(VERIF, 'harness')
    shutil.copy(os.path.join(REPO, 'go.sum'), os.path.join(hdir, 'go.sum'))
    out = os.path.join(work, 'wharness_race' if race else 'wharness')
    cmd = ['go', 'build'] + (['-race'] if race else []) + ['-tags', 'verif', '-o', out, './cmd/wharness']
    env = dict(GOENV, CGO_ENABLED='1') if race else GOENV
    r = run(cmd, cwd=hdir, env=env)
    return (out if r.returncode == 0 else None), r.stdout


def harness_gen(binp, family, n, seed, mode, tier, timeout=3000, par=1):
    def one(i):
        cmd = ['timeout', str(timeout), binp, family, 'gen', '-n', str(n), '-seed', str(seed), '-mode', mode, '-tier', tier]
        if par > 1:
            cmd += ['-shard', '%d/%d' % (i, par)]
        r = subprocess.run(cmd, stdout=subprocess.PIPE, stderr=subprocess.PIPE, text=True, env=GOENV)
        if r.returncode != 0:
            e = HarnessCrash('harness %s gen -mode %s failed (exit %d): %s' % (family, mode, r.returncode, r.stderr[-3000:]))
            starts = re.findall(r'^STARTING (\d+) (.*)$', r.stderr, re.M)
            if starts:
                try:
                    e.input = json.loads(starts[-1][1])
                except Exception:
                    e.input = None
            e.tail = '\n'.join(l for l in r.stderr.splitlines() if not l.startswith('STARTING'))[-2500:]
            raise e
        return [json.loads(l) for l in r.stdout.splitlines() if l.strip()]
    if par <= 1:
        return one(0)
    with ThreadPoolExecutor(max_workers=par) as ex:
        parts = list(ex.map(one, range(par)))
    cases = [c for p in parts for c in p]
    cases.sort(key=lambda c: c['id'])
    return cases


class HarnessCrash(RuntimeError):
    pass


def harness_run(binp, family, inputs, timeout=600):
    data = '\n'.join(json.dumps(i) for i in inputs) + '\n'
    r = subprocess.run(['timeout', str(timeout), binp, family, 'run'], input=data, stdout=subprocess.PIPE,
                       stderr=subprocess.PIPE, text=True, env=GOENV)
    if r.returncode != 0:
        raise RuntimeError('harness %s run failed (%d): %s' % (family, r.returncode, r.stderr[-3000:]))
    return [json.loads(l) for l in r.stdout.splitlines() if l.strip()]


# ------------------------------------------------------------------ decisions

def load_known(pid):
    out = []
    p = os.path.join(VERIF, 'known_findings.txt')
    if not os.path.exists(p):
        return out
    for line in open(p):
        line = line.strip()
        m = re.match(r'finding:\s+property=(\S+)\s+id=(\S+)\s+match=/(.*?)/\s+(.*)$', line)
        if m and m.group(1) == pid:
            out.append(dict(id=m.group(2), rx=re.compile(m.group(3)), what=m.group(4)))
    return out


_SHRINK_SPENT = [0.0]
SHRINK_BUDGET_S = float(os.environ.get('VERIF_SHRINK_S', '45'))


def shrink(binp, work, fam, case, budget=12):
    """delta debugging on input.ops, re-running implementation and oracle each round; all shrinking
    of one check shares a wall-clock budget (a replay that is longer than it could be is still a
    replay; a quick check that takes ten minutes is not quick)"""
    t_start = time.time()
    try:
        return _shrink(binp, work, fam, case, budget)
    finally:
        _SHRINK_SPENT[0] += time.time() - t_start


def _shrink(binp, work, fam, case, budget):
    inp = case['input']
    if not isinstance(inp, dict) or not isinstance(inp.get('ops'), list) or len(inp['ops']) < 2:
        return case
    cur = inp
    n = 2
    rounds = 0
    t0 = time.time()
    while len(cur['ops']) >= 2 and rounds < budget and _SHRINK_SPENT[0] + (time.time() - t0) < SHRINK_BUDGET_S:
        rounds += 1
        ops = cur['ops']
        size = max(1, len(ops) // n)
        cands = []
        for i in range(0, len(ops), size):
            c = dict(cur)
            c['ops'] = ops[:i] + ops[i + size:]
            if c['ops']:
                cands.append(c)
        if not cands:
            break
        try:
            left = SHRINK_BUDGET_S - _SHRINK_SPENT[0] - (time.time() - t0)
            res = harness_run(binp, fam['name'], cands, timeout=int(max(20, left + 15)))
            _, O = evaluate(work, fam['corr'], res)
        except Exception:
            break
        # a candidate that made the HARNESS stumble (a packet on a connection the shortened script no
        # longer opens) fails for a reason of its own: it is not a smaller instance of this failure
        O = [i for i in O if 'harness step panicked' not in json.dumps(res[i].get('obs'), default=str)]
        if O:
            cur = cands[O[0]]
            case = res[O[0]]
            n = max(n - 1, 2)
        else:
            if size == 1:
                break
            n = min(n * 2, len(ops))
    return case


def write_replay(pid, k, payload):
    d = os.path.join(VERIF, 'evidence', 'replay')
    os.makedirs(d, exist_ok=True)
    p = os.path.join(d, '%s-%d.json' % (pid, k))
    with open(p, 'w') as f:
        json.dump(payload, f, indent=1, default=str)
    return p


def clean_case(c):
    return {k: v for k, v in c.items() if k not in ('_term', 'sig')}


def main():
    ap = argparse.ArgumentParser()
    ap.add_argument('pid')
    ap.add_argument('--tier', default=os.environ.get('VERIF_TIER', 'quick'))
    ap.add_argument('--seed', type=int, default=int(os.environ.get('VERIF_SEED', '1') or 1))
    ap.add_argument('--replay')
    a = ap.parse_args()
    pid, tier, seed = a.pid, a.tier if a.tier in ('quick', 'thorough') else 'quick', a.seed
    if pid not in props.PROPS:
        log('unknown property', pid)
        return 2
    P = props.PROPS[pid]
    t0 = time.time()
    work = os.path.join(VERIF, 'work', pid)
    shutil.rmtree(work, ignore_errors=True)
    os.makedirs(work, exist_ok=True)
    os.makedirs(os.path.join(VERIF, 'evidence'), exist_ok=True)

    # -- 1. proofs
    proof_problems = []
    bad = gate()
    if bad:
        proof_problems.append('forbidden constructs: ' + '; '.join(bad))
    if tier == 'thorough' and os.environ.get('VERIF_NO_CLEAN') != '1' and not a.replay:
        ok, out = private_clean_build(work)
    else:
        ok, out = make_coq()
    if not ok:
        proof_problems.append('coq build failed:\n' + out[-3000:])
    ob = dict(ok=False, theorems=[], examples=[], closed=0, printed=0, axioms=[], output='')
    if ok:
        ob = property_obligations(pid, work)
        if not ob['ok']:
            proof_problems.append('Properties/%s.v does not check:\n%s' % (pid, ob['output']))
        allowed = set(props.ALLOWED_AXIOMS)
        extra = [x for x in ob['axioms'] if x not in allowed]
        if extra:
            proof_problems.append('unexpected axioms: ' + ', '.join(extra))
        if ob['ok'] and ob['printed'] < len(ob['theorems']):
            proof_problems.append('a theorem lacks its Print Assumptions')
        missing = [t for t in P.get('theorems', []) if t not in ob['theorems']]
        if missing:
            proof_problems.append('theorems missing from Properties/%s.v: %s' % (pid, ', '.join(missing)))
    coqchk = None
    if tier == 'thorough' and ok and not a.replay and os.environ.get('VERIF_NO_COQCHK') != '1':
        r = run(['timeout', '3000', 'coqchk', '-silent', '-o', '-Q', BUILD, 'Wasp', 'Wasp.Properties.' + pid])
        coqchk = r.stdout[-3000:]
        if r.returncode != 0:
            proof_problems.append('coqchk failed:\n' + coqchk)

    # -- 2. harness
    binp, bout = build_harness(work)
    if binp is None:
        log('cannot build the harness against %s:\n%s' % (REPO, bout[-3000:]))
        return 2

    if a.replay:
        return do_replay(pid, P, binp, work, a.replay)

    # -- 3/4. run families, evaluate
    fam_stats, violations, known_hits, nofail = [], [], [], []
    total_eval, sigs_nontrivial, samples = 0, set(), []
    known = load_known(pid)
    extra_checks = []
    for fam in P['families']:
        if fam.get('kind') == 'custom':
            # a family that decides by itself (e.g. race stress, crash children): returns dict
            res = fam['run'](binp=binp, work=work, tier=tier, seed=seed, verif=VERIF, repo=REPO, goenv=GOENV)
            extra_checks.append(res)
            total_eval += res.get('evaluations', 0)
            for s in res.get('sigs', []):
                sigs_nontrivial.add(s)
            samples += res.get('samples', [])[:1]
            fam_stats.append({k: v for k, v in res.items() if k not in ('sigs', 'failures', 'samples')})
            for fl in res.get('failures', []):
                violations.append(dict(family=fam['name'], kind=fl.get('kind', 'oracle'), case=fl))
            continue
        cases = []
        corpus = sorted(glob.glob(os.path.join(VERIF, 'corpus', fam['name'], '*.json')))
        cin = []
        for cf in corpus:
            try:
                j = json.load(open(cf))
                cin.append(j['input'] if 'input' in j else j)
            except Exception:
                pass
        if cin:
            cs = harness_run(binp, fam['name'], cin)
            for c in cs:
                c['_src'] = 'corpus'
            cases += cs
        tg = time.time()
        for (mode, nq, nt) in fam['runs']:
            n = nt if tier == 'thorough' else nq
            if n == 0:
                continue
            try:
                usebin = binp
                if fam.get('race'):
                    usebin, rout = build_harness(work, race=True)
                    if usebin is None:
                        raise RuntimeError('cannot build the race-detector harness:\n' + rout[-2000:])
                cs = harness_gen(usebin, fam['name'], n, seed, mode, tier, par=fam.get('par', 1))
            except HarnessCrash as e:
                # the implementation took the harness process down (unrecovered panic, fatal error,
                # deadlock): the case that was running is the failing input
                if getattr(e, 'input', None) is not None:
                    violations.append(dict(family=fam['name'], kind='crash',
                                           what='the process running the broker died while executing this input',
                                           case=dict(input=e.input, obs=getattr(e, 'tail', ''))))
                else:
                    nofail.append(dict(family=fam['name'], kind='harness-crash',
                                       what='the harness process running the implementation died in mode %s' % mode,
                                       detail=str(e)[-2500:]))
                continue
            for c in cs:
                c['_src'] = mode
            cases += cs
        tgo = time.time() - tg
        tc = time.time()
        M, O = evaluate(work, fam['corr'], cases)
        tcoq = time.time() - tc
        total_eval += len(cases)
        dist = {}
        for c in cases:
            if c.get('nontrivial'):
                sigs_nontrivial.add(fam['name'] + ':' + hashlib.sha1(c.get('sig', json.dumps(c['input'])).encode()).hexdigest())
            for tgname in c.get('tags') or []:
                dist[tgname] = dist.get(tgname, 0) + 1
            dist['src:' + c['_src']] = dist.get('src:' + c['_src'], 0) + 1
        if cases:
            samples.append(dict(family=fam['name'], input=cases[min(len(cases) - 1, len(cin))]['input'],
                                observed=cases[min(len(cases) - 1, len(cin))].get('obs')))
        fam_stats.append(dict(family=fam['name'], cases=len(cases), corpus=len(cin), mismatches=len(M),
                              oracle_failures=len(O), harness_s=round(tgo, 2), coq_s=round(tcoq, 2),
                              distribution=dist))
        log('[%s] family %s: %d cases, %d model mismatches, %d oracle failures (go %.1fs, coq %.1fs)' %
            (pid, fam['name'], len(cases), len(M), len(O), tgo, tcoq))
        # oracle failures: concrete violations unless listed as known findings
        reported = 0
        for i in O:
            c = cases[i]
            txt = json.dumps(c['input'])
            hit = next((k for k in known if k['rx'].search(txt)), None)
            if hit:
                known_hits.append((hit, c))
                continue
            if reported < 3:
                small = shrink(binp, work, fam, c)
                violations.append(dict(family=fam['name'], kind='oracle', case=clean_case(small)))
                reported += 1
        # mismatches without oracle failure: the model no longer describes the code
        only_m = [i for i in M if i not in set(O)]
        if only_m and not O:
            found = None
            for extra in range(1, 3 if fam.get('par') else 4):  # directed search: more seeds, thorough-size exhaustive scope
                more = []
                for (mode, nq, nt) in fam['runs']:
                    try:
                        more += harness_gen(binp, fam['name'], max(nq, 1) * (1 if fam.get('par') else 2), seed + 1000 * extra, mode, 'thorough' if (extra == 3 and not fam.get('par')) else tier, par=fam.get('par', 1))
                    except Exception:
                        pass
                    if len(more) > 20000:
                        break
                more = more[:20000]
                if not more:
                    continue
                _, O2 = evaluate(work, fam['corr'], more)
                O2 = [i for i in O2 if not any(k['rx'].search(json.dumps(more[i]['input'])) for k in known)]
                total_eval += len(more)
                if O2:
                    found = shrink(binp, work, fam, more[O2[0]])
                    break
            if found is not None:
                violations.append(dict(family=fam['name'], kind='oracle', case=clean_case(found)))
            else:
                nofail.append(dict(family=fam['name'], kind='correspondence',
                                   what='model Corr/%s.v disagrees with the implementation; the oracle accepts '
                                        'everything explored' % fam['corr'],
                                   case=clean_case(shrink_mismatch(binp, work, fam, cases[only_m[0]]))))
    if proof_problems and not violations:
        nofail.append(dict(family=None, kind='proof', what='; '.join(p.split('\n')[0] for p in proof_problems),
                           detail=proof_problems))

    # -- 5. verdict + evidence
    rc = 0
    lines = []
    for hit, c in known_hits[:50]:
        lines.append('KNOWN-FINDING: property=%s %s %s' % (pid, hit['id'], hit['what']))
    for ln in sorted(set(lines)):
        log(ln)
    k = 0
    for v in violations:
        p = write_replay(pid, k, dict(property=pid, **v)); k += 1
        log('VIOLATION property=%s replay=%s' % (pid, p))
        rc = 1
    if not violations:
        for v in nofail:
            p = write_replay(pid, k, dict(property=pid, **v)); k += 1
            log('VIOLATION property=%s replay=%s no-failing-input-found' % (pid, p))
            rc = 1
    n_th = len(ob['theorems'])
    discharged = n_th if (ok and ob['ok'] and not proof_problems) else 0
    ev = dict(
        property_id=pid, tier=tier, seed=seed, level=P.get('level', 'proof'),
        coverage=dict(
            obligations=max(n_th, 1), discharged=discharged,
            checker_cmd='make -C coq (coqc 8.16.1, full .vo build) && coqc Properties/%s.v%s' %
                        (pid, ' && coqchk -silent -o Wasp.Properties.%s' % pid if coqchk is not None else ''),
            trusted_base=props.TRUSTED_BASE + P.get('trusted', []),
            theorems=ob['theorems'], non_vacuity_examples=ob['examples'],
            print_assumptions=dict(closed_under_global_context=ob['closed'], axioms=ob['axioms']),
            evaluations=total_eval, distinct_nontrivial=len(sigs_nontrivial),
            rule=P.get('rule', ''), samples=samples[:4], families=fam_stats,
            explanation=P.get('explanation', ''),
            exhaustive=False,
        ),
        assumptions=P.get('assumptions', []),
        wall_s=round(time.time() - t0, 2), violations=len(violations) + (len(nofail) if not violations else 0),
    )
    if coqchk is not None:
        ev['coverage']['coqchk_tail'] = coqchk[-1500:]
    with open(os.path.join(VERIF, 'evidence', pid + '.json'), 'w') as f:
        json.dump(ev, f, indent=1, default=str)
    log('[%s] %s tier: %d theorems (%d discharged), %d cases, %d distinct non-trivial, %.1fs -> %s' %
        (pid, tier, n_th, discharged, total_eval, len(sigs_nontrivial), time.time() - t0,
         'OK' if rc == 0 else 'VIOLATION'))
    return rc


def shrink_mismatch(binp, work, fam, case):
    return case


def do_replay(pid, P, binp, work, path):
    j = json.load(open(path))
    famname = j.get('family')
    case = j.get('case') or {}
    if j.get('kind') == 'proof' or not famname:
        log('replay names a proof obligation, not an input:', j.get('what'))
        ok, out = make_coq()
        ob = property_obligations(pid, work) if ok else dict(ok=False, output=out)
        log('proofs check' if ok and ob['ok'] else 'proofs do NOT check:\n' + ob.get('output', '')[-2000:])
        return 0 if ok and ob['ok'] else 1
    fam = next(f for f in P['families'] if f['name'] == famname)
    if fam.get('kind') == 'custom':
        res = fam['run'](binp=binp, work=work, tier='quick', seed=1, verif=VERIF, repo=REPO, goenv=GOENV,
                         replay=case)
        log(json.dumps({k: v for k, v in res.items() if k != 'sigs'}, indent=1, default=str)[:4000])
        return 1 if res.get('failures') else 0
    try:
        res = harness_run(binp, famname, [case['input']])
    except RuntimeError as e:
        log('the process running the broker died on this input:', str(e)[-1500:])
        log('VIOLATION property=%s replay=%s' % (pid, path))
        return 1
    M, O = evaluate(work, fam['corr'], res)
    log('input      :', json.dumps(case['input'])[:3000])
    log('observed   :', json.dumps(res[0].get('obs'))[:3000])
    log('model      :', 'DISAGREES with the implementation' if M else 'agrees with the implementation')
    log('spec oracle:', 'REJECTS what the implementation did' if O else 'accepts what the implementation did')
    if O:
        log('VIOLATION property=%s replay=%s' % (pid, path))
        return 1
    if M:
        log('VIOLATION property=%s replay=%s no-failing-input-found' % (pid, path))
        return 1
    return 0


def _cleanup():
    # the private build of a thorough run is scratch: remove it (evidence and replays stay)
    if BUILD != COQ:
        shutil.rmtree(BUILD, ignore_errors=True)


if __name__ == '__main__':
    try:
        rc = main()
    except RuntimeError as e:
        log('check could not run:', e)
        rc = 2
    finally:
        _cleanup()
    sys.exit(rc)
