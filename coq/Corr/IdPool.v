(** Correspondence evaluators for family "idpool": model = Model/IdPool.v compared on returned
    identifiers AND on the free-interval list after every call; oracle = a plain set of
    outstanding identifiers. *)
From Wasp Require Export Model.Base Model.IdPool.
Open Scope Z_scope.

Inductive pobs :=
| GGet (v : Z) (iv : list (Z * Z))
| GPut (x : Z) (iv : list (Z * Z))
| GPanic.
Definition case : Type := (N * (Z * Z) * list pobs)%type.

Definition zz_eqb (a b : Z * Z) : bool := (fst a =? fst b) && (snd a =? snd b).
Definition model_step (st : pool * bool) (o : pobs) : pool * bool :=
  let '(p, ok) := st in
  match o with
  | GGet v iv => let r := pget p in (snd r, ok && (fst r =? v) && list_eqb zz_eqb (ivs (snd r)) iv)
  | GPut x iv => let p' := pput x p in (p', ok && list_eqb zz_eqb (ivs p') iv)
  | GPanic => (p, false)
  end.
Definition model_ok (c : case) : bool :=
  let '(_, (mn, mx), ops) := c in snd (fold_left model_step ops (pnew mn mx, true)).

Definition zmem (x : Z) (l : list Z) : bool := existsb (Z.eqb x) l.
Definition oracle_step (mn mx : Z) (st : list Z * bool) (o : pobs) : list Z * bool :=
  let '(out, ok) := st in
  match o with
  | GGet v _ =>
    if v =? -1 then (out, ok && (Z.of_nat (length out) =? mx - mn + 1))
    else (v :: out, ok && (mn <=? v) && (v <=? mx) && negb (zmem v out))
  | GPut x _ => (filter (fun y => negb (y =? x)) out, ok)
  | GPanic => (out, false)
  end.
Definition oracle_ok (c : case) : bool :=
  let '(_, (mn, mx), ops) := c in snd (fold_left (oracle_step mn mx) ops ([], true)).

Definition case_id (c : case) : N := fst (fst c).
Definition mismatches (cs : list case) : list N := map case_id (filter (fun c => negb (model_ok c)) cs).
Definition oracle_failures (cs : list case) : list N := map case_id (filter (fun c => negb (oracle_ok c)) cs).
