(** C17 — Mount points isolate tenants.  Statements only (matching level; the delivery-level
    statement [tenant_isolation] lives with the node model). *)
From Wasp Require Import Model.Base Spec.MatchSpec Model.Mount Proofs.BaseFacts Proofs.MountFacts.
From stdpp Require Import list strings.

(** Topics delivered to a client are exactly the names publishers used: trimming undoes prefixing. *)
Theorem prefix_trim : ∀ mp t, trim_mp mp (prefix_mp mp t) = t.
Proof. exact prefix_trim. Qed.
Print Assumptions prefix_trim.

(** No filter of one mount point - '#', '+/...' and everything else - matches any topic of
    another: every subscription is stored under mp/filter and every publish, retained message
    and will is routed under mp/topic, and the mount point is one whole first level. *)
Theorem no_cross_match : ∀ mp1 mp2 f t, mp_ok mp1 = true → mp_ok mp2 = true → mp1 ≠ mp2 →
  mmatch (levels (prefix_mp mp1 f)) (levels (prefix_mp mp2 t)) = false.
Proof. exact no_cross_match. Qed.
Print Assumptions no_cross_match.

(** Inside one mount point matching is exactly matching of what the clients wrote. *)
Theorem same_tenant_match : ∀ mp f t, mp_ok mp = true →
  mmatch (levels (prefix_mp mp f)) (levels (prefix_mp mp t)) = mmatch (levels f) (levels t).
Proof. exact same_tenant_match. Qed.
Print Assumptions same_tenant_match.

From Wasp Require Import Model.DState Model.IdPool Model.Node Proofs.NodeFacts.
From Wasp Require Import Proofs.DStateFacts Proofs.TakeoverFacts Proofs.TenantFacts.
(** "... client identifiers used in one mount point do not affect sessions in another": the
    session an identifier resolves to is always one of the asking mount point, and the CONNECT
    path ([takeover]: remove what the identifier resolves to, store the new record) leaves every
    record of every other mount point exactly as it was. *)
Theorem identifiers_resolve_within_the_mount_point : ∀ d mp cid m,
  m ∈ sess_by_client mp cid d → m_mp m = mp ∧ m_cid m = cid ∧ sess_added m = true.
Proof. exact resolution_scoped. Qed.
Print Assumptions identifiers_resolve_within_the_mount_point.
Theorem connect_leaves_other_tenants_alone : ∀ d id cid mp lwt clk k m,
  sess_ok (d_sess d) → alookup k (d_sess d) = Some m → m_mp m ≠ mp → k ≠ id →
  alookup k (d_sess (takeover d id cid mp lwt clk)) = Some m.
Proof. exact connect_spares_other_tenants. Qed.
Print Assumptions connect_leaves_other_tenants_alone.

(** At delivery: a subscription stored under mp2/f is selected for a message routed under mp1/t
    (live publish, retained replay or will - all are routed under the publisher's mount point)
    only if mp1 = mp2 and f matches t; and the topic written to the client is the publisher's. *)
Theorem tenant_isolation : ∀ d mp1 t mp2 f s, mp_ok mp1 = true → mp_ok mp2 = true →
  s ∈ sub_by_pattern d (prefix_mp mp1 t) →
  (∀ key l, (key, l) ∈ d_subs d → s ∈ l → key = prefix_mp mp2 f) →
  mp1 = mp2 ∧ mmatch (levels f) (levels t) = true.
Proof. exact delivery_same_tenant. Qed.
Print Assumptions tenant_isolation.

Example c17_delivery :
  let run := fold_left (λ st o, let r := step [] st.1 o in (r.1, (st.2 ++ [r.2])%list)) in
  let ops := [EConnect 0%nat "a" "dev" "ta" "" 60 None 10; ESubscribe "a" 1 [("#", 0); ("+/#", 0)] 20;
              EConnect 0%nat "b" "dev" "tb" "" 60 (Some (Publish "will" "w" 0 false false)) 30; ESubscribe "b" 1 [("#", 0)] 40;
              EPublish "b" (Publish "/lead" "x" 0 true false) false 0 50; EPing "a" 60; EEof "b" 70;
              EConnect 0%nat "c" "dev2" "ta" "" 60 None 80; ESubscribe "c" 2 [("#", 0)] 90] in
  let o := (run ops (cnew 1%nat, [])).2 in
  nth 4%nat o [] = [Appended 0%nat "tb//lead" "x" 0 false; Deadline "b" 120000; Out "b" (OPublish "/lead" "x" 0 false false 0)]
  ∧ nth 5%nat o [] = [Out "a" OPingResp; Deadline "a" 120000]
  ∧ nth 6%nat o [] = [Closed "b"]
  ∧ nth 8%nat o [] = [Out "c" (OSubAck 2 [0]); Deadline "c" 120000].
Proof. vm_compute. done. Qed.

Example c17_examples :
  mp_ok "tenantA" = true ∧ mp_ok "a/b" = false ∧ mp_ok "+" = false
  ∧ mmatch (levels (prefix_mp "ta" "#")) (levels (prefix_mp "tb" "x")) = false
  ∧ mmatch (levels (prefix_mp "ta" "+/#")) (levels (prefix_mp "ta" "/lead")) = true
  ∧ trim_mp "ta" (prefix_mp "ta" "/lead") = "/lead".
Proof. vm_compute. done. Qed.
