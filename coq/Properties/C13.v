(** C13 — Will messages are published exactly when a session dies without DISCONNECT. *)
From Wasp Require Import Model.Base Spec.MatchSpec Model.DState Model.IdPool Model.Mount Model.Node Proofs.BaseFacts Proofs.MountFacts Proofs.NodeFacts Proofs.WillFacts.
From stdpp Require Import list strings.
Open Scope Z_scope.

(** [shutdown cl i s disconnected clk] is shutdownSession + Close for session [s] hosted on node
    [i]; every way a session ends goes through it ([end_session]): disconnected = true for
    DISCONNECT (and for a displaced session noticed at PINGREQ), false for connection loss,
    read-deadline expiry and protocol errors. *)
Theorem will_on_unclean_end : ∀ cl i s w clk, ss_lwt s = Some w → mine_of (after_unsub cl i s clk) s ≠ Some false →
  ∃ cl3, (shutdown cl i s false clk).2 =
         Closed (ss_conn s) :: (worker cl3 i (LMsg (prefix_mp (ss_mp s) (p_topic w)) (p_payload w) (p_qos w) false false) (p_retain w) clk []).2.
Proof. exact will_on_unclean_end. Qed.
Print Assumptions will_on_unclean_end.
Theorem no_will_after_disconnect : ∀ cl i s clk, (shutdown cl i s true clk).2 = [Closed (ss_conn s)].
Proof. exact no_will_after_disconnect. Qed.
Print Assumptions no_will_after_disconnect.
Theorem no_will_without_lwt : ∀ cl i s d clk, ss_lwt s = None → (shutdown cl i s d clk).2 = [Closed (ss_conn s)].
Proof. exact no_will_without_lwt. Qed.
Print Assumptions no_will_without_lwt.

(** "... each matching subscriber receives it exactly once".  The publish path stores the will at
    most once per node; when nothing fails, at every node hosting a matching subscription known
    here, and at no other node.  (Each hosting node then writes a stored message once per matching
    subscription entry of its registered sessions: C01's [by_pattern_once], [deliver_exact].) *)
Theorem will_stored_once_per_destination : ∀ cl i s w clk, ss_lwt s = Some w → mine_of (after_unsub cl i s clk) s ≠ Some false →
  ∃ cl1 o, (shutdown cl i s false clk).2 = Closed (ss_conn s) :: o ∧
    quiet (λ x, negb (is_store x)) o ∧
    (existsb bad_store o = false → ∀ dst, dst ∈ dests_of cl1 i (will_msg s w) → existsb (stored_at (Z.to_nat (dst - 1)) (will_msg s w)) o = true) ∧
    (Forall (λ d : Z, 1 ≤ d) (dests_of cl1 i (will_msg s w)) → ∀ j, (napp j o ≤ 1)%nat) ∧
    (∀ j, (∀ dst, dst ∈ dests_of cl1 i (will_msg s w) → Z.to_nat (dst - 1) ≠ j) → napp j o = 0%nat).
Proof. exact will_distributed. Qed.
Print Assumptions will_stored_once_per_destination.

(** failure of the hosting node: the survivor that notices appends to its own log exactly one
    copy of the will of every session of the failed peer it lists, under that session's mount
    point, and nothing else *)
Theorem host_failure_publishes_wills : ∀ cl o d clk, (o < length (cl_nodes cl))%nat → n_fail (getn cl o) = 0%nat →
  let pid := Z.of_nat (S d) in
  let n1 := mutate (getn cl o) (sub_delete_peer (n_d (getn cl o)) pid clk) in
  (peer_leave cl o d clk).2 = map (λ w, Appended o (l_topic w) (l_payload w) (l_qos w) (l_retain w)) (peer_wills n1 pid).
Proof. exact host_failure_wills. Qed.
Print Assumptions host_failure_publishes_wills.

From Wasp Require Import Proofs.IdPoolFacts Proofs.IdsFacts.
(** The same in the two steps in which nodes.go performs it: [peer_notice] is NotifyGossipLeave up
    to its return (subscriptions of the failed peer removed, wills appended), [peer_reap] the
    removal of the failed peer's session records, which a goroutine performs three seconds later.
    Noticing publishes the wills of every session of the failed peer the survivor lists — and
    removes no session record, neither its own copy nor (by gossip of what it queued so far) anybody
    else's: a second survivor that hears from the first before it notices the failure itself
    still lists the sessions and publishes their wills to its own subscribers. *)
Theorem host_failure_is_notice_then_reap : ∀ cl o d clk,
  peer_leave cl o d clk = (peer_reap (peer_notice cl o d clk).1 o d clk, (peer_notice cl o d clk).2).
Proof. exact peer_leave_split. Qed.
Print Assumptions host_failure_is_notice_then_reap.
Theorem noticing_publishes_wills : ∀ cl o d clk, (o < length (cl_nodes cl))%nat → n_fail (getn cl o) = 0%nat →
  let pid := Z.of_nat (S d) in
  let n1 := mutate (getn cl o) (sub_delete_peer (n_d (getn cl o)) pid clk) in
  (peer_notice cl o d clk).2 = map (λ w, Appended o (l_topic w) (l_payload w) (l_qos w) (l_retain w)) (peer_wills n1 pid).
Proof. exact notice_publishes_wills. Qed.
Print Assumptions noticing_publishes_wills.
Theorem noticing_removes_no_record : ∀ cl o d clk i, (o < length (cl_nodes cl))%nat →
  d_sess (n_d (getn (peer_notice cl o d clk).1 i)) = d_sess (n_d (getn cl i)).
Proof. exact notice_keeps_records. Qed.
Print Assumptions noticing_removes_no_record.

(** three nodes, the host (node 2) fails, node 0 notices first and its broadcasts reach node 1
    before node 1 notices: both publish the will, each to its own subscriber; the records go with
    the delayed removals *)
Example c13_two_survivors :
  let run := fold_left (λ st o, let r := step [] st.1 o in (r.1, (st.2 ++ [r.2])%list)) in
  let ops := [EConnect 0%nat "w0" "c0" "" "" 60 None 10; ESubscribe "w0" 1 [("will/#", 0)] 20;
              EConnect 1%nat "w1" "c1" "" "" 60 None 30; ESubscribe "w1" 1 [("#", 0)] 40;
              EConnect 2%nat "dying" "cd" "" "" 60 (Some (Publish "will/t" "gone" 0 false false)) 50;
              EGossip 2%nat 0%nat; EGossip 2%nat 1%nat;
              EPeerNotice 0%nat 2%nat 60; EGossip 0%nat 1%nat; EPeerNotice 1%nat 2%nat 70;
              EPeerReap 0%nat 2%nat 80; EPeerReap 1%nat 2%nat 80; ECheck 1%nat] in
  let o := (run ops (cnew 3%nat, [])).2 in
  nth 7%nat o [] = [Appended 0%nat "_default/will/t" "gone" 0 false; Out "w0" (OPublish "will/t" "gone" 0 false false 0)]
  ∧ nth 9%nat o [] = [Appended 1%nat "_default/will/t" "gone" 0 false; Out "w1" (OPublish "will/t" "gone" 0 false false 0)]
  ∧ match nth 12%nat o [] with [Listed _ ss _ _ _] => map m_sid ss = ["s002"; "s001"] | _ => False end.
Proof. vm_compute. done. Qed.

(** host failure: each survivor appends to its own log one copy of the will of every listed
    session of the failed peer, under that session's mount point (non-vacuity example; the
    general statement is the definition of [peer_leave], compared with nodes.go by the harness) *)
Example c13_history :
  let run := fold_left (λ st o, let r := step [] st.1 o in (r.1, (st.2 ++ [r.2])%list)) in
  let ops := [EConnect 0%nat "w" "cw" "ta" "" 60 None 10; ESubscribe "w" 1 [("will/#", 0)] 20;
              EConnect 1%nat "dying" "cd" "ta" "" 60 (Some (Publish "will/t" "gone" 0 false false)) 30; EGossip 1%nat 0%nat;
              EPeerLeave 0%nat 1%nat 40;
              EConnect 0%nat "d2" "cd2" "ta" "" 60 (Some (Publish "will/u" "bye" 0 false false)) 50; EDisconnect "d2" 60;
              EConnect 0%nat "d3" "cd3" "ta" "" 60 (Some (Publish "will/v" "lost" 0 false false)) 70; EEof "d3" 80] in
  let o := (run ops (cnew 2%nat, [])).2 in
  nth 4%nat o [] = [Appended 0%nat "ta/will/t" "gone" 0 false; Out "w" (OPublish "will/t" "gone" 0 false false 0)]
  ∧ nth 6%nat o [] = [Closed "d2"]
  ∧ nth 8%nat o [] = [Closed "d3"; Appended 0%nat "ta/will/v" "lost" 0 false; Out "w" (OPublish "will/v" "lost" 0 false false 0)].
Proof. vm_compute. done. Qed.
