(** Invariants of the log consumer over every sequence of appends, micro-steps and crashes (C15). *)
From Wasp Require Import Model.Base Model.Consumer.
From stdpp Require Import list.
From Coq Require Import NArith Lia.
From Coq Require Import ZifyN ZifyBool.
Open Scope N_scope.

Definition pos (s : cstate) : N := match c_phase s with Stopped => c_stored s | AtEntry p | AfterCallback p | AfterPersist p => p end.

Record cinv (s : cstate) : Prop := mkcinv {
  (* truncation never removes an entry that has not been handed over, and keeps a margin of 300 below the stored offset *)
  i_base : c_base s ≤ c_stored s ∧ (c_base s = 0 ∨ c_base s + 300 ≤ c_stored s);
  i_base_seg : c_base s mod seg = 0;
  (* at least once: everything below the stored offset has been handed over; the stored offset itself too, unless nothing was ever handled *)
  i_below : ∀ o, o < c_stored s → o ∈ c_ever s;
  i_stored : c_stored s ∈ c_ever s ∨ (c_stored s = 0);
  (* bounded replay: nothing beyond stored + 1 has ever been handed over *)
  i_above : ∀ o, o ∈ c_ever s → o ≤ c_stored s + 1;
  (* only existing entries are handed over *)
  i_exist : ∀ o, o ∈ c_ever s → o < c_len s;
  (* the position of a running process *)
  i_phase : match c_phase s with
            | Stopped => True
            | AtEntry p => (p = c_stored s ∨ p = c_stored s + 1) ∧ (p = c_stored s + 1 → c_stored s ∈ c_ever s)
            | AfterCallback p => (p = c_stored s ∨ p = c_stored s + 1) ∧ p ∈ c_ever s ∧ (p = c_stored s + 1 → c_stored s ∈ c_ever s)
            | AfterPersist p => p = c_stored s ∧ p ∈ c_ever s
            end }.

Lemma truncate_spec base cur : base mod seg = 0 →
  base ≤ truncate base cur ∧ (truncate base cur) mod seg = 0 ∧
  (truncate base cur = base ∨ (truncate base cur + 300 ≤ cur ∧ 1500 < cur)).
Proof.
  intros Hb. unfold truncate. destruct ((1500 <? cur) && (cur mod 1000 =? 0)) eqn:Hc.
  2:{ split; [lia|]. split; [done|by left]. }
  apply andb_true_iff in Hc as [H1 _]. apply N.ltb_lt in H1. unfold seg in *.
  assert (H500 : 500 ≠ 0) by lia. pose proof (N.div_mod' (cur - 300) 500) as Hd. pose proof (N.mod_lt (cur - 300) 500 H500) as Hm.
  assert (Hz : ((cur - 300) / 500 * 500) mod 500 = 0) by (apply N.mod_mul; lia).
  destruct (N.max_spec base ((cur - 300) / 500 * 500)) as [[Hlt ->]|[Hle ->]].
  - split; [lia|]. split; [done|]. right. split; [lia|done].
  - split; [lia|]. split; [done|]. by left.
Qed.

Lemma cinv_init : cinv cinit.
Proof. split; cbn; try done; try lia; try (intros o Ho; lia || by apply elem_of_nil in Ho); try (by right). Qed.

Theorem cinv_step s e : cinv s → cinv (cstep s e).
Proof.
  intros [[Hb1 Hb2] Hseg Hbelow Hst Habove Hex Hph]. destruct e; unfold cstep.
  - (* append *) split; cbn [c_len c_base c_stored c_phase c_ever c_run]; [done|done|done|done|done| |done].
    intros o Ho. specialize (Hex o Ho). lia.
  - (* start *) destruct (c_phase s) eqn:Hp; [|by split; rewrite ?Hp..].
    destruct (truncate_spec (c_base s) (c_stored s) Hseg) as (T1 & T2 & T3).
    split; cbn [c_len c_base c_stored c_phase c_ever c_run]; [|done|done|done|done|done|].
    + destruct T3 as [->|[T3 _]]; [done|]. split; [lia|right; lia].
    + split; [by left|]. intros; lia.
  - (* deliver *) destruct (c_phase s) as [|p|p|p] eqn:Hp; [by split; rewrite ?Hp| |by split; rewrite ?Hp..].
    destruct ((p <? c_len s) && (c_base s <=? p)) eqn:Hok; [|by split; rewrite ?Hp].
    apply andb_true_iff in Hok as [Hlt Hge]. apply N.ltb_lt in Hlt. destruct Hph as [Hpp Hprev].
    split; cbn [c_len c_base c_stored c_phase c_ever c_run]; [done|done| | | | |].
    + intros o Ho. right. by apply Hbelow.
    + destruct Hst as [?|?]; [left; by right|]. destruct Hpp as [->|Hpp]; [left; left|].
      left. right. by apply Hprev.
    + intros o [->|Ho]%elem_of_cons; [lia|by apply Habove].
    + intros o [->|Ho]%elem_of_cons; [done|by apply Hex].
    + split; [done|]. split; [left|]. intros Hq. right. by apply Hprev.
  - (* persist *) destruct (c_phase s) as [|p|p|p] eqn:Hp; [by split; rewrite ?Hp..| |by split; rewrite ?Hp].
    destruct Hph as (Hpp & Hin & Hprev). split; cbn [c_len c_base c_stored c_phase c_ever c_run]; [|done| | | |done|done].
    + split; [lia|]. destruct Hb2; [by left|right; lia].
    + intros o Ho. destruct Hpp as [->| ->]; [by apply Hbelow|].
      destruct (N.eq_dec o (c_stored s)) as [->|]; [by apply Hprev|apply Hbelow; lia].
    + by left.
    + intros o Ho. specialize (Habove o Ho). lia.
  - (* truncate *) destruct (c_phase s) as [|p|p|p] eqn:Hp; [by split; rewrite ?Hp..|].
    destruct Hph as [-> Hin]. destruct (truncate_spec (c_base s) (c_stored s) Hseg) as (T1 & T2 & T3).
    split; cbn [c_len c_base c_stored c_phase c_ever c_run]; [|done|done|done|done|done|].
    + destruct T3 as [->|[T3 _]]; [done|]. split; [lia|right; lia].
    + split; [by right|done].
  - (* crash *) by split.
Qed.

Theorem cinv_run es : ∀ s, cinv s → cinv (crun s es).
Proof. induction es as [|e es IH]; intros s H; cbn; [done|]. apply IH. by apply cinv_step. Qed.

(** in order within a run: the offsets handed over since the last start are consecutive and increasing *)
Fixpoint consecutive_desc (l : list N) : Prop :=
  match l with
  | [] | [_] => True
  | x :: ((y :: _) as l') => x = y + 1 ∧ consecutive_desc l'
  end.
Definition rinv (s : cstate) : Prop :=
  consecutive_desc (c_run s) ∧
  match c_phase s, c_run s with
  | AtEntry p, x :: _ => p = x + 1
  | AfterCallback p, x :: _ | AfterPersist p, x :: _ => p = x
  | AfterCallback _, [] | AfterPersist _, [] => False
  | _, _ => True
  end.
Theorem rinv_step s e : rinv s → rinv (cstep s e).
Proof.
  intros [Hc Hp]. unfold rinv in *. destruct e; unfold cstep.
  - cbn [c_run c_phase]. done.
  - destruct (c_phase s) eqn:E; cbn [c_run c_phase]; rewrite ?E; try done.
  - destruct (c_phase s) as [|p|p|p] eqn:E; cbn [c_run c_phase]; rewrite ?E; try done.
    destruct ((p <? c_len s) && (c_base s <=? p)); cbn [c_run c_phase]; rewrite ?E; [|done]. split; [|done].
    destruct (c_run s) as [|x l]; [done|]. cbn [consecutive_desc]. split; [done|done].
  - destruct (c_phase s) as [|p|p|p] eqn:E; cbn [c_run c_phase]; rewrite ?E; try done.
  - destruct (c_phase s) as [|p|p|p] eqn:E; cbn [c_run c_phase]; rewrite ?E; try done.
    split; [done|]. destruct (c_run s); [done|]. by subst.
  - cbn [c_run c_phase]. split; [done|]. by destruct (c_run s).
Qed.
Theorem rinv_run es : ∀ s, rinv s → rinv (crun s es).
Proof. induction es as [|e es IH]; intros s H; cbn; [done|]. apply IH. by apply rinv_step. Qed.
