(** Histories of store operations: the trie reached by ANY list of operations, starting from
    the empty store, holds at every topic string exactly what a plain map holds (C19), its
    iteration reports exactly the non-empty values, and a walk / match returns exactly the
    values stored under the keys MQTT matching selects (C01, C07). *)
From Wasp Require Import Model.Base Model.Trie Spec.MatchSpec Proofs.BaseFacts Proofs.TrieFacts.
From stdpp Require Import list sets strings.

Inductive sop :=
| Up (k : string) (f : string → string)   (* subscriptions.Tree.Upsert(k, f) *)
| Ins (k v : string)                      (* topics.Store.Insert(k, v) *)
| Rm (k : string).                        (* topics.Store.Remove(k): ErrTopicNotFound leaves the store as it is *)
Definition op_key (o : sop) : string := match o with Up k _ | Ins k _ | Rm k => k end.
Definition apply_op (n : node) (o : sop) : node :=
  match o with
  | Up k f => supdate (levels k) f n
  | Ins k v => (tinsert (levels k) v n).2
  | Rm k => odflt n (tremove (levels k) n)
  end.
Definition run_from (n : node) (ops : list sop) : node := fold_left apply_op ops n.
Definition run (ops : list sop) : node := run_from empty_node ops.

(** the specification: a total map from topic strings to values, "" = nothing stored *)
Definition smap := string → string.
Definition sm_empty : smap := λ _, "".
Definition sm_set (k v : string) (m : smap) : smap := λ x, if String.eqb x k then v else m x.
Definition spec_apply (m : smap) (o : sop) : smap :=
  match o with
  | Up k f => sm_set k (f (m k)) m
  | Ins k v => sm_set k v m
  | Rm k => sm_set k "" m
  end.
Definition spec_from (m : smap) (ops : list sop) : smap := fold_left spec_apply ops m.
Definition spec_run (ops : list sop) : smap := spec_from sm_empty ops.
Definition touched (ops : list sop) : list string := map op_key ops.

Lemma sm_set_eq k v m : sm_set k v m k = v.
Proof. unfold sm_set. by rewrite String.eqb_refl. Qed.
Lemma sm_set_ne k v m x : x ≠ k → sm_set k v m x = m x.
Proof. intros. unfold sm_set. by rewrite eqb_ne. Qed.

Lemma apply_op_wf n o : wf n → wf (apply_op n o).
Proof.
  intros Hwf. destruct o as [k f|k v|k]; cbn [apply_op].
  - by apply wf_supdate.
  - by apply wf_tinsert.
  - destruct (tremove (levels k) n) eqn:E; cbn [odflt]; [by eapply wf_tremove|done].
Qed.
Lemma run_from_wf ops : ∀ n, wf n → wf (run_from n ops).
Proof. induction ops as [|o ops IH]; intros n Hwf; cbn; [done|]. apply IH. by apply apply_op_wf. Qed.
Theorem run_wf ops : wf (run ops).
Proof. apply run_from_wf, wf_empty. Qed.

(** one step, at the level of paths *)
Lemma apply_op_get n o p : wf n →
  tget p (apply_op n o) =
    if decide (p = levels (op_key o))
    then match o with Up _ f => f (tget p n) | Ins _ v => v | Rm _ => "" end
    else tget p n.
Proof.
  intros Hwf. destruct o as [k f|k v|k]; cbn [apply_op op_key].
  - by apply get_supdate.
  - by apply get_tinsert.
  - destruct (tremove (levels k) n) as [n'|] eqn:E; cbn [odflt].
    + by eapply get_tremove.
    + destruct (decide (p = levels k)) as [->|]; [by apply tremove_None|done].
Qed.

(** refinement: at every topic string the trie holds what the map holds *)
Lemma run_from_refines ops : ∀ n m, wf n → (∀ k, tget (levels k) n = m k) →
  ∀ k, tget (levels k) (run_from n ops) = spec_from m ops k.
Proof.
  induction ops as [|o ops IH]; intros n m Hwf Hnm k; cbn; [apply Hnm|].
  apply IH; [by apply apply_op_wf|]. clear k. intros k.
  rewrite apply_op_get by done.
  destruct (decide (levels k = levels (op_key o))) as [He|Hne].
  - apply levels_inj in He as ->. destruct o as [k f|k v|k]; cbn [spec_apply op_key]; rewrite sm_set_eq; [by rewrite Hnm|done|done].
  - assert (k ≠ op_key o) by congruence.
    destruct o as [k' f|k' v|k']; cbn [spec_apply op_key] in *; by rewrite sm_set_ne.
Qed.
Theorem run_refines ops k : tget (levels k) (run ops) = spec_run ops k.
Proof. apply run_from_refines; [apply wf_empty|]. intros k'. apply get_empty. Qed.

(** nothing is stored at a path that no operation named *)
Lemma run_from_support ops : ∀ n S, wf n → (∀ p, tget p n ≠ "" → ∃ k, k ∈ S ∧ p = levels k) →
  ∀ p, tget p (run_from n ops) ≠ "" → ∃ k, k ∈ S ++ touched ops ∧ p = levels k.
Proof.
  induction ops as [|o ops IH]; intros n S Hwf HS p; cbn [run_from fold_left touched map].
  { rewrite app_nil_r. apply HS. }
  intros Hp. destruct (IH (apply_op n o) (S ++ [op_key o])) with (p := p) as (k & Hk & ->); [by apply apply_op_wf| |done|].
  - intros q. rewrite apply_op_get by done. destruct (decide (q = levels (op_key o))) as [->|Hne].
    + intros _. exists (op_key o). split; [set_solver|done].
    + intros Hq. destruct (HS q Hq) as (k & Hk & ->). exists k. split; [set_solver|done].
  - exists k. split; [|done]. rewrite <- app_assoc in Hk. done.
Qed.
Theorem run_support ops p : tget p (run ops) ≠ "" → ∃ k, k ∈ touched ops ∧ p = levels k.
Proof.
  intros Hp. destruct (run_from_support ops empty_node [] wf_empty) with (p := p) as (k & Hk & ->); [|done|by exists k].
  intros q. by rewrite get_empty.
Qed.

(** the non-empty entries of the trie are exactly the non-empty bindings of the map *)
Definition live (es : list (list string * string)) : list (list string * string) :=
  filter (λ e, nonempty e.2 = true) es.
Definition bindings (m : smap) (ks : list string) : list (list string * string) :=
  map (λ k, (levels k, m k)) ks.

Lemma nonempty_true s : nonempty s = true ↔ s ≠ "".
Proof. unfold nonempty. rewrite negb_true_iff. apply String.eqb_neq. Qed.

Theorem live_entries_bindings ops ks : NoDup ks → touched ops ⊆ ks →
  live (entries (run ops)) ≡ₚ live (bindings (spec_run ops) ks).
Proof.
  intros Hnd Hcov. apply NoDup_Permutation.
  - apply NoDup_filter. eapply NoDup_fmap_1 with (f := fst). apply entries_paths_nodup, run_wf.
  - apply NoDup_filter. unfold bindings. eapply NoDup_fmap_1 with (f := fst).
    rewrite <- list_fmap_compose. apply NoDup_fmap_2; [|done]. intros a b. cbn. apply levels_inj.
  - intros [p v]. unfold live, bindings. rewrite !elem_of_list_filter. cbn [snd]. rewrite nonempty_true. split.
    + intros [Hv Hin]. apply entries_get in Hin; [|apply run_wf]. subst v.
      destruct (run_support ops p Hv) as (k & Hk & ->). split; [done|].
      apply elem_of_list_fmap. exists k. rewrite <- run_refines. split; [done|]. by apply Hcov.
    + intros [Hv Hin]. apply elem_of_list_fmap in Hin as (k & [= -> ->] & Hk). split; [done|].
      rewrite <- run_refines in *. by apply get_entries.
Qed.

Lemma nonempty_data_live es : nonempty_data es = map snd (live es).
Proof.
  unfold nonempty_data, live. induction es as [|[p v] es IH]; [done|].
  cbn [map snd]. rewrite !filter_cons. cbn [snd]. destruct (decide (nonempty v = true)); cbn [map snd]; by rewrite IH.
Qed.

(** C19: iteration (hence Count) reports exactly the non-empty values of the map *)
Theorem iterate_spec ops ks : NoDup ks → touched ops ⊆ ks →
  iterate (run ops) ≡ₚ filter (λ v, nonempty v = true) (map (spec_run ops) ks).
Proof.
  intros Hnd Hcov. rewrite iterate_entries, nonempty_data_live.
  rewrite (live_entries_bindings ops ks Hnd Hcov).
  unfold live, bindings. clear. induction ks as [|k ks IH]; [done|].
  cbn [map]. rewrite !filter_cons. cbn [snd]. destruct (decide (nonempty (spec_run ops k) = true)); cbn [map snd]; by rewrite IH.
Qed.
Theorem count_spec ops ks : NoDup ks → touched ops ⊆ ks →
  tcount (run ops) = length (filter (λ v, nonempty v = true) (map (spec_run ops) ks)).
Proof. intros. unfold tcount. by rewrite iterate_spec. Qed.

(** selecting by a predicate on paths commutes with the permutation *)
Lemma live_sel_perm (Q : list string → bool) es1 es2 : live es1 ≡ₚ live es2 →
  map snd (filter (λ e, Q e.1 = true) (live es1)) ≡ₚ map snd (filter (λ e, Q e.1 = true) (live es2)).
Proof. intros H. by rewrite H. Qed.

Lemma sel_live t es :
  filter (λ v, nonempty v = true) (sel t es) = map snd (filter (λ e, mmatch e.1 t = true) (live es)).
Proof.
  unfold sel, live. induction es as [|[p v] es IH]; [done|].
  cbn [flat_map fst snd]. rewrite filter_app, IH, (filter_cons _ (p, v)). cbn [snd].
  destruct (mmatch p t) eqn:Hm, (decide (nonempty v = true)) as [Hv|Hv].
  - rewrite filter_cons, decide_True by done. rewrite filter_nil, filter_cons. cbn [fst]. by rewrite decide_True.
  - by rewrite filter_cons, decide_False, filter_nil.
  - rewrite filter_nil, filter_cons. cbn [fst]. rewrite decide_False; [done|]. by rewrite Hm.
  - by rewrite filter_nil.
Qed.
Lemma selv_live f es : selv f es = map snd (filter (λ e, mmatch f e.1 = true) (live es)).
Proof.
  unfold selv, live. induction es as [|[p v] es IH]; [done|].
  cbn [flat_map fst snd]. rewrite IH, (filter_cons _ (p, v)). cbn [snd].
  destruct (mmatch f p) eqn:Hm, (decide (nonempty v = true)) as [Hv|Hv]; cbn [andb].
  - rewrite Hv, filter_cons. cbn [fst]. by rewrite decide_True.
  - apply not_true_is_false in Hv. by rewrite Hv.
  - rewrite filter_cons. cbn [fst]. rewrite decide_False; [done|]. by rewrite Hm.
  - done.
Qed.

(** C01: the non-empty data a walk reports are exactly the values stored under the filters
    that match the topic *)
Theorem walk_spec ops ks t : NoDup ks → touched ops ⊆ ks → topic_ok (levels t) = true →
  filter (λ v, nonempty v = true) (walk (levels t) (run ops)) ≡ₚ
  filter (λ v, nonempty v = true)
    (map (spec_run ops) (filter (λ f, mmatch (levels f) (levels t) = true) ks)).
Proof.
  intros Hnd Hcov Hok. rewrite walk_sel; [|done|apply run_wf]. rewrite sel_live.
  rewrite (live_sel_perm (λ p, mmatch p (levels t)) _ _ (live_entries_bindings ops ks Hnd Hcov)).
  unfold live, bindings. clear. induction ks as [|k ks IH]; [done|].
  cbn [map]. rewrite (filter_cons _ (levels k, _)), (filter_cons _ k). cbn [snd].
  destruct (decide (nonempty (spec_run ops k) = true)) as [Hv|Hv], (decide (mmatch (levels k) (levels t) = true)) as [Hm|Hm].
  - rewrite filter_cons. cbn [fst]. rewrite decide_True by done. cbn [map snd].
    rewrite filter_cons, decide_True by done. by rewrite IH.
  - rewrite filter_cons. cbn [fst]. rewrite decide_False by done. by rewrite IH.
  - cbn [map]. rewrite filter_cons, decide_False by done. by rewrite IH.
  - by rewrite IH.
Qed.

(** C07: a match on the retained trie returns exactly the non-empty values stored under the
    topics the filter matches *)
Theorem tmatch_spec ops ks f : NoDup ks → touched ops ⊆ ks → filter_ok (levels f) = true →
  tmatch (levels f) (run ops) ≡ₚ
  filter (λ v, nonempty v = true)
    (map (spec_run ops) (filter (λ k, mmatch (levels f) (levels k) = true) ks)).
Proof.
  intros Hnd Hcov Hok. rewrite tmatch_selv; [|done|apply run_wf]. rewrite selv_live.
  rewrite (live_sel_perm (λ p, mmatch (levels f) p) _ _ (live_entries_bindings ops ks Hnd Hcov)).
  unfold live, bindings. clear. induction ks as [|k ks IH]; [done|].
  cbn [map]. rewrite (filter_cons _ (levels k, _)), (filter_cons _ k). cbn [snd].
  destruct (decide (nonempty (spec_run ops k) = true)) as [Hv|Hv], (decide (mmatch (levels f) (levels k) = true)) as [Hm|Hm].
  - rewrite filter_cons. cbn [fst]. rewrite decide_True by done. cbn [map snd].
    rewrite filter_cons, decide_True by done. by rewrite IH.
  - rewrite filter_cons. cbn [fst]. rewrite decide_False by done. by rewrite IH.
  - cbn [map]. rewrite filter_cons, decide_False by done. by rewrite IH.
  - by rewrite IH.
Qed.

(** C01: whether the value stored under filter [f] is reported depends on [f] and the topic
    alone, whatever else is stored (stated for stores whose values identify their key, as the
    broker's do: the value under a filter is that filter's subscription list) *)
Theorem walk_member ops t f : topic_ok (levels t) = true →
  spec_run ops f ≠ "" → (∀ f', spec_run ops f' = spec_run ops f → f' = f) →
  (spec_run ops f ∈ walk (levels t) (run ops) ↔ mmatch (levels f) (levels t) = true).
Proof.
  intros Hok Hne Hinj.
  set (ks := remove_dups (f :: touched ops)).
  assert (Hnd : NoDup ks) by apply NoDup_remove_dups.
  assert (Hcov : touched ops ⊆ ks) by (intros x Hx; apply elem_of_remove_dups; by right).
  pose proof (walk_spec ops ks t Hnd Hcov Hok) as Hperm.
  assert (Hiff : spec_run ops f ∈ walk (levels t) (run ops) ↔
                 spec_run ops f ∈ filter (λ v, nonempty v = true) (walk (levels t) (run ops))).
  { rewrite elem_of_list_filter, nonempty_true. tauto. }
  rewrite Hiff, Hperm, elem_of_list_filter, nonempty_true, elem_of_list_fmap. split.
  - intros (_ & k & Heq & Hk). apply elem_of_list_filter in Hk as [Hm _].
    symmetry in Heq. apply Hinj in Heq. by subst k.
  - intros Hm. split; [done|]. exists f. split; [done|]. apply elem_of_list_filter. split; [done|].
    apply elem_of_remove_dups. by left.
Qed.
