// Command wharness drives the real vx-labs/wasp implementation (built from /repo's working
// tree with -tags verif) with generated or replayed inputs and prints what it observes, one
// JSON object per case, together with the same case as a Gallina term for the Coq evaluators
// under /verif/coq/Corr.
//
//	wharness <family> gen  -n N -seed S [-mode random|exhaustive] [-tier quick|thorough]
//	wharness <family> run  < inputs.jsonl      (re-execute given inputs: replay, shrinking)
package main

import (
	"time"
	"bufio"
	"encoding/json"
	"flag"
	"fmt"
	"os"
	"sort"
	"strings"
)

// Case is one line of output.
type Case struct {
	ID         int             `json:"id"`
	Family     string          `json:"family"`
	Input      json.RawMessage `json:"input"`
	Obs        interface{}     `json:"obs,omitempty"`
	Coq        string          `json:"coq"`
	Nontrivial bool            `json:"nontrivial"`
	Sig        string          `json:"sig"`
	Tags       []string        `json:"tags,omitempty"`
}

// A family generates inputs and executes one input against the implementation.
type family interface {
	// Gen returns the inputs of this run (JSON-serialisable values).
	Gen(n int, seed int64, mode, tier string) []interface{}
	// Exec runs one input (as decoded from JSON) and fills a Case.
	Exec(id int, raw json.RawMessage) Case
}

var families = map[string]family{}

func register(name string, f family) { families[name] = f }

func main() {
	if len(os.Args) >= 6 && os.Args[1] == "crashchild" {
		crashChild(os.Args[2:])
		return
	}
	if len(os.Args) < 3 {
		fmt.Fprintln(os.Stderr, "usage: wharness <family> gen|run [flags]")
		var names []string
		for k := range families {
			names = append(names, k)
		}
		sort.Strings(names)
		fmt.Fprintln(os.Stderr, "families:", strings.Join(names, " "))
		os.Exit(2)
	}
	fam, ok := families[os.Args[1]]
	if !ok {
		fmt.Fprintln(os.Stderr, "unknown family", os.Args[1])
		os.Exit(2)
	}
	fs := flag.NewFlagSet("wharness", flag.ExitOnError)
	n := fs.Int("n", 100, "number of random cases")
	seed := fs.Int64("seed", 1, "PRNG seed")
	mode := fs.String("mode", "random", "random|exhaustive")
	tier := fs.String("tier", "quick", "quick|thorough")
	shard := fs.String("shard", "", "i/N: execute only the generated inputs whose index is i modulo N")
	fs.Parse(os.Args[3:])
	out := bufio.NewWriterSize(os.Stdout, 1<<20)
	defer out.Flush()
	enc := json.NewEncoder(out)
	switch os.Args[2] {
	case "gen":
		si, sn := 0, 1
		if *shard != "" {
			fmt.Sscanf(*shard, "%d/%d", &si, &sn)
			if sn < 1 {
				sn = 1
			}
		}
		for i, in := range fam.Gen(*n, *seed, *mode, *tier) {
			if i%sn != si {
				continue
			}
			raw, err := json.Marshal(in)
			if err != nil {
				panic(err)
			}
			fmt.Fprintf(os.Stderr, "STARTING %d %s\n", i, raw)
			// a case that never returns (the code under test holding a lock forever, every wait of the
			// harness notwithstanding) must not cost the whole harness time-out: give up on the process
			watchdog := time.AfterFunc(caseLimit(), func() {
				fmt.Fprintf(os.Stderr, "WATCHDOG: case %d did not finish within %v: the code under test is stuck\n", i, caseLimit())
				out.Flush()
				os.Exit(3)
			})
			c := fam.Exec(i, raw)
			watchdog.Stop()
			c.Family = os.Args[1]
			c.Input = raw
			enc.Encode(c)
		}
	case "run":
		sc := bufio.NewScanner(os.Stdin)
		sc.Buffer(make([]byte, 1<<20), 1<<26)
		i := 0
		for sc.Scan() {
			line := sc.Bytes()
			if len(strings.TrimSpace(string(line))) == 0 {
				continue
			}
			raw := append(json.RawMessage(nil), line...)
			// accept either a bare input or a full case line
			var probe struct {
				Input json.RawMessage `json:"input"`
			}
			if json.Unmarshal(raw, &probe) == nil && len(probe.Input) > 0 {
				raw = probe.Input
			}
			c := fam.Exec(i, raw)
			c.Family = os.Args[1]
			c.Input = raw
			enc.Encode(c)
			i++
		}
	default:
		fmt.Fprintln(os.Stderr, "unknown verb", os.Args[2])
		os.Exit(2)
	}
}

// ---- Gallina emitters ------------------------------------------------------------------

func cqStr(s string) string {
	plain := true
	for i := 0; i < len(s); i++ {
		if s[i] < 0x20 || s[i] > 0x7e {
			plain = false
			break
		}
	}
	if plain {
		return `"` + strings.ReplaceAll(s, `"`, `""`) + `"`
	}
	bs := make([]string, len(s))
	for i := 0; i < len(s); i++ {
		bs[i] = fmt.Sprintf("%d%%N", s[i])
	}
	return "(bytes_str [" + strings.Join(bs, "; ") + "])"
}
func cqList(xs []string) string {
	return "[" + strings.Join(xs, "; ") + "]"
}
func cqStrs(xs []string) string {
	ys := make([]string, len(xs))
	for i, x := range xs {
		ys[i] = cqStr(x)
	}
	return cqList(ys)
}
func cqBool(b bool) string {
	if b {
		return "true"
	}
	return "false"
}
func cqN(n int64) string { return fmt.Sprintf("%d%%N", n) }
func cqZ(n int64) string {
	if n < 0 {
		return fmt.Sprintf("(%d)%%Z", n)
	}
	return fmt.Sprintf("%d%%Z", n)
}

func sortedCopy(xs []string) []string {
	ys := append([]string{}, xs...)
	sort.Strings(ys)
	return ys
}

// caseLimit: far above the slowest legitimate case (a 520-message pipeline run, a race-detector
// stress of the replicated state: about 100 s each)
func caseLimit() time.Duration {
	if v := os.Getenv("VERIF_CASE_LIMIT_S"); v != "" {
		var n int
		if _, err := fmt.Sscanf(v, "%d", &n); err == nil && n > 0 {
			return time.Duration(n) * time.Second
		}
	}
	return 420 * time.Second
}
