(** C12 — One live session per client identifier. *)
From Wasp Require Import Model.Base Spec.MatchSpec Model.DState Model.IdPool Model.Mount Model.Node Proofs.BaseFacts Proofs.MountFacts Proofs.NodeFacts.
From stdpp Require Import list strings.
Open Scope Z_scope.

(** Tearing down a displaced session (its client identifier now resolves to another session)
    changes no session record at all, publishes no will, and only tombstones subscriptions keyed
    by its own session id. *)
Theorem teardown_spares_new : ∀ cl i s d clk, mine_of (after_unsub cl i s clk) s = Some false →
  (shutdown cl i s d clk).2 = [Closed (ss_conn s)] ∧ (shutdown cl i s d clk).1 = setn cl i (after_unsub cl i s clk).
Proof. exact no_will_when_displaced. Qed.
Print Assumptions teardown_spares_new.
Theorem teardown_keeps_records : ∀ cl i s clk, d_sess (n_d (after_unsub cl i s clk)) = d_sess (n_d (getn cl i)).
Proof. exact teardown_spares_records. Qed.
Print Assumptions teardown_keeps_records.

(** takeover on one node and across nodes (non-vacuity / regression examples): the new session
    is established, the old one gets no PINGRESP and is closed at its next keep-alive exchange,
    only the new one is listed and receives, and a connection with the same identifier in
    another mount point displaces nobody *)
Example c12_history :
  let run := fold_left (λ st o, let r := step [] st.1 o in (r.1, (st.2 ++ [r.2])%list)) in
  let ops := [EConnect 0%nat "old" "dev" "" "" 60 None 10; ESubscribe "old" 1 [("t", 0)] 20; EGossip 0%nat 1%nat;
              EConnect 1%nat "new" "dev" "" "" 60 None 30; ESubscribe "new" 1 [("t", 0)] 40; EGossip 1%nat 0%nat;
              EConnect 0%nat "tz" "dev" "tz" "" 60 None 50;
              EPing "old" 60; EPing "new" 70; EGossip 0%nat 1%nat; ECheck 1%nat] in
  let o := (run ops (cnew 2%nat, [])).2 in
  nth 3%nat o [] = [Out "new" (OConnAck 0); Deadline "new" 120000]
  ∧ nth 7%nat o [] = [Closed "old"]
  ∧ nth 8%nat o [] = [Out "new" OPingResp; Deadline "new" 120000]
  ∧ match nth 10%nat o [] with [Listed _ ss sb reg] => map m_sid ss = ["s002"; "s003"] ∧ map s_sid sb = ["s002"] ∧ reg = ["s002"] | _ => False end.
Proof. vm_compute. done. Qed.
