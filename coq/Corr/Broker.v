(** Correspondence evaluators for family "broker": the node/cluster model (Model/Node.v) is run
    on the script the real nodes executed; after every step the multiset of observations
    (packets per connection, closes, deadline in force, log appends, inter-node calls, listings)
    is compared.  Broker-chosen packet identifiers are not compared between model and
    implementation (their assignment depends on Go map order); the identifier discipline is
    checked by the oracle (Corr/BrokerSpec.v) on the real trace. *)
From Wasp Require Export Model.Base Spec.MatchSpec Model.DState Model.IdPool Model.Mount Model.Node.
From Wasp Require Import Corr.DState.
From Wasp Require Export Corr.BrokerSpec.
Open Scope Z_scope.

Definition estep : Type := (eop * list eobs)%type.
Definition case : Type := (N * nat * list estep)%type.

Definition zlist_eqb := list_eqb Z.eqb.
Definition opkt_eqb (a b : opkt) : bool :=
  match a, b with
  | OConnAck x, OConnAck y => x =? y
  | OPublish t p q r d m, OPublish t' p' q' r' d' m' =>
    String.eqb t t' && String.eqb p p' && (q =? q') && Bool.eqb r r' && Bool.eqb d d' && ((0 <? q) || (m =? m'))
  | OPubAck x, OPubAck y | OPubRec x, OPubRec y | OPubComp x, OPubComp y | OUnsubAck x, OUnsubAck y => x =? y
  | OPubRel _, OPubRel _ => true
  | OSubAck x qs, OSubAck y qs' => (x =? y) && zlist_eqb qs qs'
  | OPingResp, OPingResp => true
  | OOther x, OOther y => x =? y
  | _, _ => false
  end.
Definition eobs_eqb (a b : eobs) : bool :=
  match a, b with
  | Out c p, Out c' p' => String.eqb c c' && opkt_eqb p p'
  | Closed c, Closed c' | Garbage c, Garbage c' => String.eqb c c'
  | Deadline c ms, Deadline c' ms' => String.eqb c c' && (ms =? ms')
  | Appended n t p q r, Appended n' t' p' q' r' => Nat.eqb n n' && String.eqb t t' && String.eqb p p' && (q =? q') && Bool.eqb r r'
  | AppendFailed n, AppendFailed n' => Nat.eqb n n'
  | Call a b ok, Call a' b' ok' => Nat.eqb a a' && Nat.eqb b b' && Bool.eqb ok ok'
  | Listed n ss sb rg pd, Listed n' ss' sb' rg' pd' =>
    Nat.eqb n n' && perm_eqb smeta_eqb ss ss' && perm_eqb sub_eqb sb sb' && perm_eqb String.eqb rg rg' && Nat.eqb pd pd'
  | _, _ => false
  end.

Definition model_step (st : cluster * seen_t * bool) (s : estep) : cluster * seen_t * bool :=
  let '(cl, seen, ok) := st in
  match fst s with
  | EPanic => (cl, seen, false)
  | _ =>
    let r := step seen cl (fst s) in
    (* broker-chosen identifiers are not compared between model and implementation at all: which
       subscriber holds which identifier depends on Go's map order, and once subscribers acknowledge
       selectively even the SET of identifiers in flight does (the one freed is the one that
       subscriber happened to get).  The identifier discipline is the oracle's business, on the real
       identifiers: in range, never one that is in flight (100), retransmissions and PUBREL under the
       identifier first seen (44, 70), nothing pending but what was seen (93). *)
    (fst r, fold_left see1 (snd r) seen, ok && perm_eqb eobs_eqb (snd r) (snd s))
  end.
Definition model_ok (c : case) : bool :=
  let '(_, k, steps) := c in snd (fold_left model_step steps (cnew k, [], true)).

(* first failing step, for diagnosis *)
Fixpoint first_bad (steps : list estep) (cl : cluster) (seen : seen_t) (i : nat) : option (nat * list eobs) :=
  match steps with
  | [] => None
  | s :: rest =>
    let r := step seen cl (fst s) in
    if perm_eqb eobs_eqb (snd r) (snd s) then first_bad rest (fst r) (fold_left see1 (snd r) seen) (S i)
    else Some (i, snd r)
  end.

(* the specification-level oracle (Corr/BrokerSpec.v): no step of the observed history breaks a demand *)
Definition oracle_ok (c : case) : bool :=
  let '(_, k, steps) := c in is_nil (orun (oinit k) steps 0).
Definition oracle_why (c : case) : list (nat * list nat) :=
  let '(_, k, steps) := c in orun (oinit k) steps 0.

Definition case_id (c : case) : N := fst (fst c).
Definition mismatches (cs : list case) : list N := map case_id (filter (fun c => negb (model_ok c)) cs).
Definition oracle_failures (cs : list case) : list N := map case_id (filter (fun c => negb (oracle_ok c)) cs).
