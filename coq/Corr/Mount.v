(** Correspondence evaluator for family "mount" (C17, unit level): Session.PrefixMountPoint and
    Session.TrimMountPoint on arbitrary mount points and topics. *)
From Wasp Require Export Model.Base Spec.MatchSpec Model.Mount.

Inductive mobs := MPT (mp t prefixed trimmed : string) | MPanic.
Definition case : Type := (N * list mobs)%type.
Definition model_ok (c : case) : bool :=
  forallb (fun o => match o with
                    | MPT mp t p tr => String.eqb (prefix_mp mp t) p && String.eqb (trim_mp mp p) tr
                    | MPanic => false end) (snd c).
(* oracle: the client gets back exactly the name that was used, and the routed name starts with
   the mount point as one whole first level *)
Definition oracle_ok (c : case) : bool :=
  forallb (fun o => match o with
                    | MPT mp t p tr => String.eqb tr t &&
                        (negb (mp_ok mp) || list_eqb String.eqb (levels p) (mp :: levels t))
                    | MPanic => false end) (snd c).
Definition mismatches (cs : list case) : list N := map fst (filter (fun c => negb (model_ok c)) cs).
Definition oracle_failures (cs : list case) : list N := map fst (filter (fun c => negb (oracle_ok c)) cs).
