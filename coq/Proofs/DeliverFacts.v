(** C02/C03: a stored message is written to a registered recipient at QoS 1/2 as well — under an
    identifier taken from the pool — whenever the pool has an identifier left; the delivery is then
    pending in the in-flight table (so C03 applies to it). *)
From Wasp Require Import Model.Base Spec.MatchSpec Model.DState Model.IdPool Model.Mount Model.Node
  Proofs.BaseFacts Proofs.IdPoolFacts Proofs.DStateFacts Proofs.NodeFacts Proofs.IdsFacts.
From stdpp Require Import list strings.
From Coq Require Import ZArith Lia.
Open Scope Z_scope.

(* getFree finds an identifier as soon as one of 1..65535 is free (the pool's 0 is skipped once) *)
Lemma get_free_some acks p held : G acks p held → (∃ x, 1 ≤ x ≤ 65535 ∧ infree (ivs p) x) →
  ∃ mid p', get_free 5 p = (Some mid, p') ∧ 1 ≤ mid.
Proof.
  intros HG (x & Hx & Hfree). pose proof HG as [H1 H2 H3 _ _ _ _ _].
  cbn [get_free]. destruct (pget p) as [v p1] eqn:Hg1. cbn [fst snd].
  destruct (get_spec p v p1 H1 Hg1) as [(-> & -> & Hnone)|(Hr & Hv & Hi1 & Hmn1 & Hmx1 & Hf1)]; [by destruct (Hnone x)|].
  destruct (Z.ltb_spec 0 v) as [Hpos|Hneg]; [exists v, p1; split; [done|lia]|].
  assert (v = 0) by lia. subst v.
  destruct (pget p1) as [v2 p2] eqn:Hg2. cbn [fst snd].
  destruct (get_spec p1 v2 p2 Hi1 Hg2) as [(-> & -> & Hnone)|(Hr2 & Hv2 & _)].
  - exfalso. apply (Hnone x). apply Hf1. split; [done|lia].
  - apply Hf1 in Hv2 as [_ Hne]. rewrite Hmn1, H2 in Hr2.
    assert (1 ≤ v2) by lia. rewrite (proj2 (Z.ltb_lt 0 v2)) by lia. by exists v2, p2.
Qed.

Theorem qos_recipient_written bad n r q s m :
  GN n [] → alookup r (n_reg n) = Some s → (q = 1 ∨ q = 2) →
  (∃ x, 1 ≤ x ≤ 65535 ∧ infree (ivs (n_pool n)) x) →
  (∀ e, e ∈ n_acks n → a_prefix e = ss_id s → outbound e = true) →
  ∃ mid, 1 ≤ mid ≤ 65535 ∧ mid ∉ out_mids (n_acks n) ∧
    let pk := OPublish (trim_mp (ss_mp s) (l_topic m)) (l_payload m) q (l_retain m) (l_dup m) mid in
    (send bad n [(r, q)] m).2 = wout bad (ss_conn s) pk ∧
    ∃ e, e ∈ n_acks (send bad n [(r, q)] m).1 ∧ a_prefix e = ss_id s ∧ a_mid e = mid ∧ outbound e = true ∧
         (a_tag e = TQ1 (ss_id s) pk ∨ a_tag e = TQ2Pub (ss_id s) pk).
Proof.
  intros HG Hs Hq Hfree Hown. cbn [send]. rewrite Hs.
  assert (q =? 0 = false) as -> by (destruct Hq; subst; done).
  assert ((q =? 1) || (q =? 2) = true) as -> by (destruct Hq; subst; done).
  destruct (get_free_some _ _ _ HG Hfree) as (mid & pl & Hgf & Hmid1). rewrite Hgf.
  pose proof (G_get_free (n_acks n) [] 5 (n_pool n) HG) as HG1. rewrite Hgf in HG1.
  assert (Hin : mid ∈ out_mids (n_acks n) ++ [mid]) by (apply elem_of_app; right; apply elem_of_cons; by left).
  pose proof (g_range _ _ _ HG1 mid Hin) as Hr.
  assert (Hnot : mid ∉ out_mids (n_acks n)).
  { pose proof (g_nodup _ _ _ HG1) as Hnd. apply NoDup_app in Hnd as (_ & Hd & _). intros Hx. apply (Hd mid Hx). apply elem_of_cons. by left. }
  assert (Hkey : (ss_id s, mid) ∉ map akey (n_acks n)).
  { intros (e & He & Hein)%elem_of_list_fmap. unfold akey in He. injection He as Hp Hm.
    apply Hnot. apply elem_of_list_fmap. exists e. split; [done|]. apply elem_of_list_In, filter_In. split; [by apply elem_of_list_In|]. by apply Hown. }
  exists mid. split; [done|]. split; [done|]. cbn zeta.
  set (pk := OPublish (trim_mp (ss_mp s) (l_topic m)) (l_payload m) q (l_retain m) (l_dup m) mid).
  set (n1 := set_pool n pl).
  assert (HGn1 : GN n1 (mid :: [])) by exact HG1.
  destruct Hq as [-> | ->]; cbn [Z.eqb Pos.eqb].
  - unfold send_q1. change (opkt_mid pk) with mid.
    destruct (reinsert_G n1 (ss_id s) mid PUBACK (TQ1 (ss_id s) pk) [] HGn1 Hkey eq_refl ltac:(by split)) as [-> _].
    cbn [fst snd send app]. rewrite app_nil_r. split; [done|].
    exists (AEntry (ss_id s) mid PUBACK (TQ1 (ss_id s) pk)). split; [cbn; apply elem_of_app; right; apply elem_of_cons; by left|]. cbn. tauto.
  - unfold send_q2. change (opkt_mid pk) with mid.
    destruct (reinsert_G n1 (ss_id s) mid PUBREC (TQ2Pub (ss_id s) pk) [] HGn1 Hkey eq_refl ltac:(by split)) as [-> _].
    cbn [fst snd send app]. rewrite app_nil_r. split; [done|].
    exists (AEntry (ss_id s) mid PUBREC (TQ2Pub (ss_id s) pk)). split; [cbn; apply elem_of_app; right; apply elem_of_cons; by left|]. cbn. tauto.
Qed.
