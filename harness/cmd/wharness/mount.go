package main

// Family "mount" (C17 unit level): PrefixMountPoint / TrimMountPoint of real sessions.

import (
	"encoding/json"
	"fmt"
	"math/rand"

	"github.com/vx-labs/mqtt-protocol/packet"
	"github.com/vx-labs/wasp/v4/wasp/sessions"
)

type mountPair struct {
	MP string `json:"mp"`
	T  string `json:"t"`
}
type mountInput struct {
	Pairs []mountPair `json:"pairs"`
}
type mountFamily struct{}

func init() { register("mount", mountFamily{}) }

func (mountFamily) Gen(n int, seed int64, mode, tier string) []interface{} {
	rng := rand.New(rand.NewSource(seed))
	var out []interface{}
	mps := []string{"_default", "tenantA", "tenantB", "t", "a", "x-y_z", "0"}
	alpha := []string{"a", "b", "", "+", "#", "dev", "long-level-name", "ä"}
	for i := 0; i < n; i++ {
		var in mountInput
		for j := 0; j < 20; j++ {
			mp := mps[rng.Intn(len(mps))]
			if rng.Intn(10) == 0 {
				mp = randLevels(rng, []string{"m", "", "q"}, 2) // also odd operator input: empty or multi-level mount points
			}
			in.Pairs = append(in.Pairs, mountPair{mp, randLevels(rng, alpha, 5)})
		}
		in.Pairs = append(in.Pairs, mountPair{mps[rng.Intn(len(mps))], ""})
		out = append(out, in)
	}
	return out
}

func (mountFamily) Exec(id int, raw json.RawMessage) Case {
	var in mountInput
	if err := json.Unmarshal(raw, &in); err != nil {
		panic(err)
	}
	c := Case{ID: id}
	var terms []string
	var obs []interface{}
	for _, p := range in.Pairs {
		func() {
			defer func() {
				if r := recover(); r != nil {
					terms = append(terms, "MPanic")
					obs = append(obs, fmt.Sprintf("panic: %v", r))
				}
			}()
			s, err := sessions.NewSession("sid", p.MP, "tcp", nil, &packet.Connect{ClientId: []byte("c")})
			if err != nil {
				panic(err)
			}
			pre := s.PrefixMountPoint([]byte(p.T))
			tr := s.TrimMountPoint(pre)
			terms = append(terms, fmt.Sprintf("MPT %s %s %s %s", cqStr(p.MP), cqStr(p.T), cqStr(string(pre)), cqStr(string(tr))))
			obs = append(obs, []string{string(pre), string(tr)})
		}()
	}
	c.Obs = obs
	c.Coq = fmt.Sprintf("(%s, %s)", cqN(int64(id)), cqList(terms))
	c.Nontrivial = len(in.Pairs) > 1
	c.Sig = string(raw)
	return c
}
